# C06 — remote blob reads are byte-exact under any server behaviour and concurrency
PROPS["C06"] = dict(
    props_file="Properties/C06.v",
    harnesses=[
        dict(cmd="blobfn", mod="root", model="Model.BlobFn", quick=800, thorough=20000, shard=800,
             require=["fn.add", "fn.add.good", "fn.add.merge", "fn.super", "fn.writer", "fn.writer.pieces", "fn.parse.ok",
                      "fn.parse.err", "fn.walk.ok", "fn.walk.unaligned"]),
        dict(cmd="blob", mod="root", model="Model.BlobRead", quick=144, thorough=4000, shard=72, race=400,
             require=["op.read", "op.cache", "op.evict", "op.check", "op.refresh", "op.expire", "cache.mem", "cache.dir",
                      "result.read.ok", "result.read.err", "read.across_eof", "read.from_cache_only", "mode.single",
                      "served.multi", "served.mpalways", "served.perm", "served.first", "served.squash", "served.whole",
                      "served.extra", "served.dupextra", "served.dup", "served.over", "served.trunc", "served.broken",
                      "served.unaligned", "served.short", "served.403", "served.stale403", "served.400", "served.500",
                      "served.redir.ok", "served.redir.fail",
                      "conc.cases", "conc.reads_ok", "conc.overlapping_requests", "conc.cache_misses_injected",
                      "shared.joined", "shared.evicted_before_copy", "shared.follower.read", "shared.follower.cache", "shared.follower_error",
                      "cache.fanout", "cache.fanout.interleaved", "read.parked_in_cache_hit", "fetcher.handler", "fetcher.http",
                      "served.handler.default", "served.handler.trunc", "opt.direct", "opt.pass", "opt.both"]),
    ],
    rule="blobfn: random and boundary inputs of regionSet.add (sets built by successive adds + arbitrary slices), superRegion, "
         "bytesWriter.Write (a chunk delivered in arbitrary pieces, one or two passes), parseRange (well-formed, overflowing, "
         "star/backslash, embedded), walkChunks (sizes 0, k*cs, k*cs+-1; unaligned). "
         "blob: random histories of ReadAt/Cache/Evict/Check/Refresh/URL-expiry on blobs of 0..45 bytes (0, 1, k*cs, k*cs+-1), chunk size 1..8, "
         "several prefetch chunk sizes, memory or directory cache, against a scripted registry (23 personalities); every history ends with a "
         "read of the whole blob; non-trivial = at least one data fetch and one successful non-empty read; distinct = distinct Coq case term. "
         "Cache() with prefetchChunkSize > chunkSize fans out into up to 4 pieces that are run, through scheduling points in cacheAt, in a random "
         "interleaving of their sub-steps (cache walk / fetchRange) and compared with the model run on the same interleaving. "
         "One history in six uses a scripted remote.Handler instead of HTTP; a quarter of the reads/prefetches pass cache options Direct/PassThrough. "
         "With the directory cache (2-entry LRUs) reads are re-issued parked between cache.Get (a hit) and the copy while following prefetches "
         "commit other chunks (eviction + buffer reuse), then resumed: the byte-exactness oracle covers 'which chunks are cached ... with eviction'. "
         "One case in eight is concurrent (oracle only, the Coq term is its sequential prefix): 2-7 goroutines reading/prefetching the same hot "
         "ranges at once (shared single-flight fetches), a registry drawing its personality at random per request, 0-60% of cache lookups "
         "answered 'miss' (entry lost between fetch and copy), URL expiry in mid-flight, a monitor sampling FetchedSize, a closing whole-blob read",
    assumptions=[
        "int64 arithmetic does not wrap (blob size + chunk size < 2^63); offsets passed to ReadAt are >= 0; chunk size > 0",
        "the chunk cache returns, for a key, exactly the bytes last committed under it or a miss (C11); cache keys sha256(blobURL-b-e) do not collide",
        "a cache reader does not fail in the middle of a chunk (a copy from the cache either misses or delivers the whole chunk)",
        "the registry is honest about content: the bytes it labels Content-Range b-e are bytes b.. of the blob (it may truncate, reorder, "
        "duplicate, squash, add unrequested parts, answer 200/403/400/5xx, or break the stream at any point)",
        "singleflight.Group, sync.Mutex, io.CopyN/MultiWriter, mime/multipart and net/http behave as documented; every cache/regionSet access is atomic under its mutex",
        "Go-level data races (httpFetcher.header read without urlMu) are outside the model",
    ],
    level_text="Coq theorems over the hand-written model of fs/remote (blob.go, util.go, reply analysis of resolver.go): regionSet.add keeps the set "
               "sorted/disjoint/non-adjacent and covers exactly old + new; totalSize = number of distinct covered bytes; bytesWriter is independent of "
               "how a chunk is cut into Write pieces; ReadAt returns exactly blob[o, min(o+n,size)) or an error for every history, cache content, "
               "reply script (HTTP fetcher or remote.Handler), every interleaving of the pieces of a fanned-out Cache(), and, in rely/guarantee form, every "
               "interleaving with other readers/prefetchers (incl. shared single-flight fetch and cache loss); FetchedSize = number of distinct committed bytes, <= size, monotone. The model is run against the real code every run.",
    level_note="Model is hand-written; concurrency is covered as: every cache lookup and every single-flight role of one reader is an adversarial input "
               "(rely), and every commit a reader makes is honest (guarantee). net/http, mime/multipart, singleflight are modelled by contract.",
    technique="Coq proof: invariants by induction over histories / chunk walks; correspondence by vm_compute on observed cases",
    trusted=["fs/remote is modelled by hand in coq/Model/{Region,BlobRead,BlobFn}.v; tie = per-op result bytes/error class, fetchedRegionSet, FetchedSize, "
             "single-range mode and the list of HTTP requests sent (ranges)",
             "the scripted registry of harness/root/cmd/blob (its replies are recorded and given to the model as inputs)"],
)
