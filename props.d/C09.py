# C09 — snapshotter: crash at any point, restart, re-mount
PROPS["C09"] = dict(
    props_file="Properties/C09.v",
    harnesses=[dict(cmd="snapcrash", mod="root", model="Model.SnapCrash", quick=185, thorough=3600, shard=13, coq_jobs=12,
                    require=["crashop.prepare", "crashop.view", "crashop.remove", "crashop.close", "crashop.commit",
                             "cfg.norestore", "cfg.allow", "cfg.strict"])],
    rule="a history (3-18 calls) on a fresh root, then one more call (Prepare/View/Commit/Remove/Cleanup/Close) during which every crash-point "
         "marker of snapshot.go copies the root directory; a fresh NewSnapshotter is started on one of the copies (marker = kseed mod markers hit) with "
         "NoRestore / allow_invalid_mounts_on_restart / strict and scripted restore Mount failures, then 1-7 post-crash calls (usually starting with Cleanup); "
         "also: images taken INSIDE a directory removal (children gone / only work gone / only fs gone, directory left) for Close, Remove and Cleanup, and a Cleanup racing a createSnapshot held between rename and commit before the crash; corpus first: every marker of a remote Prepare, of the very first createSnapshot, of a synchronous Remove and of Close; "
         "non-trivial = something was re-mounted or the image holds a temp/orphan directory; distinct = distinct full case",
    assumptions=[
        "bolt: a crash exposes exactly the last committed transaction (the harness copies metadata.db while the write transaction is still open); "
        "torn pages, fsync loss and partially written directories are outside the model",
        "kernel mounts do not survive the crash (the mountinfo sweep of restoreRemoteSnapshot finds nothing): the backend mount table starts empty",
        "the crash points are the verifCrashPoint markers (12 kinds) of snapshot/snapshot.go; directory operations between two markers are atomic",
        "same backend contract and caller discipline as C08",
    ],
    level_text="Coq theorems on the crash/restart model (coq/Model/SnapCrash.v on top of Model/Snap.v): restart outcome and restored state for EVERY "
               "durable image and every restore-failure script and configuration; survival of acknowledged snapshots at every crash point of every call "
               "after every history, and of their directories (every snapshot in an image's metadata has its directory, Close excepted for remote ones); one Cleanup after restart always succeeds and leaves exactly the directories of the snapshots (full strength since fix C09-fix-1); restored mounts unique; "
               "every snapshot of the restarted snapshotter removable, every committed one usable as a parent. "
               "The model is run against snapshot.NewSnapshotter on copied crash images every run.",
    level_note="Model is hand-written; crash points are the markers added to snapshot.go; bolt crash atomicity assumed; readdir order of cleanups is an "
               "input (any permutation); 'usable as a parent' is proved for the state after the one Cleanup (before it, the first Prepare may collide once with an orphan "
               "directory: model + harness only).",
    technique="Coq proof by induction over the restore fold and case analysis over the crash points; correspondence by vm_compute on observed crash images",
    trusted=["snapshot/snapshot.go restoreRemoteSnapshot/createSnapshot/Remove/cleanup and containerd snapshots/storage are modelled by hand in "
             "coq/Model/SnapCrash.v + coq/Model/Snap.v; tie = markers hit (number, code), restart result, restore Mount calls with labels, Walk / snapshots/ "
             "listing / mount table after restart, and the outputs of the post-crash calls"],
)
