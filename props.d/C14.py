# C14 — prioritized files first, in order, ahead of a single landmark
PROPS["C14"] = dict(
    props_file="Properties/C14.v",
    harnesses=[dict(cmd="sort", mod="root", model="Model.Sort", quick=240, thorough=8000, shard=60, coq_jobs=8, race=200,
                    preamble="Open Scope string_scope.",
                    require=["res.ok", "res.notfound", "res.other", "res.missed", "prio.empty", "prio.abs", "prio.dotslash",
                             "prio.dotdot", "prio.dir", "prio.link", "prio.dup", "prio.missing", "prio.root", "prio.cycle",
                             "prio.dangling", "prio.under_implicit_parent", "in.landmark", "in.dropped", "in.root",
                             "in.implicit_parent", "allow", "strict", "build", "build.minchunk", "build.workers", "build.smallchunk"])],
    rule="random tar blobs (dirs, files under directories with and without their own entry, hardlinks to earlier/later/own/missing "
         "names, symlinks, landmark entries, root entries, repeated names in different spellings) x prioritized lists (absolute, ./, ../, "
         "//, trailing-slash spellings; directories, hardlinks, targets, duplicates, missing paths, the root) x allow-not-found; 1/8 of the "
         "cases also run the full Build with chunk size {0,1,7,64,4096} x min-chunk-size {0,5,100,400,5000} x workers {1,2,3,8}; "
         "non-trivial = non-empty list and >= 2 entries in the layer; distinct = distinct (tar, list, allow, result)",
    assumptions=[
        "archive/tar reader/writer round-trip names, typeflags and link names unchanged (exercised every run, not modelled)",
        "cleanEntryName (path.Clean) is modelled on component lists; the model's clean is compared with the implementation's on every raw string of every case",
        "tarFile.index (a Go map keyed by cleaned name) is modelled as a derived view of the stream; picked = cleaned names of the moved entries",
        "the compressed-stream / TOC-offset clause is a theorem over C03's writer/builder model (Model/EsgzWriter.v, tied to estargz.Writer/Build by C03's correspondence check) composed with the sort model, assuming every compressed member is non-empty; it is also checked on real Build output by the oracle",
    ],
    level_text="Coq theorems for every tar, every prioritized list and both not-found modes over the sortEntries model (import, moveRec with parents / hardlink "
               "targets / recursion-path guard, dump): layout G ++ [landmark] ++ R with R the untouched rest in original order, permutation of the imported entries, "
               "every group entry preceded by its existing ancestors and hardlink target, groups in the order given each ending with its listed path, exactly one "
               "landmark of the right kind, missing paths abort or are reported (exactly those when no hardlink dangles), recursion always terminates; "
               "C14_landmark_separates_offsets: for every chunk size / min-chunk-size / worker count / compressed sizes the TOC offsets of the group are < the landmark's, "
               "the rest's are >=, the landmark's innerOffset is 0 (over C03's writer/builder model). "
               "The model is run against estargz.sortEntries on generated cases every run; landmark/offset clause checked on real Build output.",
    level_note="Model (coq/Model/Sort.v) is hand-written, of the code with patches C14-fix-1 (F23) and C14-fix-2 (F8) applied; offsets/streams (appendTar, closeWithCombine) "
               "are modelled by C03's Model/EsgzWriter.v (not by this property's own model); the offsets theorem is proved over it and additionally checked on real builds (decompressing blob[0:landmark.Offset) yields exactly the bytes before the landmark payload).",
    technique="Coq proof by induction on the recursion fuel of moveRec and on the prioritized list; correspondence by vm_compute on observed cases; model-free oracle in Go",
    trusted=["estargz/build.go sortEntries/importTar/moveRec/tarFile are modelled by hand in coq/Model/Sort.v; tie = output entry identities in order, landmark kind, missed list, error class, cleaned spellings",
             "estargz appendTar / divideEntries / closeWithCombine: C03's hand-written model coq/Model/EsgzWriter.v (tie = C03's harness: exact TOC offsets); gzip framing assumed (every member non-empty)"],
)
