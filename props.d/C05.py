# C05 — memory and db metadata stores expose the same filesystem
PROPS["C05"] = dict(
    props_file="Properties/C05.v",
    harnesses=[dict(cmd="stores", mod="cmdmod", model="Model.TreeStores", quick=80, thorough=5000, shard=20, coq_jobs=8, race=300,
                    preamble="Open Scope Z_scope.",
                    require=["toc.builder-output", "toc.implicit-parent", "toc.repeated-dir", "toc.dir-after-child",
                             "toc.hardlink-to-hardlink", "toc.root-entry", "toc.respelled-name", "toc.empty-xattr",
                             "toc.no-file-digest", "toc.no-chunk-digest", "toc.inner-offset", "toc.multi-chunk",
                             "toc.trailing-bytes", "toc.trailing-bytes.long", "toc.forward-hardlink", "toc.empty",
                             "result.reject.db", "result.reject.memory", "result.accept.both",
                             "layers.shared-db", "layers.bad-neighbour", "op.prereader.callbacks",
                             "sched.coalesce.doubleclose", "sched.coalesce.raw", "sched.batch-failure-injected.root",
                             "sched.batch-failure-injected.nodes", "sched.batch-failure-injected.nodes-streams",
                             "sched.batch-failure-injected.close", "format.gzip", "format.zstd", "format.exttoc"])],
    rule="formats: gzip eStargz (60%), zstd:chunked (20%, TOC manifest + footer rebuilt by hand so that mutated TOCs and trailing bytes are possible), "
         "external-TOC gzip eStargz (20%, the mutated TOC is handed to the decompressor's provider); a random tar (dirs, files of 0..4 chunks, symlinks, hardlinks incl. chains, devices, fifos, xattrs incl. empty values, "
         "name prefixes ./ / ../) is converted by the real estargz.Writer (gzip level, ChunkSize 16..300 or default, MinChunkSize "
         "0..5000 = inner-offset streams); its TOC is decoded and mutated (0..4 ops: drop a dir entry = implicit parent, repeat a dir "
         "entry with other attributes, move an entry, respell names, add hardlinks to hardlinks, explicit root entry, drop digests, "
         "add xattrs, set modtimes, explicit/implicit last chunk size; 1 in 12 cases one malformed op: dangling hardlink, hardlink "
         "to a directory, chunk table with a gap, swapped chunks, chunk first) and re-wrapped with 0..9000 bytes of trailing whitespace; "
         "both stores open it (db: up to 4 layers opened concurrently in ONE bolt file under a random open/close history, optionally with "
         "a failing neighbour layer; in 1 of 5 cases and 3 corpus cases the bolt DB runs with MaxBatchSize 2 / long MaxBatchDelay and, whenever a layer is "
         "parked inside one of its db.Batch call sites (root node, metadata, streams, Close - detected by a bounded goroutine-dump poll), a FAILING "
         "Batch call of a neighbour (second Close of a closed layer, or a failing transaction function) is queued behind it so that bolt rolls back "
         "and re-runs the healthy function) and are walked completely (RootID, GetAttr, GetChild, ForeachChild, GetOffset, OpenFile + "
         "ChunkEntryForOffset at every chunk boundary +-1, ReadAt whole and from the middle, OpenFileWithPreReader read chunk by chunk as fs/reader does "
         "with every callback chunk checked against the source bytes and its digest, Clone, Close, TOCDigest); "
         "non-trivial = accepted by memory with >= 4 nodes; distinct = distinct Coq case term",
    assumptions=[
        "JSON decoding (encoding/json in estargz vs goccy/go-json in the db store), gzip/tar framing of the TOC and time.Parse are not modelled: "
        "the model starts from the decoded entry list; both decoders are run on the same bytes by the harness",
        "Go map iteration order: where the db store stores the 'first' xattr/child apart from the extras bucket, what is read back is a map "
        "again, so the model keeps the list (the walk sorts children by name on both sides)",
        "bbolt transactions are atomic and isolated (db.Update); after fix-1 initNodes no longer depends on Batch re-running it",
        "the byte path (ReadAt through gzip members, nextOffset, inner-offset streams, pre-reader callbacks) is compared store-vs-store and "
        "against the source files by the oracle only; it is property C02's subject and not in the Coq model",
        "background initialisation of the db reader: only its before/after states are modelled (GetAttr(root) before = F13)",
        "os.FileMode.IsRegular is modelled as mode < 2^24 (true for every mode TOCEntry.Stat().Mode() can produce)",
    ],
    level_text="Coq theorems for all inputs: (1) tree agreement, proved by a simulation between the two-pass (memory) and the streaming (db) interpreter "
               "whose relation carries an abstract, growing map from memory node indices to db node ids and the map from processed hardlink entries to the "
               "node their name resolves to: for every TOC of the explicit boolean class hardlink_tocb (known types, distinct cleaned names in any spelling, "
               "an entry whose name is an ancestor of another's precedes it and is a directory, single-chunk files; parents may be IMPLICIT at any depth, "
               "the first entry may be an EXPLICIT ROOT entry, entries may be BACKWARD HARDLINKS to earlier non-directory entries incl. chains and "
               "cross-directory links; any size, attributes, xattrs) both stores accept and their complete views are equal, incl. link counts and node "
               "identity of all names of a file (C05_stores_agree_hardlinks; rooted_tocb, implicit_tocb and the simple class are earlier theorems); "
               "(2) the db attribute codec is the identity on the attributes both stores derive with the same function, and PutVarint/Varint round-trips "
               "every int64; (3) for every file whose chunks tile it, the chunk table the db store recomputes from neighbouring offsets equals the TOC's "
               "and ChunkEntryForOffset agrees at every offset >= 0, and (C05_chunk_slice_memory/_db, C05_chunk_lookup_agree_in_toc) these per-file tables are "
               "what pass 1 of initFields and the db initNodes fold really build for such a file anywhere inside ANY accepted TOC; "
               "(4) TOC digests agree for any decoder read-ahead; (5) both stores accept every hardlink-free TOC; (6) for every history of "
               "open/close/query on other layers of one database a live layer's view is unchanged and open never reuses a live id; (7) name cleaning is a "
               "normal form. The full statement over all conforming TOCs is refuted on the faithful models by three remaining classes (forward hardlink, "
               "chunk first, directory entry after a child: one vm_compute witness each, reproduced on the real code as known findings) plus the early "
               "root attr. NOT proved (covered per case by the correspondence check + store-vs-store oracle): tree equality for TOCs with repeated directory "
               "entries, and the tree walk over TOCs that contain chunk entries (their chunk tables are proved, see (3)).",
    level_note="Both interpreters (estargz initFields + metadata/memory; db initNodes/writeAttr/readAttr/readChunks) are hand-modelled in "
               "coq/Model/TreeStores.v and evaluated inside Coq on every generated TOC against the views observed on the real stores. "
               "Eleven minimal repairs were made to /repo (patches/C05-fix-1..11), the model follows the repaired code.",
    technique="Coq proofs (induction over chunk tables / histories / TOCs) + vm_compute counterexamples; differential correspondence of two "
              "executable models against the two real stores; store-vs-store oracle on the real code",
    trusted=["metadata/memory + estargz.initFields and cmd/containerd-stargz-grpc/db are modelled by hand in coq/Model/TreeStores.v; tie = complete "
             "canonical view (path, attrs, xattrs, link count, offset, hardlink identity, openable, ChunkEntryForOffset probes) per store",
             "tree equality of the two models outside hardlink_tocb (repeated dirs, chunk entries inside the tree walk, out-of-order entries) is checked per case, not proved; the models' tree walks use the fuel walk_fuel toc = 2 + longest entry name (the Go code recurses without bound)"],
)
