# C05 — memory and db metadata stores expose the same filesystem
PROPS["C05"] = dict(
    props_file="Properties/C05.v",
    harnesses=[dict(cmd="stores", mod="cmdmod", model="Model.TreeStores", quick=140, thorough=6000, shard=24, coq_jobs=8,
                    preamble="Open Scope Z_scope.",
                    require=["toc.builder-output", "toc.implicit-parent", "toc.repeated-dir", "toc.dir-after-child",
                             "toc.hardlink-to-hardlink", "toc.root-entry", "toc.respelled-name", "toc.empty-xattr",
                             "toc.no-file-digest", "toc.no-chunk-digest", "toc.inner-offset", "toc.multi-chunk",
                             "toc.trailing-bytes", "toc.trailing-bytes.long", "toc.forward-hardlink",
                             "result.reject.db", "result.accept.both", "layers.shared-db", "layers.bad-neighbour"])],
    rule="TBD",
    assumptions=[],
    level_text="TBD",
    level_note="TBD",
    technique="TBD",
    trusted=[],
)
