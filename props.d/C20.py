# C20 — snapshot labels written at pull time reproduce the layer's source at mount time
PROPS["C20"] = dict(
    props_file="Properties/C20.v",
    harnesses=[dict(cmd="labels", mod="root", model="Model.Labels", quick=240, thorough=6000, shard=30,
                    preamble="Open Scope string_scope.",
                    require=["flavour.default", "flavour.extra", "probe.plain", "probe.mutated", "input.layers-over-limit",
                             "input.urls-over-limit", "input.urls-at-limit", "input.layers-at-limit", "input.several-layers-with-urls", "input.bad-digest", "input.bad-ref",
                             "input.not-manifest", "input.nonlayer-in-layers"])],
    rule="manifests as containerd enumerates children (config, then 0..60 layers of mixed layer media types, repeated digests, "
         "sha256/384/512 digests, URL lists nil/empty/[\"\"]/foreign/with commas/long enough to hit the 4096-byte label limit, "
         "rarely a non-layer blob among the layers; malformed stream: unparsable digests and references), both handler flavours "
         "(default; extra on top of containerd's AppendInfoHandlerWrapper), non-manifest descriptors; plus a deterministic boundary sweep on every run (52 manifests: URL lists / digest lists whose label lands on limit-2..limit+2 for the urls, urls.<d>, urls.<dd>, stargz.layers and cri.image-layers keys, via one long item and via many short items, for the target, for neighbours and with the target repeated in its own list); every produced annotation map "
         "is read back by FromDefaultLabels and by the service reader chain, plus 1-4 mutated maps per case (labels removed / corrupted); "
         "non-trivial = >= 2 layers and a reader result with neighbours; distinct = distinct case term",
    assumptions=[
        "descriptor annotations are empty before the handlers run (manifest descriptors carrying containerd.io/snapshot/* annotations of their own are out of scope)",
        "containerd's reference.Parse is an uninterpreted function argument of the model (theorems hold for every such function); "
        "the harness feeds the model the real parser's answers",
        "containerd labels.Validate, snapshotters.AppendInfoHandlerWrapper, go-digest Parse, strings.Split/TrimSuffix, fmt %d, strconv.ParseInt "
        "are modelled by contract and exercised by the correspondence check",
        "fs.Mount's prefetch-size parse is inline code: the harness mirrors the expression strconv.ParseInt(label, 10, 64) with fallback",
    ],
    level_text="Coq theorems over all manifests/label maps on the label-protocol model: every written label validates; reader(writer) "
               "reproduces reference, digest, URLs (up to the size-limited prefix) and a manifest-order prefix of the following layers, each with the URLs "
               "stored under its own index; prefetch size round-trips for every int64; missing/malformed mandatory labels are rejected. The model is run "
               "against fs/source, service and fs on generated manifests every run.",
    level_note="Model (coq/Model/Labels.v) is hand-written; label keys are an inductive type whose lengths are regenerated from the Go constants; "
               "reference.Parse is abstract; the URL-list round trip is refuted for empty lists and URLs containing commas (known findings), "
               "and for non-layer blobs inside the layer list (known finding).",
    technique="Coq proof by structural induction over the children list / label value; correspondence by vm_compute on observed cases",
    trusted=["fs/source, service/cri.go, fs.neighboringLayers are modelled by hand in coq/Model/Labels.v; tie = annotation maps per child, "
             "reader results (reference, digest, URLs, neighbours), Mount's neighbour list and prefetch size, compared on every generated case",
             "hooks service/verif_export_c20.go (VerifSources, VerifSourceFromCRILabels) and fs/verif_export_c20.go (VerifNeighboringLayers) are thin wrappers"],
)
