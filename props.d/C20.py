# C20 — snapshot labels written at pull time reproduce the layer's source at mount time
PROPS["C20"] = dict(
    props_file="Properties/C20.v",
    harnesses=[dict(cmd="labels", mod="root", model="Model.Labels", quick=144, thorough=6000, shard=18,
                    preamble="Open Scope string_scope.",
                    require=["flavour.default", "flavour.extra", "probe.plain", "probe.mutated", "input.layers-over-limit",
                             "input.urls-over-limit", "input.urls-at-limit", "input.layers-at-limit", "input.several-layers-with-urls", "input.bad-digest", "input.bad-ref",
                             "input.not-manifest", "input.nonlayer-in-layers"]),
               # command level: the real `ctr-remote rpull` wiring (commands.pull) through containerd's client.Pull, unpacker and
               # metadata snapshotter layer against an in-memory registry; observation = labels that reach the snapshotter
               dict(cmd="rpull", mod="cmdmod", model="Model.Labels", quick=32, thorough=1500, shard=8,
                    preamble="Open Scope string_scope.",
                    require=["flavour.default", "flavour.extra", "probe.plain", "probe.mutated", "input.urls-at-limit",
                             "input.several-layers-with-urls"])],
    rule="manifests as containerd enumerates children (config, then 0..60 layers of mixed layer media types, repeated digests, "
         "sha256/384/512 digests, URL lists nil/empty/[\"\"]/foreign/with commas/long enough to hit the 4096-byte label limit, "
         "rarely a non-layer blob among the layers; malformed stream: unparsable digests and references), both handler flavours "
         "(default; extra on top of containerd's AppendInfoHandlerWrapper), non-manifest descriptors; plus a deterministic boundary sweep on every run (52 manifests: URL lists / digest lists whose label lands on limit-2..limit+2 for the urls, urls.<d>, urls.<dd>, stargz.layers and cri.image-layers keys, via one long item and via many short items, for the target, for neighbours and with the target repeated in its own list); every produced annotation map "
         "is read back by FromDefaultLabels and by the service reader chain, plus 1-4 mutated maps per case (labels removed / corrupted); "
         "non-trivial = >= 2 layers and a reader result with neighbours; distinct = distinct case term",
    assumptions=[
        "annotations the manifest itself carries on layer descriptors are modelled (arbitrary label maps present before the handlers run); "
        "the generator injects containerd.io/snapshot/* annotations only (what containerd hands down to a snapshotter)",
        "containerd's reference.Parse is an uninterpreted function argument of the model (theorems hold for every such function); "
        "the harness feeds the model the real parser's answers",
        "containerd labels.Validate, snapshotters.AppendInfoHandlerWrapper, go-digest Parse, strings.Split/TrimSuffix, fmt %d, strconv.ParseInt "
        "are modelled by contract and exercised by the correspondence check",
        "fs.Mount's prefetch-size parse is inline code: the harness mirrors the expression strconv.ParseInt(label, 10, 64) with fallback",
    ],
    level_text="Coq theorems over all manifests/label maps on the label-protocol model: every written label validates; reader(writer) "
               "reproduces reference, digest, URLs (up to the size-limited prefix) and a manifest-order prefix of the following layers, each with the URLs "
               "stored under its own index; prefetch size round-trips for every int64; missing/malformed mandatory labels are rejected. The extra handler never fails on well-formed digests and "
               "containerd's layer prefix is maximal; manifest-supplied annotations: default reader and prefetch immune, extra flavour reference/digest immune. "
               "The model is run against fs/source, service and fs on generated manifests, and against the real `ctr-remote rpull` wiring "
               "(commands.pull -> containerd client.Pull -> unpacker -> metadata snapshotter -> labels at the backend snapshotter) every run.",
    level_note="Model (coq/Model/Labels.v) is hand-written; label keys are an inductive type whose lengths are regenerated from the Go constants; "
               "reference.Parse is abstract; the URL-list round trip is refuted for empty lists and URLs containing commas (known findings), "
               "for non-layer blobs inside the layer list, and for manifest-supplied cri.* (default flavour, service chain) and "
               "urls/prefetch (extra flavour) annotations (known findings F17a-e).",
    technique="Coq proof by structural induction over the children list / label value; correspondence by vm_compute on observed cases",
    trusted=["fs/source, service/cri.go, fs.neighboringLayers are modelled by hand in coq/Model/Labels.v; tie = annotation maps per child, "
             "reader results (reference, digest, URLs, neighbours), Mount's neighbour list and prefetch size, compared on every generated case",
             "hooks service/verif_export_c20.go (VerifSources, VerifSourceFromCRILabels), fs/verif_export_c20.go (VerifNeighboringLayers) and "
             "cmd/ctr-remote/commands/verif_export_c20.go (VerifPull = pull() with the rPullConfig the flags would build) are thin wrappers",
             "cmd/rpull: containerd's client.Pull, unpacker, metadata snapshotter/content/image/lease stores are the real ones (in-process, bolt + content store "
             "in a temp dir); the registry (remotes.Resolver), the backend snapshotter (records labels, commits the target, answers AlreadyExists like a remote "
             "snapshotter), diff and introspection services are harness fakes"],
)
