# C15 — prefetch / background fetch / prefetch waiter of a layer (fs/layer, fs/reader, fs/remote, cache)
PROPS["C15"] = dict(
    props_file="Properties/C15.v",
    harnesses=[dict(cmd="prefetch", mod="root", model="Model.Prefetch", quick=180, thorough=3000, shard=45, coq_jobs=8, race=40,
                    require=["lm.prefetch", "lm.noprefetch", "lm.none", "store.memory", "cache.fs.memory", "cache.fs.dir", "cache.http.dir",
                             "cache.dir.sync", "cache.dir.async", "layout.minchunk", "layout.zstd", "cfg.pcs>cs",
                             "op.pf", "op.pf.fail", "op.pf.stall", "op.pf.concurrent", "op.rel", "op.wait", "op.wait.concurrent",
                             "op.readprio", "op.readall", "op.readpart", "op.bg", "op.bg.intf", "op.bg.concurrent", "op.off", "op.hold", "op.settle",
                             "level.fs", "level.layer", "op.mount", "op.mount.stall", "op.check", "result.check.ok", "result.check.err", "result.check.waited",
                             "result.pf.ok", "result.pf.err", "result.pf.stalled", "result.pf.requests", "result.pf.keys",
                             "result.wait.ok", "result.wait.timeout", "result.bg.ok", "files.prio", "files.multichunk"]),
               # the same harness (package verif/harness/prefetchx) linked with the bbolt metadata store of /repo/cmd as well
               dict(cmd="prefetchdb", mod="cmdmod", model="Model.Prefetch", quick=90, thorough=1500, shard=45, coq_jobs=8,
                    require=["store.db", "lm.prefetch", "lm.noprefetch", "lm.none", "op.pf", "op.wait", "op.bg", "op.readprio", "op.readall", "level.fs", "op.mount", "op.check",
                             "result.pf.ok", "result.pf.requests", "result.pf.keys", "result.bg.ok", "files.prio", "files.multichunk"])],
    rule="generated tars (1-7 regular files of 0-45 KB in up to 3 directory levels, implicit parents, a hardlink, a symlink) built with the real "
         "estargz.Build / estargz.Writer (chunk size 1000..1 MiB, min-chunk-size 0/500/3000/20000, gzip or zstd:chunked; prefetch landmark with a random "
         "prioritized list, no-prefetch landmark, or no landmark), resolved through the real layer.Resolver (memory metadata store, and the bbolt store in the second harness; memory or directory "
         "caches with LRU 1/2/3/10, sync_add on/off; prefetch size, async threshold, registry chunk size, prefetch chunk size random with boundary bias) "
         "over an in-memory registry with a request log; scripts of Prefetch (1-4 concurrent callers; registry failing from an offset, or stalled until "
         "released), WaitForPrefetchCompletion (1-4 concurrent, 40 ms timeout), BackgroundFetch (1-4 concurrent, failing registry, prioritized tasks "
         "arriving meanwhile), reads of the prioritized / all files (whole-file, 1-byte, 777, 4096, 30000-byte ReadAt), registry off/on, cache persistence "
         "held back / settled; one third of the cases at filesystem level: the real fs.NewFilesystem + fs.Mount (everything but the FUSE server; prefetch-size label, "
         "noprefetch / no_background_fetch, check_always; the spawned prefetch healthy, failing or parked) and the real fs.Check (unmounted, unknown mountpoint, "
         "during the parked prefetch, after it, registry off); partial on-demand reads before prefetch / background fetch; landmark offset <= async threshold < configured size; non-trivial = the prefetch body issued registry requests and the script has >= 3 op kinds; distinct = distinct Coq term",
    assumptions=[
        "sync.Once, channel close/select, time.After, errgroup and singleflight behave as documented; the atomic steps of the waiter machine are the "
        "Once.Do entries, waiter.done() and the select outcomes, so a schedule is an op list; that a timer eventually fires is the Go runtime's",
        "the chunk cache is modelled only as far as visibility of a committed key goes (memory map; directory cache = LRU of buffers + files + pending "
        "persist closures); that a hit returns the committed bytes is property C11, that the bytes are the file's is C01/C02",
        "'Prefetch / BackgroundFetch returned nil' enters the theorems as: every key of the (filtered) walk went through a readAndCache that returned nil "
        "somewhere in an otherwise arbitrary cache history (the errgroup returns the first error of any readAndCache)",
        "the layout hypothesis of clause 1 (prioritized data starts before the landmark) is proved for the writer's offset assignment over abstract "
        "compressed sizes (C15_landmark_separates_offsets) and composes with C14_sort_layout; chunks tile their file (mk_chunks); both are re-checked on "
        "every generated layer (layout_ok)",
        "min-chunk-size layers: chunks sharing a compressed stream are cached together by the pre-reader, so cached key sets are compared as lower bounds there",
        "layers without a landmark: decompressing the files that start inside the configured size reads behind it; those requests are not predicted (only that blob.Cache's requests come first and are exactly the model's), and under a registry fault the outcome of that phase is not predicted",
    ],
    level_text="Coq theorems over the hand-written model of layer.prefetch / blob.Cache / VerifiableReader.Cache / file.ReadAt / the chunk cache / the waiter: "
               "no-prefetch landmark => no request, nothing cached, waiter released; range = landmark offset, else min(configured, blob size); the writer puts every "
               "chunk written before the landmark at a smaller offset (all min-chunk-sizes); the filtered walk covers every chunk of every file starting in the range; "
               "after a successful prefetch (resp. background fetch), for EVERY cache history and interleaving, every read of a prioritized file (resp. any file) is served "
               "by the chunk cache alone at persist-quiescence or with a memory / sync_add cache (partial), the unrestricted statement refuted by a 2-commit witness "
               "(F25, replayed on the implementation with persistence held back); waiter: closed at most once, bodies at most once, every parked wait can always time "
               "out, the body's end (ok or failed) or its async branch releases all present and future waits, nil is returned only then or after a timeout; "
               "fs.Check (model fs_check, compared with the real fs.Check after the real fs.Mount): nil iff registered and reachable whatever the prefetch does, always returns, "
               "waits exactly while the prefetch is pending (body not over, no async release, no earlier timeout), and only the first healthy Check ever waits. "
               "The script machine built from these definitions is run against the real layer every run; the clauses are re-checked model-free on the implementation.",
    level_note="Model (coq/Model/Prefetch.v) is hand-written. 'Never blocks forever' is proved as: the timeout step of a parked wait is enabled in every reachable state "
               "(timer firing = Go runtime). The registry-request prediction covers blob.Cache's requests exactly (for lossless compressed-blob caches) and constrains the "
               "decompression phase only for landmark layers (nothing may follow). Both metadata stores are driven (the db store through harness/cmdmod/cmd/prefetchdb); min-chunk-size layers with both stores (the harness found that the db store could not read them; repaired by patches/C05-fix-8.diff, as the empty-file case of the memory store by patches/C02-fix-1.diff).",
    technique="Coq proof: invariants preserved by every step (cache: lru subset of pending+disk, committed keys never leave pending+disk; waiter: 8-clause invariant), lifted to all "
              "histories by induction over fold_left; correspondence by vm_compute of the script machine on observed cases + model-free oracle",
    trusted=["fs/layer/layer.go (Prefetch, prefetch, WaitForPrefetchCompletion, BackgroundFetch, waiter), fs/remote/blob.go (Cache, cacheAt, walkChunks), fs/reader/reader.go "
             "(Cache, cacheWithReader, readAndCache, file.ReadAt), cache/cache.go (visibility only) and the offset assignment of estargz.Writer are modelled by hand in "
             "coq/Model/Prefetch.v; tie = per script op: result (ok/err/timeout/stalled), registry requests of the prefetch body, Info().PrefetchSize, set of chunk keys in "
             "the chunk cache at quiescence, locality and success of reads",
             "hooks (build tag verif, add-only): fs/layer/verif_export_c15.go, fs/reader/verif_export_c15.go, fs/remote/verif_export_c15.go (accessors, prefetch timeout "
             "setter); cache.VerifPersistHook of property C11 is used to hold back / await the persist closures",
             "filesystem level (patches/C15-hook-2.diff): fs.Mount is the real function up to the creation of the FUSE server (one guarded call line returns before it for "
             "mountpoints a harness marked); fs.Check is the real function; the task manager's 5 s silence period is shortened by a setter; the prefetch / background fetch "
             "goroutines Mount spawns are awaited by observation (waiter probe, request log, chunk cache contents) before the harness joins them through sync.Once"],
)
