# C03 — built blobs unpack like the input tar and index themselves consistently
PROPS["C03"] = dict(
    props_file="Properties/C03.v",
    harnesses=[
        dict(cmd="build", mod="root", model="Model.EsgzBuild", quick=120, thorough=4000, shard=30, coq_jobs=8, race=150,
             preamble="Open Scope N_scope.",
             require=["mode.build", "mode.writer", "mode.lossless", "fmt.gzip", "fmt.zstd", "fmt.ext", "incomp.gzip", "incomp.zstd",
                      "minchunk.on", "toc.inner", "toc.chunk", "build.parallel", "case.chunked", "result.error", "result.ok",
                      "lossless.checked", "writer.multicall", "writer.multicall.minchunk",
                      "dup.respelled.build", "dup.respelled.writer", "dup.respelled.triple", "dup.respelled.mixedtype", "prio.respelled", "prio.general", "open.checked", "reuse.ext", "reuse.gzip", "reuse.zstd", "reuse.builds3",
                      "opt.helper.gzip", "opt.helper.zstd", "opt.helper.ext", "opt.helper.gzipinput", "opt.ctx", "attr.mtime.negative",
                      "attr.mtime.subsecond", "attr.mtime.far", "attr.id.huge", "attr.mode.special"]),
        dict(cmd="buildfooter", mod="root", model="Model.EsgzFooter", quick=200, thorough=6000, shard=100, coq_jobs=8,
             preamble="Open Scope N_scope.",
             require=["fmt.gzip", "fmt.legacy", "fmt.zstd", "fmt.ext", "kind.enc", "kind.parse", "parse.ok", "parse.err"]),
    ],
    rule="build: random tar archives (0-12 entries of every supported type, duplicate and unclean names, long PAX names, xattrs, sizes around "
         "chunk and 512-byte boundaries, already-eStargz inputs with landmark/TOC entries, unsupported entries; plain/gzip/zstd input) x "
         "{Build with 0..9 workers and prioritized files, Writer.AppendTar, AppendTarLossLess} x {gzip levels, zstd:chunked, external TOC} x "
         "chunk size x min-chunk-size; non-trivial = at least 2 payload members and 3 TOC entries; distinct = distinct Coq case terms. "
         "buildfooter: footers for edge and random offsets in [0, 2^63) and parses of real and byte-mutated footers.",
    assumptions=[
        "compress/gzip, klauspost zstd and archive/tar are correct codecs: a blob is modelled as a list of members (compressed size, payload); "
        "decompressing from a member start yields the concatenation of the following payloads",
        "compressed member sizes, flush observations (w.cw.n after flushGz), tar header lengths and TOC JSON sizes are oracle values read from "
        "the real writer; the theorems quantify over all of them",
        "SHA-256 is not modelled: digests are recomputed on the implementation's output by the harness oracle; the model proves WHICH bytes are hashed",
        "WithGzipHelperFunc / WithContext only choose WHO decompresses / when to abort: they do not appear in the model (same blob expected); "
        "the harness crosses them with every compression and input compression",
        "goroutine plumbing of Build (WaitGroup, pipes, temp files) is modelled by its data flow only: part i is written by its own fresh Writer",
        "prioritized-file ordering (sortEntries / moveRec) is own-C14's model Model/Sort.v (with its proofs), composed here with the writers: "
        "Build cases hand the RAW input tar (names, hardlink targets, prioritized list) to the composed model Model/EsgzBuild.v",
    ],
    level_text="Coq theorems for ALL inputs / oracle values: (1) the four footer layouts have exactly the regenerated sizes and parse(encode(off)) = off "
               "for every 0 <= off < 2^63 (hex16 and little-endian codec proofs); (2) divideEntries is an order-preserving partition for every worker "
               "count; (3) the decompressed payload of Writer and of Build (any worker count) is exactly the serialisation of the entries handed in "
               "(TOC-named entries dropped), lossless adds the raw trailer; end to end from the raw tar: Build = [prioritized group] ++ landmark ++ [rest] "
               "with group ++ rest a permutation of importTar's last-duplicate-wins selection (composition with C14's sortEntries theorems); (4) every offset-carrying TOC entry points to a member boundary and "
               "innerOffset/chunkOffset/size select the same bytes of the file, also after closeWithCombine rebasing; (5) the bytes fed to DiffID are "
               "the decompressed payload and the uncompressed counter is its length (theorem). The model is run against estargz on random archives every run, "
               "and an independent reader (documented rules only) re-checks every clause on the real output.",
    level_note="Model (coq/Model/EsgzWriter.v, EsgzFooter.v) is hand-written; codecs (gzip/zstd/tar/JSON/SHA-256) are outside the model and are "
               "exercised by the harness oracle only.",
    technique="Coq proof: invariants of the member-list machine by induction over entries/chunks/parts; codec round trips by induction on digits; "
              "correspondence by vm_compute on observed cases; model-free oracle = independent eStargz reader + stdlib gunzip|tar",
    trusted=["estargz writer/builder modelled by hand in coq/Model/EsgzWriter.v; tie = TOC entries field by field (offset, innerOffset, chunkOffset, "
             "chunkSize, size, type), footer bytes, blob length, uncompressed length, success/error",
             "footer codecs modelled in coq/Model/EsgzFooter.v; tie = produced footer bytes and ParseFooter results"],
)
