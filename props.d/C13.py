# C13 — background task manager (task/task.go)
PROPS["C13"] = dict(
    props_file="Properties/C13.v",
    harnesses=[dict(cmd="task", mod="root", model="Model.Task", quick=400, thorough=20000, shard=100, race=1500,
                    require=["op.invoke", "op.invoke.manual", "op.invoke.prompt", "op.invoke.timeout", "op.prio", "op.done", "op.silence", "op.finish", "op.fast",
                             "conc.1", "conc.2", "conc.3",
                             "ev.invoke", "ev.acquire", "ev.decide", "ev.start", "ev.finish", "ev.release", "ev.return",
                             "ev.prio-begin", "ev.prio-end", "ev.prio-dec", "ev.body-done",
                             # set up by the script itself (the manager's reactions - cancel, join, retry, deferred decision - are NOT
                             # required here: their absence is a symptom of a broken manager and must surface as a VIOLATION)
                             "sched.prio-while-body-running", "sched.prio-nested", "sched.invoke-while-not-quiet",
                             "sched.invoke-while-slots-busy"]),
               # the REAL callers: fs/layer (*layer).BackgroundFetch / Prefetch on a real eStargz layer over a scripted blob
               dict(cmd="bgfetch", mod="root", model="Model.Task", quick=100, thorough=4000, shard=50, race=400,
                    require=["op.bgfetch", "op.prefetch", "op.prio", "op.done", "op.silence", "op.release", "conc.1", "conc.2", "conc.3",
                             "ev.invoke", "ev.acquire", "ev.decide", "ev.start", "ev.finish", "ev.release",
                             "ev.prio-begin", "ev.prio-end", "ev.prio-dec",
                             "sched.prefetch.ok", "sched.prefetch.error", "sched.prefetch.panic", "sched.prio-while-read-running",
                             "sched.bgfetch-while-not-quiet", "sched.release", "sched.reads"]),
               # the premise "begin/end pairs": every body in the repository that calls Do/DonePrioritizedTask, re-extracted from the source
               dict(cmd="taskpairs", mod="root", model="Model.TaskPairs", quick=100, thorough=5000, shard=50,
                    require=["site", "site.fs/fs.go", "site.fs/layer/layer.go", "site.store/manager.go", "synthetic",
                             "verdict.rule-true.leak-false", "verdict.rule-false.leak-true"])],
    rule="scripted schedules on the real task.BackgroundTaskManager (concurrency 1..3, up to 4 concurrent invocations whose bodies "
         "finish / react to cancellation only when the script says so (manual) or on cancellation (prompt), up to 3 overlapping prioritized "
         "begin/end pairs, silence periods ended by the script, each op either followed by a settle or racing with the manager's goroutines); the manager's decisions are recorded through the verif hooks in its own lock order; "
         "non-trivial = at least one cancellation and >= 2 invocations; distinct = distinct (concurrency, event trace). The task body is a replica of "
         "fs/layer backgroundFetch's closure (captured retN/retErr and buffer written by the body; some contexts time out after 50us..3ms). "
         "bgfetch: the REAL (*layer).BackgroundFetch / Prefetch on a real eStargz layer (7 layouts) over a scripted remote.Blob, same script ops. "
         "taskpairs: every function body of the repository that calls Do/DonePrioritizedTask (re-extracted from the source each run) + random statement trees",
    assumptions=[
        "sync.Mutex, sync.Cond (no lost wake-up: the counter is re-read under the cond lock before Wait, Broadcast is sent under it after the decrement), "
        "semaphore.Weighted, channel close/select and context cancellation behave as documented; the atomic sub-steps are those delimited by the notify "
        "mutex, the semaphore and the channel operations, so a schedule is an op list",
        "real time is abstracted: the silence period is the interval between the PrioEnd and PrioDec steps (in the harness the sleeper is released by the script); "
        "the context timeout is the Timeout step (not exercised by the harness: timeout = 1h)",
        "completion (C13_completes_when_quiet) is progress under a scheduler that keeps running enabled steps; fairness of the Go scheduler is assumed, "
        "and a body that never returns after cancellation blocks its invocation (and its semaphore slot) - this is what C13-fix-1 trades for no-overlap",
        "a body spawned in the window between the start decision (under the notify lock) and the go statement can start although a prioritized task has just begun; "
        "the theorem states exactly this (its cancellation is then already pending); Go-level data races are outside the model",
    ],
    level_text="Coq theorems over every interleaving (op list) of the atomic steps of the task-manager model: invariant (counter = in progress + in silence; "
               "semaphore accounting; at most one running execution per invocation, only while the invoker holds a slot and waits in the select or for <-done) "
               "by induction over fold_left step; start decision only when quiet; cancellation is the invoker's only step while its body runs after a prioritized begin; "
               "running bodies <= concurrency; no self-overlap, none running at return; completion within a proven measure and deadlock freedom once "
               "prioritized work stops; the pre-fix code refuted by a 15-step witness; monitor soundness; callers: a body of the form Do; defer Done leaves the counter "
               "unchanged on every execution path (C13_pairs_balanced); exhaustive in-Coq exploration of all interleavings of up to 3 invocations x 3 prioritized pairs (search aid). The model is run as a monitor against task/task.go "
               "on scripted schedules every run, and the property clauses are re-checked model-free on the implementation.",
    level_note="Model (coq/Model/Task.v) is hand-written and follows the code WITH patches/C13-fix-1.diff (wait for <-done after cancel()); sync primitives, "
               "context and the Go scheduler are modelled by contract; the tie is the acceptance of the hook event trace by the model's monitor.",
    technique="Coq proof: invariant preserved by every atomic step, lifted to all reachable states; measure argument for completion; "
              "correspondence = trace acceptance by the model (vm_compute) + model-free oracle on the implementation",
    trusted=["fs/layer, fs/fs.go, store/manager.go callers: their Do/Done call structure is abstracted by the taskpairs harness (go/ast) into Model/TaskPairs.v statements "
             "(panics in any statement except the defer statement itself); Mount/Check/on-demand reads are not driven dynamically, only Prefetch and BackgroundFetch are",
             "bgfetch: body completions are not observable per invocation through the hooks and are inferred directly before the join/finish event that observed them",
             "task/task.go is modelled by hand in coq/Model/Task.v; tie = every hook event observed on the implementation (invoke, acquire, decide(start?), "
             "start, cancel, join, finish, release, body-done(cancelled?), return, prio-begin/end/dec) must be an enabled model step, final counters must match",
             "the verif hooks in task/task.go (patches/C13-hook.diff) only call a sink; in the harness the sink serialises the log with the atomic action it "
             "reports (\"*-pre\" events) and gates the end of the silence period"],
)
