# C08 — snapshotter: metadata, directories and backend mounts in step
PROPS["C08"] = dict(
    props_file="Properties/C08.v",
    harnesses=[
        dict(cmd="snap", mod="root", model="Model.Snap", quick=168, thorough=5000, shard=14, coq_jobs=12,
             require=["op.prepare", "op.prepare.target", "op.view", "op.commit", "op.mounts", "op.remove", "op.cleanup",
                      "op.update", "op.close", "cfg.async", "cfg.sync", "fault.mount"]),
        # the same histories evaluated on the CONCURRENT machine run by a single thread (ties Model/SnapConc.v to the code)
        dict(cmd="snap", mod="root", model="Model.SnapConc", quick=24, thorough=1500, shard=2, coq_jobs=12,
             require=["op.prepare.target", "op.remove", "op.cleanup"]),
        # 2-4 truly concurrent callers, oracle only; thorough tier also builds it with -race
        dict(cmd="snapconc", mod="root", quick=100, thorough=4000, race=600,
             require=["threads.2", "threads.3", "threads.4", "overlapping-calls", "class.prepare.exists", "class.remove.ok"]),
    ],
    rule="random histories (6-28 calls) of Prepare(with/without target)/View/Commit/Mounts/Remove/Cleanup/Update/Stat/Close over 8 names "
         "and a growing parent graph (incl. remote chains of 6-10 layers with the Check of one layer, at any depth, failing; the recording backend holds every Check until all Checks of the call have arrived), sync or async removal, each call carrying the scripted results of the backend Mount/Check/Unmount; "
         "non-trivial = at least one successful remote mount, one live unmount and >= 4 op kinds; distinct = distinct (config, ops, outputs)",
    assumptions=[
        "bolt transactions are atomic and serialised (one writer); sequential theorems take whole calls as ops, the concurrent theorems "
        "(C08_conc_*) take every interleaving of the calls' atomic segments (transaction / single backend call / single RemoveAll); "
        "Close is taken at quiescence only",
        "os.MkdirTemp/Rename/RemoveAll/Stat succeed or fail only as the model says (rename fails iff the target exists); no I/O errors",
        "the backend FileSystem is the harness's recording fake shaped after fs/fs.go: Mount failure registers nothing, Check/Unmount of an "
        "unregistered mountpoint fail, a failed Unmount leaves the mountpoint registered",
        "callers use non-empty keys and pass snapshots.WithLabels and/or snapshots.WithParent options (label keys inside and outside the snapshot namespace, empty values, empty target ref); "
        "outside the domain: WithParent naming the commit's own name (real storage creates a self-parented snapshot and later hangs: known finding, oracle-only scenario)",
    ],
    level_text="Coq theorems over every history of snapshotter calls and every assignment of backend Mount/Check/Unmount results on the model "
               "of snapshot/snapshot.go + containerd snapshots/storage (invariant by induction over fold_left step). "
               "The model is run against snapshot.NewSnapshotter with a recording FileSystem on random histories every run.",
    level_note="Models (coq/Model/Snap.v, SnapConc.v) are hand-written; concurrency is proved at segment granularity and exercised with 2-4 real goroutines (oracle only, -race in thorough); remote_has_mount is sequential only (under concurrency it needs callers not to reuse a key that is in flight); bolt, the os directory "
               "operations and the backend are modelled by contract; real mount(2), d_type/userxattr probing are outside the model.",
    technique="Coq proof: invariant preserved by every op under every fault script, lifted to all reachable states; correspondence by vm_compute on observed histories",
    trusted=["snapshot/snapshot.go and containerd core/snapshots/storage are modelled by hand in coq/Model/Snap.v; tie = per-call result class, "
             "returned mount (type, upper/lower ids in order), backend call log, directory removals (crash-point markers), Walk, snapshots/ listing, mount table"],
)
