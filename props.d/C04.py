# C04 — untrusted layer bytes: errors, never a crash or a hang
PROPS["C04"] = dict(
    props_file="Properties/C04.v",
    harnesses=[dict(cmd="hostile", mod="root", model="Model.Hostile", quick=130, thorough=40000, shard=250, coq_jobs=8,
                    require=["kind.footer", "kind.open", "kind.tree", "kind.read", "kind.chunk", "class.ok", "class.error",
                             "footer.ok", "footer.error", "open.ok", "open.error",
                             "tree.ok", "tree.error", "tree.walked", "tree.hardlink", "tree.shared-directory", "read.ok", "read.error"]),
               dict(cmd="hostiledb", mod="cmdmod", model="Model.HostileDb", quick=60, thorough=20000, shard=125, coq_jobs=8,
                    require=["kind.dbopen", "kind.dbtree", "kind.dbchunk", "dbopen.ok", "dbopen.error", "dbtree.ok", "dbtree.error",
                             "dbtree.walked", "dbtree.shared-directory"])],
    rule="every run: hand-written corpus (one input per defect) + a deterministic sweep of ~1550 footer inputs: for each gzip-based footer variant, extra-field bodies of EVERY length 0..40 that end with the magic (hex / non-hex filler), start with it, are a cut prefix/suffix of it, raw and wrapped in an SI1/SI2/LEN header with LEN = expected / real / larger / smaller, wrong SI bytes, byte-swapped LEN, shifted or additional subfields, boundary hex values - each in a valid gzip member padded/cut to the exact footer size, through ParseFooter and (subset) through estargz.Open at the end of a blob; zstd:chunked frame footers of every length 24..56 with the magic in place / at the end / cut / absent and boundary frame numbers, also through Open with a TOC-offset hint shorter than the footer. Then -n random cases (quick 130, thorough 40000) from 4 streams: footer byte strings of all lengths "
         "0..footer size+12 for the 4 footer variants (valid, truncated, crafted extra field lengths/claimed lengths, flag/magic flips, int64-boundary numbers); "
         "blobs (garbage/valid TOC + hostile footer, TOC offsets inside/at/beyond/negative, TOC-offset annotation) through estargz.Open with and "
         "without the zstd:chunked and external-TOC decompressors; TOC JSON with adversarial structure (hardlink cycles/self links/links to directories (accepted: cyclic and shared directory graphs), "
         "ancestors, root; children below files; duplicate/empty/dot/dotdot names; unknown types; chunk without file; negative/2^62 sizes and offsets; missing digests) "
         "wrapped in a valid blob and driven through memory.NewReader, full metadata walk, per-file chunk lookups and reads, estargz.Reader API, "
         "VerifiableReader.Cache and on-demand reads; arbitrary chunk tables (gaps, overlaps, empty/negative/huge chunks, unsorted, short files, scripted cache hits) "
         "through the real fs/reader file.ReadAt. Each case runs in a child process (recover + exit status + watchdog). distinct = distinct Coq case term",
    assumptions=[
        "compress/gzip header decoding is an oracle (error or any Extra field); gzip/zstd/tar/JSON TOC decoding is an oracle (succeeds or fails) - the robustness of stdlib and third-party decoders is not modelled",
        "Go values are int64 (chunk offsets/sizes), io.ReaderAt returns a non-negative count, a read offset+length does not overflow int64",
        "memory: buffers sized by TOC-declared chunk sizes must be allocatable (known finding F27 when they are not); blob size and TOC size are bounded by what the registry really serves",
        "names are handed to the model after cleanEntryName (path.Clean), as component lists",
    ],
    level_text="Coq theorems, for ALL inputs: the four footer parsers and estargz.Open's footer/TOC-range arithmetic never panic (any bytes, any gzip-header outcome, any TOC-offset hint); "
               "getSource and initFields terminate on every entry list; assignIDs and the prefetch directory walk (each directory id once) terminate on every child graph (cyclic or shared); fs/reader file.ReadAt never loops forever and, when "
               "chunk sizes are allocatable, never slices out of range, for every chunk lookup function. The models (repaired code, fixes C04-fix-1..10) are run against the real packages on generated hostile inputs every run, "
               "each case isolated in a child process; the model-free oracle is: outcome class in {ok, error}.",
    level_note="db metadata store, FUSE node layer, fs/remote (C06), builder (C14), passthrough merge buffer (F21) are not covered by theorems; the harness's own traversal visits each directory id once and asserts that every metadata.Reader / Cache / read call returns.",
    technique="Coq proof: partial-operation models (None = panic, fuel = unbounded recursion), totality by case analysis / induction / visited-set measure; correspondence by vm_compute on child-process observations",
    trusted=["estargz footer parsers + Open, initFields/getSource, memory assignIDs, fs/reader file.ReadAt are modelled by hand in coq/Model/{Footer,HostileTree,HostileRead}.v; "
             "tie = outcome class + returned values (footer triple, id count + multiset of (base name, kind) over the children of every directory reached, bytes read) per generated case",
             "child-process classification (recover, exit status, stderr text, 8 s watchdog) in harness/root/cmd/hostile/main.go"],
)
