# C10 — refcounted caches
PROPS["C10"] = dict(
    props_file="Properties/C10.v",
    harnesses=[dict(cmd="refcache", mod="root", model="Model.Refcache", quick=800, thorough=20000, shard=800,
                    require=["kind.lru", "kind.ttl", "op.add", "op.get", "op.rel", "op.rel.evict", "op.rel2", "cap.negative", "op.remove", "op.expire",
                             "result.add.existing", "result.get.miss", "result.callback.add", "result.callback.rel",
                             "result.callback.remove", "result.callback.expire"])],
    rule="random histories of Add/Get/Remove/Expire/Release(evict?)/two-concurrent-calls-of-one-done-closure over 4 keys on LRUCache (MaxEntries -3..4) and TTLCache; "
         "non-trivial = at least one OnEvicted callback and >= 3 distinct op kinds; distinct = distinct (cap, ops, outputs)",
    assumptions=[
        "sync.Mutex / sync.Once behave as documented; every cache method is atomic under the cache mutex (so a schedule is an op list)",
        "groupcache/lru is modelled (PushFront/MoveToFront/RemoveOldest); its code is exercised by the correspondence check only",
        "time.AfterFunc timers: the timer body is the Expire op, fired at arbitrary points of the history by the harness hook VerifExpire",
    ],
    level_text="Coq theorems over every history of Add/Get/Remove/Expire/Release on the refcounted-cache model (invariant by induction over "
               "fold_left step): callback count per value <= 1 and = 1 iff the value left the cache and no holder remains; never while held; double release; "
               "add-existing; re-add while old value held. The model is run against util/cacheutil on random histories every run.",
    level_note="Model (coq/Model/Refcache.v) is hand-written; cache methods are atomic under the cache mutex so interleavings are op lists; "
               "groupcache/lru, sync.Once, time.AfterFunc are modelled by contract; Go-level data races are outside the model.",
    technique="Coq proof: invariant preserved by every op, lifted to all reachable states; correspondence by vm_compute on observed histories",
    trusted=["util/cacheutil is modelled by hand in coq/Model/Refcache.v; tie = per-op outputs (returned value identity, added/ok, OnEvicted calls)"],
)

