# C02 — lazily served files and metadata equal the source tar under any access history
PROPS["C02"] = dict(
    props_file="Properties/C02.v",
    harnesses=[dict(cmd="serve", mod="root", model="Model.Serve", quick=60, thorough=2000, shard=6, coq_jobs=12, race=150,
                    preamble="From SV Require Import Model.ChunkRead Model.TarView.",
                    require=["kind.serve", "kind.clean", "kind.attr", "cache.mem", "cache.dir1", "cache.dirdirect", "cache.dirasync",
                             "build.gzip", "build.zstd", "build.min_chunk_size", "build.prioritized", "build.workers>1",
                             "op.read", "op.prefetch", "op.evict", "op.evictall", "read.past_eof", "read.beyond_eof",
                             "read.multichunk_file", "read.chunk.hit", "read.chunk.miss", "mates.shared", "result.open_failed", "op.par", "op.pt", "kind.layers", "layers.read"]),
               dict(cmd="servedb", mod="cmdmod", model="Model.Serve", quick=40, thorough=1500, shard=5, coq_jobs=12,
                    preamble="From SV Require Import Model.ChunkRead Model.TarView.",
                    require=["kind.serve", "kind.layers", "layers.read", "cache.mem", "build.min_chunk_size", "op.read", "op.prefetch", "op.grow", "read.multichunk_file",
                             "read.chunk.hit", "read.chunk.miss", "mates.shared"])],
    rule="random tars (reg/dir/symlink/hardlink chains/char/block/fifo; names with ./ / ../ // /./ x/zz/.. prefixes; implicit parents; explicit root; "
         "duplicates; empty and multi-chunk files with sizes around chunk boundaries; PAX xattrs; setuid/setgid/sticky) x estargz.Build options "
         "(chunk size 1..600, min-chunk-size, gzip/zstd, prioritized files, 1..4 workers) x chunk cache (memory, directory cache with 1-entry LRU, "
         "direct, asynchronous) x histories of 4..24 ops (ReadAt at boundary-biased offsets/lengths incl. past EOF, Cache() prefetch, eviction of "
         "chosen keys / of everything), tree walked through metadata.Reader before and after the history; plus cleanEntryName and entryToAttr cases; "
         "second harness: the same cases against the db (bbolt) metadata store, plus 'grow' ops (a further large layer opened in the same bbolt file, "
         "which re-maps it) and, with the direct directory cache, 'pt' ops (GetPassthroughFd with merge buffer sizes around the chunk size and 0..4 workers, "
         "merged file compared with the tar content); non-trivial = layer opened, >= 1 regular file, >= 2 reads; distinct = distinct Coq term",
    assumptions=[
        "gzip/zstd decompression from a member start yields the concatenation of the member payloads; tar and JSON (de)serialisation round-trip "
        "(exercised by the correspondence check, not modelled)",
        "file sizes and offsets < 2^63 (the model uses unbounded Z; the int64 overflow test of file.ReadAt is modelled as cs < 0)",
        "the chunk cache returns for a key only bytes committed under that key (C11) and the remote blob returns the registry bytes (C06): "
        "in the theorems this is the hypothesis Honest; any cache contents satisfying it are covered (all histories, all interference)",
        "digest verification of chunks is transparent on honest data (C01 owns it); the harness runs the reader with SkipVerify",
        "concurrent readers are covered as interference (Env ops between reads; the env parameter between the cache operations of one read), assuming each "
        "cache Get/Add is atomic (cache mutexes); Go-level data races are outside the model; the harness runs 2..8 concurrent readers against the oracle only",
        "the model follows the working tree incl. the pending repairs: fs/reader ReadAt chunk-containment guard (C04), root NumLink repair in initFields, "
        "patches/C02-fix-1.diff (empty file in the first compression stream)",
    ],
    level_text="Coq theorems for ALL inputs: the writer's chunk table tiles every file size for every chunk size (C02_chunks_tile); ChunkEntryForOffset "
               "(sort.Search transcribed) finds the unique containing chunk / nothing past EOF (C02_chunk_lookup_correct, _unique); file.ReadAt returns exactly "
               "data[off : off+min(len, n-off)] for every honest cache state, every offset and length, never panics, errors or loops, and keeps the cache honest "
               "(C02_read_exact, generic form C02_read_exact_generic), lifted by induction to every history of reads, prefetches, evictions and honest interference "
               "(C02_read_exact_any_history, C02_read_after_any_history) and to arbitrary honest interference between the cache operations of one read "
               "(C02_read_exact_under_interference: concurrent readers, prefetch, eviction); short at EOF never wrong (C02_short_at_eof); clean-name laws; st_mode conversion for every "
               "tar mode and entry type; last duplicate wins, implicit parents, hardlink = target. The models are run against estargz.Build + metadata/memory + "
               "fs/reader + cache on random tars and histories every run; an independent Go oracle compares the served tree and bytes with the input tar.",
    level_note="Models (coq/Model/ChunkRead.v, TarView.v, Serve.v) are hand-written. The tree model view_of_tar is a specification checked against the "
               "implementation by correspondence and by the Go oracle, it is not proved equal to a model of initFields (C05 models the TOC interpreters). "
               "Both metadata stores are driven (db: forward hardlinks in TOC order are refused by the store and excluded, C05-F12; the F11 link-count divergence is a "
               "known finding fed to the model from the TOC order). GetPassthroughFd is driven against the Go oracle only (not modelled). "
               "The remote blob and the compressed-blob cache are not in the driven stack (C06).",
    technique="Coq proof: loop invariant of the chunk-assembly loop under an abstract honest cache, binary-search correctness, tiling by induction on the "
              "writer loop, finite sweep (4096 modes x 7 kinds) lifted to all integers; correspondence by vm_compute on observed cases incl. per-read cache/underlying-read traces",
    trusted=["estargz.Build/appendTar, initFields, ChunkEntryForOffset, fs/reader file.ReadAt, cleanEntryName, fileInfo.Mode, entryToAttr are modelled by hand; "
             "tie = observed tree (attributes, node identity, FUSE attr), chunk tables, per-read bytes and cache-probe / underlying-read traces",
             "hooks: estargz/verif_export_c02.go (cleanEntryName, TOC entry offsets), fs/layer/verif_export_c02.go (entryToAttr)",
             "the decompressing reader (estargz fileReader.ReadAt: member start, InnerOffset skip) is modelled as returning the chunk's true bytes and "
             "pre-reading the chunks of the same member (grouping read from the real TOC through the hook); its byte-exactness is checked by the oracle only",
             "known findings F65 (epoch mtime served as year 1) and F66 (db store: parent link count, C05-F11) are reported by the oracle with narrow signatures; "
             "the model is faithful to both (F66 through the per-directory counts computed from the TOC order)"],
)
