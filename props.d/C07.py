# C07 — each layer is served as a correct overlayfs lower directory of the OCI layer
PROPS["C07"] = dict(
    props_file="Properties/C07.v",
    harnesses=[dict(cmd="node", mod="cmdmod", model="Model.NodeCases", quick=600, thorough=30000, shard=80,
                    preamble="Local Open Scope Z_scope. Local Open Scope string_scope.",
                    require=["root.attached-as-child", "root.own-nodefs", "store.memory", "store.db", "store.fake", "fake.answer.eio", "fake.huge-id", "op.readlink", "op.fgetattr", "op.setfetched", "op.statlookup", "op.statgetattr", "op.statread", "op.openfail", "statread.err=true", "statread.err=false", "opaque.0", "opaque.1", "opaque.2", "node.root", "node.sub",
                             "op.readdir", "op.lookup", "op.forget", "op.getattr", "op.getxattr", "op.listxattr", "op.state",
                             "readdir.memo=false", "readdir.memo=true", "lookup.memo=false", "lookup.memo=true",
                             "lookup.miss.memoises", "lookup.registered", "lookup.node", "lookup.whiteout", "lookup.state", "register.state", "register.node", "register.whiteout", "lookup.errno2",
                             "child.normal", "child.whiteout", "child.whiteout.shadowed", "child.opaque-marker", "child.nested-wh",
                             "child.landmark.root", "child.landmark.subdir", "getxattr.errno0", "getxattr.errno34", "getxattr.errno61",
                             "stack.checked", "stack.coq-case"])],
    rule="(1) random stacks of 1..4 layer tars over a small path universe (additions, whiteouts, opaque markers, replaced entries of other type, "
         "names beginning with .wh., landmarks at the root and below, reserved names), converted with estargz.Writer, opened with the memory "
         "and the db metadata store, root node from the real (*layer).RootNode, three opaque modes; one case = one node + a random history of "
         "Readdir/Lookup(+go-fuse child registration)/Forget/Getattr/Getxattr/Listxattr/Readlink/Open+file.Getattr/state-dir walk; "
         "(2) one case per stack in the allowed class: the layers' metadata trees + for every path of every layer what the Go overlay merge of the "
         "really served trees and the Go OCI application of the tars resolve it to (Coq: overlay_stack / oci_stack / allowed_stack); "
         "(3) arbitrary metadata trees through an in-memory fake metadata.Reader (any name, file type, attribute magnitude, ids up to 2^32-1: "
         "EIO paths of inodeOfID); non-trivial = >= 4 distinct kinds of children/answers in the case; distinct = distinct Coq term",
    assumptions=[
        "the metadata view of a node (children map name -> id/attr, as metadata.Reader.ForeachChild/GetChild report it) is the model's input; "
        "that the view equals the layer tar is C02/C05's obligation (the stack oracle checks it end to end on the generated stacks)",
        "go-fuse: rawBridge.Lookup adds the returned child to the parent's children (modelled by the register flag) and FORGET removes it; "
        "the kernel never looks up the names \"\", \".\" and \"..\"",
        "kernel overlayfs is a definition (Model/Overlay.v over_dir: upper-most entry wins, 0/0 char device hides, opaque stops the descent, "
        "directories merge) — stated bottom-up; the Go oracle implements it top-down independently",
        "stack clause hypotheses beyond the property's own exclusion (whiteout + directory of the same name): no real 0/0 character device, "
        "no entry that itself carries an overlay opaque xattr, no root entry named .stargz-snapshotter, no opaque marker in the layer root "
        "(overlayfs never consults the opaque xattr of a lower root), explicit parent directories",
    ],
    level_text="Coq theorems over every children map, every name and every history of Readdir/Lookup/registration/Forget on the node model "
               "(memoisation and go-fuse child cache never change an answer; listed iff lookup succeeds; hidden names never served; whiteout shape; "
               "opaque xattr in the three modes; inode numbers injective, range-disjoint from the state inodes; per directory and for whole stacks of "
               "layer trees in the allowed class (boolean allowed_stack): folding overlayfs over the served trees resolves every path as folding OCI "
               "application over the marker files does). The models are run against fs/layer/node.go over both metadata stores and a fake store every run.",
    level_note="Model (coq/Model/Node.v, Overlay.v) is hand-written; tie = per-op outputs of the real node methods (listing, lookup kind/attributes, "
               "Getattr of the returned node, xattrs, state dir) on generated layers + model-free oracle incl. overlay-merge vs OCI-apply on stacks.",
    technique="Coq proof: invariant over fold_left step (memo/registration), case analysis on names, induction on paths; correspondence by vm_compute",
    trusted=["fs/layer/node.go is modelled by hand in coq/Model/Node.v; tie = per-op outputs on generated layers (both stores, three opaque modes)",
             "overlayfs and OCI layer application are definitions in coq/Model/Overlay.v; JSON encoding of the state file is encoding/json's"],
)
