# C11 — chunk cache: a hit returns exactly the bytes committed under that key
PROPS["C11"] = dict(
    props_file="Properties/C11.v",
    harnesses=[dict(cmd="cache", mod="root", model="Model.Cache", quick=180, thorough=6000, shard=15, race=40, coq_jobs=12,
                    require=["kind.dir", "kind.mem", "kind.stress", "cfg.sync", "cfg.async", "cfg.direct", "cfg.fadv",
                             "op.add", "op.add.direct", "op.write", "op.write.empty", "op.commit", "op.abort", "op.closew",
                             "op.pwrite", "op.prename", "op.pdone", "op.get", "op.read", "op.closer", "op.peek",
                             "pick.fresh", "pick.reuse", "result.get.hit.buf", "result.get.hit.file", "result.get.miss",
                             "result.hit.zero-length", "result.duplicate-commit",
                             "cfg.block", "op.closecache", "op.pfail", "result.pfail.failed", "op.gstart", "op.gfd", "op.gopen",
                             "result.gstart.pending", "result.gfd.pending", "result.gopen.hit.file", "result.gopen.miss",
                             "result.commit.fail", "result.add.closed"])],
    rule="schedules of Add/Write/Commit/Abort/Close, Get/ReadAt/Close and the three persist sub-steps (gated by a hook, so that "
         "background and synchronous persistence interleave with other callers) over 6 keys on NewDirectoryCache with "
         "MaxLRUCacheEntry 1..3, MaxCacheFds 1..3, all of SyncAdd/Direct/FadvDontNeed, per-call Direct()/PassThrough(), and on "
         "NewMemoryCache: 2/3 random op sequences (10-60 ops), 1/3 eviction-pressure scenarios (publish, hold readers / a pending "
         "persist step, evict by other keys, let recycled buffers be overwritten by new writers, then read), a hand-written corpus, "
         "plus 6 concurrent stress runs (8 goroutines, oracle only); self-describing values (key, writer, pattern), zero-length "
         "values, duplicate adds; faults and teardown driven on the implementation: short writes of the persist step (RLIMIT_FSIZE, "
         "model op PFail), MkdirAll failure of one key's directory (a regular file in its place), cache.Close() in mid-schedule, and "
         "Gets whose three lookups are separate schedule steps (hook VerifGetHook: GetMem/GetFd/GetOpen); non-trivial = at least one hit and two writers; distinct = distinct (config, executed sub-steps, outputs)",
    assumptions=[
        "each cacheutil.LRUCache method (with the OnEvicted callbacks it runs) is atomic under the cache mutex; open/rename/unlink/write on a "
        "private wip file are atomic syscalls, rename replaces atomically and an open descriptor keeps reading the old inode (POSIX)",
        "per-writer call order is the one cache.Writer documents ('Commit() must be called after data is fully written to Write(). To abort "
        "the written data, Abort() must be called'): Write* ; (Commit | Abort) ; Close*, and a reader is not used after its Close. The "
        "quantifier 'every interleaving of Add/Write/Commit/Abort/Close' ranges over interleavings of such per-writer sequences of different "
        "callers. Orders outside it (Commit;Abort, Commit;Commit, Abort;Commit, Commit;Write on one writer) are no-ops in the model, never "
        "sent to the implementation by the generators, and DO break the implementation (a memory-layer writer then resets or extends the "
        "published buffer: a later Get hits with '' or with extra bytes) - recorded, not asserted, by the harness probe in "
        "stats.extra.out_of_protocol_orders_observed_not_asserted. No caller in /repo issues them: every writer is a local variable of one "
        "function call (never shared between goroutines) and each function ends in 'Abort(); return' or 'return Commit()' followed only by "
        "the deferred Close: fs/reader/reader.go cacheWithReader (Add l.264 .. Commit l.299), prefetchEntireFileSequential (l.603-658), "
        "prefetchEntireFile (l.671-751), cacheData (l.838-845); fs/remote/blob.go fetchRange callback (Add l.536 .. Commit l.554); inside "
        "cache.go the persist closure calls w.Write then w.Abort or w.Commit once, then the deferred w.Close",
        "keys have at least 2 characters: cachePath slices key[:2] and would panic otherwise; every caller (fs/reader genID, fs/remote "
        "blob genID) passes a hex SHA-256, never a string chosen by a registry or an image, so short keys are outside the property",
        "cache.Close(): the isClosed check and the following rename of one Commit are taken as one step (a Close falling between them "
        "can leave a file in a removed directory, which no Get can reach any more)",
        "sync.Pool hands out either a new buffer or one that was Put and not yet handed out again (which one is an input of the model, observed by the harness)",
        "the content a dangling slice of a Reset bytes.Buffer would show is modelled as the buffer's current content (the theorems show no reader is ever in that situation)",
    ],
    level_text="Coq theorems over every op list of the cache model (invariant by induction over fold_left step, on top of C10's refcache invariant): "
               "every open reader reads exactly one fixed value committed under its key, for every offset/length; a buffer is never reset/re-issued and a "
               "descriptor never closed while a reader or a pending persist step references it; same for MemoryCache. The model is run against "
               "cache.NewDirectoryCache / NewMemoryCache on generated schedules every run.",
    level_note="Model (coq/Model/Cache.v) is hand-written at the granularity of LRU-lock sections and syscalls; Go-level data races, real sync.Pool "
               "internals, page cache / fadvise and crash consistency (no fsync) are outside the model.",
    technique="Coq proof: ownership invariant (buffers, descriptors, refcache handles) preserved by every sub-step, lifted to all schedules; "
              "correspondence by vm_compute on observed schedules; model-free oracle on self-describing values incl. concurrent stress",
    trusted=["cache/cache.go is modelled by hand in coq/Model/Cache.v; tie = per-op outputs (hit/miss, bytes of every ReadAt, stored file of every key, "
             "validity of the pooled buffer handed to each Add)",
             "hooks cache.VerifPersistHook / cache.VerifGetHook (build tag verif) only block the persist closure at four points and Get "
             "between its three lookups; they do not change what the code does",
             "fault injection by RLIMIT_FSIZE (short write) and by a regular file in place of a key's directory (MkdirAll failure)"],
)
