# C01 — verified layers never return bytes that do not match the TOC-pinned digests
PROPS["C01"] = dict(
    props_file="Properties/C01.v",
    harnesses=[dict(cmd="verify", mod="root", model="Model.Verify", race=150, quick=360, thorough=8000, shard=75,
                    require=["op.vtoc", "op.skip", "op.lverify", "op.lverify.repeated", "op.lskip", "op.pf", "op.cache.real",
                             "op.cache.stepwise", "op.pfstart.add", "op.pfstart.write", "op.pfstart.commit", "op.pfstart.abort", "op.pfresume", "result.pfresume.aborted", "cache.mem", "cache.dir", "op.rdstart.add", "op.rdstart.write", "op.rdstart.commit", "op.rdstart.aligned", "op.rdstart.unaligned", "op.rdresume", "op.cachewith.same", "op.cachewith.clean", "op.cachewith.other", "result.cachewith.refused", "op.switch.applied", "op.evict.hit", "start.clean", "op.pass.batch", "op.pass.sequential", "op.pass.verified", "op.pass.unverified", "result.pass.ok", "result.pass.err", "result.pass.nofetch", "op.read.verified", "op.read.unverified", "op.probe",
                             "cor.none", "cor.flip", "cor.zero", "cor.replace", "cor.swap", "cor.tocdigest", "cor.tocreser", "cor.tocnodigest", "cor.toctrail", "comp.gzip", "comp.zstd", "minchunk",
                             "fetch.pre", "fetch.err",
                             "result.VerifyTOC.ok", "result.VerifyTOC.err", "result.layer.Verify.ok", "result.layer.Verify.err",
                             "result.read.ok", "result.read.err", "result.read.allcached", "result.pf.err", "result.probe.hit"]),
               dict(cmd="verifydb", mod="cmdmod", model="Model.Verify", quick=220, thorough=3000, shard=75,
                    require=["op.vtoc", "op.lverify", "op.pf", "op.cache.real", "op.rdstart.unaligned", "op.rdresume", "op.cachewith.other", "op.switch.applied", "op.evict.hit", "op.pfstart.write", "op.pass.batch", "op.pass.sequential", "op.read.verified", "cor.replace", "cor.toctrail", "fetch.pre", "result.read.err", "result.pass.err", "result.VerifyTOC.err"])],
    rule="eStargz blobs built by estargz.Build (gzip / zstd:chunked, chunk size 4..32, min-chunk-size 0/20/40/100, 1-3 files) then altered "
         "(bit flip / zeroed tail of a member, member replaced by a validly compressed different payload of the same size, two members swapped, "
         "TOC re-serialised / chunk digest rewritten to match a replaced chunk / digests removed / other field changed), opened through "
         "the memory metadata store (harness verify) and the db/bbolt metadata store (harness verifydb) + fs/reader (+ fs/layer layer object) with a memory or directory chunk cache; random histories of VerifyTOC(D|actual|other) / SkipVerify / "
         "layer.Verify / layer.SkipVerify / readAndCache of one chunk / Cache() / OpenFile.ReadAt / OpenFile.GetPassthroughFd (directory cache in direct mode; merge buffer below, equal to, not a multiple of and above the chunk size, 1-3 workers: both merge code paths) / Cache(WithReader(sr')) with sr' serving the same blob, the unaltered build or another self-consistent eStargz (= layer.backgroundFetch / metadata Clone) / the registry switching between the unaltered and the altered blob (Refresh, mirror change) / eviction of a chunk from the memory cache / an on-demand reader (aligned or unaligned range of one chunk) stopped inside cacheData (before cache.Add, at the first Write, before Commit) while other readers run to completion, then resumed / cache probe / a prefetch goroutine stopped at any interaction with its "
         "cache writer (before Add, at the first Write, before Commit, before Abort) while VerifyTOC / SkipVerify / reads run, resumed later (fixed corpus: every stop "
         "point x genuine/altered chunk x VerifyTOC(D)/VerifyTOC(D'), plus random ones), ending with a re-read of every file "
         "through the warm cache; non-trivial = a read in verified mode or a failed operation; distinct = distinct (TOC, history, fetched bytes, outputs)",
    assumptions=[
        "SHA-256 is the uninterpreted function H of the proofs (no injectivity assumed: theorems say 'H of the bytes equals the recorded digest')",
        "sync.RWMutex / sync.Mutex behave as documented; the atomic sub-steps are the lock sections of VerifyTOC and readAndCache plus cache Commit",
        "gzip / zstd decoders, tar and JSON parsing are not modelled: the bytes a chunk decompresses to are the adversary's argument of each step",
        "the uncompressed chunk cache returns what was committed under a key (C11); the cache key genID is treated as injective on (id, offset, size)",
        "a reader cloned onto a new section reader is modelled as using the tables of the opened TOC once its TOC file has the same digest (C01_clone_pins_toc proves the digest equality; equal tables additionally need SHA-256 to distinguish TOC files, stated as the premise of its last conjunct)",
        "the write gr.verify = true in VerifyTOC is not synchronised with concurrent readers of a skip-verified reader (Go data race, outside the model)",
    ],
    level_text="Coq theorems over every history of the atomic sub-steps of fs/reader + fs/layer verification (Decide/VerifyTOC/SkipVerify/layer Verify/"
               "SkipVerify/prefetch check/on-demand check/Commit/Evict, adversary-chosen bytes, any hash function): a successful (layer) verification pins the TOC digest; "
               "unless an unverified on-demand read accepted altered bytes, every cached or pending chunk of a verifiable reader hashes to a digest recorded in the TOC, "
               "so every byte a successful read returns comes from such a chunk; prefetch-time failures are sticky and frozen by the decision (RW-lock handshake); "
               "failed reads leave the cache unchanged; the whole-file entry handed out by GetPassthroughFd (both merge paths) consists only of such chunks and a failed merge leaves none. The model is run against the real code on generated corrupted blobs every run.",
    level_note="Model (coq/Model/Verify.v) is hand-written; decoders are oracles; external-TOC blobs are not driven; "
               "one known finding remains (bytes cached by an unverified read survive a later successful Verify of the same cached layer).",
    technique="Coq proof: invariant preserved by every atomic step, lifted to all interleavings; API calls shown to be compositions of atomic steps; correspondence by vm_compute on observed histories",
    trusted=["fs/reader, fs/layer Verify/SkipVerify are modelled by hand in coq/Model/Verify.v; tie = per-op outcome (ok/err), bytes returned by ReadAt, cache entries probed",
             "hooks fs/reader/verif_export_c01.go (readAndCache, genID) and fs/layer/verif_export_c01.go (newLayer, l.r) are thin wrappers under build tag verif"],
)
