# C12 — layer resolver: held layers stay usable, released layers are reclaimed
PROPS["C12"] = dict(
    props_file="Properties/C12.v",
    harnesses=[dict(cmd="resolver", mod="root", model="Model.Resolver", quick=200, thorough=12000, shard=24, coq_jobs=12,
                    require=["op.start", "op.step", "op.step.fail", "op.done", "op.close", "op.release.again", "op.expl", "op.expb",
                             "op.use.held", "op.refresh", "op.wake", "pause.1", "pause.3", "pause.4", "result.blocked", "result.err",
                             "result.ret.fresh", "result.ret.shared", "result.use.closed", "result.use.released-open"])],
    rule="random interleavings of Resolve (suspended inside each external call: connectivity check, registry, metadata store; outcome "
         "chosen per call) / Done / Close / layer-TTL expiry / blob-TTL expiry / Check+RootNode+reads / Refresh over 3 layer names, each followed "
         "by a closing sequence (finish, release all, expire all, re-resolve, close); non-trivial = a shared and >= 2 fresh instances plus a failed "
         "external call or extra layer expiry; distinct = distinct (executed history, observations)",
    assumptions=[
        "sync.Mutex / sync.Once / namedmutex behave as documented; every TTLCache method is atomic under the cache mutex and the layer cache's "
        "OnEvicted callback (layer.close, which takes the blob cache mutex) runs inside the layer-cache critical section, so a schedule is a list of sub-steps",
        "thread-local work of Resolve (directory creation, object construction, lock acquire/release) is attached to the neighbouring cache critical "
        "section (it commutes with every step of other threads)",
        "time.AfterFunc timers: the timer body is the ExpireL/ExpireB op, fired at arbitrary points by the hooks VerifExpireLayerC12/VerifExpireBlobC12",
        "os.MkdirTemp returns a fresh directory and os.RemoveAll removes it; directory creation does not fail (not injectable)",
        "external calls (fetcher.check, remote.Handler, metadata store) may fail at will: their outcome is an argument of the sub-step, universally quantified",
    ],
    level_text="Coq theorems over every interleaving (any list of sub-steps of any number of Resolve calls, Done, Close, expiry of either cache, Use, Refresh, "
               "with every external call failing or succeeding at will) of the resolver model built on the C10 refcounted-cache machine: "
               "invariant by induction over fold_left step. The model is run against fs/layer.Resolver on random interleavings every run.",
    level_note="Model (coq/Model/Resolver.v) is hand-written over Model/Refcache.v; real timers, FUSE serving after Unmount, prefetch/background fetch and "
               "Go-level data races are outside the model; reads are observed (RootNode, file read through the reader, blob ReadAt, Check) but their bytes are not modelled.",
    technique="Coq proof: ownership invariant (every cache handle, directory and open object has exactly one owner) preserved by every sub-step, on top of the "
              "C10 exactly-once theorem; correspondence by vm_compute on observed interleavings",
    trusted=["fs/layer.Resolver is modelled by hand in coq/Model/Resolver.v; tie = per-op events (pause point / blocked / returned instance identity + fresh / error / "
             "closed flags seen by a holder) and the counts of fscache dirs, httpcache dirs and open metadata readers after every op",
             "harness schedules a Resolve only at its external calls (coarse steps); the theorems cover all finer interleavings of the cache critical sections"],
)
