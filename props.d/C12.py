# C12 — layer resolver: held layers stay usable, released layers are reclaimed
PROPS["C12"] = dict(
    props_file="Properties/C12.v",
    harnesses=[dict(cmd="resolver", mod="root", model="Model.Resolver", quick=110, thorough=6000, shard=37, coq_jobs=12, race=120,
                    require=["op.start", "op.step", "op.step.fail", "op.done", "op.close", "op.release.again", "op.expl", "op.expb",
                             "op.use.held", "op.refresh.ok", "op.refresh.err", "op.refresh.size", "op.probe.held", "op.wake", "pause.1", "pause.3", "pause.4", "result.blocked", "result.err",
                             "result.ret.fresh", "result.ret.shared", "result.use.closed", "result.use.released-open", "interval", "iop.age", "iop.chk", "iop.refresh", "iop.res"]),
               dict(cmd="fsmount", mod="root", model="Model.FsMount", quick=60, thorough=3000, shard=30, coq_jobs=12, race=150,
                    require=["op.mount", "op.check.mounted", "op.check.refresh.ok", "op.check.refresh.err", "op.check.refresh.size", "op.probe.mounted", "op.unmount", "op.unmount.unknown", "op.use.mounted",
                             "op.expl", "op.expb", "result.mount.ok", "result.mount.err", "result.check.err",
                             "result.mount.refused.mismatch", "result.mount.refused.bad", "result.mount.refused.none"])],
    rule="random interleavings of Resolve (suspended inside each external call: connectivity check, registry, metadata store; outcome "
         "chosen per call) / Done / Close / layer-TTL expiry / blob-TTL expiry / Check+RootNode+reads served from the caches / Refresh with the registry answering {same blob, resolution error, blob of another size, same size other bytes} / reads of never-read chunks (which must go to the registry) over 3 layer names, each followed "
         "by a closing sequence (finish, release all, expire all, re-resolve, close); non-trivial = a shared and >= 2 fresh instances plus a failed "
         "external call or extra layer expiry; distinct = distinct (executed history, observations). Second harness: random histories of "
         "fs.Mount (target + 2 pre-resolved neighbours, scripted failures of registry / metadata store / connectivity check per layer) / Check "
         "(check ok?, Refresh answered {same blob, error, other size, other bytes}) / Unmount / cached reads / reads of never-read chunks / expiry over 2 images x 3 layers and 4 mountpoints on the real fs.NewFilesystem without the FUSE server",
    assumptions=[
        "sync.Mutex / sync.Once / namedmutex behave as documented; every TTLCache method is atomic under the cache mutex and the layer cache's "
        "OnEvicted callback (layer.close, which takes the blob cache mutex) runs inside the layer-cache critical section, so a schedule is a list of sub-steps",
        "thread-local work of Resolve (directory creation, object construction, lock acquire/release) is attached to the neighbouring cache critical "
        "section (it commutes with every step of other threads)",
        "time.AfterFunc timers: the timer body is the ExpireL/ExpireB op, fired at arbitrary points by the hooks VerifExpireLayerC12/VerifExpireBlobC12",
        "os.MkdirTemp returns a fresh directory and os.RemoveAll removes it; directory creation does not fail (not injectable)",
        "external calls (fetcher.check, remote.Handler, metadata store) may fail at will: their outcome is an argument of the sub-step, universally quantified",
        "ValidInterval of the connectivity check is not in the Coq model (it models CheckAlways); the resolver harness runs extra sequential cases with a one-hour "
        "interval and time moved by a verif hook, judged by the model-free oracle only (a Check probes exactly when due, a failed probe does not count as a check)",
        "fs.Mount: the FUSE server (after registration) and the 30 s wait for the target's Resolve are outside the model; prefetch and background fetch are "
        "switched off; Mount over an already registered mountpoint (never done by the snapshotter) is not generated",
    ],
    level_text="Coq theorems over every interleaving (any list of sub-steps of any number of Resolve calls, Done, Close, expiry of either cache, Use, Refresh, "
               "with every external call failing or succeeding at will) of the resolver model built on the C10 refcounted-cache machine: "
               "invariant by induction over fold_left step (ownership invariant + per-name lock discipline: mutual exclusion, Add only when nothing is cached). "
               "The same at the fs.Mount/Check/Unmount level (every fs-level state is a reachable resolver state; a registered layer is an unreleased layerRef). "
               "Both models are run against fs/layer.Resolver resp. fs.NewFilesystem on random histories every run.",
    level_note="Model (coq/Model/Resolver.v) is hand-written over Model/Refcache.v; real timers, FUSE serving after Unmount, prefetch/background fetch and "
               "Go-level data races are outside the model; reads are observed (RootNode, file read through the reader, blob ReadAt, Check) but their bytes are not modelled.",
    technique="Coq proof: ownership invariant (every cache handle, directory and open object has exactly one owner) preserved by every sub-step, on top of the "
              "C10 exactly-once theorem; correspondence by vm_compute on observed interleavings",
    trusted=["fs/layer.Resolver is modelled by hand in coq/Model/Resolver.v; tie = per-op events (pause point / blocked / returned instance identity + fresh / error / "
             "closed flags seen by a holder) and the counts of fscache dirs, httpcache dirs and open metadata readers after every op",
             "harness schedules a Resolve only at its external calls (coarse steps); the theorems cover all finer interleavings of the cache critical sections",
             "fs/fs.go Mount/Check/Unmount are modelled by hand in coq/Model/FsMount.v over the resolver model; tie = Mount/Check result, closed flags seen through the "
             "mountpoint, number of registered mountpoints, directory and open-metadata counts after every op; the fs harness runs each Mount's Resolve calls to completion "
             "(their interleavings are exercised by the resolver harness and covered by the theorems)"],
)
