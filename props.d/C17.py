# C17 — FUSE manager: persistent record vs live mounts across re-init / restart
PROPS["C17"] = dict(
    props_file="Properties/C17.v",
    harnesses=[dict(cmd="fusemgr", mod="root", model="Model.Fusemgr", quick=300, thorough=12000, shard=75,
                    require=["op.init", "op.mount", "op.check", "op.unmount", "op.close", "op.restart",
                             "in.init.json", "in.init.cfgfunc", "in.init.fs", "in.init.run", "in.reinit",
                             "in.init-after-restart-with-history", "in.init-script-failure", "in.request-before-init",
                             "in.mount-failure", "in.check-failure", "in.unmount-failure",
                             "in.kernel-mounted-mountpoint", "in.close-twice"])],
    rule="corpus of 7 hand-written histories + random histories (4..18 ops) of Init(cfg, failing stage | restore script) / Mount / Check / Unmount "
         "(each with the outcome of its backend call) / Close / manager restart over 6 mountpoints (one of them listed by the kernel mount table "
         "without being ours), 4 label sets, 4 configurations; non-trivial = >= 3 op kinds and at least one of: re-Init with live mounts, "
         "Init after a restart with a populated store, failing restore; distinct = distinct (ops, observations)",
    assumptions=[
        "RPCs are atomic (Init/Close hold fm.lock exclusively, Mount/Check/Unmount shared); histories are sequences of whole RPCs; "
        "concurrent Mount/Unmount of the same mountpoint under the shared lock are outside the model",
        "snapshot.FileSystem contract: a successful Mount/Unmount takes effect, a failed one changes nothing (recording instances in the harness)",
        "bbolt: a committed Update is durable and atomic, ForEach iterates in key order, Update/View on a closed handle return an error; "
        "a crash of the manager is therefore a Restart placed before or after an RPC (each RPC commits at most one transaction, as its last effect)",
        "mountinfo.GetMounts does not fail; the kernel-mount-table branch of Unmount is exercised with a path the sandbox really has mounted (/proc)",
        "storeFuseInfo/removeFuseInfo errors are ignored by the code; they are modelled as impossible while the store is open",
    ],
    level_text="Coq theorems over every history of Init/Mount/Check/Unmount/Close/Restart with every failure script on the FUSE-manager model "
               "(invariant by induction over fold_left step): store = live mounts + records the last Init left unrestored (and that Init reported it); "
               "owners of existing mounts survive re-Init, nothing is mounted twice, new mounts use the filesystem of the new configuration; "
               "restart + Init re-mounts every record (a prefix in store order when a restore fails) with its recorded labels; unknown unmount succeeds; "
               "requests before Init fail; no nil dereference after fix C17-fix-1 (and a witness that the code as found has one). The model is run against the real fusemanager.Server (real bbolt store) on random histories every run.",
    level_note="Model (coq/Model/Fusemgr.v) is hand-written; the filesystems behind the manager are recording fakes substituted through the verif hook "
               "after the real service.NewFileSystem has run; gRPC transport, the client and process management (signals, sockets) are not exercised.",
    technique="Coq proof: invariant preserved by every op, lifted to all reachable states; correspondence by vm_compute on observed histories",
    trusted=["fusemanager.Server is modelled by hand in coq/Model/Fusemgr.v; tie = per-op result class, backend calls (instance, kind, mountpoint, labels), "
             "status, curFs, fsMap, decoded bolt bucket, what every filesystem instance serves"],
)
