# C17 — FUSE manager: persistent record vs live mounts across re-init / restart
PROPS["C17"] = dict(
    props_file="Properties/C17.v",
    harnesses=[dict(cmd="fusemgr", mod="root", model="Model.Fusemgr", quick=250, thorough=12000, shard=64,
                    require=["op.init", "op.mount", "op.check", "op.unmount", "op.close", "op.restart",
                             "in.init.json", "in.init.cfgfunc", "in.init.fs", "in.init.run", "in.reinit",
                             "in.init-after-restart-with-history", "in.init-script-failure", "in.request-before-init",
                             "in.mount-failure", "in.check-failure", "in.unmount-failure",
                             "in.kernel-mounted-mountpoint", "in.close-twice"]),
               dict(cmd="fusemgrsub", mod="root", model="Model.FusemgrSub", quick=100, thorough=5000, shard=34, race=60,
                    require=["in.bmount", "in.bcheck", "in.bunmount", "in.adv", "in.init", "in.close", "in.restart"])],
    rule="corpus of 7 hand-written histories + random histories (4..18 ops) of Init(cfg, failing stage | restore script) / Mount / Check / Unmount "
         "(each with the outcome of its backend call) / Close / manager restart over 6 mountpoints (one of them listed by the kernel mount table "
         "without being ours), 4 label sets, 4 configurations; non-trivial = >= 3 op kinds and at least one of: re-Init with live mounts, "
         "Init after a restart with a populated store, failing restore; distinct = distinct (ops, observations). "
         "fusemgrsub: 4 hand-written schedules (two Mounts of one mountpoint begun together; Mount during an Unmount; crashes between "
         "sub-steps; independent mountpoints interleaved) + random sub-step schedules: concurrent Mount/Check/Unmount goroutines stopped at "
         "every sub-step boundary (filesystem call, fsMap update, fusestore write), crashes between sub-steps, occasional overlapping requests "
         "for one mountpoint (which must wait for the per-mountpoint mutex); non-trivial = >= 2 requests in flight, or a crash between "
         "sub-steps, or a request waiting for the mutex",
    assumptions=[
        "sequential model: RPCs are atomic (histories are sequences of whole RPCs). Sub-step model: Init/Close hold fm.lock exclusively (atomic, "
        "only when no request is in flight), Mount/Check/Unmount hold it shared and are decomposed into gate+fsMap.Load / filesystem call / "
        "fsMap update / fusestore write, interleaved arbitrarily, with the per-mountpoint mutex of fix 2; sync.Map operations and bolt "
        "transactions are atomic; Go-level data races are outside the model",
        "snapshot.FileSystem contract: a successful Mount/Unmount takes effect, a failed one changes nothing (recording instances in the harness)",
        "bbolt: a committed Update is durable and atomic, ForEach iterates in key order, Update/View on a closed handle return an error; "
        "a crash of the manager is therefore a Restart placed before or after an RPC (each RPC commits at most one transaction, as its last effect)",
        "mountinfo.GetMounts does not fail; the kernel-mount-table branch of Unmount is exercised with a path the sandbox really has mounted (/proc)",
        "storeFuseInfo/removeFuseInfo errors are ignored by the code; they are modelled as impossible while the store is open",
    ],
    level_text="Coq theorems over every history of Init/Mount/Check/Unmount/Close/Restart with every failure script on the FUSE-manager model "
               "(invariant by induction over fold_left step): store = live mounts + records the last Init left unrestored (and that Init reported it); "
               "owners of existing mounts survive re-Init, nothing is mounted twice, new mounts use the filesystem of the new configuration; "
               "restart + Init re-mounts every record (a prefix in store order when a restore fails) with its recorded labels; unknown unmount succeeds; "
               "requests before Init fail; no nil dereference after fix C17-fix-1 (and a witness that the code as found has one). The model is run against the real fusemanager.Server (real bbolt store) on random histories every run. Sub-step machine (concurrent requests, crashes between sub-steps, per-mountpoint mutex of fix C17-fix-2): store = live for every mountpoint no request in flight is working on, never mounted twice at every point, crash anywhere + Init re-mounts the kept store; witnesses that the code without the mutex mounts twice / leaves a stale record; run against the real server with goroutines gated at every sub-step.",
    level_note="Models (coq/Model/Fusemgr.v sequential, coq/Model/FusemgrSub.v sub-step/concurrent) are hand-written; the filesystems behind the manager are recording fakes substituted through the verif hook "
               "after the real service.NewFileSystem has run; gRPC transport, the client and process management (signals, sockets) are not exercised.",
    technique="Coq proof: invariant preserved by every op, lifted to all reachable states; correspondence by vm_compute on observed histories",
    trusted=["fusemanager.Server is modelled by hand in coq/Model/Fusemgr.v; tie = per-op result class, backend calls (instance, kind, mountpoint, labels), "
             "status, curFs, fsMap, decoded bolt bucket, what every filesystem instance serves"],
)
