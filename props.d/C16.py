# C16 — additional-layer store: lookup / use / release in any order
PROPS["C16"] = dict(
    props_file="Properties/C16.v",
    harnesses=[dict(cmd="store", mod="root", model="Model.Store", quick=240, thorough=12000, shard=30,
                    require=["op.lookup.diff", "op.lookup.blob", "op.lookup.racing", "op.info", "op.use", "op.release",
                             "op.loadref", "op.resolve", "op.probe", "fault.manifest", "fault.blob", "fault.blob.delivered",
                             "result.lookup.ok", "result.lookup.fail.unknown", "result.lookup.fail.fault",
                             "result.release.layerzero", "result.release.imagezero", "result.relookup.ok", "result.release.err"])],
    rule="corpus of 7 hand-written histories + random histories (3..22 ops) of lookup(diff|blob) / info / use / release and the sub-steps of "
         "getLayer (loadRef, one resolveLayer, getCachedLayer) over 1..3 images of 1..4 layers drawn from 5 eStargz blobs and 2 plain gzip blobs "
         "(shared between images), with unknown TOC digests, layer digests used as directory names, a non-existing image, manifest-fetch and "
         "blob-fetch faults scripted per op, groups of 2..4 lookups racing on one image; non-trivial = >= 3 op kinds and a successful lookup; "
         "distinct = distinct (registry, ops, observations)",
    assumptions=[
        "every LayerManager method body is atomic under LayerManager.mu / refPool.mu; one resolveLayer call is treated as one atomic step "
        "(exact for racing lookups: resolveLock serialises equal keys and different keys touch different memo entries; a release that lands "
        "between cacheLayer and the memo write of a concurrent resolveLayer of the same image is outside the model)",
        "fs/layer.Resolver: Resolve of a (ref, layer digest) resolved before succeeds from its TTL cache without contacting the registry; "
        "otherwise it succeeds iff the blob fetch succeeds and the blob is eStargz, and the resulting layer's TOC digest is that of the blob",
        "layer.Verify(d) on a layer cached under TOC digest d succeeds (C01 is the property about Verify)",
        "refPool's LRU of 30 manifests never evicts in the histories driven (at most 4 refs); the manifest stays readable once fetched",
        "Layer.Done() is what dropping a layer means; the harness observes the map entry disappearing, not the call",
    ],
    level_text="Coq theorems over every history of lookup/info/use/release and of the sub-steps of getLayer (so every interleaving of racing lookups at "
               "resolveLayer granularity), every registry and every fault script, on the model of the repaired LayerManager (invariant by induction over "
               "fold_left step): lookup fails for a digest the image lacks and succeeds for one it has whenever the registry answers and no earlier "
               "registry error for that layer is memoised (the memoised-error case is refuted and reported as known finding F26); use counts are >= 1 "
               "while tracked and never negative; a layer with outstanding uses stays cached; the release of the last use of an image drops all its "
               "layers, counts and memo, after which every healthy lookup succeeds again. The model is run against the real LayerManager on random histories every run.",
    level_note="Model (coq/Model/Store.v) is hand-written; the implementation is driven in-package (verif hook) over a real fs/layer.Resolver with real "
               "eStargz blobs, an in-memory registry (http.RoundTripper for manifests, remote.Handler for blobs); the FUSE node handlers of store/fs.go are "
               "read, not driven (they add node caching on top of the manager calls modelled here); Go-level data races are outside the model.",
    technique="Coq proof: invariant preserved by every op, lifted to all reachable states; correspondence by vm_compute on observed histories",
    trusted=["store.LayerManager/refPool are modelled by hand in coq/Model/Store.v; tie = per-op result class and the dump of layer / refcounter / "
             "resolveLayerCache / refPool.refcounter / manifests on disk after every op",
             "store/fs.go handlers (base64 ref parsing, node caching, Rmdir/Create mapping to release/use) are not modelled"],
)
