# C16 — additional-layer store: lookup / use / release in any order
PROPS["C16"] = dict(
    props_file="Properties/C16.v",
    harnesses=[dict(cmd="store", mod="root", model="Model.StoreRef", quick=160, thorough=12000, shard=20, race=400,
                    require=["op.lookup.diff", "op.lookup.blob", "op.lookup.racing", "op.info", "op.use", "op.release",
                             "op.loadref", "op.resolve", "op.probe", "op.expire", "op.racerel", "fault.manifest", "fault.blob",
                             "fault.blob.delivered", "result.lookup.ok", "result.lookup.fail.unknown", "result.lookup.fail.fault",
                             "result.release.layerzero", "result.release.imagezero", "result.relookup.ok", "result.release.err",
                             "result.racerel.gate", "result.racerel.dropped", "result.racerel.errgate", "result.cancel.midfetch"]),
               dict(cmd="storefs", mod="root", model="Model.StoreFS", quick=72, thorough=6000, shard=9, race=200,
                    require=["op.lookup.diff", "op.lookup.blob", "op.lookup.info", "op.lookup.use", "op.lookup.other", "op.use",
                             "op.createother", "op.rmdir", "op.badref", "op.alias", "op.baddigest", "op.pool", "op.expire", "fault.manifest",
                             "fault.blob", "result.lookup.ok", "result.lookup.served-from-tree", "result.lookup.fail.unknown",
                             "result.lookup.fail.fault", "result.rmdir.layerzero", "result.rmdir.imagezero", "result.relookup.ok",
                             "result.cancel.midfetch"])],
    rule="store: corpus of 16 hand-written histories + random histories (3..22 ops) of lookup(diff|blob) / info / use / release, the sub-steps of "
         "getLayer (loadRef, one resolveLayer, getCachedLayer), expiry of the resolver's TTL caches, and a release scheduled (gate hook) between "
         "cacheLayer and the end of a concurrent resolveLayer; storefs: corpus of 9 + random histories (3..20 client operations) on the FUSE "
         "handlers through go-fuse's NodeFS bridge (path walk + stat diff|blob|info|use|other, creat use|other, rmdir, malformed ref and digest "
         "names, pool, cache expiry); both over 1..3 images of 1..4 layers drawn from 5 eStargz blobs and 2 plain gzip blobs "
         "(shared between images), layer descriptors carrying toc.digest annotations that are absent / correct / another layer's / stale / malformed, "
         "lookups whose client context is cancelled before the call, while a blob request is in flight (gate in the in-memory registry) or after it, "
         "each followed by fresh lookups, with unknown TOC digests, layer digests used as directory names, a non-existing image, manifest-fetch and "
         "blob-fetch faults scripted per op, groups of 2..4 lookups racing on one image; non-trivial = >= 3 op kinds and a successful lookup; "
         "distinct = distinct (registry, ops, observations)",
    assumptions=[
        "every LayerManager method body is atomic under LayerManager.mu / refPool.mu; one resolveLayer call is one step: since C16-fix-4 its "
        "effects on the manager (layer cached + success recorded, or error recorded) happen in ONE section under LayerManager.mu, resolveLock "
        "serialises equal keys and different keys touch different memo entries; an error recorded late is the op list Expire; Resolve(fault); "
        "the schedule 'release between cacheLayer and the end of resolveLayer' is driven on the implementation through the gate hook",
        "FUSE: a client operation is the walk of Lookup requests for its path followed by the final request (no kernel dentry/attr caching, "
        "no FORGET); go-fuse's NodeFS bridge dispatches the requests to the handlers and keeps persistent inodes until RmChild",
        "fs/layer.Resolver: Resolve of a (ref, layer digest) resolved before succeeds from its TTL cache without contacting the registry "
        "until the cache entry expires (the expiry is an op, driven on the implementation through the TTL-timer hook); "
        "otherwise it succeeds iff the blob fetch succeeds and the blob is eStargz, and the resulting layer's TOC digest is that of the blob",
        "layer.Verify(d) on a layer cached under TOC digest d succeeds (C01 is the property about Verify)",
        "refPool's LRU of 30 manifests never evicts in the histories driven (at most 4 refs); the manifest stays readable once fetched",
        "the client's context reaches only refPool.loadRef: a lookup whose context is already cancelled is a lookup with a manifest fault; layer "
        "resolution runs detached from it (context.Background) and the manifest's toc.digest annotations are not read by the store - both are driven, "
        "not modelled: the model has no such distinction and the implementation must agree with it under them",
        "Layer.Done() calls are modelled (coq/Model/StoreRef.v: handles on the objects of the resolver's TTL cache, closed when out of the cache "
        "and without handle - C10's theorem about util/cacheutil taken as the contract); the harness observes their effect as Check() of every "
        "layer the manager holds after every op",
    ],
    level_text="Coq theorems over every history of lookup/info/use/release and of the sub-steps of getLayer (so every interleaving of racing lookups at "
               "resolveLayer granularity), every registry and every fault script, on the model of the repaired LayerManager (invariant by induction over "
               "fold_left step): lookup fails for a digest the image lacks and succeeds for one it has whenever the registry answers and no earlier "
               "registry error for that layer is memoised (the memoised-error case is refuted and reported as known finding F26); use counts are >= 1 "
               "while tracked and never negative; a layer with outstanding uses stays cached; the release of the last use of an image drops all its "
               "layers, counts and memo, after which every healthy lookup succeeds again. Phase 2: the FUSE handlers of store/fs.go refine the manager "
               "(each handler step = at most one manager call named from the node tree, errno a function of its result; every handler history is a manager "
               "history), so all clauses hold under the handlers, plus: a diff/blob node in the tree is always backed by a layer the manager holds (C16-fix-3; "
               "refuted for the code before it, F27), the last rmdir of an image leaves no node of it and the next lookup is a manager lookup again; the pre-fix-4 "
               "split of resolveLayer is refuted (F28) and the repaired schedule proved harmless. Phase 3: with the handles of the resolver's TTL cache in the model, "
               "every layer the manager holds is held through an outstanding handle on an open object in every reachable state (the manager never gives back a "
               "handle it keeps; refuted for the variant that does). All models are run against the implementation every run.",
    level_note="Model (coq/Model/Store.v) is hand-written; the implementation is driven in-package (verif hook) over a real fs/layer.Resolver with real "
               "eStargz blobs, an in-memory registry (http.RoundTripper for manifests, remote.Handler for blobs); the FUSE node handlers of store/fs.go are driven "
               "through go-fuse's NodeFS bridge without a mount (no kernel, no dentry cache, no FORGET); Go-level data races are outside the model.",
    technique="Coq proof: invariant preserved by every op, lifted to all reachable states; correspondence by vm_compute on observed histories",
    trusted=["store.LayerManager/refPool are modelled by hand in coq/Model/Store.v; tie = per-op result class and the dump of layer / refcounter / "
             "resolveLayerCache / refPool.refcounter / manifests on disk after every op",
             "store/fs.go handlers are modelled by hand in coq/Model/StoreFS.v; tie = errno class per client operation, the manager dump and the node "
             "tree (ref directories, layer directories, diff/blob/info children with the info payload) after every operation; file contents behind diff "
             "and blob nodes (fs/layer nodes, blobnode.Read) are not part of C16"],
)
