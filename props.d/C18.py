# C18 — registry credentials and custom headers reach only their own image and host
PROPS["C18"] = dict(
    props_file="Properties/C18.v",
    harnesses=[
        dict(cmd="creds", mod="root", model="Model.Creds", quick=600, thorough=60000, shard=100,
             require=["op.pull", "op.remove", "op.query", "op.multi", "op.connect", "op.len", "auth.nil",
                      "auth.sa.empty", "auth.sa.url", "auth.sa.bare", "auth.sa.bad",
                      "auth.form.userpass", "auth.form.token", "auth.form.base64",
                      "pull.invalid-ref", "pull.backend-fails", "query.docker-alias", "query.host-variant", "query.host-exact", "case.starts-unconnected"]),
        dict(cmd="credsfetch", mod="root", model="Model.Headers", quick=240, thorough=12000, shard=60, race=1500,
             # only keys that depend on the generated inputs, not on what the implementation does with them
             require=["mirror.table.nil", "mirror.table.empty", "mirror.table.one", "mirror.table.multi", "mirror.value.s", "mirror.value.l",
                      "mirror.invalid", "mirrors.0", "mirrors.2", "mirrors.3", "spawn.fetch", "spawn.check",
                      "answer.403", "answer.400", "answer.401", "answer.401.basic", "answer.401.bearer", "answer.3xx", "answer.2xx",
                      "pull.noauth", "pull.userpass", "pull.useronly", "pull.token", "pull.sa.empty", "pull.sa.url",
                      "location.absolute", "location.absolute-other-spelling", "location.scheme-relative", "location.no-host-reference"]),
    ],
    rule="creds: random histories (3..24 ops) of CRI connect / PullImage (image strings incl. docker.io short forms, digests, unparsable; "
         "auth = user+password | identity token | base64 auth (valid, NUL-padded, no colon, invalid) | several | none; server address empty | URL | "
         "scheme-less | unparsable, rendered around host:port spellings (with/without port, default ports explicit, other ports, upper case, trailing dot, IPv4/IPv6 literals "
         "with/without brackets) with userinfo / path / query / fragment / upper-case scheme / '//' prefix; failing backend) / RemoveImage / other calls / credential queries over 9 hosts x 9 references / "
         "multiCredsFuncs with scripted neighbours, query hosts often differing from the pull's address host only in port / case / dot / brackets; plus a deterministic "
         "sweep (13 host spellings x 10 address decorations x all host variants, every scheme-less and unparsable form); non-trivial = at least one query offered a credential and one refused. "
         "credsfetch: 0..3 mirrors with header tables (nil / empty / 1-3 keys, string or list values, wrong-typed values) (+ invalid hosts), the image pulled through the real CRI "
         "keychain (user+password | user only | identity token | bad | none; server address none / a mirror / origin / CDN / unparsable) feeding the real docker authorizers, "
         "scripted answers for resolution and size probe incl. 401 Basic/Bearer challenges and token-server answers (200, bad JSON, 400/401/403/404/405, error), then up to 5 "
         "concurrent fetch/check calls run under a deterministic scheduler (held at the fetcher's scheduling point and at every request) with answers "
         "200/206/204/3xx(+Location forms: absolute https/http/upper-case scheme/userinfo/fragment/other port on a CDN or a registry host, another mirror's blob URL, scheme-relative //host/path to a CDN or registry host, path-absolute, path-relative, query-only, none)/400/401(+Basic, Bearer realm 0/1, invalid_token, no realm)/403/404/transport error; non-trivial = a redirect location "
         "was contacted, a 403 refresh happened and a configured header was sent; distinct = distinct Coq case terms. "
         "Epilogue per case (oracle only): the image was pulled through the real CRI keychain (server address none / mirror / origin / CDN), the keychain feeds the "
         "real docker authorizer, the current target and then the registry host answer 401 + Basic challenge: an Authorization header may only reach a host the pull's server address names",
    assumptions=[
        "all keychain methods are atomic under configMu (a schedule is an op list); the connection goroutine of NewCRIKeychain is the Connect op",
        "reference normalisation (distribution/reference.ParseDockerRef + containerd reference.Parse/Spec.String) is a contract: the model identifies a "
        "reference with the index of its normalised form; the harness table fixes the expected index by hand and the run checks it",
        "net/url.Parse(text).Host is modelled in Gallina (Model/Creds.v parse_url_host, printable ASCII without escapes in the authority) and compared through every query; "
        "encoding/base64 is a contract: the model takes the auth field in the structured form it is rendered from",
        "containerd's docker.Authorizer is third-party code modelled by contract in Model/Headers.v (per-host handlers, Basic/Bearer, token fetch POST then GET "
        "fallback, token and error caching); the correspondence run drives the real one; a token fetch is atomic w.r.t. other fetcher threads; token expiry is not exercised",
        "the keychain state is constant during the life of one fetcher (the authorizer keeps the credential it obtained when the handler was created)",
        "fetcher threads interleave at the granularity of the critical sections of urlMu / singleRangeMu and of whole request/response exchanges; "
        "Go-level data races are outside the model",
    ],
    level_text="Coq theorems over every history of CRI requests and every credential query (table = auth of the most recent accepted pull per exact reference, "
               "nothing after remove, nothing for another reference, nothing for a mismatching named server, exact answer otherwise; multiCredsFuncs = first decisive answer) "
               "and over every registry behaviour and every schedule of concurrent fetch/check sub-steps (every request carrying headers configured for host i goes to "
               "the blob URL on host i; invariant header<>none -> url = blobURL; resolution, size probe, range fetch, 403 refresh, 400 retry, check). "
               "Both models are run against the real keychain / ParseAuth / multiCredsFuncs / RegistryHostsFromConfig / httpFetcher every run.",
    level_note="Models (coq/Model/Creds.v, coq/Model/Headers.v) are hand-written. The header theorem holds for the code WITH patches/C18-fix-1.diff; for the code before the "
               "fix the model (fixed=false) leaks and C18_headers_confined_without_fix_refuted exhibits the schedule, which the harness replays on the implementation. "
               "docker.Authorizer, url.Parse, base64 and reference normalisation are contracts.",
    technique="Coq proof: history invariant by induction over the op list (keychain); state + per-thread snapshot invariant preserved by every atomic sub-step, lifted to all "
              "schedules (fetcher); correspondence by vm_compute on observed histories / schedules; deterministic scheduler through a verif-only scheduling point",
    trusted=["service/keychain/cri, resolver.ParseAuth, resolver.multiCredsFuncs are modelled by hand in coq/Model/Creds.v; tie = per-op outputs (accepted/rejected, "
             "credential answers, number of credential functions called, table size)",
             "fs/remote newHTTPFetcher/redirect/getSize/fetch/check/refreshURL are modelled by hand in coq/Model/Headers.v; tie = every request (method, target, "
             "which host's headers), resolution result, completion status per step, final (url, header, singleRange)"],
)
