# C18 — registry credentials and custom headers reach only their own image and host
PROPS["C18"] = dict(
    props_file="Properties/C18.v",
    harnesses=[
        dict(cmd="creds", mod="root", model="Model.Creds", quick=2000, thorough=100000, shard=500,
             require=["op.pull", "op.remove", "op.query", "op.multi", "op.connect", "op.len", "auth.nil",
                      "auth.sa.empty", "auth.sa.url", "auth.sa.bare", "auth.sa.bad",
                      "auth.form.userpass", "auth.form.token", "auth.form.base64",
                      "pull.invalid-ref", "pull.backend-fails", "query.docker-alias", "case.starts-unconnected",
                      "result.offered", "result.none", "result.error", "result.rejected"]),
    ],
    rule="",
    assumptions=[],
    trusted=[],
    level_text="",
    level_note="",
    technique="",
)
