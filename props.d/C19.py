# C19 — image conversion emits descriptors that describe exactly the blobs it wrote
PROPS["C19"] = dict(
    props_file="Properties/C19.v",
    # C19_THOROUGH / C19_RACE: developer overrides for mutation runs in a scratch worktree (registered commands never set them)
    harnesses=[dict(cmd="convert", mod="root", model="Model.Convert", quick=100, thorough=int(_os.environ.get("C19_THOROUGH", "700")), shard=60, timeout=1500,
                    race=int(_os.environ.get("C19_RACE", "24")), race_timeout=3000,
                    require=["kind.esgz", "kind.zstd", "kind.ext", "kind.extll", "api.common", "api.perlayer", "parallel",
                             "src.none", "src.gzip", "src.zstd", "src.esgz", "fam.oci", "fam.docker", "fam.ocind",
                             "pre.ingest", "pre.retry", "pre.interrupt", "pre.interrupt.left", "gate.parked", "pre.plant-none", "pre.plant-stale", "pre.plant-right", "result.planted.blob.reproduced",
                             "fin.ok", "fin.fail", "fin.multi", "fin.none", "fin.ok.repeated", "fin.ok.after.more.layers", "res.ok", "result.blob.existed"])],
    rule="images of 1..6 generated tar layers stored uncompressed / gzip / zstd / already eStargz / already zstd:chunked under OCI, OCI-nondistributable, "
         "Docker and Docker-foreign media types, with none / distribution-source / stale uncompressed labels, converted by ONE converter instance "
         "(estargz, zstdchunked, external-TOC, external-TOC lossless; common-option and per-layer-option constructors; option slice with spare capacity; "
         "chunk / min-chunk / level / prioritized files) sequentially or all layers in parallel, after an interrupted conversion left an ingest under the "
         "writer ref, after a conversion with OTHER options died mid-stream (fault-injecting content writer) leaving a prefix of its blob under the same ref, "
         "as a retry, or with the would-be result blob already in the store with no / stale / right labels (all converters); forced schedule for external-TOC converters (a wrapping content store parks the first layer about to store its TOC until another layer "
         "is converted completely); finalize called 0..4 times per converter instance with failing (unparsable) and good target references, "
         "repeated and interleaved with further layer conversions; thorough tier: the same harness under the Go race detector (all layers in parallel, shared option slices incl. the "
         "WithAllowPrioritizeNotFound slice as ctr-remote passes it); non-trivial = at least one layer converted; distinct = distinct (kind, inputs, observed descriptors, TOC image)",
    assumptions=[
        "SHA-256, byte length, decompression and TOC digest are abstract functions H, len, payload, tocdg of the committed blob (no injectivity assumed); "
        "estargz.Build / Writer.Close / Blob accessors return these values (cross-checked on every case by the harness, which recomputes them from the committed blob)",
        "every content-store call (Commit, Update, Info) is atomic and the map update runs under esgzDigest2TOCMu (patches/C19-fix-1), so a schedule of "
        "concurrent, interrupted and retried conversions is a list of the sub-steps Uncompress/Commit/Record; Go-level data races are outside the model "
        "(searched by the thorough tier's race-detector run of the harness, clean after fix-1/fix-2/fix-5)",
        "containerd content/local store with a label store stands for the content store; cs.Update of one label is supported (as containerd's metadata store does)",
        "layer media types outside the 11 modelled ones (e.g. +encrypted suffixes) are not covered",
    ],
    level_text="Coq theorems for all layers, option sets, initial stores and schedules over the converter model: returned descriptor = (H, len, tocdg, len.payload) "
               "of the committed blob; media-type table matches the compression written (finite, by cases); lossless keeps DiffID and length; the store's "
               "uncompressed label of a converted digest is the DiffID of a blob committed under it, for every initial store and schedule; the TOC image "
               "has exactly one entry per converted layer digest, mapping it (through fetcher.go's lookup) to the TOC of a conversion of that digest, for "
               "every schedule, and so does EVERY finalize call of a schedule for the layers recorded so far (finalize is read-only, fails iff the reference "
               "does not parse, later calls accumulate); last writer wins on duplicate keys; order-independent on distinct keys; content writer under a reused writer ref: for every "
               "leftover ingest and every history of interrupted/retried attempts with arbitrary builds, a completed attempt commits exactly its own build. The model is run against the real converters "
               "and a content/local store on generated images every run; a model-free oracle recomputes every clause from the committed blobs "
               "(sha256, size, decompress, estargz.Open + VerifyTOC + per-file digests, TOC image lookup).",
    level_note="Model (coq/Model/Convert.v) is hand-written and describes the code after patches/C19-fix-1..5 (mutex on esgzDigest2TOC; option slices not shared "
               "between concurrent conversions; gzip media type for zstd inputs; uncompressed label written when the blob already exists; mutex on the shared missed-prioritized-files slice). Builder, compressors, "
               "content store and hash are abstract; their contracts are checked per case by the harness oracle only.",
    technique="Coq proof: composition over abstract blob functions; invariants by induction over arbitrary op lists (schedules); finite media-type table by "
              "computation; correspondence by vm_compute on observed conversions",
    trusted=["nativeconverter/{estargz,zstdchunked,estargz/externaltoc} are modelled by hand in coq/Model/Convert.v; tie = per-layer descriptor fields, "
             "store label and TOC image observed on the real converters with the blob function values recomputed by the harness",
             "estargz.Build / estargz.Writer / compressors / containerd content store: abstract in the model, exercised by the correspondence check only"],
)
