#!/usr/bin/env python3
"""Regenerates MANIFEST.json from props.py (python3 tools/mkmanifest.py)."""
import json, os, subprocess, sys
ROOT = os.path.dirname(os.path.dirname(os.path.abspath(__file__)))
sys.path.insert(0, ROOT)
from props import PROPS as _ALL, NOT_APPLICABLE, READY  # noqa
PROPS = {k: v for k, v in _ALL.items() if k in READY}

base = json.load(open("/root/.vp/BASELINE.json"))
hooks_commits = subprocess.run("git -C /repo log --format=%H --grep='^verif hook' ", shell=True, capture_output=True, text=True).stdout.split()
m = dict(
    version=1,
    setup_cmd="./setup.sh",
    hooks=dict(guard="verif",
               enable="go1.26 build -tags verif (harness modules under /verif/harness use replace => /repo, /repo/estargz, /repo/cmd)",
               baseline_off_cmd=base["cmd"],
               source_commits=hooks_commits, add_only=True),
    engines=[dict(name="check", path="check", serves_properties=sorted(PROPS.keys()),
                  kind_free_text="Coq 8.16.1 proofs over hand-written Gallina models (coq/), constants regenerated from /repo by tools/genconsts, "
                                 "Go correspondence harnesses (harness/) whose observed cases are re-evaluated by the model inside Coq (vm_compute), "
                                 "model-free property oracles for the search of failing inputs")],
    checks=[],
    notes="See DESIGN.md. Every claimed property: theorems in coq/Properties/<id>.v (statements only, closed by exact, Print Assumptions parsed each run) "
          "+ correspondence check against /repo's working tree. KNOWN_FINDINGS.json lists genuine defects recorded rather than repaired.",
    not_applicable=NOT_APPLICABLE,
)
for pid in sorted(PROPS.keys()):
    c = PROPS[pid]
    m["checks"].append(dict(
        property_id=pid,
        quick_cmd="./check %s --tier quick" % pid,
        thorough_cmd="./check %s --tier thorough" % pid,
        evidence_file="evidence/%s.json" % pid,
        replay_cmd_template="./check %s --replay {path}" % pid,
        engine="check",
        level_claimed=dict(category="proof", text=c["level_text"], design_ref=c.get("design_ref", "DESIGN.md §8 " + pid)),
        level_note=c["level_note"],
        technique=c.get("technique", "machine-checked proof in Coq 8.16.1 over an executable Gallina model + differential correspondence check against the Go code"),
    ))
json.dump(m, open(os.path.join(ROOT, "MANIFEST.json"), "w"), indent=1)
print("MANIFEST.json:", len(m["checks"]), "checks,", len(NOT_APPLICABLE), "not applicable")
