module verif/genconsts

go 1.25.0
