#!/bin/bash
# tools/cp.sh <patch> <commit message...> : apply a patch in the commit worktree /tmp/cwt and commit it there
P=$1; shift
cd /tmp/cwt || exit 1
if ! git apply --whitespace=nowarn "$P" 2>/tmp/cwt.err; then
  if ! patch -p1 --no-backup-if-mismatch -s < "$P" 2>>/tmp/cwt.err; then echo "FAILED to apply $P"; cat /tmp/cwt.err; exit 1; fi
fi
gofmt -l $(git status --short | awk '{print $2}' | grep '\.go$') 2>/dev/null | sed 's/^/gofmt: /'
git add -A && git commit -q -m "$*" && git log --oneline | head -1
