#!/bin/sh
# Final validation of the committed tree, to be run with no other builder active:
#   1. clean full Coq rebuild (timed), forbidden-word scan
#   2. every check, quick tier, seeds 2 and 3 (4 streams), then seed 1 serially (idle timings + the evidence files that stay)
#   3. manifest + schema validation
# Output: .work/lead/final/<id>.seed<n>.log, .work/lead/final/summary.txt
cd "$(dirname "$0")/.." || exit 2
export GOFLAGS=-mod=mod GOPROXY=off GOSUMDB=off GOTOOLCHAIN=local
O=.work/lead/final; rm -rf $O; mkdir -p $O
IDS=$(cat ready.txt)
{
echo "== clean Coq rebuild"; date
( cd coq && { [ -f Makefile ] && make -s clean >/dev/null 2>&1; find . -name '*.vo' -o -name '*.vos' -o -name '*.vok' -o -name '*.glob' -o -name '.*.aux' | xargs -r rm -f; } )
} > $O/summary.txt 2>&1
t0=$(date +%s)
./setup.sh > $O/setup.log 2>&1
t1=$(date +%s)
echo "setup.sh (genconsts + full coq build from clean + harness builds): $((t1-t0)) s; .vo files: $(find coq -name "*.vo" | wc -l) of $(find coq -name "*.v" | wc -l) .v" >> $O/summary.txt
grep -rnE 'Admitted|admit\b|^ *Axiom|^ *Parameter|^ *Conjecture|Unset Guard|bypass_check|type-in-type|impredicative-set' coq --include=*.v | grep -v '(\*' | head >> $O/summary.txt
for s in 2 3; do
  i=0
  for st in 0 1 2 3; do
    ( for p in $IDS; do
        n=${p#C}; n=${n#0}
        if [ $((n % 4)) -eq $st ]; then
          a=$(date +%s); ./check $p --seed $s > $O/$p.seed$s.log 2>&1; e=$?; b=$(date +%s)
          echo "$p seed=$s exit=$e $((b-a))s $(grep -c '^VIOLATION' $O/$p.seed$s.log) violations" >> $O/summary.txt
        fi
      done ) &
  done
  wait
done
for p in $IDS; do
  a=$(date +%s); ./check $p > $O/$p.seed1.log 2>&1; e=$?; b=$(date +%s)
  echo "$p seed=1 exit=$e $((b-a))s(idle,serial) $(grep -c '^VIOLATION' $O/$p.seed1.log) violations" >> $O/summary.txt
done
python3 tools/mkmanifest.py >> $O/summary.txt 2>&1
python3-vt tools/validate.py >> $O/summary.txt 2>&1
echo FINALRUN-DONE >> $O/summary.txt; date >> $O/summary.txt
