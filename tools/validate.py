#!/usr/bin/env python3-vt
import json, jsonschema, glob, sys
jsonschema.validate(json.load(open('MANIFEST.json')), json.load(open('/root/.vp/MANIFEST.schema.json')))
print('manifest valid')
es = json.load(open('/root/.vp/EVIDENCE.schema.json'))
for p in sorted(glob.glob('evidence/*.json')):
    jsonschema.validate(json.load(open(p)), es)
    print(p, 'valid')
