#!/bin/bash
# Runs the repository's pinned baseline suite (guard OFF) on a given tree (default /repo) and compares with BASELINE.json.
# usage: tools/baseline.sh [repo-dir]   (writes .work/baseline/<n>.json + prints the comparison)
REPO=${1:-/repo}
OUT=/verif/.work/baseline; mkdir -p $OUT; LOG=$OUT/run.$$.json; : > $LOG
export GOPROXY=off; unset GOFLAGS GOSUMDB GOTOOLCHAIN
for m in $(cat /w/out/gomods.txt); do MF=$(cd $REPO/$m && . /w/out/goenv.sh && gomodflag); (cd $REPO/$m && go test $MF -json -vet=off -count=1 -timeout 40m ./... >> $LOG 2>&1); done
python3 - "$LOG" <<'PY'
import json, sys
passed, failed = set(), set()
for line in open(sys.argv[1], errors="replace"):
    line = line.strip()
    if not line.startswith("{"): continue
    try: ev = json.loads(line)
    except Exception: continue
    a, pkg, t = ev.get("Action"), ev.get("Package", ""), ev.get("Test")
    if t is None or a not in ("pass", "fail"): continue
    (passed if a == "pass" else failed).add(pkg + "::" + t)
passed -= failed
base = set(json.load(open("/root/.vp/BASELINE.json"))["stable_pass"])
missing = sorted(base - passed)
print("baseline tests: %d, passed now: %d, baseline tests not passing now: %d, failed now: %d" % (len(base), len(passed & base), len(missing), len(failed)))
for m in missing[:40]: print("  MISSING/FAILED:", m)
PY
