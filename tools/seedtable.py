#!/usr/bin/env python3
"""Prints the markdown table of seeded changes (seeded/*/meta.json, confirm.json, result.json)."""
import json, glob, os
rows = []
for d in sorted(glob.glob(os.path.join(os.path.dirname(os.path.dirname(os.path.abspath(__file__))), "seeded", "C*-*"))):
    n = os.path.basename(d)
    m = json.load(open(os.path.join(d, "meta.json")))
    c = json.load(open(os.path.join(d, "confirm.json"))) if os.path.exists(os.path.join(d, "confirm.json")) else {}
    r = json.load(open(os.path.join(d, "result.json"))) if os.path.exists(os.path.join(d, "result.json")) else {}
    caught = [p for p, v in r.items() if isinstance(v, dict) and v.get("caught")]
    missed = [p for p, v in r.items() if isinstance(v, dict) and not v.get("caught")]
    rows.append("| %s | %s | %s | %s | %s |" % (n, m.get("title", "")[:110].replace("|", "/"), "yes" if c.get("confirmed") else "NO", ", ".join(caught) or "-", ", ".join(missed) or "-"))
print("| seeded change | what it changes | confirmed | caught by check | not caught by |")
print("|---|---|---|---|---|")
print("\n".join(rows))
