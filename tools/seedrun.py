#!/usr/bin/env python3
"""tools/seedrun.py confirm|check <seeded-dir> [--tier quick]

confirm: in a scratch worktree of /repo: (1) demo passes on the clean tree, (2) patch applies and builds,
         (3) existing tests of the touched packages (and meta.extra_test_pkgs) still pass with the patch,
         (4) demo fails with the patch.   Writes <dir>/confirm.json.
check:   apply the patch in a scratch worktree and run `VERIF_REPO=<wt> ./check <prop>`; record whether a VIOLATION
         line was printed in <dir>/result.json.
meta.json keys used: property, demo_pkg (package dir relative to the module root where demo_test.go is copied),
module ("" | "cmd" | "estargz": module root relative to the repo), demo_run (regexp for -run), files.
"""
import json, os, subprocess, sys, shutil, time
ROOT = os.path.dirname(os.path.dirname(os.path.abspath(__file__)))
ENV = dict(os.environ, GOFLAGS="-mod=mod", GOPROXY="off", GOSUMDB="off", GOTOOLCHAIN="local")

def sh(cmd, cwd=None, timeout=3000):
    p = subprocess.run(cmd, cwd=cwd, env=ENV, shell=True, stdout=subprocess.PIPE, stderr=subprocess.STDOUT, text=True, timeout=timeout)
    return p.returncode, p.stdout

def apply_patch(d, wt):
    """patch.diff was written against the pinned commit; the repository has since gained hook and fix commits.
    patch.rebased.diff (if present) is the same change re-expressed against the current HEAD."""
    for name in ("patch.rebased.diff", "patch.diff"):
        f = os.path.join(d, name)
        if not os.path.exists(f):
            continue
        rc, out = sh("git apply %s" % f, cwd=wt)
        if rc == 0:
            return rc, out
        rc, out = sh("patch -p1 -F3 --no-backup-if-mismatch < %s" % f, cwd=wt)
        if rc == 0:
            return rc, out
        sh("git checkout -- .", cwd=wt)
    return 1, out

def main():
    mode, d = sys.argv[1], os.path.abspath(sys.argv[2])
    tier = sys.argv[4] if len(sys.argv) > 4 and sys.argv[3] == "--tier" else "quick"
    meta = json.load(open(os.path.join(d, "meta.json")))
    name = os.path.basename(d)
    wt = "/tmp/sr-%s-%d" % (name, os.getpid())
    sh("git -C /repo worktree add -f %s HEAD" % wt)
    try:
        modroot = os.path.join(wt, meta.get("module", ""))
        if mode == "confirm":
            res = {}
            pkgdir = os.path.join(modroot, meta["demo_pkg"])
            demo_dst = os.path.join(pkgdir, "zz_seed_demo_test.go")
            shutil.copyfile(os.path.join(d, meta.get("demo_file", "demo_test.go")), demo_dst)
            run = meta.get("demo_run", ".")
            rc, out = sh("go1.26 test -count=1 -vet=off -run '%s' ./%s/" % (run, meta["demo_pkg"]), cwd=modroot)
            res["demo_clean_pass"] = rc == 0
            res["demo_clean_tail"] = out[-600:]
            rc, out = apply_patch(d, wt)
            res["patch_applies"] = rc == 0
            rc, out = sh("go1.26 build ./...", cwd=modroot)
            res["builds"] = rc == 0
            rc, out = sh("go1.26 test -count=1 -vet=off -run '%s' ./%s/" % (run, meta["demo_pkg"]), cwd=modroot)
            res["demo_patched_fails"] = rc != 0
            res["demo_patched_tail"] = out[-1200:]
            os.remove(demo_dst)
            pkgs = sorted(set([os.path.dirname(f) for f in meta.get("files", [])] + meta.get("extra_test_pkgs", [])))
            if "test_pkgs" in meta:  # e.g. nativeconverter: its own tests download a fixture and fail offline with and without any change
                pkgs = meta["test_pkgs"]
                res["existing_tests_note"] = meta.get("test_pkgs_note", "")
            ok = True
            tails = {}
            for p in pkgs:
                mr = wt
                rel = p
                for m in ("cmd", "estargz"):
                    if p == m or p.startswith(m + "/"):
                        mr = os.path.join(wt, m); rel = p[len(m):].lstrip("/") or "."
                rc, out = sh("go1.26 test -count=1 -vet=off -timeout 90m ./%s/..." % rel, cwd=mr)
                tails[p] = out[-500:]
                ok = ok and rc == 0
            res["existing_tests_pass_with_patch"] = ok
            res["existing_tests_tails"] = tails
            res["confirmed"] = bool(res["demo_clean_pass"] and res["patch_applies"] and res["builds"] and res["demo_patched_fails"] and ok)
            res["at"] = time.strftime("%Y-%m-%dT%H:%M:%SZ", time.gmtime())
            json.dump(res, open(os.path.join(d, "confirm.json"), "w"), indent=1)
            print(name, "confirmed" if res["confirmed"] else "NOT CONFIRMED", {k: v for k, v in res.items() if isinstance(v, bool)})
        else:
            rc, out = apply_patch(d, wt)
            if rc != 0:
                print("patch does not apply:", out); return 2
            props = meta["property"] if isinstance(meta["property"], list) else [meta["property"]]
            props = props + meta.get("also_check", [])
            result = {}
            for prop in props:
                t0 = time.time()
                seedarg = (" --seed %s" % os.environ["SEEDRUN_SEED"]) if os.environ.get("SEEDRUN_SEED") else ""
                rc, out = sh("VERIF_REPO=%s ./check %s --tier %s%s" % (wt, prop, tier, seedarg), cwd=ROOT, timeout=7200)
                vio = [l for l in out.splitlines() if l.startswith("VIOLATION")]
                result[prop] = dict(rc=rc, violations=vio[:5], caught=bool(vio), wall_s=round(time.time() - t0, 1), tail=out.strip().splitlines()[-3:])
                print(name, prop, "CAUGHT" if vio else "missed", vio[:1])
            result["at"] = time.strftime("%Y-%m-%dT%H:%M:%SZ", time.gmtime())
            result["tier"] = tier
            rname = "result.json" if not os.environ.get("SEEDRUN_SEED") else "result-seed%s.json" % os.environ["SEEDRUN_SEED"]
            json.dump(result, open(os.path.join(d, rname), "w"), indent=1)
    finally:
        sh("git -C /repo worktree remove --force %s" % wt)
        shutil.rmtree(wt, ignore_errors=True)

if __name__ == "__main__":
    sys.exit(main())
