#!/usr/bin/env python3
"""tools/importseed.py <srcdir(.../SEED)> <name> [also=Cxx,Cyy]: copies SEED/<name> to seeded/<name> and fills meta defaults."""
import json, os, re, shutil, sys
src, name = sys.argv[1], sys.argv[2]
also = []
for a in sys.argv[3:]:
    if a.startswith("also="): also = a[5:].split(",")
d = os.path.join("/verif/seeded", name)
os.makedirs(d, exist_ok=True)
for f in os.listdir(os.path.join(src, name)):
    p = os.path.join(src, name, f)
    if os.path.isfile(p) and os.path.getsize(p) < 2_000_000:
        shutil.copyfile(p, os.path.join(d, f))
m = json.load(open(os.path.join(d, "meta.json")))
demos = [f for f in os.listdir(d) if f.endswith("_test.go")]
demo = "demo_test.go" if "demo_test.go" in demos else (demos[0] if demos else None)
txt = open(os.path.join(d, demo)).read() if demo else ""
pkg = None
mm = re.search(r"(?:into|to)\s+(?:the\s+)?(?:package\s+)?(?:directory\s+)?[`'\"]?((?:cmd/|estargz|fs|cache|task|store|snapshot|service|util|metadata|fusemanager|nativeconverter)[A-Za-z0-9_/.\-]*)", txt[:3000])
if mm: pkg = mm.group(1).strip("/`'\". ")
if not pkg: pkg = os.path.dirname(m.get("files", ["."])[0])
module = ""
if pkg == "cmd" or pkg.startswith("cmd/"): module, pkg = "cmd", pkg[4:] or "."
elif pkg == "estargz" or pkg.startswith("estargz/"): module, pkg = "estargz", pkg[8:] or "."
tests = re.findall(r"^func (Test\w+)", txt, flags=re.M)
m.setdefault("demo_file", demo)
m["demo_pkg"], m["module"] = pkg, module
m["demo_run"] = "^(" + "|".join(tests) + ")$" if tests else "Test"
if also: m["also_check"] = also
if any(f.startswith("nativeconverter/") for f in m.get("files", [])):
    m["test_pkgs"] = ["service", "store"]; m["test_pkgs_note"] = "nativeconverter tests download a fixture and fail offline with and without the change"
json.dump(m, open(os.path.join(d, "meta.json"), "w"), indent=1)
print(name, "pkg=%s module=%s run=%s files=%s" % (pkg, module, m["demo_run"], m.get("files")))
