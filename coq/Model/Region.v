(* Model of fs/remote/util.go: region, superRegion, regionSet.add, regionSet.totalSize.
   Executable definitions only; proofs are in Proofs/Region.v.

   A region is the inclusive byte range [b, e] of an HTTP range request (Go: struct{ b, e int64 }).
   Go int64 is modelled by unbounded Z (sizes/offsets below 2^62; no wrap-around is reachable from
   blob sizes and chunk sizes that fit int64 with their sum). *)
From Coq Require Import List ZArith Bool Sorted.
Import ListNotations.
Open Scope Z_scope.

Definition region := (Z * Z)%type.
Definition rb (r : region) : Z := fst r.
Definition re (r : region) : Z := snd r.
Definition rsize (r : region) : Z := re r - rb r + 1.

(* regionSet.add: the Go loop walks the sorted slice from the tail (index i going down) and deletes
   elements in place.  [low_rev] is rs[0..i] reversed (head = the element under inspection),
   [high] the elements right of i that were kept, [r] the (growing) region to insert.
   The branches are the Go ifs in source order. *)
Fixpoint add_rev (high low_rev : list region) (r : region) : list region :=
  match low_rev with
  | [] => r :: high                                     (* rs.rs = append([]region{r}, rs.rs...) *)
  | l :: rest =>
      if (rb l <=? rb r) && (re r <=? re l) then       (* *) (* l contains r: return *)
        rev_append low_rev high
      else if (rb l <=? rb r) && (rb r <=? re l + 1) && (re l <=? re r) then
        add_rev high rest (rb l, re r)                  (* a) r.b = l.b; delete l *)
      else if (rb r <=? rb l) && (rb l <=? re r + 1) && (re r <=? re l) then
        add_rev high rest (rb r, re l)                  (* a) r.e = l.e; delete l *)
      else if (rb r <=? rb l) && (re l <=? re r) then
        add_rev high rest r                             (* a) r contains l; delete l *)
      else if re l <? rb r then
        rev_append low_rev (r :: high)                  (* b) insert r after l; return *)
      else add_rev (l :: high) rest r                   (* no overlap yet: next *)
  end.

Definition add (rs : list region) (r : region) : list region := add_rev [] (rev rs) r.

Definition total_size (rs : list region) : Z := fold_left (fun a r => a + rsize r) rs 0.

(* superRegion(regs): regs[0] widened by every element; None = index-out-of-range panic on [] *)
Definition super_region (rs : list region) : option region :=
  match rs with
  | [] => None
  | r0 :: _ =>
      Some (fold_left (fun s r => ((if rb r <? rb s then rb r else rb s),
                                   (if re s <? re r then re r else re s))) rs r0)
  end.

(* byte x lies in one of the regions *)
Definition inr (r : region) (x : Z) : Prop := rb r <= x <= re r.
Definition covered (rs : list region) (x : Z) : Prop := exists r, In r rs /\ inr r x.

(* the set invariant: sorted, pairwise disjoint and non-adjacent, every region non-empty *)
Definition lt_reg (a b : region) : Prop := re a + 1 < rb b.
Definition wf_reg (r : region) : Prop := rb r <= re r.
Definition Good (rs : list region) : Prop := StronglySorted lt_reg rs /\ Forall wf_reg rs.

(* enumeration of the covered bytes (used to state "total_size = number of distinct covered bytes") *)
Fixpoint zseq (lo : Z) (n : nat) : list Z :=
  match n with O => [] | S n' => lo :: zseq (lo + 1) n' end.
Definition points (rs : list region) : list Z := flat_map (fun r => zseq (rb r) (Z.to_nat (rsize r))) rs.

(* boolean equalities for the correspondence checks *)
Definition region_eqb (a b : region) : bool := (rb a =? rb b) && (re a =? re b).
Fixpoint regions_eqb (a b : list region) : bool :=
  match a, b with
  | [], [] => true
  | x :: a', y :: b' => region_eqb x y && regions_eqb a' b'
  | _, _ => false
  end.
