(* Layer handles: Model/Store.v composed with the reference counting of fs/layer.Resolver's layer cache
   (util/cacheutil.TTLCache, the subject of C10), so that Layer.Done() calls of the LayerManager are part of the model.
   Executable definitions only; proofs are in Proofs/StoreRef.v.

   Resolver.Resolve(ref, layer digest) returns a HANDLE (layerRef) on a layer OBJECT: the object cached under that key if
   there is one (TTL cache hit), else a new object that enters the cache. Handle.Done() gives the handle back. The TTL
   timer ([Expire]) takes the object out of the cache. An object is CLOSED (layer.close: readers and blob closed, every
   later Check/Verify/RootNode fails) when it is out of the cache and no handle is outstanding - exactly C10's theorem.
     objs   every layer object ever created: (ref, layer digest, outstanding handles, in cache?, closed?)
     held   the handles the manager keeps: LayerManager.layer[ref][toc] = handle on object oid
   The manager (store/manager.go):
     resolveLayer  Resolve -> handle h; cacheLayer: (ref,toc) not cached -> keep h in r.layer;
                   already cached -> h.Done() (the duplicate is given back, the kept handle stays)      [dup_done]
     release       every layer it deletes from r.layer is Done()
   [dupv]: which handle resolveLayer gives back on the duplicate path: [DupFresh] = the code (l.Done()),
   [DupHeld] = the handle kept in r.layer (cachedL.Done()) - the fault class this model exists to exclude. *)
From Coq Require Import List Arith ZArith Bool.
From SV Require Export Model.Store.
Import ListNotations.

Record obj := mkObj { ob_r : nat; ob_l : nat; ob_refs : Z; ob_in : bool; ob_closed : bool }.

Record rst := mkR { base : st; objs : list obj; held : list (nat * nat * nat) }.

Definition rinit : rst := mkR init [] [].

Inductive dupv := DupFresh | DupHeld.

Fixpoint upd_obj (os : list obj) (i : nat) (f : obj -> obj) : list obj :=
  match os, i with
  | [], _ => []
  | o :: tl, O => f o :: tl
  | o :: tl, S j => o :: upd_obj tl j f
  end.

(* TTL cache lookup: the object cached under (r, l) *)
Fixpoint find_in (os : list obj) (r l : nat) (i : nat) : option nat :=
  match os with
  | [] => None
  | o :: tl => if ob_in o && key2 r l (ob_r o) (ob_l o) then Some i else find_in tl r l (S i)
  end.

(* Resolver.Resolve, success: a handle on the cached object, or on a new object that enters the cache *)
Definition acquire (os : list obj) (r l : nat) : list obj * nat :=
  match find_in os r l 0 with
  | Some i => (upd_obj os i (fun o => mkObj (ob_r o) (ob_l o) (ob_refs o + 1) (ob_in o) (ob_closed o)), i)
  | None => (os ++ [mkObj r l 1 true false], length os)
  end.

(* handle.Done(): give the handle back; the object is closed when it is out of the cache and this was the last handle *)
Definition done1 (os : list obj) (i : nat) : list obj :=
  upd_obj os i (fun o => let c := (ob_refs o - 1)%Z in
                         mkObj (ob_r o) (ob_l o) c (ob_in o) (ob_closed o || ((c <=? 0)%Z && negb (ob_in o)))).

(* the TTL timer of key (r, l) *)
Definition expire_objs (os : list obj) (r l : nat) : list obj :=
  map (fun o => if ob_in o && key2 r l (ob_r o) (ob_l o)
                then mkObj (ob_r o) (ob_l o) (ob_refs o) false (ob_closed o || (ob_refs o <=? 0)%Z)
                else o) os.

Fixpoint held_find (hs : list (nat * nat * nat)) (r t : nat) : option nat :=
  match hs with
  | [] => None
  | (a, b, i) :: tl => if key2 r t a b then Some i else held_find tl r t
  end.

(* one resolveLayer goroutine, with the handles *)
Definition rresolve1 (dv : dupv) (w : world) (s : rst) (r l : nat) (f : bool) : rst :=
  let b := base s in
  match memo_find (memo b) r l with
  | Some _ => s
  | None =>
      match toc_of w l with
      | Some t =>
          if in_rcache b r l || negb f then
            let '(os1, i) := acquire (objs s) r l in
            if cached b r t then
              (* duplicate path *)
              match dv with
              | DupFresh => mkR (resolve1 w b r l f) (done1 os1 i) (held s)
              | DupHeld =>
                  match held_find (held s) r t with
                  | Some j => mkR (resolve1 w b r l f) (done1 os1 j) (held s)
                  | None => mkR (resolve1 w b r l f) os1 (held s)
                  end
              end
            else mkR (resolve1 w b r l f) os1 ((r, t, i) :: held s)
          else mkR (resolve1 w b r l f) (objs s) (held s)
      | None => mkR (resolve1 w b r l f) (objs s) (held s)
      end
  end.

Definition rfold (dv : dupv) (w : world) (r : nat) (fl : list nat) (ls : list nat) (s : rst) : rst :=
  fold_left (fun s l => rresolve1 dv w s r l (mem l fl)) ls s.

Definition rget_layer (dv : dupv) (w : world) (s : rst) (r t : nat) (mf : bool) (fl : list nat) : rst :=
  if cached (base s) r t then s
  else match loadref w (base s) r mf with
       | None => s
       | Some b1 => rfold dv w r fl (image w r) (mkR b1 (objs s) (held s))
       end.

(* release: every handle whose layer left r.layer is Done() *)
Definition still (b : st) (e : nat * nat * nat) : bool := cached b (fst (fst e)) (snd (fst e)).
Definition rrelease (s : rst) (r t : nat) : rst :=
  let b' := fst (release_fixed (base s) r t) in
  let gone := filter (fun e => negb (still b' e)) (held s) in
  mkR b' (fold_left done1 (map snd gone) (objs s)) (filter (still b') (held s)).

Definition rstep (dv : dupv) (w : world) (s : rst) (o : op) : rst :=
  match o with
  | Lookup r t mf fl => rget_layer dv w s r t mf fl
  | Resolve r l f => if mem l (image w r) then rresolve1 dv w s r l f else s
  | Release r t => rrelease s r t
  | Expire r l => mkR (fst (step Fixed w (base s) o)) (expire_objs (objs s) r l) (held s)
  | _ => mkR (fst (step Fixed w (base s) o)) (objs s) (held s)
  end.

Definition rexec (dv : dupv) (w : world) (s : rst) (os : list op) : rst :=
  fold_left (rstep dv w) os s.

(* the held layers whose object is closed (what the harness observes as Check() failing on a cached layer) *)
Definition closed_held (s : rst) : list (nat * nat) :=
  map (fun e => fst e)
      (filter (fun e => match nth_error (objs s) (snd e) with Some o => ob_closed o | None => true end) (held s)).

(* ---- correspondence: Model/Store.v's check + the closed held layers ---- *)
Record robs := mkRObs { ro_obs : obs; ro_closed : list (nat * nat) }.

Definition tk (a b : nat) : nat * nat := (a, b).
Definition k_eqb (a b : nat * nat) : bool := Nat.eqb (fst a) (fst b) && Nat.eqb (snd a) (snd b).

Fixpoint rall_ok (w : world) (s : st) (rs : rst) (os : list op) (ob : list robs) : bool :=
  match os, ob with
  | [], [] => true
  | o :: ot, x :: xt =>
      let '(s1, res) := step Fixed w s o in
      let rs1 := rstep DupFresh w rs o in
      obs_ok (res, s1) (ro_obs x)
      && (negb (o_chk (ro_obs x)) || seteq k_eqb (closed_held rs1) (ro_closed x))
      && rall_ok w s1 rs1 ot xt
  | _, _ => false
  end.

Definition case := (world * list op * list robs)%type.
Definition case_ok (c : case) : bool := let '(w, os, ob) := c in rall_ok w init rinit os ob.
Fixpoint mismatches_from (n : nat) (cs : list case) : list nat :=
  match cs with
  | [] => []
  | c :: t => if case_ok c then mismatches_from (S n) t else n :: mismatches_from (S n) t
  end.
Definition mismatches := mismatches_from 0.
