(* C07: the case type of the correspondence harness cmd/node — a node history (Model/Node.v) or a whole stack
   (Model/Overlay.v): for a stack the harness supplies the layers' metadata trees and, for a set of probe paths, what the
   Go overlay merge of the trees REALLY SERVED resolves the path to and what the Go OCI application of the TARS resolves it
   to; the model must be in its allowed class and compute both. Executable definitions only. *)
From Coq Require Import List ZArith Bool String.
From SV Require Export Model.Node Model.Overlay.
Import ListNotations.
Local Open Scope Z_scope.

(* [] = absent; otherwise present flag, st_mode, uid, gid, size (0 for directories), rdev *)
Definition enc_res (r : option (ent * fattr)) : list Z :=
  match r with
  | None => []
  | Some (_, a) => [1; f_mode a; f_uid a; f_gid a; (if is_dir_attr a then 0 else f_size a); f_rdev a]
  end.

Definition probe := (list string * list Z * list Z)%type.   (* path, observed in the overlay merge, observed in the image *)

Inductive case :=
| NC (k : Node.case)
| SC (s : stack) (ps : list probe).

Definition stack_ok (s : stack) (ps : list probe) : bool :=
  let o := overlay_stack s in
  let i := oci_stack s in
  allowed_stack s
  && forallb (fun pr => match pr with
                        | (p, a, b) => zlist_eqb (enc_res (resolve o p)) a && zlist_eqb (enc_res (resolve i p)) b
                        end) ps.

Definition case_ok (k : case) : bool :=
  match k with
  | NC n => Node.case_ok n
  | SC s ps => stack_ok s ps
  end.

Fixpoint mismatches_from (n : nat) (cs : list case) : list nat :=
  match cs with
  | [] => []
  | k :: t => if case_ok k then mismatches_from (S n) t else n :: mismatches_from (S n) t
  end.
Definition mismatches := mismatches_from 0.
