(* Model of the FUSE node handlers of store/fs.go on top of Model/Store.v (the LayerManager).
   Executable definitions only; proofs are in Proofs/StoreFS.v.

   The additional-layer store is a tree  <root>/<base64(ref)>/<toc digest>/{diff,blob,info,use}.
   A client path operation is a walk of Lookup handlers followed by the final handler:
     rootnode.Lookup(name)    child exists -> it; "pool" -> symlink; base64 / reference.Parse failure -> EINVAL;
                              else a new persistent refnode (no manager call)
     refnode.Lookup(name)     child exists -> it; digest.Parse failure -> EINVAL; else a new persistent layernode
     layernode.Lookup(name)   child exists -> it (NO manager call: the node is served from the tree);
                              "info" -> getLayerInfo, error -> EIO, else a persistent file with the JSON;
                              "diff"|"blob" -> getLayer + Verify(directory name), error -> EIO, else a persistent node;
                              "use" and every other name -> ENOENT
     layernode.Create(name)   "use" -> LayerManager.use; always ENOENT
     refnode.Rmdir(name)      digest.Parse failure -> EINVAL; release: error -> EIO; when the returned count is 0 the
                              layernode of that name and its children are removed; always ENOENT.
                              [with C16-fix-3: right after release, whatever it returned, every layernode of the ref whose
                              layer the manager does not hold is removed with its children]
   State = manager state + the node tree:
     rnodes  refs that have a refnode;  lnodes (ref, toc) that have a layernode;
     fnodes  (ref, toc, kind, payload): children of layernodes; kind 0 diff, 1 blob, 2 info;
             payload for info: 0 = only the TOC digest, S i = diff id of layer index i; 0 otherwise.
   [fvariant]: [FNoSweep] = store/fs.go as it was when C16-fix-2 was written (Rmdir removes only the nodes of the released
   directory), [FSweep] = with patches/C16-fix-3.diff (what the working tree contains). *)
From Coq Require Import List Arith ZArith Bool.
From SV Require Export Model.Store.
Import ListNotations.

Inductive fkind := KDiff | KBlob | KInfo | KUse | KOther.
Definition kcode (k : fkind) : nat := match k with KDiff => 0 | KBlob => 1 | KInfo => 2 | _ => 3 end.

Inductive fvariant := FNoSweep | FSweep.

Inductive fop :=
| FLookup (r t : nat) (k : fkind) (mf : bool) (fl : list nat)  (* stat <root>/<ref>/<toc>/<k> *)
| FUse (r t : nat)                                             (* creat <root>/<ref>/<toc>/use *)
| FCreateOther (r t : nat)                                     (* creat of any other name *)
| FRmdir (r t : nat)                                           (* rmdir <root>/<ref>/<toc> *)
| FBadRef                                                      (* root lookup of a name that is not base64 of a reference *)
| FBadDigest (r : nat) (rm : bool)                             (* refnode Lookup / Rmdir of a name that is not a digest *)
| FPool                                                        (* root lookup of "pool" *)
| FExpire (r l : nat).                                         (* not a handler: TTL timer of the resolver caches *)

Inductive errno := EOK | ENOENT | EIO | EINVAL.

Record fstate := mkF {
  mgr : st;
  rnodes : list nat;
  lnodes : list (nat * nat);
  fnodes : list (nat * nat * nat * nat)
}.

Definition finit : fstate := mkF init [] [] [].

Definition set_mgr f s := mkF s (rnodes f) (lnodes f) (fnodes f).

Definition has_l (f : fstate) (r t : nat) : bool := existsb (fun e => key2 r t (fst e) (snd e)) (lnodes f).
Definition fkey (r t k : nat) (e : nat * nat * nat * nat) : bool :=
  key2 r t (fst (fst (fst e))) (snd (fst (fst e))) && Nat.eqb (snd (fst e)) k.
Definition has_f (f : fstate) (r t k : nat) : bool := existsb (fkey r t k) (fnodes f).

(* the walk root -> refnode -> layernode creates the two directories when they are not there *)
Definition ensure_r (f : fstate) (r : nat) : fstate :=
  if mem r (rnodes f) then f else mkF (mgr f) (r :: rnodes f) (lnodes f) (fnodes f).
Definition ensure_l (f : fstate) (r t : nat) : fstate :=
  let f1 := ensure_r f r in
  if has_l f1 r t then f1 else mkF (mgr f1) (rnodes f1) ((r, t) :: lnodes f1) (fnodes f1).

Definition add_f (f : fstate) (s : st) (r t k p : nat) : fstate := mkF s (rnodes f) (lnodes f) ((r, t, k, p) :: fnodes f).

(* Rmdir with count 0: drop the directory (r,t) with its children *)
Definition rm_dir (f : fstate) (r t : nat) : fstate :=
  mkF (mgr f) (rnodes f)
      (filter (fun e => negb (key2 r t (fst e) (snd e))) (lnodes f))
      (filter (fun e => negb (key2 r t (fst (fst (fst e))) (snd (fst (fst e))))) (fnodes f)).

(* C16-fix-3: after release (whatever it returned) drop every layer directory of r whose layer the manager does not hold *)
Definition held (f : fstate) (r : nat) (e : nat * nat) : bool := negb (Nat.eqb (fst e) r) || cached (mgr f) (fst e) (snd e).
Definition sweep (v : fvariant) (f : fstate) (r : nat) : fstate :=
  match v with
  | FNoSweep => f
  | FSweep => mkF (mgr f) (rnodes f) (filter (held f r) (lnodes f)) (filter (fun e => held f r (fst (fst e))) (fnodes f))
  end.

Definition fstep (v : fvariant) (w : world) (f : fstate) (o : fop) : fstate * errno :=
  match o with
  | FLookup r t k mf fl =>
      let f1 := ensure_l f r t in
      match k with
      | KUse | KOther => (f1, ENOENT)
      | KInfo =>
          if has_f f1 r t 2 then (f1, EOK)
          else let '(s', x) := get_info w (mgr f1) r t mf in
               match x with
               | RInfoEmpty => (add_f f1 s' r t 2 0, EOK)
               | RInfoFull i => (add_f f1 s' r t 2 (S i), EOK)
               | _ => (set_mgr f1 s', EIO)
               end
      | _ =>
          if has_f f1 r t (kcode k) then (f1, EOK)
          else let '(s', x) := get_layer w (mgr f1) r t mf fl in
               match x with
               | ROk => (add_f f1 s' r t (kcode k) 0, EOK)
               | _ => (set_mgr f1 s', EIO)
               end
      end
  | FUse r t =>
      let f1 := ensure_l f r t in
      (set_mgr f1 (fst (use (mgr f1) r t)), ENOENT)
  | FCreateOther r t => (ensure_l f r t, ENOENT)
  | FRmdir r t =>
      let f1 := ensure_l f r t in   (* the kernel looks the victim up before it sends RMDIR *)
      let '(s', x) := release Fixed (mgr f1) r t in
      let f2 := sweep v (set_mgr f1 s') r in
      match x with
      | RCount c => ((if Z.eqb c 0 then rm_dir f2 r t else f2), ENOENT)
      | _ => (f2, EIO)
      end
  | FBadRef => (f, EINVAL)
  | FBadDigest r rm => (ensure_r f r, EINVAL)
  | FPool => (f, EOK)
  | FExpire r l => (set_mgr f (fst (step Fixed w (mgr f) (Expire r l))), EOK)
  end.

Definition fexec (v : fvariant) (w : world) (f : fstate) (os : list fop) : fstate :=
  fold_left (fun f o => fst (fstep v w f o)) os f.

(* the manager calls a handler operation makes in state f (none when the node is served from the tree) *)
Definition mgr_ops (f : fstate) (o : fop) : list op :=
  match o with
  | FLookup r t k mf fl =>
      match k with
      | KUse | KOther => []
      | KInfo => if has_f (ensure_l f r t) r t 2 then [] else [Info r t mf]
      | _ => if has_f (ensure_l f r t) r t (kcode k) then [] else [Lookup r t mf fl]
      end
  | FUse r t => [Use r t]
  | FRmdir r t => [Release r t]
  | FExpire r l => [Expire r l]
  | _ => []
  end.

Fixpoint ftrace (v : fvariant) (w : world) (f : fstate) (os : list fop) : list op :=
  match os with
  | [] => []
  | o :: tl => mgr_ops f o ++ ftrace v w (fst (fstep v w f o)) tl
  end.

(* errno of a handler operation as a function of the node tree and of the result of its manager call *)
Definition errno_of (f : fstate) (o : fop) (x : option res) : errno :=
  match o with
  | FLookup r t k _ _ =>
      match k with
      | KUse | KOther => ENOENT
      | KInfo => match x with
                 | None => EOK                  (* served from the tree *)
                 | Some RInfoEmpty | Some (RInfoFull _) => EOK
                 | Some _ => EIO
                 end
      | _ => match x with
             | None => EOK                      (* served from the tree *)
             | Some ROk => EOK
             | Some _ => EIO
             end
      end
  | FUse _ _ | FCreateOther _ _ => ENOENT
  | FRmdir _ _ => match x with Some (RCount _) => ENOENT | _ => EIO end
  | FBadRef | FBadDigest _ _ => EINVAL
  | FPool | FExpire _ _ => EOK
  end.

(* ---- correspondence ---- *)
Record fobs := mkFObs {
  fo_err : errno;
  fo_state : obs;                       (* manager dump (o_res unused) *)
  fo_rnodes : list nat;
  fo_lnodes : list (nat * nat);
  fo_fnodes : list (nat * nat * nat * nat)
}.

Fixpoint frun (v : fvariant) (w : world) (f : fstate) (os : list fop) : list (errno * fstate) :=
  match os with
  | [] => []
  | o :: tl => let '(f1, e) := fstep v w f o in (e, f1) :: frun v w f1 tl
  end.

Definition errno_eqb (a b : errno) : bool :=
  match a, b with EOK, EOK | ENOENT, ENOENT | EIO, EIO | EINVAL, EINVAL => true | _, _ => false end.
Definition ln_eqb (a b : nat * nat) := Nat.eqb (fst a) (fst b) && Nat.eqb (snd a) (snd b).
Definition fn_eqb (a b : nat * nat * nat * nat) :=
  l_eqb (fst a) (fst b) && Nat.eqb (snd a) (snd b).

Definition fobs_ok (x : errno * fstate) (o : fobs) : bool :=
  let '(e, f) := x in
  errno_eqb e (fo_err o)
  && obs_ok (o_res (fo_state o), mgr f) (fo_state o)
  && seteq Nat.eqb (rnodes f) (fo_rnodes o) && seteq ln_eqb (lnodes f) (fo_lnodes o) && seteq fn_eqb (fnodes f) (fo_fnodes o).

Fixpoint fall_ok (xs : list (errno * fstate)) (os : list fobs) : bool :=
  match xs, os with
  | [], [] => true
  | x :: xt, o :: ot => fobs_ok x o && fall_ok xt ot
  | _, _ => false
  end.

Definition tn (a b : nat) : nat * nat := (a, b).
Definition tf (a b c d : nat) : nat * nat * nat * nat := (a, b, c, d).

Definition case := (world * list fop * list fobs)%type.
Definition case_ok_v (v : fvariant) (c : case) : bool :=
  let '(w, os, ob) := c in fall_ok (frun v w finit os) ob.
Definition case_ok := case_ok_v FSweep.
Fixpoint mismatches_from (n : nat) (cs : list case) : list nat :=
  match cs with
  | [] => []
  | c :: t => if case_ok c then mismatches_from (S n) t else n :: mismatches_from (S n) t
  end.
Definition mismatches := mismatches_from 0.
