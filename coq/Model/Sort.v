(* Model of estargz/build.go sortEntries (C14): importTar, moveRec, tarFile.{add,remove,get,dump},
   cleanEntryName. Executable definitions only; proofs are in Proofs/Sort.v.

   Names. A raw tar name / prioritized path / hardlink target is a [string] (bytes). cleanEntryName
   (strings.TrimPrefix(path.Clean("/"+name), "/")) is modelled by [clean], which returns the list of the
   path components of the cleaned name ([] = the root ""). Two cleaned Go strings are equal iff their
   component lists are equal; the parent taken by moveRec (path.Split(strings.TrimSuffix(name,"/")) and
   cleaning again) is [removelast].

   tarFile. [stream] is the list of entries in order; [index] (a map keyed by the cleaned name) is
   derived: importTar never leaves two entries with the same cleaned name in the input tarFile (proved:
   Proofs/Sort.v import_nodup), and moveRec adds to [out] and to [picked] together, so
   picked = the set of cleaned names of [out].

   The model is of the code WITH patches/C14-fix-1 (the not-found test applies to the requested path and to
   hardlink targets only: [req]) and patches/C14-fix-2 (names on the current recursion path: [vis]; reaching one
   again is an error). Go recursion is unbounded; here it is bounded by [fuel] ([MFuel] = Go would not
   return); Proofs/Sort.v shows that the fuel given by [sort_entries] is always enough. *)
From Coq Require Import List Arith Bool String Ascii NArith.
From SV Require Import Gen.Consts.
Import ListNotations.

Definition path := list string.

Fixpoint path_eqb (a b : path) : bool :=
  match a, b with
  | [], [] => true
  | x :: a', y :: b' => String.eqb x y && path_eqb a' b'
  | _, _ => false
  end.

(* split at every '/' (always at least one component) *)
Fixpoint comps (s : string) : list string :=
  match s with
  | EmptyString => [EmptyString]
  | String c r =>
      if Ascii.eqb c "/"%char then EmptyString :: comps r
      else match comps r with
           | h :: t => String c h :: t
           | [] => [String c EmptyString]
           end
  end.

(* path.Clean of a rooted path: the stack of components is kept reversed *)
Definition clean_step (st : list string) (c : string) : list string :=
  if String.eqb c ""%string || String.eqb c "."%string then st
  else if String.eqb c ".."%string then tl st
  else c :: st.

Definition clean (s : string) : path := rev (fold_left clean_step (comps s) []).

Definition parent (p : path) : path := removelast p.

(* one tar entry: identity (position in the input blob), raw name, Some raw Linkname iff Typeflag = TypeLink *)
Record entry := mkE { e_id : nat; e_name : string; e_link : option string }.

Definition key (e : entry) : path := clean (e_name e).

Definition str_of_bytes (l : list N) : string :=
  fold_right (fun n s => String (ascii_of_N n) s) EmptyString l.
Definition prefetch_key : path := clean (str_of_bytes prefetch_landmark).
Definition noprefetch_key : path := clean (str_of_bytes no_prefetch_landmark).
Definition is_landmark (p : path) : bool := path_eqb p prefetch_key || path_eqb p noprefetch_key.

(* tarFile.get / membership of the index, tarFile.remove *)
Definition has_key (p : path) (l : list entry) : bool := existsb (fun e => path_eqb (key e) p) l.
Definition get (l : list entry) (p : path) : option entry := find (fun e => path_eqb (key e) p) l.
Definition remove_key (p : path) (l : list entry) : list entry :=
  filter (fun e => negb (path_eqb (key e) p)) l.

(* importTar: landmarks of the input are ignored; a repeated (cleaned) name replaces the earlier
   entry and goes to the end of the stream *)
Fixpoint import_from (acc t : list entry) : list entry :=
  match t with
  | [] => acc
  | e :: t' =>
      if is_landmark (key e) then import_from acc t'
      else import_from (remove_key (key e) acc ++ [e]) t'
  end.
Definition import (t : list entry) : list entry := import_from [] t.

Definition mem_path (p : path) (l : list path) : bool := existsb (path_eqb p) l.

(* moveRecFrom. The out state is returned also on error: Go mutates out/picked in place. *)
Inductive mres :=
| MOk (out : list entry)
| MNotFound (out : list entry)
| MCycle
| MFuel.

Fixpoint move_rec (fuel : nat) (inp : list entry) (req : bool) (vis : list path) (p : path)
         (out : list entry) : mres :=
  match fuel with
  | O => MFuel
  | S f =>
      match p with
      | [] =>
          match get inp [] with
          | Some e => if has_key [] out then MOk out else MOk (out ++ [e])
          | None => MOk out
          end
      | _ :: _ =>
          if req && negb (has_key p inp) then MNotFound out
          else if mem_path p vis then MCycle
          else
            match move_rec f inp false (p :: vis) (parent p) out with
            | MOk out1 =>
                let r :=
                  match get inp p with
                  | Some e =>
                      match e_link e with
                      | Some l => move_rec f inp true (p :: vis) (clean l) out1
                      | None => MOk out1
                      end
                  | None => MOk out1
                  end in
                match r with
                | MOk out2 =>
                    if has_key p out2 then MOk out2
                    else match get inp p with
                         | Some e => MOk (out2 ++ [e])
                         | None => MOk out2
                         end
                | MNotFound o => MNotFound o
                | MCycle => MCycle
                | MFuel => MFuel
                end
            | MNotFound o => MNotFound o
            | MCycle => MCycle
            | MFuel => MFuel
            end
      end
  end.

(* every name the recursion started at p0 can ever visit *)
Fixpoint prefixes (p : path) : list path :=
  match p with
  | [] => [[]]
  | x :: t => [] :: map (cons x) (prefixes t)
  end.
Definition universe (inp : list entry) (p0 : path) : list path :=
  prefixes p0 ++
  flat_map (fun e => prefixes (key e) ++
                     match e_link e with Some l => prefixes (clean l) | None => [] end) inp.
Definition fuel_for (inp : list entry) (p0 : path) : nat := S (S (List.length (universe inp p0))).

Definition move_top (inp : list entry) (l : string) (out : list entry) : mres :=
  move_rec (fuel_for inp (clean l)) inp true [] (clean l) out.

Inductive ares :=
| AOk (out : list entry) (missed : list string)
| ANotFound
| ACycle
| AFuel.

(* the loop over the prioritized list in sortEntries *)
Fixpoint move_all (inp : list entry) (allow : bool) (prio : list string) (out : list entry)
         (missed : list string) : ares :=
  match prio with
  | [] => AOk out missed
  | l :: ps =>
      match move_top inp l out with
      | MOk out' => move_all inp allow ps out' missed
      | MNotFound out' => if allow then move_all inp allow ps out' (missed ++ [l]) else ANotFound
      | MCycle => ACycle
      | MFuel => AFuel
      end
  end.

Inductive item := IEnt (e : entry) | ILand (prefetch : bool).

Inductive sres :=
| SOk (out : list item) (missed : list string)
| SNotFound      (* error wrapping errNotFound: the build is aborted *)
| SCycle         (* other error (hardlink cycle): the build is aborted *)
| SFuel.

Definition is_nil {A} (l : list A) : bool := match l with [] => true | _ => false end.

(* intar.dump(picked) *)
Definition rest (inp g : list entry) : list entry :=
  filter (fun e => negb (has_key (key e) g)) inp.

Definition sort_entries (t : list entry) (prio : list string) (allow : bool) : sres :=
  let inp := import t in
  match move_all inp allow prio [] [] with
  | AOk g missed =>
      SOk (map IEnt g ++ [ILand (negb (is_nil prio))] ++ map IEnt (rest inp g)) missed
  | ANotFound => SNotFound
  | ACycle => SCycle
  | AFuel => SFuel
  end.

(* ---- correspondence: what the harness observes on the implementation ---- *)
Inductive oitem := OEnt (id : nat) | OLand (prefetch : bool).
Inductive obs :=
| OOk (out : list oitem) (missed : list string)
| ONotFound
| OOther.

Definition oitem_eqb (a : item) (b : oitem) : bool :=
  match a, b with
  | IEnt e, OEnt i => Nat.eqb (e_id e) i
  | ILand x, OLand y => Bool.eqb x y
  | _, _ => false
  end.
Fixpoint items_eqb (a : list item) (b : list oitem) : bool :=
  match a, b with
  | [], [] => true
  | x :: a', y :: b' => oitem_eqb x y && items_eqb a' b'
  | _, _ => false
  end.
Fixpoint strs_eqb (a b : list string) : bool :=
  match a, b with
  | [], [] => true
  | x :: a', y :: b' => String.eqb x y && strs_eqb a' b'
  | _, _ => false
  end.

Definition res_eqb (r : sres) (o : obs) : bool :=
  match r, o with
  | SOk out m, OOk out' m' => items_eqb out out' && strs_eqb m m'
  | SNotFound, ONotFound => true
  | SCycle, OOther => true
  | _, _ => false
  end.

(* a case = input tar, prioritized list, allow-not-found, cleaned spellings observed through
   cleanEntryName for every raw string of the case (name, linkname, prioritized), observed result *)
Definition case := (list entry * list string * bool * list (string * list string) * obs)%type.

Fixpoint cleans_ok (l : list (string * list string)) : bool :=
  match l with
  | [] => true
  | (raw, cl) :: t => path_eqb (clean raw) cl && cleans_ok t
  end.

Definition case_ok (c : case) : bool :=
  let '(t, prio, allow, cl, o) := c in
  cleans_ok cl && res_eqb (sort_entries t prio allow) o.

Fixpoint mismatches_from (n : nat) (cs : list case) : list nat :=
  match cs with
  | [] => []
  | c :: t => if case_ok c then mismatches_from (S n) t else n :: mismatches_from (S n) t
  end.
Definition mismatches := mismatches_from 0.
