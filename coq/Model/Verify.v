(* Model of the verification chain of fs/reader (VerifiableReader / reader / file.ReadAt) and of
   fs/layer Verify / SkipVerify.  Executable definitions only; proofs are in Proofs/Verify.v.

   What is modelled (code as it is in /repo, including patches/C01-fix-1.diff):

   * the TOC actually parsed is a table  file id -> chunk entries (ChunkOffset, ChunkSize, the digest
     handed out by File.ChunkEntryForOffset [c_dig: ChunkDigest, else Digest], the digest handed to the
     pre-read callback [c_pdig: ChunkDigest]); a digest string that does not parse is [None]
     (digestVerifier returns an error);  [s_tocd] is metadata.Reader.TOCDigest().
   * hashing is the Section variable [H] (SHA-256 in the implementation); nothing is assumed about it.
   * the chunk cache is an association list keyed by genID(id, chunkOffset, chunkSize) = the triple.
   * ATOMIC SUB-STEPS ([op], [step]) follow the locks the code really takes:
       Decide          = the prohibitVerifyFailureMu.Lock section of VerifyTOC (sets the flag; the value of
                         lastVerifyErr it reads cannot change afterwards, lemma last_err_frozen)
       VerifyTOC d     = lock section + digest comparison + verify := true
       PfCheck         = readAndCache up to and including its RLock section: verifier lookup, hash of the
                         bytes the adversary supplied, "if prohibitVerifyFailure then abort else record lastVerifyErr";
                         a surviving writer is put in [s_pend] (not yet visible in the cache)
       OdCheck         = verifyOneChunk of the on-demand path (reads gr.verify), surviving data pending
       Commit i        = w.Commit() of pending writer i (the only step that makes bytes visible)
       Evict k         = the cache dropping an entry
       MgStart / MgHit / MgFetch / MgCommit / MgAbort = the passthrough merge (GetPassthroughFd): a whole-file cache
                         writer, per chunk either the cached bytes appended as they are or fetched bytes appended after
                         verifyOneChunk, then Commit under genID(id, 0, total) or Abort
       SkipVerify, LVerify d, LSkip = reader / layer level API calls
     An arbitrary interleaving of prefetch goroutines, on-demand reads and VerifyTOC is an arbitrary [list op].
   * COMPOSITES ([hop], [hstep]) are the sequential API calls the harness issues (OpenFile+ReadAt, one
     readAndCache, Cache(), VerifyTOC ...). Each is a composition of atomic steps (Proofs: hstep_steps).
     The adversary (registry / mirror / compressed-blob cache) is the [fetch] argument: what the metadata
     store's File.ReadAt delivered for a chunk, including the pre-read callbacks it made.
   * ghost flag [s_tainted]: an on-demand read in skip-verify mode accepted bytes that do not match the
     recorded digest (such bytes are cached without any check, reader.go verifyChunk: "if !gr.verify return nil"). *)
From Coq Require Import List NArith ZArith Bool.
Import ListNotations.
Local Open Scope Z_scope.

Definition bytes := list N.
Definition digest := N.
Definition key := (N * Z * Z)%type.            (* file id, ChunkOffset, ChunkSize *)

Record chunk := mkChunk { c_off : Z; c_size : Z; c_dig : option digest; c_pdig : option digest }.
Definition toc := list (N * list chunk).

Definition key_eqb (a b : key) : bool :=
  let '(f, o, z) := a in let '(f', o', z') := b in N.eqb f f' && Z.eqb o o' && Z.eqb z z'.

Fixpoint file_chunks (T : toc) (f : N) : list chunk :=
  match T with
  | [] => []
  | (f', cs) :: t => if N.eqb f' f then cs else file_chunks t f
  end.

Definition chunk_at (T : toc) (f : N) (i : nat) : option chunk := nth_error (file_chunks T f) i.
Definition key_of (f : N) (c : chunk) : key := (f, c_off c, c_size c).

Definition opt_is (o : option digest) (d : digest) : bool :=
  match o with Some x => N.eqb x d | None => false end.

(* digests recorded in the TOC for the chunk with this key *)
Definition recorded (T : toc) (k : key) (d : digest) : bool :=
  let '(f, o, z) := k in
  existsb (fun c => Z.eqb (c_off c) o && Z.eqb (c_size c) z && (opt_is (c_dig c) d || opt_is (c_pdig c) d))
          (file_chunks T f).

Fixpoint get (c : list (key * bytes)) (k : key) : option bytes :=
  match c with
  | [] => None
  | (k', b) :: t => if key_eqb k' k then Some b else get t k
  end.

Fixpoint upd_nth {A} (l : list A) (n : nat) (x : A) : list A :=
  match l, n with
  | [], _ => []
  | _ :: t, O => x :: t
  | h :: t, S n' => h :: upd_nth t n' x
  end.

Fixpoint remove_nth {A} (l : list A) (n : nat) : list A :=
  match l, n with
  | [], _ => []
  | _ :: t, O => t
  | h :: t, S n' => h :: remove_nth t n'
  end.

Definition slice (lo n : Z) (b : bytes) : bytes := firstn (Z.to_nat n) (skipn (Z.to_nat lo) b).
Definition zlen (b : bytes) : Z := Z.of_nat (length b).
Definition positive (n : Z) : Z := if n <? 0 then 0 else n.

Record st := mkSt {
  s_toc : toc;
  s_tocd : digest;                   (* TOCDigest() of the TOC actually parsed *)
  s_verify : bool;                   (* reader.verify *)
  s_decided : bool;                  (* VerifiableReader.prohibitVerifyFailure *)
  s_lasterr : bool;                  (* VerifiableReader.lastVerifyErr != nil *)
  s_handle : bool;                   (* a reader.Reader has been handed out (SkipVerify or successful VerifyTOC) *)
  s_lr : bool;                       (* layer.r != nil *)
  s_tainted : bool;                  (* ghost, see above *)
  s_cache : list (key * bytes);
  s_pend : list (key * bytes);       (* cache writers between verification and Commit *)
  s_merge : list (N * bytes)         (* passthrough merge writers: file id, bytes written so far *)
}.

Definition init (T : toc) (d : digest) : st := mkSt T d false false false false false false [] [] [].

Definition set_verify s v := mkSt (s_toc s) (s_tocd s) v (s_decided s) (s_lasterr s) (s_handle s) (s_lr s) (s_tainted s) (s_cache s) (s_pend s) (s_merge s).
Definition set_decided s v := mkSt (s_toc s) (s_tocd s) (s_verify s) v (s_lasterr s) (s_handle s) (s_lr s) (s_tainted s) (s_cache s) (s_pend s) (s_merge s).
Definition set_lasterr s v := mkSt (s_toc s) (s_tocd s) (s_verify s) (s_decided s) v (s_handle s) (s_lr s) (s_tainted s) (s_cache s) (s_pend s) (s_merge s).
Definition set_handle s v := mkSt (s_toc s) (s_tocd s) (s_verify s) (s_decided s) (s_lasterr s) v (s_lr s) (s_tainted s) (s_cache s) (s_pend s) (s_merge s).
Definition set_lr s v := mkSt (s_toc s) (s_tocd s) (s_verify s) (s_decided s) (s_lasterr s) (s_handle s) v (s_tainted s) (s_cache s) (s_pend s) (s_merge s).
Definition set_tainted s v := mkSt (s_toc s) (s_tocd s) (s_verify s) (s_decided s) (s_lasterr s) (s_handle s) (s_lr s) v (s_cache s) (s_pend s) (s_merge s).
Definition set_cache s v := mkSt (s_toc s) (s_tocd s) (s_verify s) (s_decided s) (s_lasterr s) (s_handle s) (s_lr s) (s_tainted s) v (s_pend s) (s_merge s).
Definition set_pend s v := mkSt (s_toc s) (s_tocd s) (s_verify s) (s_decided s) (s_lasterr s) (s_handle s) (s_lr s) (s_tainted s) (s_cache s) v (s_merge s).
Definition set_merge s v := mkSt (s_toc s) (s_tocd s) (s_verify s) (s_decided s) (s_lasterr s) (s_handle s) (s_lr s) (s_tainted s) (s_cache s) (s_pend s) v.

Inductive op :=
| Decide
| VerifyTOC (d : digest)
| SkipVerify
| LVerify (d : digest)
| LSkip
| PfCheck (pre : bool) (f : N) (i : nat) (b : bytes)
| OdCheck (pre : bool) (f : N) (i : nat) (b : bytes)
| Commit (i : nat)
| Evict (k : key)
(* passthrough merge (GetPassthroughFd -> prefetchEntireFileSequential / prefetchEntireFile+processBatchChunks) *)
| MgStart (f : N)                          (* cache.Add(entireCacheID): a new merge writer *)
| MgHit (m : nat) (i : nat)                (* chunk i is fully in the cache: its bytes are appended unverified *)
| MgFetch (m : nat) (i : nat) (b : bytes)  (* chunk i fetched: verifyOneChunk, then appended *)
| MgCommit (m : nat) (z : Z)               (* w.Commit(): the merged bytes become the cache entry genID(id, 0, z) *)
| MgAbort (m : nat).

Inductive out := OOk | OErr | ONone.

Inductive mainres := MErr | MOk (n : Z) (ip : bytes).      (* File.ReadAt(ip, chunkOffset): error, or n and the buffer afterwards *)
Inductive prev := PvNone | PvErr | PvBytes (b : bytes).    (* what a pre-read callback obtained from its reader *)
Record fetch := mkFetch { f_pre : list (N * nat * prev); f_main : mainres }.

Inductive rres := ROk (b : bytes) | RErr | RPanic | RDesync.

Inductive hop :=
| HVerifyTOC (d : digest)
| HSkipVerify
| HLVerify (d : digest)
| HLSkip
| HPrefetch (f : N) (i : nat) (ft : option fetch)          (* one readAndCache, as cacheWithReader issues it *)
| HCache (l : list (N * nat * option fetch))               (* VerifiableReader.Cache() *)
| HRead (f : N) (off len : Z) (fs : list fetch)            (* OpenFile(f).ReadAt(make([]byte,len), off) *)
| HCacheWith (d' : digest) (l : list (N * nat * option fetch))
      (* memory store: VerifiableReader.Cache(WithReader(sr')) where the TOC file served by sr' hashes to d':
         metadata Clone re-parses the TOC from sr' and (C01-fix-3) refuses one with another digest *)
| HProbe (f : N) (i : nat)                                 (* look at the cache entry of a chunk *)
| HPass (f : N) (buf : Z) (fts : list (nat * fetch))       (* OpenFile(f).GetPassthroughFd(buf, workers), then the file's content *)
| HAtom (o : op).                                          (* a sub-step scheduled by the harness *)

Inductive hout := HO (o : out) | HR (r : rres) | HB (b : option bytes).

Section WithHash.
Variable H : bytes -> digest.

(* digestVerifier(id, digest) + Verified() on the bytes *)
Definition check (pre : bool) (c : chunk) (b : bytes) : bool :=
  opt_is (if pre then c_pdig c else c_dig c) (H b).

Definition good (T : toc) (k : key) (b : bytes) : bool := recorded T k (H b).

(* VerifiableReader.VerifyTOC *)
Definition verify_toc (s : st) (d : digest) : st * out :=
  let s1 := set_decided s true in
  if s_lasterr s1 then (s1, OErr)
  else if negb (N.eqb (s_tocd s1) d) then (s1, OErr)
  else (set_handle (set_verify s1 true) true, OOk).

Definition step (s : st) (o : op) : st * out :=
  match o with
  | Decide => (set_decided s true, ONone)
  | VerifyTOC d => verify_toc s d
  | SkipVerify => (set_handle s true, OOk)
  | LVerify d =>
      (* fs/layer Verify with C01-fix-1: a layer object that already has a reader re-checks the digest *)
      let r := verify_toc s d in
      if s_lr s then r
      else match snd r with OOk => (set_lr (fst r) true, OOk) | _ => r end
  | LSkip => if s_lr s then (s, ONone) else (set_lr (set_handle s true) true, ONone)
  | PfCheck pre f i b =>
      match chunk_at (s_toc s) f i with
      | None => (s, ONone)
      | Some c =>
          let k := key_of f c in
          if check pre c b then (set_pend s (s_pend s ++ [(k, b)]), OOk)
          else if s_decided s then (s, OErr)
          else (set_pend (set_lasterr s true) (s_pend s ++ [(k, b)]), OOk)
      end
  | OdCheck pre f i b =>
      match chunk_at (s_toc s) f i with
      | None => (s, ONone)
      | Some c =>
          let k := key_of f c in
          if negb (s_handle s) then (s, ONone)          (* no Reader exists yet: OpenFile cannot be called *)
          else if s_verify s then
            if check pre c b then (set_pend s (s_pend s ++ [(k, b)]), OOk) else (s, OErr)
          else (set_pend (set_tainted s (s_tainted s || negb (good (s_toc s) k b))) (s_pend s ++ [(k, b)]), OOk)
      end
  | Commit i =>
      match nth_error (s_pend s) i with
      | Some kb => (set_pend (set_cache s (kb :: s_cache s)) (remove_nth (s_pend s) i), ONone)
      | None => (s, ONone)
      end
  | Evict k => (set_cache s (filter (fun e => negb (key_eqb (fst e) k)) (s_cache s)), ONone)
  | MgStart f =>
      if negb (s_handle s) then (s, ONone)            (* GetPassthroughFd is a method of an opened file *)
      else (set_merge s (s_merge s ++ [(f, [])]), OOk)
  | MgHit m i =>
      match nth_error (s_merge s) m with
      | None => (s, ONone)
      | Some (f, acc) =>
          match chunk_at (s_toc s) f i with
          | None => (s, ONone)
          | Some c =>
              match get (s_cache s) (key_of f c) with
              | Some b => if zlen b =? c_size c then (set_merge s (upd_nth (s_merge s) m (f, acc ++ b)), OOk) else (s, OErr)
              | None => (s, OErr)
              end
          end
      end
  | MgFetch m i b =>
      match nth_error (s_merge s) m with
      | None => (s, ONone)
      | Some (f, acc) =>
          match chunk_at (s_toc s) f i with
          | None => (s, ONone)
          | Some c =>
              if negb (s_handle s) then (s, ONone)
              else if s_verify s then
                if check false c b then (set_merge s (upd_nth (s_merge s) m (f, acc ++ b)), OOk) else (s, OErr)
              else (set_merge (set_tainted s (s_tainted s || negb (good (s_toc s) (key_of f c) b)))
                              (upd_nth (s_merge s) m (f, acc ++ b)), OOk)
          end
      end
  | MgCommit m z =>
      match nth_error (s_merge s) m with
      | Some (f, acc) => (set_merge (set_cache s (((f, 0, z), acc) :: s_cache s)) (remove_nth (s_merge s) m), ONone)
      | None => (s, ONone)
      end
  | MgAbort m => (set_merge s (remove_nth (s_merge s) m), ONone)
  end.

Definition exec (s : st) (os : list op) : st := fold_left (fun s o => fst (step s o)) os s.

(* Opening a layer (estargz parseTOCEStargz / zstdchunked / db init, after the repair of C05-F24): the TOC file (the
   whole decompressed TOC stream, including whatever follows the JSON value) is hashed; the JSON decoder [dec] (not
   modelled: any partial function of the stream) yields the chunk tables. *)
Definition open_layer (dec : bytes -> option toc) (stream : bytes) : option st :=
  match dec stream with
  | Some T => Some (init T (H stream))
  | None => None
  end.

(* metadata/memory Reader.Clone(sr') with C01-fix-3: the TOC file read from sr' is decoded again; a TOC whose digest
   differs from the digest of the TOC this layer was opened with is refused. (The db store's Clone shares the parsed
   TOC and reads no TOC from sr'.) The result is the chunk table the cloned reader works with. *)
Definition clone_layer (dec : bytes -> option toc) (s : st) (stream' : bytes) : option toc :=
  if N.eqb (H stream') (s_tocd s) then dec stream' else None.

(* ---- composites ---- *)

(* check + commit of one chunk through the prefetch path (readAndCache once the bytes are there) *)
Definition pf_core (s : st) (pre : bool) (f : N) (i : nat) (b : bytes) : st * out :=
  let '(s1, r) := step s (PfCheck pre f i b) in
  match r with
  | OOk => (fst (step s1 (Commit (length (s_pend s)))), OOk)
  | _ => (s1, OErr)
  end.

(* verifyAndCache of the on-demand path *)
Definition od_core (s : st) (pre : bool) (f : N) (i : nat) (b : bytes) : st * out :=
  let '(s1, r) := step s (OdCheck pre f i b) in
  match r with
  | OOk => (fst (step s1 (Commit (length (s_pend s)))), OOk)
  | _ => (s1, OErr)
  end.

Definition cached (s : st) (f : N) (i : nat) : bool :=
  match chunk_at (s_toc s) f i with
  | Some c => match get (s_cache s) (key_of f c) with Some _ => true | None => false end
  | None => false
  end.

(* the pre-read callbacks made while the metadata store decompresses towards the wanted chunk;
   [core] is pf_core or od_core. Returns false when one of them failed. *)
Fixpoint pre_reads (core : st -> bool -> N -> nat -> bytes -> st * out)
         (s : st) (l : list (N * nat * prev)) : st * bool :=
  match l with
  | [] => (s, true)
  | (f, i, pv) :: t =>
      if cached s f i then pre_reads core s t
      else match pv with
           | PvBytes b =>
               let '(s1, r) := core s true f i b in
               match r with OOk => pre_reads core s1 t | _ => (s1, false) end
           | _ => (s, false)
           end
  end.

(* one readAndCache(id, SectionReader(fr, chunkOffset, chunkSize), ...) *)
Definition prefetch_chunk (s : st) (f : N) (i : nat) (ft : option fetch) : st * out :=
  match chunk_at (s_toc s) f i with
  | None => (s, OErr)
  | Some c =>
      if cached s f i then (s, OOk)
      else match ft with
           | None => (s, OErr)
           | Some ft =>
               let '(s1, ok) := pre_reads pf_core s (f_pre ft) in
               if negb ok then (s1, OErr)
               else match f_main ft with
                    | MErr => (s1, OErr)
                    | MOk n ip => if n <? c_size c then (s1, OErr) else pf_core s1 false f i ip
                    end
           end
  end.

Fixpoint cache_all (s : st) (l : list (N * nat * option fetch)) (acc : out) : st * out :=
  match l with
  | [] => (s, acc)
  | (f, i, ft) :: t =>
      let '(s1, r) := prefetch_chunk s f i ft in
      cache_all s1 t (match r with OOk => acc | _ => OErr end)
  end.

(* File.ChunkEntryForOffset of the memory store (estargz.Reader.ChunkEntryForOffset): index of the entry *)
Fixpoint search (cs : list chunk) (off : Z) (i : nat) : option (nat * chunk) :=
  match cs with
  | [] => None
  | c :: t =>
      if (off <=? c_off c) || ((c_off c <? off) && (off <? c_off c + c_size c)) then Some (i, c)
      else search t off (S i)
  end.

Definition chunk_for (T : toc) (f : N) (off : Z) : option (nat * chunk) :=
  match file_chunks T f with
  | [] => None
  | [c] => if c_size c <=? off then None else Some (O, c)
  | cs => search cs off O
  end.

(* the on-demand fetch of one chunk: pre-read callbacks (verifyAndCache) + the chunk itself *)
Definition od_fetch (s : st) (ft : fetch) : st * option (Z * bytes) :=
  let '(s1, ok) := pre_reads od_core s (f_pre ft) in
  if negb ok then (s1, None)
  else match f_main ft with
       | MErr => (s1, None)
       | MOk n ip => (s1, Some (n, ip))
       end.

(* file.ReadAt *)
Fixpoint read_loop (fuel : nat) (s : st) (f : N) (off len nr : Z) (acc : bytes) (fs : list fetch) : st * rres :=
  match fuel with
  | O => (s, RDesync)
  | S fuel' =>
      if len <=? nr then (s, match fs with [] => ROk acc | _ => RDesync end)
      else match chunk_for (s_toc s) f (off + nr) with
           | None => (s, match fs with [] => ROk acc | _ => RDesync end)
           | Some (i, c) =>
               let co := c_off c in
               let cs := c_size c in
               let k := key_of f c in
               let cur := off + nr in
               (* the chunk handed out must contain the offset being read (repair of DESIGN F7, already in /repo) *)
               if (co <? 0) || (co + cs <? co) || (cur <? co) || (co + cs <=? cur)
               then (s, match fs with [] => RErr | _ => RDesync end)
               else
               let lower := cur - co in
               let upper := positive (co + cs - (off + len)) in
               let expected := cs - upper - lower in
               if (expected <? 0) || (len <? nr + expected) then (s, RPanic)
               else
                 let hit := match get (s_cache s) k with
                            | Some b => let piece := slice lower expected b in
                                        if zlen piece =? expected then Some piece else None
                            | None => None
                            end in
                 match hit with
                 | Some piece => read_loop fuel' s f off len (nr + expected) (acc ++ piece) fs
                 | None =>
                     match fs with
                     | [] => (s, RDesync)
                     | ft :: fs' =>
                         if (lower =? 0) && (upper =? 0) then
                           if len <? nr + cs then (s, RPanic)
                           else match od_fetch s ft with
                                | (s1, None) => (s1, match fs' with [] => RErr | _ => RDesync end)
                                | (s1, Some (n, ip)) =>
                                    let '(s2, r) := od_core s1 false f i ip in
                                    match r with
                                    | OOk =>
                                        if n =? 0 then (s2, match fs' with [] => ROk acc | _ => RDesync end)   (* no progress: break *)
                                        else read_loop fuel' s2 f off len (nr + n) (acc ++ slice 0 n ip) fs'
                                    | _ => (s2, match fs' with [] => RErr | _ => RDesync end)
                                    end
                                end
                         else
                           match od_fetch s ft with
                           | (s1, None) => (s1, match fs' with [] => RErr | _ => RDesync end)
                           | (s1, Some (_, ip)) =>
                               let '(s2, r) := od_core s1 false f i ip in
                               match r with
                               | OOk =>
                                   let piece := slice lower expected ip in
                                   if zlen piece =? expected
                                   then read_loop fuel' s2 f off len (nr + expected) (acc ++ piece) fs'
                                   else (s2, match fs' with [] => RErr | _ => RDesync end)
                               | _ => (s2, match fs' with [] => RErr | _ => RDesync end)
                               end
                           end
                     end
                 end
           end
  end.

Definition read_at (s : st) (f : N) (off len : Z) (fs : list fetch) : st * rres :=
  if negb (s_handle s) then (s, RErr)
  else read_loop (2 * Z.to_nat len + 4) s f off len 0 [] fs.

(* the chunk enumeration of GetPassthroughFd: ChunkEntryForOffset(0), then at the end of each chunk found *)
Fixpoint enum_chunks (fuel : nat) (T : toc) (f : N) (off : Z) : option (list (nat * chunk)) :=
  match fuel with
  | O => None
  | S fuel' =>
      match chunk_for T f off with
      | None => Some []
      | Some (i, c) => match enum_chunks fuel' T f (c_off c + c_size c) with
                       | Some l => Some ((i, c) :: l)
                       | None => None
                       end
      end
  end.

Fixpoint find_fetch (fts : list (nat * fetch)) (i : nat) : option fetch :=
  match fts with
  | [] => None
  | (j, ft) :: t => if Nat.eqb j i then Some ft else find_fetch t i
  end.

(* the per-chunk loop of prefetchEntireFileSequential (seq = true) / processBatchChunks (seq = false) on merge writer m *)
Fixpoint merge_loop (s : st) (m : nat) (seq : bool) (cs : list (nat * chunk)) (fts : list (nat * fetch)) : st * rres :=
  match cs with
  | [] => (s, ROk [])
  | (i, c) :: t =>
      let '(s1, r) := step s (MgHit m i) in
      match r with
      | OOk => merge_loop s1 m seq t fts
      | _ =>
          match find_fetch fts i with
          | None => (s1, RDesync)
          | Some ft =>
              match od_fetch s1 ft with
              | (s2, None) => (s2, RErr)
              | (s2, Some (n, ip)) =>
                  if negb seq && negb (n =? c_size c) then (s2, RErr)       (* checkHoles *)
                  else let '(s3, r3) := step s2 (MgFetch m i ip) in
                       match r3 with
                       | OOk => merge_loop s3 m seq t fts
                       | _ => (s3, RErr)
                       end
              end
          end
      end
  end.

Definition sum_sizes (cs : list (nat * chunk)) : Z := fold_right (fun ic a => c_size (snd ic) + a) 0 cs.

(* file.GetPassthroughFd followed by reading the whole cached file it hands out *)
Definition pass_fd (s : st) (f : N) (buf : Z) (fts : list (nat * fetch)) : st * rres :=
  if negb (s_handle s) then (s, RErr)
  else match enum_chunks (S (length (file_chunks (s_toc s) f))) (s_toc s) f 0 with
       | None => (s, RDesync)
       | Some cs =>
           let total := sum_sizes cs in
           let k := (f, 0, total) in
           match get (s_cache s) k with
           | Some b => (s, ROk b)
           | None =>
               (* a chunk larger than the merge buffer, or (C01-fix-2) one that straddles a batch boundary: sequential path *)
               let seq := existsb (fun ic => let c := snd ic in
                                             (buf <? c_size c) ||
                                             ((0 <? buf) && negb (c_off c / buf =? (c_off c + c_size c - 1) / buf))) cs in
               let m := length (s_merge s) in
               let '(s0, r0) := step s (MgStart f) in
               match merge_loop s0 m seq cs fts with
               | (s1, ROk _) =>
                   let s2 := fst (step s1 (MgCommit m total)) in
                   (s2, match get (s_cache s2) k with Some b => ROk b | None => RErr end)
               | (s1, r) => (fst (step s1 (MgAbort m)), r)
               end
           end
       end.

Definition probe (s : st) (f : N) (i : nat) : option bytes :=
  match chunk_at (s_toc s) f i with
  | Some c => get (s_cache s) (key_of f c)
  | None => None
  end.

Definition hstep (s : st) (h : hop) : st * hout :=
  match h with
  | HVerifyTOC d => let '(s1, r) := step s (VerifyTOC d) in (s1, HO r)
  | HSkipVerify => let '(s1, r) := step s SkipVerify in (s1, HO r)
  | HLVerify d => let '(s1, r) := step s (LVerify d) in (s1, HO r)
  | HLSkip => let '(s1, r) := step s LSkip in (s1, HO r)
  | HPrefetch f i ft => let '(s1, r) := prefetch_chunk s f i ft in (s1, HO r)
  | HCache l => let '(s1, r) := cache_all s l OOk in (s1, HO r)
  | HRead f off len fs => let '(s1, r) := read_at s f off len fs in (s1, HR r)
  | HCacheWith d' l =>
      if N.eqb d' (s_tocd s) then let '(s1, r) := cache_all s l OOk in (s1, HO r) else (s, HO OErr)
  | HProbe f i => (s, HB (probe s f i))
  | HPass f buf fts => let '(s1, r) := pass_fd s f buf fts in (s1, HR r)
  | HAtom o => let '(s1, r) := step s o in (s1, HO r)
  end.

Fixpoint hrun (s : st) (hs : list hop) : st * list hout :=
  match hs with
  | [] => (s, [])
  | h :: t => let '(s1, x) := hstep s h in let '(s2, xs) := hrun s1 t in (s2, x :: xs)
  end.

Definition hexec (s : st) (hs : list hop) : st := fold_left (fun s h => fst (hstep s h)) hs s.

End WithHash.

(* ---- correspondence check ---- *)

Fixpoint bytes_eqb (a b : bytes) : bool :=
  match a, b with
  | [], [] => true
  | x :: a', y :: b' => N.eqb x y && bytes_eqb a' b'
  | _, _ => false
  end.

(* the hash function of a case: SHA-256 values observed by the harness, as small ids (0 = any other value) *)
Fixpoint tabH (tab : list (bytes * digest)) (b : bytes) : digest :=
  match tab with
  | [] => 0%N
  | (x, d) :: t => if bytes_eqb x b then d else tabH t b
  end.

Definition out_eqb (a b : out) : bool :=
  match a, b with OOk, OOk | OErr, OErr | ONone, ONone => true | _, _ => false end.
Definition rres_eqb (a b : rres) : bool :=
  match a, b with
  | ROk x, ROk y => bytes_eqb x y
  | RErr, RErr | RPanic, RPanic => true
  | _, _ => false            (* RDesync never equals anything: the fetches recorded do not fit the model *)
  end.
Definition hout_eqb (a b : hout) : bool :=
  match a, b with
  | HO x, HO y => out_eqb x y
  | HR x, HR y => rres_eqb x y
  | HB None, HB None => true
  | HB (Some x), HB (Some y) => bytes_eqb x y
  | _, _ => false
  end.
Fixpoint houts_eqb (a b : list hout) : bool :=
  match a, b with
  | [], [] => true
  | x :: a', y :: b' => hout_eqb x y && houts_eqb a' b'
  | _, _ => false
  end.

(* a case = parsed TOC, its digest id, hash table, history, outputs observed on the implementation *)
Definition case := (toc * digest * list (bytes * digest) * list hop * list hout)%type.
Definition case_ok (c : case) : bool :=
  let '(T, d, tab, hs, obs) := c in houts_eqb (snd (hrun (tabH tab) (init T d) hs)) obs.
Fixpoint mismatches_from (n : nat) (cs : list case) : list nat :=
  match cs with
  | [] => []
  | c :: t => if case_ok c then mismatches_from (S n) t else n :: mismatches_from (S n) t
  end.
Definition mismatches := mismatches_from 0.
