(* C04 — case type of the cmd/hostile harness and the model-vs-implementation comparison.
   Executable definitions only. Sub-models: Model/Footer.v (footer parsers, Open), Model/HostileTree.v (TOC entry tree:
   initFields / getSource / assignIDs / directory walk), Model/HostileRead.v (fs/reader file.ReadAt chunk assembly). *)
From Coq Require Import List ZArith NArith Bool.
From SV Require Export Model.Footer Model.HostileTree Model.HostileRead Model.HostileChunk.
Import ListNotations.
Local Open Scope Z_scope.

(* what the harness observed on the implementation (child process outcome class + values) *)
Inductive obs := OOk (vals : list Z) | OErr | OPanic | OHang.

Fixpoint zlist_eqb (a b : list Z) : bool :=
  match a, b with
  | [], [] => true
  | x :: a', y :: b' => Z.eqb x y && zlist_eqb a' b'
  | _, _ => false
  end.

Definition res3_matches (r : res3) (o : obs) : bool :=
  match r, o with
  | Ok (a, b, c), OOk vs => zlist_eqb [a; b; c] vs
  | Err, OErr => true
  | Panic, OPanic => true
  | OutOfFuel, OHang => true
  | _, _ => false
  end.

Definition dec_eqb (a b : dec) : bool :=
  match a, b with DGzip, DGzip | DLegacy, DLegacy | DZstd, DZstd | DExt, DExt => true | _, _ => false end.

(* Open: TOC decoding is not modelled, so the comparison quantifies over the TOC oracle:
   an observed error/panic must be what the model gives when no TOC decodes; an observed success must be explained by
   some decompressor whose footer the model accepts (with every earlier attempt failing without panic). *)
Definition open_matches (size : Z) (ext : bool) (tocoff : Z) (tail51 : bytes) (g51 g47 g46 : gzres) (o : obs) : bool :=
  let gzs := fun d => match d with DGzip => g51 | DLegacy => g47 | DExt => g46 | DZstd => GzErr end in
  let none := open_select size ext tocoff tail51 gzs (fun _ => false) in
  match o with
  | OErr => match none with Err => true | _ => false end
  | OPanic => match none with Panic => true | _ => false end
  | OHang => match none with OutOfFuel => true | _ => false end
  | OOk _ => existsb (fun d => match open_select size ext tocoff tail51 gzs (dec_eqb d) with Ok _ => true | _ => false end)
                     (decompressors ext)
  end.

(* chunk lookup + ReadAt entry selection: observed [found; ChunkOffset; ChunkSize; selected index or -1] *)
Definition chunk_obs (lk : outcome (option chunk)) (sel : outcome Z) (o : obs) : bool :=
  match lk, sel, o with
  | Ok l, (Ok _ | Err) as s, OOk [f; a; b; i] =>
      (match l with
       | None => Z.eqb f 0
       | Some c => Z.eqb f 1 && Z.eqb a (co c) && Z.eqb b (cs c)
       end) && (match s with Ok k => Z.eqb i k | _ => Z.eqb i (-1) end)
  | Panic, _, OPanic | _, Panic, OPanic => true
  | OutOfFuel, _, OHang | _, OutOfFuel, OHang => true
  | _, _, _ => false
  end.
Definition esgz_chunk_matches (chunks : list chunk) (size off : Z) (o : obs) : bool :=
  match chunks with
  | [] => false
  | first :: _ => chunk_obs (esgz_chunk_entry first (if zlen chunks <? 2 then [] else chunks) off) (esgz_read_select size chunks off) o
  end.
Definition db_chunk_matches (chunks : list chunk) (size off : Z) (o : obs) : bool :=
  chunk_obs (db_chunk_entry chunks off) (db_read_select size chunks off) o.

Definition json_matches (d : jdec) (o : obs) (listing : list (name * nat)) : bool :=
  match json_run d, o with
  | Ok (n, l), OOk [n'] => Z.eqb (Z.of_nat n) n' && listing_eqb l listing
  | Err, OErr => true
  | Panic, OPanic => true
  | OutOfFuel, OHang => true
  | _, _ => false
  end.
(* streams without a model (GetPassthroughFd merge, Build/Unpack): the observation is the outcome class *)
Definition oracle_only (o : obs) : bool := match o with OOk _ | OErr => true | _ => false end.

Inductive case :=
| CJson (d : jdec) (o : obs) (listing : list (name * nat))
| COracle (o : obs)
| CChunk (chunks : list chunk) (size off : Z) (o : obs)
| CFooter (d : dec) (p : bytes) (gz : gzres) (o : obs)
| COpen (size : Z) (ext : bool) (tocoff : Z) (tail51 : bytes) (g51 g47 g46 : gzres) (o : obs)
| CTree (es : list entry) (o : obs) (listing : list (name * nat))
| CRead (chunks : list (Z * Z)) (off len fsize : Z) (hits : list bool) (o : obs).

Definition tree_matches (es : list entry) (o : obs) (listing : list (name * nat)) : bool :=
  match tree_run es, o with
  | Ok (n, l), OOk [n'] => Z.eqb (Z.of_nat n) n' && listing_eqb l listing
  | Err, OErr => true
  | Panic, OPanic => true
  | OutOfFuel, OHang => true
  | _, _ => false
  end.

Definition read_matches (chunks : list (Z * Z)) (off len fsize : Z) (hits : list bool) (o : obs) : bool :=
  match read_run chunks off len fsize hits, o with
  | Ok n, OOk [n'] => Z.eqb n n'
  | Err, OErr => true
  | Panic, OPanic => true
  | OutOfFuel, OHang => true
  | _, _ => false
  end.

Definition case_ok (c : case) : bool :=
  match c with
  | CFooter d p gz o => res3_matches (parse_footer d p gz) o
  | COpen size ext tocoff t g51 g47 g46 o => open_matches size ext tocoff t g51 g47 g46 o
  | CTree es o l => tree_matches es o l
  | CRead cs off len fsize hits o => read_matches cs off len fsize hits o
  | CChunk cs size off o => esgz_chunk_matches cs size off o
  | CJson d o l => json_matches d o l
  | COracle o => oracle_only o
  end.

Fixpoint mismatches_from (n : nat) (cs : list case) : list nat :=
  match cs with
  | [] => []
  | c :: t => if case_ok c then mismatches_from (S n) t else n :: mismatches_from (S n) t
  end.
Definition mismatches := mismatches_from 0.
