(* C07, stacking: overlayfs semantics of one served directory over a lower directory, and OCI image-spec application of
   the same layer directory — both as "where does name n of the merged directory come from". Definitions only.

   The upper directory is described as in Model/Node.v (configuration c, own entry self, children map ch as the metadata
   store reports it, marker files included). The lower directory (the result of the layers below) is abstract: only whether
   it has the name, and whether that is a directory, matter at this level. *)
From Coq Require Import List ZArith Bool String.
From SV Require Import Model.Node.
Import ListNotations.
Local Open Scope Z_scope.

(* what overlayfs takes for a whiteout / a directory, from the attributes the layer serves *)
Definition is_whiteout_dev (a : fattr) : bool := (Z.land (f_mode a) S_IFMT =? S_IFCHR) && (f_rdev a =? 0).
Definition is_dir_attr (a : fattr) : bool := Z.land (f_mode a) S_IFMT =? S_IFDIR.

(* overlayfs reads the opaque flag of a lower directory with getxattr on the name(s) of the chosen mode *)
Definition served_opaque (c : cfg) (self : ent) (ch : children) : bool :=
  forallb (fun a => match xattr_value c self ch a with Some v => (v =? "y")%string | None => false end)
          (opaque_xattrs (c_mode c)).

Inductive origin := Absent | FromUpper (e : ent) (a : fattr) | FromLower.

(* overlayfs: the upper-most layer that has the name decides; a 0/0 character device hides the name; an opaque upper
   directory hides everything below *)
Definition overlay_origin (c : cfg) (self : ent) (ch : children) (lower_has : bool) (n : string) : origin :=
  match lookup_spec c ch n with
  | LNode e a | LWh e a => if is_whiteout_dev a then Absent else FromUpper e a
  | LState _ => Absent
  | LEnoent | LEio => if served_opaque c self ch then Absent else if lower_has then FromLower else Absent
  end.

(* does the merged directory n continue into the lower directory of the same name? (the opacity of n itself is the same
   question one level down) *)
Definition overlay_child_sees_lower (c : cfg) (self : ent) (ch : children) (lower_is_dir : bool) (n : string) : bool :=
  match lookup_spec c ch n with
  | LNode e a => is_dir_attr a && negb (is_whiteout_dev a) && lower_is_dir && negb (served_opaque c self ch)
  | _ => false
  end.

(* OCI image-spec layer application on a directory: names that are part of the image *)
Definition image_name (c : cfg) (n : string) : bool := negb (has_wh n) && negb (c_root c && is_landmark n).
Definition whited (ch : children) (n : string) : bool :=
  match find_child ch (wh_prefix ++ n) with Some _ => true | None => false end.

(* the layer's own entry replaces what is below; .wh.n and the opaque marker remove what is below; otherwise the lower
   entry stays *)
Definition oci_origin (c : cfg) (ch : children) (lower_has : bool) (n : string) : origin :=
  match find_child ch n with
  | Some e => match ino_of (c_base c) (e_id e) with
              | Some i => FromUpper e (entry_to_attr i (e_attr e))
              | None => Absent
              end
  | None => if is_opaque ch || whited ch n then Absent else if lower_has then FromLower else Absent
  end.

(* a directory entry of the layer keeps the lower directory's contents unless they were removed by a whiteout of that
   name or by the opaque marker of the parent *)
Definition oci_child_sees_lower (c : cfg) (ch : children) (lower_is_dir : bool) (n : string) : bool :=
  match find_child ch n with
  | Some e => match ino_of (c_base c) (e_id e) with
              | Some i => is_dir_attr (entry_to_attr i (e_attr e)) && lower_is_dir && negb (is_opaque ch) && negb (whited ch n)
              | None => false
              end
  | None => false
  end.

(* ====================================================================================================
   Whole trees and stacks of layers.

   A layer is a tree of metadata entries [ltree] (marker files included, exactly as the metadata store holds them);
   the root filesystem built from the layers below is a tree [rnode] of served entries. Both semantics are given as
   "apply one layer directory on top of the lower directory" and folded over the stack, lowest layer first:
     - [over_tree]: overlayfs over what the node API serves for the layer — every decision is taken from
       [lookup_spec] / the served opaque xattr through [overlay_origin] and [overlay_child_sees_lower] (a kernel walking the
       layer sees exactly the names for which Lookup succeeds: C07_list_iff_lookup);
     - [oci_tree]: image-spec application of the layer — every decision is taken from the marker files through
       [oci_origin] and [oci_child_sees_lower].
   The two are compared by path resolution ([resolve]). *)
Inductive ltree := LT (e : ent) (kids : list (string * ltree)).
Inductive rnode := RN (e : ent) (a : fattr) (kids : list (string * rnode)).

Definition lt_ent (t : ltree) : ent := match t with LT e _ => e end.
Definition lt_kids (t : ltree) : list (string * ltree) := match t with LT _ k => k end.

Definition alookup {A} (l : list (string * A)) (n : string) : option A :=
  match find (fun p => (fst p =? n)%string) l with Some p => Some (snd p) | None => None end.

(* the children map of a directory of the layer, as Model/Node.v sees it *)
Definition view (kids : list (string * ltree)) : children := map (fun p => (fst p, lt_ent (snd p))) kids.

Definition sub_cfg (c : cfg) : cfg := mkCfg false (c_base c) (c_mode c).

Definition lower_is_dir (lower : list (string * rnode)) (n : string) : bool :=
  match alookup lower n with Some (RN _ a _) => is_dir_attr a | None => false end.
Definition lower_kids (lower : list (string * rnode)) (n : string) : list (string * rnode) :=
  match alookup lower n with Some (RN _ a k) => if is_dir_attr a then k else [] | None => [] end.

Definition from_lower (o : origin) : bool := match o with FromLower => true | _ => false end.

Fixpoint over_tree (c : cfg) (t : ltree) (lower : list (string * rnode)) : list (string * rnode) :=
  match t with
  | LT self kids =>
      let ch := view kids in
      flat_map (fun p =>
          match p with
          | (n, tn) =>
              match overlay_origin c self ch true n with
              | FromUpper e a =>
                  [(n, RN e a (if is_dir_attr a
                               then over_tree (sub_cfg c) tn
                                      (if overlay_child_sees_lower c self ch (lower_is_dir lower n) n then lower_kids lower n else [])
                               else []))]
              | _ => []
              end
          end) kids
      ++ filter (fun q => from_lower (overlay_origin c self ch true (fst q))) lower
  end.

Fixpoint oci_tree (c : cfg) (t : ltree) (lower : list (string * rnode)) : list (string * rnode) :=
  match t with
  | LT self kids =>
      let ch := view kids in
      flat_map (fun p =>
          match p with
          | (n, tn) =>
              if image_name c n then
                match oci_origin c ch true n with
                | FromUpper e a =>
                    [(n, RN e a (if is_dir_attr a
                                 then oci_tree (sub_cfg c) tn
                                        (if oci_child_sees_lower c ch (lower_is_dir lower n) n then lower_kids lower n else [])
                                 else []))]
                | _ => []
                end
              else []
          end) kids
      ++ filter (fun q => from_lower (oci_origin c ch true (fst q))) lower
  end.

(* path resolution in a root filesystem: the entry and the attributes of the last component *)
Fixpoint resolve (l : list (string * rnode)) (p : list string) : option (ent * fattr) :=
  match p with
  | [] => None
  | n :: p' =>
      match alookup l n with
      | None => None
      | Some (RN e a k) =>
          match p' with
          | [] => Some (e, a)
          | _ => if is_dir_attr a then resolve k p' else None
          end
      end
  end.

(* a stack = the layers lowest first, each with its configuration (its own baseInode; c_root = true) *)
Definition stack := list (cfg * ltree).
Definition overlay_stack (s : stack) : list (string * rnode) := fold_left (fun acc ct => over_tree (fst ct) (snd ct) acc) s [].
Definition oci_stack (s : stack) : list (string * rnode) := fold_left (fun acc ct => oci_tree (fst ct) (snd ct) acc) s [].

(* ---------- the allowed class, as a boolean predicate ---------- *)
Fixpoint nodupb (l : list string) : bool :=
  match l with
  | [] => true
  | x :: t => negb (existsb (fun y => (y =? x)%string) t) && nodupb t
  end.

(* attributes a kid is served with, up to the inode number (which does not matter for file type and rdev) *)
Definition kid_attr (t : ltree) : fattr := entry_to_attr 0 (e_attr (lt_ent t)).

Fixpoint allowed_tree (c : cfg) (t : ltree) : bool :=
  match t with
  | LT self kids =>
      let ch := view kids in
      (* the children are a map *)
      nodupb (map fst kids)
      (* the directory entry does not itself carry an overlay opaque xattr *)
      && forallb (fun a => match assoc (a_xattrs (e_attr self)) a with None => true | Some _ => false end) (opaque_xattrs (c_mode c))
      (* in the layer root: no opaque marker (overlayfs never consults the opaque xattr of a lower root) and no entry
         under the reserved name of the state directory *)
      && (if c_root c then negb (is_opaque ch) && negb (existsb (fun p => (fst p =? state_dir_name)%string) kids) else true)
      && forallb (fun p =>
           match p with
           | (n, tn) =>
               (* metadata ids fit the inode space *)
               (match ino_of (c_base c) (e_id (lt_ent tn)) with Some _ => true | None => false end)
               (* no real 0/0 character device (overlayfs itself reads it as a whiteout) *)
               && (if image_name c n then negb (is_whiteout_dev (kid_attr tn)) else true)
               (* THE class the property excludes: a whiteout for n together with a directory n *)
               && negb (whited ch n && is_dir_attr (kid_attr tn))
               && allowed_tree (sub_cfg c) tn
           end) kids
  end.

Definition allowed_stack (s : stack) : bool := forallb (fun ct => c_root (fst ct) && allowed_tree (fst ct) (snd ct)) s.

(* path components a kernel can walk and that can belong to an image *)
Definition name_ok (root : bool) (n : string) : bool :=
  negb (n =? "")%string && negb (is_dot n) && negb (has_wh n)
  && (if root then negb (is_landmark n) && negb (n =? state_dir_name)%string else true).
Definition path_ok (p : list string) : bool :=
  match p with
  | [] => true
  | n :: p' => name_ok true n && forallb (name_ok false) p'
  end.
