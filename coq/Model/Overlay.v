(* C07, stacking: overlayfs semantics of one served directory over a lower directory, and OCI image-spec application of
   the same layer directory — both as "where does name n of the merged directory come from". Definitions only.

   The upper directory is described as in Model/Node.v (configuration c, own entry self, children map ch as the metadata
   store reports it, marker files included). The lower directory (the result of the layers below) is abstract: only whether
   it has the name, and whether that is a directory, matter at this level. *)
From Coq Require Import List ZArith Bool String.
From SV Require Import Model.Node.
Import ListNotations.
Local Open Scope Z_scope.

(* what overlayfs takes for a whiteout / a directory, from the attributes the layer serves *)
Definition is_whiteout_dev (a : fattr) : bool := (Z.land (f_mode a) S_IFMT =? S_IFCHR) && (f_rdev a =? 0).
Definition is_dir_attr (a : fattr) : bool := Z.land (f_mode a) S_IFMT =? S_IFDIR.

(* overlayfs reads the opaque flag of a lower directory with getxattr on the name(s) of the chosen mode *)
Definition served_opaque (c : cfg) (self : ent) (ch : children) : bool :=
  forallb (fun a => match xattr_value c self ch a with Some v => (v =? "y")%string | None => false end)
          (opaque_xattrs (c_mode c)).

Inductive origin := Absent | FromUpper (e : ent) (a : fattr) | FromLower.

(* overlayfs: the upper-most layer that has the name decides; a 0/0 character device hides the name; an opaque upper
   directory hides everything below *)
Definition overlay_origin (c : cfg) (self : ent) (ch : children) (lower_has : bool) (n : string) : origin :=
  match lookup_spec c ch n with
  | LNode e a | LWh e a => if is_whiteout_dev a then Absent else FromUpper e a
  | LState _ => Absent
  | LEnoent | LEio => if served_opaque c self ch then Absent else if lower_has then FromLower else Absent
  end.

(* does the merged directory n continue into the lower directory of the same name? (the opacity of n itself is the same
   question one level down) *)
Definition overlay_child_sees_lower (c : cfg) (self : ent) (ch : children) (lower_is_dir : bool) (n : string) : bool :=
  match lookup_spec c ch n with
  | LNode e a => is_dir_attr a && negb (is_whiteout_dev a) && lower_is_dir && negb (served_opaque c self ch)
  | _ => false
  end.

(* OCI image-spec layer application on a directory: names that are part of the image *)
Definition image_name (c : cfg) (n : string) : bool := negb (has_wh n) && negb (c_root c && is_landmark n).
Definition whited (ch : children) (n : string) : bool :=
  match find_child ch (wh_prefix ++ n) with Some _ => true | None => false end.

(* the layer's own entry replaces what is below; .wh.n and the opaque marker remove what is below; otherwise the lower
   entry stays *)
Definition oci_origin (c : cfg) (ch : children) (lower_has : bool) (n : string) : origin :=
  match find_child ch n with
  | Some e => match ino_of (c_base c) (e_id e) with
              | Some i => FromUpper e (entry_to_attr i (e_attr e))
              | None => Absent
              end
  | None => if is_opaque ch || whited ch n then Absent else if lower_has then FromLower else Absent
  end.

(* a directory entry of the layer keeps the lower directory's contents unless they were removed by a whiteout of that
   name or by the opaque marker of the parent *)
Definition oci_child_sees_lower (c : cfg) (ch : children) (lower_is_dir : bool) (n : string) : bool :=
  match find_child ch n with
  | Some e => match ino_of (c_base c) (e_id e) with
              | Some i => is_dir_attr (entry_to_attr i (e_attr e)) && lower_is_dir && negb (is_opaque ch) && negb (whited ch n)
              | None => false
              end
  | None => false
  end.
