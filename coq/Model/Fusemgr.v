(* Model of fusemanager.Server (service.go, fusestore.go): the FUSE manager's RPC methods over
   a durable store (the bolt "fuse-info-bucket") and volatile state (status, root/config, curFs, fsMap),
   with the snapshot.FileSystem instances it builds as recording backends.
   Executable definitions only; proofs are in Proofs/Fusemgr.v.

   Atomicity: Init and Close take fm.lock exclusively, Mount/Check/Unmount take it shared; histories here are
   sequential RPCs (a schedule of whole RPCs = an op list).
   Faults: each op carries the outcome of the backend call it makes ([ok]); [Init] carries the stage at which it
   fails before restoring ([IBadJSON] json.Unmarshal of the config, [ICfgFuncFail] a registered ConfigFunc,
   [IFsFail] service.NewFileSystem) or [IRun] with the outcomes of the backend Mount calls of restoreFuseInfo,
   in order (exhausted script = success).
   Crash: [Restart] = the manager process dies and a new one is started on the kept store file
   (NewFuseManager): all volatile state is erased, every filesystem instance of the old process stops serving.
   Every RPC commits at most one bolt transaction, as its last effect, so a crash in the middle of an RPC is
   [Restart] placed before or after that RPC; crash points are therefore arbitrary positions of [Restart].
   Mountpoints, label sets and configurations are identified with naturals; the store keeps
   mountpoint -> (labels, config) in key order (bolt iterates keys in byte order; the harness names mountpoints
   so that byte order = numeric order).
   [ext] = mountpoints that the kernel mount table lists although this manager never mounted them
   (Unmount of an unknown mountpoint consults mountinfo).
   [guard] = true models the repaired code (patches/C17-fix-1.diff: mount() returns an error when curFs is nil);
   [guard] = false is the code as found (nil dereference = [RPanic]). *)
From Coq Require Import List Arith Bool.
Import ListNotations.

Inductive status := NotReady | WaitInit | Ready.
Inductive res := ROk | RErr | RPanic.
Inductive ckind := KMount | KCheck | KUnmount.
(* a backend call: (receiving instance, kind, mountpoint, labels (0 for unmount)) *)
Definition call := (nat * ckind * nat * nat)%type.

(* a filesystem instance: the config it was built from and what it serves (mountpoint, labels), newest first *)
Record inst := mkInst { i_cfg : nat; i_mnt : list (nat * nat) }.

Record st := mkSt {
  guard  : bool;
  ext    : list nat;
  stat   : status;
  closed : bool;                       (* bolt handle closed by Close (store file removed) *)
  cfg    : option nat;                 (* fm.root / fm.config; None = nil *)
  cur    : option nat;                 (* fm.curFs; None = nil *)
  fsmap  : list (nat * nat);           (* mountpoint -> instance *)
  store  : list (nat * (nat * nat));   (* mountpoint -> (labels, config), key order *)
  insts  : list inst;                  (* every instance ever built, construction order *)
  ierr   : bool                        (* ghost: the last Init of this process returned an error *)
}.

Inductive istage := IBadJSON | ICfgFuncFail | IFsFail | IRun.

Inductive op :=
| Init (c : nat) (k : istage) (script : list bool)
| Mount (m l : nat) (ok : bool)
| Check (m l : nat) (ok : bool)
| Unmount (m : nat) (ok : bool)
| Close
| Restart.

Definition init (g : bool) (e : list nat) : st :=
  mkSt g e WaitInit false None None [] [] [] false.

(* ---- association lists keyed by nat ---- *)
Fixpoint find {V} (l : list (nat * V)) (k : nat) : option V :=
  match l with
  | [] => None
  | (k', v) :: t => if Nat.eqb k' k then Some v else find t k
  end.

Fixpoint del {V} (l : list (nat * V)) (k : nat) : list (nat * V) :=
  match l with
  | [] => []
  | (k', v) :: t => if Nat.eqb k' k then del t k else (k', v) :: del t k
  end.

(* insert in key order, replacing *)
Fixpoint put {V} (l : list (nat * V)) (k : nat) (v : V) : list (nat * V) :=
  match l with
  | [] => [(k, v)]
  | (k', v') :: t =>
      if Nat.ltb k k' then (k, v) :: (k', v') :: t
      else if Nat.eqb k k' then (k, v) :: t
      else (k', v') :: put t k v
  end.

Definition mem (l : list nat) (k : nat) : bool := existsb (Nat.eqb k) l.

Fixpoint upd {A} (l : list A) (n : nat) (x : A) : list A :=
  match l, n with
  | [], _ => []
  | _ :: t, O => x :: t
  | h :: t, S n' => h :: upd t n' x
  end.

(* remove the first entry of mountpoint m *)
Fixpoint rm1 (l : list (nat * nat)) (m : nat) : list (nat * nat) :=
  match l with
  | [] => []
  | (m', x) :: t => if Nat.eqb m' m then t else (m', x) :: rm1 t m
  end.

(* backend effects on instance i *)
Definition inst_mount (is : list inst) (i m l : nat) : list inst :=
  match nth_error is i with
  | Some x => upd is i (mkInst (i_cfg x) ((m, l) :: i_mnt x))
  | None => is
  end.
Definition inst_unmount (is : list inst) (i m : nat) : list inst :=
  match nth_error is i with
  | Some x => upd is i (mkInst (i_cfg x) (rm1 (i_mnt x) m))
  | None => is
  end.

(* bolt Update on a closed handle fails (the error is ignored by Mount/Unmount) *)
Definition store_put (s : st) (m : nat) (v : nat * nat) : list (nat * (nat * nat)) :=
  if closed s then store s else put (store s) m v.
Definition store_del (s : st) (m : nat) : list (nat * (nat * nat)) :=
  if closed s then store s else del (store s) m.

(* restoreFuseInfo: bucket.ForEach in key order; fm.mount skips mountpoints present in fsMap,
   otherwise curFs.Mount (instance n, whose mounted list is [mnt]); stops at the first failure.
   Returns (fsMap, mounted list of n, backend calls, success). *)
Fixpoint restore (n : nat) (recs : list (nat * (nat * nat))) (sc : list bool)
         (fm : list (nat * nat)) (mnt : list (nat * nat))
  : list (nat * nat) * list (nat * nat) * list call * bool :=
  match recs with
  | [] => (fm, mnt, [], true)
  | (m, (l, _)) :: t =>
      match find fm m with
      | Some _ => restore n t sc fm mnt
      | None =>
          if hd true sc then
            let '(fm', mnt', cs, ok) := restore n t (tl sc) (put fm m n) ((m, l) :: mnt) in
            (fm', mnt', (n, KMount, m, l) :: cs, ok)
          else (fm, mnt, [(n, KMount, m, l)], false)
      end
  end.

Definition out := (res * list call)%type.

Definition step (s : st) (o : op) : st * out :=
  match o with
  | Init c k sc =>
      (* status is Ready afterwards whatever happens (deferred assignment) *)
      match k with
      | IBadJSON =>
          (mkSt (guard s) (ext s) Ready (closed s) (cfg s) (cur s) (fsmap s) (store s) (insts s) true, (RErr, []))
      | ICfgFuncFail | IFsFail =>
          (mkSt (guard s) (ext s) Ready (closed s) (Some c) (cur s) (fsmap s) (store s) (insts s) true, (RErr, []))
      | IRun =>
          let n := length (insts s) in
          if closed s then
            (* bolt View on a closed handle: error before any record is visited *)
            (mkSt (guard s) (ext s) Ready (closed s) (Some c) (Some n) (fsmap s) (store s)
                  (insts s ++ [mkInst c []]) true, (RErr, []))
          else
            let '(fm, mnt, cs, ok) := restore n (store s) sc (fsmap s) [] in
            (mkSt (guard s) (ext s) Ready (closed s) (Some c) (Some n) fm (store s)
                  (insts s ++ [mkInst c mnt]) (negb ok), (if ok then ROk else RErr, cs))
      end
  | Mount m l ok =>
      match stat s with
      | Ready =>
          match find (fsmap s) m with
          | Some _ =>
              (* already mounted: skipped, but recorded again with the request's labels and the current config *)
              match cfg s with
              | Some c => (mkSt (guard s) (ext s) (stat s) (closed s) (cfg s) (cur s) (fsmap s)
                                (store_put s m (l, c)) (insts s) (ierr s), (ROk, []))
              | None => (s, (RPanic, []))
              end
          | None =>
              match cur s with
              | None => (s, (if guard s then RErr else RPanic, []))
              | Some i =>
                  if ok then
                    match cfg s with
                    | Some c => (mkSt (guard s) (ext s) (stat s) (closed s) (cfg s) (cur s) (put (fsmap s) m i)
                                      (store_put s m (l, c)) (inst_mount (insts s) i m l) (ierr s),
                                 (ROk, [(i, KMount, m, l)]))
                    | None => (mkSt (guard s) (ext s) (stat s) (closed s) (cfg s) (cur s) (put (fsmap s) m i)
                                    (store s) (inst_mount (insts s) i m l) (ierr s),
                               (RPanic, [(i, KMount, m, l)]))
                    end
                  else (s, (RErr, [(i, KMount, m, l)]))
              end
          end
      | _ => (s, (RErr, []))
      end
  | Check m l ok =>
      match stat s with
      | Ready =>
          match find (fsmap s) m with
          | Some i => (s, (if ok then ROk else RErr, [(i, KCheck, m, l)]))
          | None => (s, (RErr, []))
          end
      | _ => (s, (RErr, []))
      end
  | Unmount m ok =>
      match stat s with
      | Ready =>
          match find (fsmap s) m with
          | Some i =>
              if ok then
                (mkSt (guard s) (ext s) (stat s) (closed s) (cfg s) (cur s) (del (fsmap s) m)
                      (store_del s m) (inst_unmount (insts s) i m) (ierr s), (ROk, [(i, KUnmount, m, 0)]))
              else (s, (RErr, [(i, KUnmount, m, 0)]))
          | None =>
              (* not ours: succeed unless the kernel mount table lists it *)
              (s, (if mem (ext s) m then RErr else ROk, []))
          end
      | _ => (s, (RErr, []))
      end
  | Close =>
      if closed s then
        (* bolt Close is idempotent, removing the store file fails *)
        (mkSt (guard s) (ext s) NotReady true (cfg s) (cur s) (fsmap s) (store s) (insts s) (ierr s), (RErr, []))
      else
        (mkSt (guard s) (ext s) NotReady true (cfg s) (cur s) (fsmap s) [] (insts s) (ierr s), (ROk, []))
  | Restart =>
      (mkSt (guard s) (ext s) WaitInit false None None [] (store s)
            (map (fun x => mkInst (i_cfg x) []) (insts s)) false, (ROk, []))
  end.

Definition exec (s : st) (os : list op) : st := fold_left (fun s o => fst (step s o)) os s.

(* ---- observables ---- *)
(* (status, store closed, curFs, fsMap by key, store in bucket order, configs of the instances, what each serves) *)
Definition view := (status * bool * option nat * list (nat * nat) * list (nat * (nat * nat))
                    * list nat * list (list (nat * nat)))%type.
Definition view_of (s : st) : view :=
  (stat s, closed s, cur s, fsmap s, store s, map i_cfg (insts s), map i_mnt (insts s)).

Definition obs := (res * list call * view)%type.

Fixpoint run (s : st) (os : list op) : st * list obs :=
  match os with
  | [] => (s, [])
  | o :: t =>
      let '(s1, (r, cs)) := step s o in
      let '(s2, xs) := run s1 t in (s2, (r, cs, view_of s1) :: xs)
  end.

(* what instance i serves; how many times mountpoint m occurs in such a list *)
Definition mnts (is : list inst) (i : nat) : list (nat * nat) :=
  match nth_error is i with Some x => i_mnt x | None => [] end.
Definition mnt_of (s : st) (i : nat) : list (nat * nat) := mnts (insts s) i.
Definition cfg_of (s : st) (i : nat) : option nat :=
  match nth_error (insts s) i with Some x => Some (i_cfg x) | None => None end.
Definition occ (m : nat) (l : list (nat * nat)) : nat :=
  length (filter (fun p => Nat.eqb (fst p) m) l).
(* some filesystem instance of the manager serves mountpoint m *)
Definition serving (s : st) (m : nat) : Prop := exists i, 0 < occ m (mnt_of s i).
(* recorded / known to the manager *)
Definition recorded (s : st) (m : nat) : Prop := find (store s) m <> None.
Definition tracked (s : st) (m : nat) : Prop := find (fsmap s) m <> None.

Definition is_init (o : op) : bool := match o with Init _ _ _ => true | _ => false end.
Definition is_restart (o : op) : bool := match o with Restart => true | _ => false end.
Definition is_close (o : op) : bool := match o with Close => true | _ => false end.

(* ---- equality tests used by the correspondence check ---- *)
Definition status_eqb (a b : status) : bool :=
  match a, b with NotReady, NotReady | WaitInit, WaitInit | Ready, Ready => true | _, _ => false end.
Definition res_eqb (a b : res) : bool :=
  match a, b with ROk, ROk | RErr, RErr | RPanic, RPanic => true | _, _ => false end.
Definition ckind_eqb (a b : ckind) : bool :=
  match a, b with KMount, KMount | KCheck, KCheck | KUnmount, KUnmount => true | _, _ => false end.
Fixpoint list_eqb {A} (f : A -> A -> bool) (a b : list A) : bool :=
  match a, b with
  | [], [] => true
  | x :: a', y :: b' => f x y && list_eqb f a' b'
  | _, _ => false
  end.
Definition pair_eqb {A B} (f : A -> A -> bool) (g : B -> B -> bool) (a b : A * B) : bool :=
  f (fst a) (fst b) && g (snd a) (snd b).
Definition opt_eqb {A} (f : A -> A -> bool) (a b : option A) : bool :=
  match a, b with None, None => true | Some x, Some y => f x y | _, _ => false end.
Definition call_eqb (a b : call) : bool :=
  let '(i, k, m, l) := a in let '(i', k', m', l') := b in
  Nat.eqb i i' && ckind_eqb k k' && Nat.eqb m m' && Nat.eqb l l'.
Definition nn_eqb := pair_eqb Nat.eqb Nat.eqb.
Definition view_eqb (a b : view) : bool :=
  let '(s, c, cu, fm, sto, cf, mn) := a in let '(s', c', cu', fm', sto', cf', mn') := b in
  status_eqb s s' && Bool.eqb c c' && opt_eqb Nat.eqb cu cu' && list_eqb nn_eqb fm fm'
  && list_eqb (pair_eqb Nat.eqb nn_eqb) sto sto' && list_eqb Nat.eqb cf cf' && list_eqb (list_eqb nn_eqb) mn mn'.
Definition obs_eqb (a b : obs) : bool :=
  let '(r, cs, v) := a in let '(r', cs', v') := b in
  res_eqb r r' && list_eqb call_eqb cs cs' && view_eqb v v'.

(* typed constructors for the terms printed by the harness (no implicit arguments to infer: fast to elaborate) *)
Definition cl (i : nat) (k : ckind) (m l : nat) : call := (i, k, m, l).
Definition pr (a b : nat) : nat * nat := (a, b).
Definition rc (m l c : nat) : nat * (nat * nat) := (m, (l, c)).
Definition sm (n : nat) : option nat := Some n.
Definition no : option nat := None.
Definition vw (s : status) (c : bool) (cu : option nat) (fm : list (nat * nat)) (sto : list (nat * (nat * nat)))
           (cf : list nat) (mn : list (list (nat * nat))) : view := (s, c, cu, fm, sto, cf, mn).
Definition ob (r : res) (cs : list call) (v : view) : obs := (r, cs, v).

(* a case = code variant, externally mounted mountpoints, op list, observations on the implementation *)
Definition case := (bool * list nat * list op * list obs)%type.
Definition cas (g : bool) (e : list nat) (os : list op) (obs : list obs) : case := (g, e, os, obs).
Definition case_ok (c : case) : bool :=
  let '(g, e, os, ob) := c in list_eqb obs_eqb (snd (run (init g e) os)) ob.
Fixpoint mismatches_from (n : nat) (cs : list case) : list nat :=
  match cs with
  | [] => []
  | c :: t => if case_ok c then mismatches_from (S n) t else n :: mismatches_from (S n) t
  end.
Definition mismatches := mismatches_from 0.
