(* Correspondence cases of harness cmd/serve (C02): the model of the served view (Model/TarView.v) and of the
   byte path (Model/ChunkRead.v) evaluated on the inputs of a case and compared with what the implementation
   (estargz.Build -> metadata/memory -> fs/reader) was observed to serve.  Executable definitions only. *)
From Coq Require Import List ZArith Bool Arith String Ascii.
From SV Require Import Model.ChunkRead Model.TarView.
Import ListNotations.
Open Scope Z_scope.

(* what the harness observed for one path of the served tree *)
Record onode := mkOnode {
  o_mode : Z; o_uid : Z; o_gid : Z; o_size : Z; o_mtime : Z;
  o_link : string; o_maj : Z; o_min : Z;
  o_xattrs : list (string * string);
  o_nlink : Z;
  o_rep : nat;              (* index, in the observed list, of the first path served with the same node id *)
  o_file : option nat;      (* regular file: its index in the file list of the case *)
  o_fuse : fattr            (* entryToAttr of the observed metadata.Attr *)
}.

(* ops as the harness prints them *)
Inductive cop :=
| CRead (i : nat) (off len : Z)
| CPt (i : nat) (mbs workers : Z)
| CPrefetch
| CEvict (ks : list key)
| CReadObs (i : nat) (off len : Z) (hits : list key).
    (* a read against a cache whose contents are not predicted (directory cache: memory LRU, fd LRU, files,
       asynchronous persistence): the probes of the call were observed to be answered exactly for [hits] *)

Definition op_of (L : layer) (o : cop) : op :=
  match o with
  | CRead i off len => Read i off len
  | CPt i mbs workers => Pt i mbs workers
  | CPrefetch => Prefetch
  | CEvict ks => Evict ks
  | CReadObs i off len hits => ReadI i off len (fun _ b c => if b then honest_on L hits else c)
  end.

Inductive case :=
| CServe (db : bool)                                      (* metadata store driven: db (bbolt) or memory *)
         (fwd : bool)                                     (* the TOC has a hardlink entry before the entry of its target
                                                             (observed; the db store resolves hardlinks while decoding and refuses it) *)
         (late : list (path * Z))                         (* db store only (C05 known finding F11): per directory, the number of its
                                                             sub-directories whose TOC entry follows an entry below them; the db store
                                                             counts the parent link of each of them twice. Computed from the TOC order. *)
         (tar : list tent) (cs : Z)
         (files : list (path * list (Z * list key)))     (* regular files by owner path; per chunk offset the keys sharing its compression member *)
         (obs_chunks : list (list (Z * Z)))              (* chunk table observed per file (ChunkEntryForOffset walk) *)
         (view : option (list (path * onode)))           (* observed tree, [None] = the layer could not be opened *)
         (ops : list cop) (outs : list (option (rres * list ev)))
| CLayers (datas : list (list bytes))                     (* per layer, the contents of its regular files *)
          (reads : list (nat * nat * Z * Z * option bytes))   (* (layer, file, off, len, bytes returned / None = error) *)
    (* several layers resolved through one layer.Resolver: a read of layer l depends on the contents of layer l only *)
| CClean (name : string) (obs : path)                    (* cleanEntryName *)
| CAttr (mode size : Z) (link : string) (maj mi nlink uid gid mtime : Z) (obs : fattr).   (* entryToAttr on arbitrary attributes *)

Definition pair_eqb (a b : string * string) : bool := String.eqb (fst a) (fst b) && String.eqb (snd a) (snd b).
Definition xattrs_eqb (a b : list (string * string)) : bool :=
  Nat.eqb (List.length a) (List.length b) && forallb (fun x => existsb (pair_eqb x) b) a.

Definition fattr_eqb (a b : fattr) : bool :=
  let '(a1, a2, a3, a4, a5, a6, a7, a8) := a in
  let '(b1, b2, b3, b4, b5, b6, b7, b8) := b in
  (a1 =? b1) && (a2 =? b2) && (a3 =? b3) && (a4 =? b4) && (a5 =? b5) && (a6 =? b6) && (a7 =? b7) && (a8 =? b8).

Fixpoint index_where {A} (f : A -> bool) (l : list A) (n : nat) : nat :=
  match l with
  | [] => n
  | x :: t => if f x then n else index_where f t (S n)
  end.

Definition owner_of (mv : list (path * vnode)) (p : path) : option path :=
  match lookup_view mv p with Some n => Some (v_owner n) | None => None end.
Definition opath_eqb (a b : option path) : bool :=
  match a, b with Some x, Some y => path_eqb x y | None, None => true | _, _ => false end.

Fixpoint late_of (late : list (path * Z)) (p : path) : Z :=
  match late with
  | [] => 0
  | (q, k) :: t => if path_eqb q p then k else late_of t p
  end.

Definition node_ok (late : list (path * Z)) (mv : list (path * vnode)) (files : list path) (ov : list (path * onode)) (x : path * onode) : bool :=
  let '(p, o) := x in
  match lookup_view mv p with
  | None => false
  | Some n0 =>
      let n := mkVnode (v_kind n0) (v_mode n0) (v_uid n0) (v_gid n0) (v_size n0) (v_mtime n0) (v_link n0) (v_maj n0) (v_min n0)
                       (v_xattrs n0) (v_nlink n0 + late_of late p) (v_data n0) (v_owner n0) in
      (v_mode n =? o_mode o) && (v_uid n =? o_uid o) && (v_gid n =? o_gid o) && (v_size n =? o_size o)
      && (v_mtime n =? o_mtime o) && String.eqb (v_link n) (o_link o) && (v_maj n =? o_maj o) && (v_min n =? o_min o)
      && xattrs_eqb (v_xattrs n) (o_xattrs o) && (v_nlink n =? o_nlink o)
      && Nat.eqb (index_where (fun y => opath_eqb (owner_of mv (fst y)) (Some (v_owner n))) ov 0) (o_rep o)
      && match o_file o with
         | Some fi => kind_eqb (v_kind n) KReg && path_eqb (nth fi files [EmptyString]) (v_owner n) && Nat.ltb fi (List.length files)
         | None => negb (kind_eqb (v_kind n) KReg)
         end
      && fattr_eqb (fuse_attr (v_mode n) (v_size n) (v_link n) (v_maj n) (v_min n) (v_nlink n) (v_uid n) (v_gid n) (v_mtime n)) (o_fuse o)
  end.

Definition view_ok (late : list (path * Z)) (mv : list (path * vnode)) (files : list path) (ov : list (path * onode)) : bool :=
  Nat.eqb (List.length mv) (List.length ov)
  && Nat.eqb (List.length (nodup_paths (map fst ov))) (List.length ov)
  && forallb (node_ok late mv files ov) ov.

(* the file list of the case is exactly the set of regular nodes of the model view *)
Definition files_ok (mv : list (path * vnode)) (files : list path) : bool :=
  Nat.eqb (List.length (nodup_paths files)) (List.length files)
  && forallb (fun p => match lookup_view mv p with
                       | Some n => kind_eqb (v_kind n) KReg && path_eqb (v_owner n) p
                       | None => false end) files
  && Nat.eqb (List.length (filter (fun x => kind_eqb (v_kind (snd x)) KReg && path_eqb (v_owner (snd x)) (fst x)) mv))
             (List.length files).

Definition layer_of (db : bool) (mv : list (path * vnode)) (cs : Z) (files : list (path * list (Z * list key))) : layer :=
  map (fun f => let d := match lookup_view mv (fst f) with Some n => v_data n | None => [] end in
                mkFile db d (if db then mk_table_db (zlen d) cs else mk_table (zlen d) cs) (snd f)) files.

Definition zz_eqb (a b : Z * Z) : bool := (fst a =? fst b) && (snd a =? snd b).

Definition case_ok (c : case) : bool :=
  match c with
  | CServe db fwd late tar cs files obs_chunks view ops outs =>
      match (if db && fwd then None else view_of_tar tar), view with
      | None, None => true
      | Some mv, Some ov =>
          let L := layer_of db mv cs files in
          view_ok late mv (map fst files) ov
          && files_ok mv (map fst files)
          && list_eqb (list_eqb zz_eqb) (map (fun i => map (fun k => let '(_, o, s) := k in (o, s)) (file_keys L i)) (seq 0 (List.length L))) obs_chunks
          && list_eqb out_eqb (snd (run L cempty (map (op_of L) ops))) outs
      | _, _ => false
      end
  | CLayers datas reads =>
      forallb (fun r => let '(l, f, off, len, out) := r in
                 let data := nth f (nth l datas []) [] in
                 match out with
                 | Some d => bytes_eqb d (slice off (Z.min len (zlen data - off)) data)
                 | None => false
                 end) reads
  | CClean name obs => path_eqb (clean_name name) obs
  | CAttr mode size link maj mi nlink uid gid mtime obs =>
      fattr_eqb (fuse_attr mode size link maj mi nlink uid gid mtime) obs
  end.

Fixpoint mismatches_from (n : nat) (cs : list case) : list nat :=
  match cs with
  | [] => []
  | c :: t => if case_ok c then mismatches_from (S n) t else n :: mismatches_from (S n) t
  end.
Definition mismatches := mismatches_from 0.
