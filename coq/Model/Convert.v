(* Model of the layer converters of nativeconverter/ (estargz, zstdchunked, estargz/externaltoc incl. lossless)
   as they are after patches/C19-fix-1..4.  Executable definitions only; proofs are in Proofs/Convert.v.

   What is modelled
   ----------------
   * the descriptor a conversion returns, as a composition over ABSTRACT functions of the committed blob
       H b          sha256 of the bytes            (content.Writer.Digest / digest.FromBytes)
       len b        number of bytes                (io.Copy count / CountWriter)
       payload b    the decompressed stream        (Blob.DiffID / Blob.UncompressedSize / calcUncompression)
       tocdg b      digest of the TOC JSON the blob is verified by  (Blob.TOCDigest / Writer.Close)
       cmp b        compression whose magic the blob starts with
       etoc b       (digest, size) of the external TOC blob written for b (externaltoc.GzipCompressor.WriteTOCTo)
     No property of H (injectivity, ...) is assumed anywhere.
   * the media-type table (finite): estargzconvert.ConvertMediaTypeToGzip, zstdchunked.convertMediaTypeToZstd,
     converter.ConvertDockerMediaTypeToOCI, uncompress.IsUncompressedType.
   * the shared state of one converter instance + content store, and the ATOMIC sub-steps of a layer conversion
     that touch it (each is one call into the content store, which serialises them, or the map update under
     esgzDigest2TOCMu):
       Uncompress i   zstdchunked only: uncompress.LayerConvertFunc commits the plain tar WITHOUT the uncompressed label
       Commit i       w.Commit(labelz) of the converted blob; on AlreadyExists the label is written by cs.Update
       Record i       externaltoc only: esgzDigest2TOC[layer digest] = TOC blob (digest,size)
     A schedule (sequential, parallel, retried) is an arbitrary list of these ops: "for all schedules" = "for all lists".
   * finalize: the TOC image manifest = one entry per map key, and fetcher.go's lookup in it. *)
From Coq Require Import List NArith Bool.
Import ListNotations.

Inductive kind := KEsgz | KZstd | KExt | KExtLL.
Inductive comp := Gz | Zst.
(* layer media types: OCI, OCI non-distributable, Docker, Docker foreign  x  tar / gzip / zstd *)
Inductive mt := OciTar | OciGz | OciZst | NdTar | NdGz | NdZst | DkTar | DkGz | DkZst | DfTar | DfGz.

Definition kind_comp (k : kind) : comp := match k with KZstd => Zst | _ => Gz end.
Definition is_ext (k : kind) : bool := match k with KExt | KExtLL => true | _ => false end.

Definition comp_eqb (a b : comp) : bool := match a, b with Gz, Gz | Zst, Zst => true | _, _ => false end.
Definition mt_eqb (a b : mt) : bool :=
  match a, b with
  | OciTar, OciTar | OciGz, OciGz | OciZst, OciZst | NdTar, NdTar | NdGz, NdGz | NdZst, NdZst
  | DkTar, DkTar | DkGz, DkGz | DkZst, DkZst | DfTar, DfTar | DfGz, DfGz => true
  | _, _ => false
  end.

(* what a media type says about the compression of the blob *)
Definition mt_comp (m : mt) : option comp :=
  match m with
  | OciGz | NdGz | DkGz | DfGz => Some Gz
  | OciZst | NdZst | DkZst => Some Zst
  | OciTar | NdTar | DkTar | DfTar => None
  end.
Definition is_docker (m : mt) : bool := match m with DkTar | DkGz | DkZst | DfTar | DfGz => true | _ => false end.
Definition is_nondist (m : mt) : bool := match m with NdTar | NdGz | NdZst | DfTar | DfGz => true | _ => false end.

(* converter.ConvertDockerMediaTypeToOCI (the Docker zstd type is not in its table: returned as it is) *)
Definition docker_to_oci (m : mt) : mt :=
  match m with DkTar => OciTar | DkGz => OciGz | DfTar => NdTar | DfGz => NdGz | x => x end.
(* nativeconverter/estargz.ConvertMediaTypeToGzip *)
Definition to_gzip (m : mt) : mt :=
  match m with
  | OciZst => OciGz | NdZst => NdGz | DkZst => DkGz
  | OciTar => OciGz | NdTar => NdGz | DkTar => DkGz | DfTar => DfGz
  | x => x
  end.
(* nativeconverter/zstdchunked.convertMediaTypeToZstd; None = "unknown mediatype" error *)
Definition to_zstd (m : mt) : option mt :=
  match docker_to_oci m with
  | OciTar | OciGz | OciZst => Some OciZst
  | NdTar | NdGz | NdZst => Some NdZst
  | _ => None
  end.
Definition out_mt (k : kind) (m : mt) : option mt :=
  match k with KZstd => to_zstd m | _ => Some (to_gzip m) end.

(* ---- association lists keyed by digests ---- *)
Fixpoint alookup {V} (m : list (N * V)) (k : N) : option V :=
  match m with
  | [] => None
  | (k', v) :: t => if N.eqb k' k then Some v else alookup t k
  end.
(* Go map assignment m[k] = v *)
Fixpoint aset {V} (m : list (N * V)) (k : N) (v : V) : list (N * V) :=
  match m with
  | [] => [(k, v)]
  | (k', v') :: t => if N.eqb k' k then (k, v) :: t else (k', v') :: aset t k v
  end.

(* a sequence of map assignments, in order *)
Definition assign {V} (m : list (N * V)) (evs : list (N * V)) : list (N * V) :=
  fold_left (fun m e => aset m (fst e) (snd e)) evs m.

(* content store: blob digest -> value of the containerd.io/uncompressed label (0 = no such label) *)
Definition store := list (N * N).
(* esgzDigest2TOC: layer digest -> (TOC blob digest, TOC blob size) *)
Definition tocmap := list (N * (N * N)).

(* w.Commit(ctx, n, "", WithLabels(labelz)) with labelz[uncompressed] = l *)
Definition commit (s : store) (d l : N) : store :=
  match alookup s d with
  | None => aset s d l          (* blob created with its labels *)
  | Some _ => aset s d l        (* AlreadyExists: labels untouched by Commit; cs.Update writes the label (fix-4) *)
  end.
(* uncompress.LayerConvertFunc: delete(labels, uncompressed); Commit; AlreadyExists ignored *)
Definition commit_nolabel (s : store) (d : N) : store :=
  match alookup s d with
  | None => aset s d 0%N
  | Some _ => s
  end.

Record desc := mkDesc { d_mt : mt; d_digest : N; d_size : N; d_toc : N; d_usize : N }.

Record st := mkSt { sstore : store; smap : tocmap }.

(* Finalize refok: one call of the finalize callback of an external-TOC converter; refok = the target reference parses *)
Inductive op := Uncompress (i : nat) | Commit (i : nat) | Record (i : nat) | Finalize (refok : bool).

Section Conv.
  Context {blob : Type}.
  Variable H : blob -> N.
  Variable len : blob -> N.
  Variable payload : blob -> blob.
  Variable tocdg : blob -> N.
  Variable etoc : blob -> N * N.

  (* one layer of the image: the source descriptor's media type, the source blob, and what Build /
     AppendTarLossLess produced for it (None = it returned an error) *)
  Record layer := mkLay { l_mt : mt; l_src : blob; l_built : option blob }.

  (* layerLossLessConvertFunc: "check the lossless conversion" *)
  Definition lossless_ok (src b : blob) : bool :=
    N.eqb (H (payload b)) (H (payload src)) && N.eqb (len (payload b)) (len (payload src)).

  (* the blob a conversion commits (None = the conversion returns an error before Commit) *)
  Definition committed (k : kind) (l : layer) : option blob :=
    match l_built l with
    | None => None
    | Some b =>
        match k with
        | KExtLL => if lossless_ok (l_src l) b then Some b else None
        | _ => Some b
        end
    end.

  (* the descriptor returned (None = error) *)
  Definition convert (k : kind) (l : layer) : option desc :=
    match committed k l with
    | None => None
    | Some b =>
        match out_mt k (l_mt l) with
        | None => None
        | Some m => Some (mkDesc m (H b) (len b) (tocdg b) (len (payload b)))
        end
    end.

  Definition step (k : kind) (ls : list layer) (s : st) (o : op) : st :=
    match o with
    | Uncompress i =>
        match k, nth_error ls i with
        | KZstd, Some l =>
            match mt_comp (l_mt l) with     (* if !uncompress.IsUncompressedType(desc.MediaType) *)
            | Some _ => mkSt (commit_nolabel (sstore s) (H (payload (l_src l)))) (smap s)
            | None => s
            end
        | _, _ => s
        end
    | Commit i =>
        match nth_error ls i with
        | Some l =>
            match committed k l with
            | Some b => mkSt (commit (sstore s) (H b) (H (payload b))) (smap s)
            | None => s
            end
        | None => s
        end
    | Record i =>
        match nth_error ls i with
        | Some l =>
            match is_ext k, out_mt k (l_mt l), committed k l with
            | true, Some _, Some b => mkSt (sstore s) (aset (smap s) (H b) (etoc b))
            | _, _, _ => s
            end
        | None => s
        end
    | Finalize _ => s      (* finalizeFunc only READS esgzDigest2TOC (under the mutex): failed or not, it changes nothing *)
    end.

  Definition exec (k : kind) (ls : list layer) (s : st) (os : list op) : st := fold_left (step k ls) os s.

  (* the ops of layer i in program order *)
  Definition layer_ops (i : nat) : list op := [Uncompress i; Commit i; Record i].

  (* ---- vocabulary of the theorems ---- *)
  (* "layer i of ls is committed by the schedule os as blob b with digest d" *)
  Definition commits_to (k : kind) (ls : list layer) (os : list op) (d : N) (b : blob) : Prop :=
    exists i l, In (Commit i) os /\ nth_error ls i = Some l /\ committed k l = Some b /\ H b = d.
  (* "the schedule os records, for layer digest d, the TOC of blob b" (a successful external-TOC conversion of some layer) *)
  Definition records_to (k : kind) (ls : list layer) (os : list op) (d : N) (b : blob) : Prop :=
    exists i l, In (Record i) os /\ nth_error ls i = Some l /\ is_ext k = true
                /\ (exists m, out_mt k (l_mt l) = Some m) /\ committed k l = Some b /\ H b = d.
  (* the assignment performed by one op (nil when it does not touch the map) *)
  Definition map_event (k : kind) (ls : list layer) (o : op) : list (N * (N * N)) :=
    match o with
    | Record i =>
        match nth_error ls i with
        | Some l =>
            match is_ext k, out_mt k (l_mt l), committed k l with
            | true, Some _, Some b => [(H b, etoc b)]
            | _, _, _ => []
            end
        | None => []
        end
    | _ => []
    end.
  Definition map_events k ls os := flat_map (map_event k ls) os.

End Conv.

(* ================= the content writer under a writer ref (content/local writer.go, store.go resumeStatus) =================
   A conversion opens its writer with content.WithRef("convert-estargz-from-<source digest>") (resp. -zstdchunked-): the ref
   names the SOURCE layer only, not the options, so an interrupted conversion (signal, write error: Close without Commit
   keeps the ingest) leaves bytes of ANOTHER build under the ref of the retry.  OpenWriter resumes that ingest (offset =
   its length, digester re-fed with it); the converters then Truncate(0), stream the new build and Commit(n = bytes copied),
   which fails when n > 0 differs from the ingest size.  Bytes are an arbitrary type. *)
Section Writer.
  Context {byte : Type}.

  Record wst := mkW {
    w_ing : list (N * list byte);      (* ref -> bytes ingested so far, not committed *)
    w_blobs : list (list byte)         (* blobs committed by conversions, latest first *)
  }.

  (* one conversion attempt of the layer with writer ref r whose build (with whatever options) produced bs;
     cut = Some k: the copy dies after k bytes and the writer is closed without Commit *)
  Inductive attempt := Att (r : N) (bs : list byte) (cut : option nat).

  Definition resume (s : wst) (r : N) : list byte := match alookup (w_ing s) r with Some d => d | None => [] end.
  Fixpoint adel {V} (m : list (N * V)) (k : N) : list (N * V) :=
    match m with [] => [] | (k', v) :: t => if N.eqb k' k then adel t k else (k', v) :: adel t k end.
  (* writer.Commit: "unexpected commit size" unless size = 0 or size = length of the ingest *)
  Definition size_ok (data : list byte) (n : nat) : bool := Nat.eqb n 0 || Nat.eqb n (length data).

  (* the converters' sequence: OpenWriter(ref) ; Truncate(0) ; io.Copy ; Commit(n) / Close *)
  Definition attempt_step (s : wst) (a : attempt) : wst * option (list byte) :=
    let '(Att r bs cut) := a in
    (* OpenWriter resumes [resume s r]; w.Truncate(0) discards it *)
    let w1 : list byte := [] in
    match cut with
    | Some k => (mkW (aset (w_ing s) r (w1 ++ firstn k bs)) (w_blobs s), None)
    | None =>
        let data := w1 ++ bs in
        if size_ok data (length bs) then (mkW (adel (w_ing s) r) (data :: w_blobs s), Some data)
        else (mkW (aset (w_ing s) r data) (w_blobs s), None)
    end.

  (* NOT the converters' code: the same sequence without Truncate(0) (what a resumed writer does on its own) ... *)
  Definition attempt_step_resume (s : wst) (a : attempt) : wst * option (list byte) :=
    let '(Att r bs cut) := a in
    let w1 := resume s r in
    match cut with
    | Some k => (mkW (aset (w_ing s) r (w1 ++ firstn k bs)) (w_blobs s), None)
    | None =>
        let data := w1 ++ bs in
        if size_ok data (length bs) then (mkW (adel (w_ing s) r) (data :: w_blobs s), Some data)
        else (mkW (aset (w_ing s) r data) (w_blobs s), None)
    end.
  (* ... and the variant that skips Status().Offset bytes of the new build and appends the rest *)
  Definition attempt_step_skip (s : wst) (a : attempt) : wst * option (list byte) :=
    let '(Att r bs cut) := a in
    let w1 := resume s r in
    let rest := skipn (length w1) bs in
    match cut with
    | Some k => (mkW (aset (w_ing s) r (w1 ++ firstn k rest)) (w_blobs s), None)
    | None =>
        let data := w1 ++ rest in
        if size_ok data (length w1 + length rest) then (mkW (adel (w_ing s) r) (data :: w_blobs s), Some data)
        else (mkW (aset (w_ing s) r data) (w_blobs s), None)
    end.

  Fixpoint run_attempts (s : wst) (l : list attempt) : wst * list (option (list byte)) :=
    match l with
    | [] => (s, [])
    | a :: t => let '(s1, o) := attempt_step s a in let '(s2, os) := run_attempts s1 t in (s2, o :: os)
    end.

  (* what an attempt is expected to commit *)
  Definition expected (a : attempt) : option (list byte) :=
    let '(Att _ bs cut) := a in match cut with None => Some bs | Some _ => None end.
End Writer.

(* ================= the external-TOC compressor between TOC generation and TOC storage =================
   esgzexternaltoc.GzipCompressor keeps the last TOC it produced in its buf field (WriteTOCAndFooter, called at the end of
   estargz.Build / Writer.Close) and writeTOCTo stores whatever buf holds.  layerConvert creates one GzipCompression PER
   CALL of the convert function, i.e. per layer conversion: conversion i has its own buf.  The two sub-steps of conversion
   i are separated by the commit of the layer blob, so other conversions run in between.
     GenTOC i t     conversion i's compressor produces TOC blob t = (digest, size)
     StoreTOC i d   conversion i stores buf as a blob and records esgzDigest2TOC[d] = buf   (d = its layer digest)
   [shared] = true is NOT the code: one compressor for all conversions of the converter instance. *)
Inductive cop := GenTOC (i : N) (t : N * N) | StoreTOC (i : N) (d : N).
Record cst := mkC { c_bufs : list (N * (N * N)); c_map : tocmap }.
Definition cbuf_key (shared : bool) (i : N) : N := if shared then 0%N else i.
Definition cstep (shared : bool) (s : cst) (o : cop) : cst :=
  match o with
  | GenTOC i t => mkC (aset (c_bufs s) (cbuf_key shared i) t) (c_map s)
  | StoreTOC i d =>
      match alookup (c_bufs s) (cbuf_key shared i) with
      | Some t => mkC (c_bufs s) (aset (c_map s) d t)
      | None => s                          (* "TOC hasn't been registered" *)
      end
  end.
Definition crun (shared : bool) (s : cst) (os : list cop) : cst := fold_left (cstep shared) os s.
(* conversion i generates no TOC in os *)
Definition no_gen (i : N) (os : list cop) : Prop := forall t, ~ In (GenTOC i t) os.

(* ---- finalize: TOC image manifest ---- *)
(* entries are (layer digest annotation, (TOC blob digest, size)); the code sorts by TOC digest only (sort.Slice, not
   stable, over a randomly ordered map range); the canonical form used here and by the harness orders ties by layer digest *)
Definition ent_leb (a b : N * (N * N)) : bool :=
  let '(la, (ta, _)) := a in let '(lb, (tb, _)) := b in
  N.ltb ta tb || (N.eqb ta tb && N.leb la lb).
Fixpoint ins_sorted (x : N * (N * N)) (l : list (N * (N * N))) : list (N * (N * N)) :=
  match l with
  | [] => [x]
  | y :: t => if ent_leb x y then x :: y :: t else y :: ins_sorted x t
  end.
Definition finalize (m : tocmap) : list (N * (N * N)) := fold_right ins_sorted [] m.

(* fetcher.go fetchTOCBlobFromManifest: first manifest layer whose layer.digest annotation is d *)
Fixpoint fetch (mf : list (N * (N * N))) (d : N) : option (N * N) :=
  match mf with
  | [] => None
  | (l, t) :: r => if N.eqb l d then Some t else fetch r d
  end.

(* what the finalize calls of a schedule return, in order: finalizeFunc builds the manifest from the map as it is at that
   moment (createManifest), then getTOCReference(ref) fails for an unparsable reference -> (nil, err) *)
Section Fin.
  Context {blob : Type}.
  Variable H : blob -> N.
  Variable len : blob -> N.
  Variable payload : blob -> blob.
  Variable etoc : blob -> N * N.
  Fixpoint fin_outputs (k : kind) (ls : list layer) (s : st) (os : list op) : list (option (list (N * (N * N)))) :=
    match os with
    | [] => []
    | o :: t =>
        match o with
        | Finalize refok => [if refok then Some (finalize (smap s)) else None]
        | _ => []
        end ++ fin_outputs k ls (step H len payload etoc k ls s o) t
    end.
End Fin.

(* the manifest is ordered by TOC digest (what sort.Slice establishes) *)
Fixpoint toc_sorted (l : list (N * (N * N))) : Prop :=
  match l with
  | [] => True
  | x :: t => (forall y, In y t -> (fst (snd x) <= fst (snd y))%N) /\ toc_sorted t
  end.

(* ================= correspondence: concrete blobs = tuples of the observed function values ================= *)
Record cblob := mkBlob { c_h : N; c_len : N; c_hpay : N; c_paylen : N; c_cmp : option comp; c_toc : N; c_etoc : N; c_etoclen : N }.
Definition cH (b : cblob) := c_h b.
Definition cLen (b : cblob) := c_len b.
Definition cPayload (b : cblob) := mkBlob (c_hpay b) (c_paylen b) 0 0 None 0 0 0.
Definition cToc (b : cblob) := c_toc b.
Definition cEtoc (b : cblob) := (c_etoc b, c_etoclen b).

Inductive obs := OErr | OOk (m : mt) (digest size toc : N) (usize : option N) (label : N).

(* source media type, source digest, source uncompressed label, source blob (as tuple), converted once before?,
   the committed blob (dummy when the conversion failed), observation *)
(* ... plus the number of bytes found under the conversion's writer ref before and after it *)
Record clayer := mkLayer {
  cl_mt : mt; cl_srcdigest : N; cl_srclabel : N; cl_src : cblob; cl_retry : bool; cl_ok : bool; cl_blob : cblob; cl_obs : obs;
  cl_leftover : N; cl_ingest_after : N;
  (* a blob (digest, uncompressed label; 0 = no labels) put into the store before the conversions: the would-be result *)
  cl_planted : option (N * N);
  (* uncompressed label of the SOURCE blob after the conversions *)
  cl_srclabel_after : N }.

(* c_fins: the finalize calls of the case in order: (number of layers converted before the call, (reference parses?,
   observed manifest entries or None for an error)); layers after the last call are converted at the end *)
Record case := mkCase { c_kind : kind; c_layers : list clayer; c_fins : list (nat * (bool * option (list (N * (N * N))))) }.

Definition to_layer (c : clayer) : layer := mkLay (cl_mt c) (cl_src c) (if cl_ok c then Some (cl_blob c) else None).

Definition init_store (ls : list clayer) : store :=
  fold_left (fun s c => match cl_planted c with Some (d, l) => aset s d l | None => s end) ls
    (fold_left (fun s c => aset s (cl_srcdigest c) (cl_srclabel c)) ls []).

Fixpoint seq_ops (n i : nat) : list op :=
  match n with O => [] | S n' => layer_ops i ++ seq_ops n' (S i) end.
Fixpoint retry_ops (ls : list clayer) (i : nat) : list op :=
  match ls with
  | [] => []
  | c :: t => (if cl_retry c then layer_ops i else []) ++ retry_ops t (S i)
  end.

(* the case's program: history (retries), then per finalize call the layers up to its position followed by the call,
   then the remaining layers *)
Fixpoint phase_ops (n done : nat) (fins : list (nat * (bool * option (list (N * (N * N)))))) : list op :=
  match fins with
  | [] => seq_ops (n - done) done
  | (upto, (refok, _)) :: t => seq_ops (upto - done) done ++ Finalize refok :: phase_ops n (Nat.max done upto) t
  end.
Definition case_ops (c : case) : list op :=
  retry_ops (c_layers c) 0 ++ phase_ops (length (c_layers c)) 0 (c_fins c).
Definition case_init (c : case) : st := mkSt (init_store (c_layers c)) [].
Definition run_case (c : case) : st :=
  exec cH cLen cPayload cEtoc (c_kind c) (map to_layer (c_layers c)) (case_init c) (case_ops c).

Definition optN_eqb (a b : option N) : bool :=
  match a, b with Some x, Some y => N.eqb x y | None, None => true | _, _ => false end.

Definition obs_ok (k : kind) (fin : st) (c : clayer) : bool :=
  match convert cH cLen cPayload cToc k (to_layer c), cl_obs c with
  | None, OErr => true
  | Some d, OOk m dg sz toc usz lab =>
      mt_eqb m (d_mt d) && N.eqb dg (d_digest d) && N.eqb sz (d_size d) && N.eqb toc (d_toc d)
      && optN_eqb usz (Some (d_usize d))
      && optN_eqb (alookup (sstore fin) (d_digest d)) (Some lab) && N.eqb lab (c_hpay (cl_blob c))
      (* writer model (attempt_step, completed): whatever was left under the ref, the committed size is the build's
         (sz = len b above) and no ingest remains under the ref *)
      && N.eqb (cl_ingest_after c) 0
      && match c_cmp (cl_blob c) with Some x => comp_eqb x (kind_comp k) | None => false end
      && match mt_comp m, c_cmp (cl_blob c) with Some x, Some y => comp_eqb x y | _, _ => false end
  | _, _ => false
  end.

Fixpoint ents_eqb (a b : list (N * (N * N))) : bool :=
  match a, b with
  | [], [] => true
  | (l, (t, s)) :: a', (l', (t', s')) :: b' => N.eqb l l' && N.eqb t t' && N.eqb s s' && ents_eqb a' b'
  | _, _ => false
  end.

Fixpoint fins_eqb (a b : list (option (list (N * (N * N))))) : bool :=
  match a, b with
  | [], [] => true
  | None :: a', None :: b' => fins_eqb a' b'
  | Some x :: a', Some y :: b' => ents_eqb x y && fins_eqb a' b'
  | _, _ => false
  end.

Definition case_ok (c : case) : bool :=
  let fin := run_case c in
  forallb (obs_ok (c_kind c) fin) (c_layers c)
  (* frame: the store's label of every source blob is what the model says (unchanged unless a conversion committed that digest) *)
  (* (not predicted for a layer the converter refuses AFTER its Commit — zstd:chunked on Docker's zstd type —: the harness
     does not learn which blob that conversion committed; an already-converted source reproduces itself there) *)
  && forallb (fun l => match out_mt (c_kind c) (cl_mt l) with
                       | None => true
                       | Some _ => optN_eqb (alookup (sstore fin) (cl_srcdigest l)) (Some (cl_srclabel_after l))
                       end) (c_layers c)
  && (is_ext (c_kind c) || match c_fins c with [] => true | _ => false end)
  && fins_eqb (map (fun f => snd (snd f)) (c_fins c))
              (fin_outputs cH cLen cPayload cEtoc (c_kind c) (map to_layer (c_layers c)) (case_init c) (case_ops c)).

Fixpoint mismatches_from (n : nat) (cs : list case) : list nat :=
  match cs with
  | [] => []
  | c :: t => if case_ok c then mismatches_from (S n) t else n :: mismatches_from (S n) t
  end.
Definition mismatches := mismatches_from 0.
