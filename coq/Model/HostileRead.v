(* C04 — fs/reader/reader.go file.ReadAt: assembling a read from chunks, over an ARBITRARY chunk lookup.
   Executable definitions only; proofs are in Proofs/HostileRead.v.

   The metadata store is the adversary: [lk off] is whatever metadata.File.ChunkEntryForOffset(off) answers
   (None = !ok), any int64 pair. Per iteration the environment also chooses ([it_oracle]): whether the cache has the chunk,
   how many bytes the payload reader returns (None = a non-EOF error), whether verification passes.
   [max_alloc]: the largest temporary buffer bytes.Buffer.Grow can obtain; beyond it Grow panics (ErrTooLarge) or the
   runtime dies (out of memory).

   Models the code after C04-fix-7 (chunk must contain the current offset; lowerDiscard relative to it; no-progress
   break). *)
From Coq Require Import List ZArith NArith Bool.
From SV Require Import Model.Footer.
Import ListNotations.
Local Open Scope Z_scope.

Record it_oracle := mkIt { it_hit : bool; it_read : option Z; it_verify : bool }.

Definition in64 (x : Z) : Prop := - two63 <= x < two63.

Section ReadAt.
  Variable lk : Z -> option (Z * Z).
  Variable orc : Z -> it_oracle.          (* indexed by the current position nr *)
  Variable max_alloc : Z.
  Variable offset len : Z.                (* ReadAt(p, offset), len = len(p) *)

  (* one iteration at position nr: either the loop ends with a result, or it continues at a new position *)
  Inductive iter := Done (r : outcome Z) | Next (nr : Z).

  Definition read_iter (nr : Z) : iter :=
    match lk (offset + nr) with
    | None => Done (Ok nr)                                              (* !ok: break *)
    | Some (co, cs) =>
        let cur := offset + nr in
        let e := wrap64 (co + cs) in
        if (co <? 0) || (e <? co) || (cur <? co) || (e <=? cur) then Done Err   (* C04-fix-7 *)
        else
          let lower := cur - co in
          let upper := positive (e - (offset + len)) in
          let expected := cs - upper - lower in
          let o := orc nr in
          (* cache hit: r.ReadAt(p[nr:nr+expected], lower) *)
          match (if it_hit o then sl (repeat 0%N (Z.to_nat len)) nr (nr + expected) else Some []) with
          | None => Done Panic
          | Some _ =>
              if it_hit o then Next (nr + expected)
              else if (lower =? 0) && (upper =? 0) then
                (* read straight into p[nr:nr+cs] *)
                match sl (repeat 0%N (Z.to_nat len)) nr (nr + cs) with
                | None => Done Panic
                | Some _ =>
                    match it_read o with
                    | None => Done Err
                    | Some n =>
                        if negb (it_verify o) then Done Err
                        else if n =? 0 then Done (Ok nr)                    (* C04-fix-7: no progress -> break *)
                        else Next (nr + n)
                    end
                end
              else
                (* temporary buffer of the whole chunk: b.Grow(int(cs)); ip := b.Bytes()[:cs] *)
                if (cs <? 0) || (max_alloc <? cs) then Done Panic
                else match it_read o with
                     | None => Done Err
                     | Some _ =>
                         if negb (it_verify o) then Done Err
                         else
                           (* n := copy(p[nr:], ip[lower:cs-upper]) *)
                           if negb ((0 <=? lower) && (lower <=? cs - upper) && (cs - upper <=? cs)) then Done Panic
                           else if negb ((0 <=? nr) && (nr <=? len)) then Done Panic
                           else let n := Z.min (len - nr) (cs - upper - lower) in
                                if negb (n =? expected) then Done Err else Next (nr + n)
                     end
          end
    end.

  Fixpoint read_loop (fuel : nat) (nr : Z) : outcome Z :=
    if len <=? nr then Ok nr else
    match fuel with
    | O => OutOfFuel
    | S f => match read_iter nr with
             | Done r => r
             | Next nr' => read_loop f nr'
             end
    end.

  Definition read_at : outcome Z := read_loop (S (Z.to_nat len)) 0.
End ReadAt.

(* ---- instance used by the correspondence check: table-driven lookup, scripted cache hits, file of [fsize] bytes ---- *)

(* first chunk of the table accepted by the memory store's predicate (int64 wrap-around included) *)
Fixpoint table_lookup (cs : list (Z * Z)) (off : Z) : option (Z * Z) :=
  match cs with
  | [] => None
  | (co, sz) :: t =>
      if (off <=? co) || ((co <? off) && (off <? wrap64 (co + sz))) then Some (co, sz) else table_lookup t off
  end.

(* the harness consumes one script entry per cache Get, i.e. per iteration that reaches the cache: thread the script *)
Fixpoint read_script (fuel : nat) (chunks : list (Z * Z)) (offset len fsize : Z) (hits : list bool) (nr : Z) : outcome Z :=
  if len <=? nr then Ok nr else
  match fuel with
  | O => OutOfFuel
  | S f =>
      let hit := match hits with h :: _ => h | [] => false end in
      let lkf := table_lookup chunks in
      let o := fun _ : Z =>
        match lkf (offset + nr) with
        | Some (co, cs) =>
            mkIt hit (if fsize <=? co then Some 0 else Some (Z.min cs (fsize - co))) true
        | None => mkIt hit None true
        end in
      match read_iter lkf o 2147483648 offset len nr with
      | Done r => r
      | Next nr' =>
          (* a Get happened iff the iteration got past the chunk check, which it did since it continues *)
          read_script f chunks offset len fsize (tl hits) nr'
      end
  end.

Definition read_run (chunks : list (Z * Z)) (offset len fsize : Z) (hits : list bool) : outcome Z :=
  read_script (S (Z.to_nat len)) chunks offset len fsize hits 0.
