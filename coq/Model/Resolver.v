(* Model of fs/layer.Resolver (Resolve / resolveBlob / layerRef.Done,Close / layer.close / eviction callbacks)
   built over the refcounted-cache machine of C10 (Model/Refcache.v, used unchanged: two instances with
   capacity 0 = the two TTL caches layerCache and blobCache).
   Executable definitions only; proofs are in Proofs/Resolver.v.

   Identities.  A layer object is identified with its value id in the layer cache (allocation order of
   successful layerCache.Add calls), a blob object with its value id in the blob cache; a `done` closure with
   its handle index in the respective cache machine.  A user handle (a layerRef returned by Resolve) is an
   index into [uh].  Cache directories are numbered in creation order; [kinds] records for every directory
   ever created whether it lies under fscache/ (true) or httpcache/ (false); [dirs] is what exists on disk.

   Interleavings.  A Resolve call is a thread: [RStart n] creates it, every [RStep t ok] performs ONE sub-step,
   the sub-steps being the critical sections of the cache mutexes the code really takes (layerCache.Get,
   done(true), Remove, blobCache.Get, ..., Add) with the thread-local work (directory creation, object
   construction, per-name lock acquire/release) attached to the neighbouring critical section.  [ok] is the
   adversary-chosen outcome of the external call made by that sub-step, if it makes one (fetcher.check() in
   layer/blob Check, the registry in remote.Resolver.Resolve, the metadata store opening the TOC).
   A schedule is an arbitrary list of ops; "for all interleavings" = "for all lists".
   (Where a sub-step both updates the thread's own bookkeeping and runs a cache critical section, the model writes
   the bookkeeping first; the two touch disjoint parts of the state.)
   The OnEvicted callback of the layer cache (layer.close) runs inside the layer-cache critical section and
   takes the blob-cache mutex itself (blob.done(true)); it is modelled inside the same step. *)
From Coq Require Import List Arith ZArith Bool.
From SV Require Model.Refcache.
Import ListNotations.

Module R := SV.Model.Refcache.

Record lobj := mkL { l_closed : bool; l_bh : nat; l_dir : nat }.   (* *layer: closed, blobRef handle, fscache dir *)
Record bobj := mkB { b_closed : bool; b_dir : nat }.                (* remote.blob: closed, httpcache dir *)

Inductive pc :=
| PWait                 (* before resolveLock.Lock(name) *)
| PHit (h : nat)        (* layerCache.Get hit with done-closure h; next: l.Check() *)
| PEvict (h : nat)      (* Check failed; next: done(true) *)
| PRemove               (* next: layerCache.Remove(name) *)
| PBlob                 (* next: blobCache.Get(name) *)
| PBHit (bh : nat)      (* blob cache hit; next: blob.Check() *)
| PBEvict (bh : nat)    (* next: done(true) on the blob *)
| PBRemove              (* next: blobCache.Remove(name) *)
| PMkHttp               (* next: newCache(httpcache) *)
| PHandle (d : nat)     (* next: remote Resolve (may fail), then blobCache.Add *)
| PMkFs (bh : nat)      (* next: newCache(fscache) *)
| PMeta (bh d : nat)    (* next: metadata store (may fail), NewReader, newLayer, layerCache.Add *)
| PDone.

Record thr := mkT { t_name : nat; t_pc : pc }.

Record st := mkSt {
  lc : R.st;                  (* layerCache *)
  bc : R.st;                  (* blobCache *)
  lobjs : list lobj;          (* by layer-cache value id *)
  bobjs : list bobj;          (* by blob-cache value id *)
  dirs : list nat;            (* existing cache directories *)
  kinds : list bool;          (* kind of every directory ever created; next id = length *)
  locks : list nat;           (* names whose resolveLock is held *)
  thrs : list thr;            (* Resolve calls *)
  uh : list (nat * bool);     (* layerRefs handed to callers: (layer-cache handle, Done/Close already called) *)
  bad : list nat              (* blobs (by value id) whose fetcher was replaced, by an accepted Refresh, with one that
                                 serves other bytes than the blob's (same size, different content) *)
}.

Definition init : st := mkSt (R.init 0) (R.init 0) [] [] [] [] [] [] [] [].

Definition set_lc s x := mkSt x (bc s) (lobjs s) (bobjs s) (dirs s) (kinds s) (locks s) (thrs s) (uh s) (bad s).
Definition set_bc s x := mkSt (lc s) x (lobjs s) (bobjs s) (dirs s) (kinds s) (locks s) (thrs s) (uh s) (bad s).
Definition set_lobjs s x := mkSt (lc s) (bc s) x (bobjs s) (dirs s) (kinds s) (locks s) (thrs s) (uh s) (bad s).
Definition set_bobjs s x := mkSt (lc s) (bc s) (lobjs s) x (dirs s) (kinds s) (locks s) (thrs s) (uh s) (bad s).
Definition set_dirs s x := mkSt (lc s) (bc s) (lobjs s) (bobjs s) x (kinds s) (locks s) (thrs s) (uh s) (bad s).
Definition set_kinds s x := mkSt (lc s) (bc s) (lobjs s) (bobjs s) (dirs s) x (locks s) (thrs s) (uh s) (bad s).
Definition set_locks s x := mkSt (lc s) (bc s) (lobjs s) (bobjs s) (dirs s) (kinds s) x (thrs s) (uh s) (bad s).
Definition set_thrs s x := mkSt (lc s) (bc s) (lobjs s) (bobjs s) (dirs s) (kinds s) (locks s) x (uh s) (bad s).
Definition set_uh s x := mkSt (lc s) (bc s) (lobjs s) (bobjs s) (dirs s) (kinds s) (locks s) (thrs s) x (bad s).
Definition set_bad s x := mkSt (lc s) (bc s) (lobjs s) (bobjs s) (dirs s) (kinds s) (locks s) (thrs s) (uh s) x.

Fixpoint rm (d : nat) (l : list nat) : list nat :=
  match l with
  | [] => []
  | x :: t => if Nat.eqb x d then rm d t else x :: rm d t
  end.

Fixpoint mem (n : nat) (l : list nat) : bool :=
  match l with
  | [] => false
  | x :: t => Nat.eqb x n || mem n t
  end.

(* os.RemoveAll(dir) *)
Definition rmdir s d := set_dirs s (rm d (dirs s)).
(* os.MkdirTemp: a fresh directory *)
Definition mkdir s (k : bool) : st * nat :=
  let d := length (kinds s) in (set_dirs (set_kinds s (kinds s ++ [k])) (d :: dirs s), d).

(* blobCache.OnEvicted = blob.Close(): closed := true; cache.Close() removes the httpcache directory *)
Definition close_blob (s : st) (b : nat) : st :=
  match nth_error (bobjs s) b with
  | Some o => if b_closed o then s
              else rmdir (set_bobjs s (R.upd (bobjs s) b (mkB true (b_dir o)))) (b_dir o)
  | None => s
  end.

Definition newlog (c c' : R.st) : list nat := skipn (length (R.log c)) (R.log c').

(* one critical section of the blob cache, followed (inside it) by the OnEvicted callbacks it triggered *)
Definition bc_do (s : st) (o : R.op) : st * R.ret :=
  let cr := R.step (bc s) o in
  (fold_left close_blob (newlog (bc s) (fst cr)) (set_bc s (fst cr)), snd cr).

(* layerCache.OnEvicted = layer.close(): closed := true; verifiableReader.Close() (fscache directory removed,
   metadata reader closed); then the deferred blob.done(true) *)
Definition close_layer (s : st) (v : nat) : st :=
  match nth_error (lobjs s) v with
  | Some o => if l_closed o then s
              else fst (bc_do (rmdir (set_lobjs s (R.upd (lobjs s) v (mkL true (l_bh o) (l_dir o)))) (l_dir o))
                              (R.Release (l_bh o) true))
  | None => s
  end.

Definition lc_do (s : st) (o : R.op) : st * R.ret :=
  let cr := R.step (lc s) o in
  (fold_left close_layer (newlog (lc s) (fst cr)) (set_lc s (fst cr)), snd cr).

Definition hval (c : R.st) (h : nat) : option nat :=
  match nth_error (R.hs c) h with Some (v, _) => Some v | None => None end.

(* closed flags as seen through a layer-cache handle: (layer closed, its blob closed) *)
Definition blob_closed_of (s : st) (bh : nat) : bool :=
  match hval (bc s) bh with
  | Some b => match nth_error (bobjs s) b with Some o => b_closed o | None => true end
  | None => true
  end.
Definition layer_flags (s : st) (h : nat) : bool * bool :=
  match hval (lc s) h with
  | Some v => match nth_error (lobjs s) v with
              | Some o => (l_closed o, blob_closed_of s (l_bh o))
              | None => (true, true)
              end
  | None => (true, true)
  end.

(* the blob (value id in the blob cache) behind a layer-cache handle *)
Definition blob_of (s : st) (h : nat) : option nat :=
  match hval (lc s) h with
  | Some v => match nth_error (lobjs s) v with Some o => hval (bc s) (l_bh o) | None => None end
  | None => None
  end.

Inductive ev :=
| ENone
| EBlocked                          (* Resolve waits for the per-name lock *)
| EPause (k : nat)                  (* Resolve is about to make an external call: 1 = connectivity check, 3 = registry, 4 = metadata store *)
| ERet (v : nat) (fresh : bool)     (* Resolve returned layer object v (fresh = created by this call) *)
| EErr                              (* Resolve / Refresh returned an error *)
| EUse (lclosed bclosed : bool)     (* what a holder observes (Check, RootNode, reads served from the caches) *)
| EProbe (ok : bool).               (* a read that has to go to the registry returned the blob's bytes *)

Definition setpc s t n p := set_thrs s (R.upd (thrs s) t (mkT n p)).
Definition unlock s n := set_locks s (rm n (locks s)).
Definition finish s t n := unlock (setpc s t n PDone) n.

Definition tstep (s : st) (t : nat) (ok : bool) : st * ev :=
  match nth_error (thrs s) t with
  | None => (s, ENone)
  | Some th =>
    let n := t_name th in
    match t_pc th with
    | PWait =>
        if mem n (locks s) then (s, EBlocked)
        else
          let s1 := set_locks s (n :: locks s) in
          let h := length (R.hs (lc s1)) in
          let sr := lc_do s1 (R.Get n) in
          match snd sr with
          | Some _ => (setpc (fst sr) t n (PHit h), ENone)
          | None => (setpc (fst sr) t n PBlob, ENone)
          end
    | PHit h =>
        let '(lcl, bcl) := layer_flags s h in
        if negb lcl && negb bcl && ok then
          match hval (lc s) h with
          | Some v => (finish (set_uh s (uh s ++ [(h, false)])) t n, ERet v false)
          | None => (setpc s t n (PEvict h), ENone)
          end
        else (setpc s t n (PEvict h), ENone)
    | PEvict h => (fst (lc_do (setpc s t n PRemove) (R.Release h true)), ENone)
    | PRemove => (fst (lc_do (setpc s t n PBlob) (R.Remove n)), ENone)
    | PBlob =>
        let bh := length (R.hs (bc s)) in
        let sr := bc_do s (R.Get n) in
        match snd sr with
        | Some _ => (setpc (fst sr) t n (PBHit bh), ENone)
        | None => (setpc (fst sr) t n PMkHttp, ENone)
        end
    | PBHit bh =>
        if negb (blob_closed_of s bh) && ok then (setpc s t n (PMkFs bh), ENone)
        else (setpc s t n (PBEvict bh), ENone)
    | PBEvict bh => (fst (bc_do (setpc s t n PBRemove) (R.Release bh true)), ENone)
    | PBRemove => (fst (bc_do (setpc s t n PMkHttp) (R.Remove n)), ENone)
    | PMkHttp => let '(s1, d) := mkdir s false in (setpc s1 t n (PHandle d), ENone)
    | PHandle d =>
        if ok then
          let bh := length (R.hs (bc s)) in
          let sr := bc_do s (R.Add n) in
          match snd sr with
          | Some (_, true) => (setpc (set_bobjs (fst sr) (bobjs (fst sr) ++ [mkB false d])) t n (PMkFs bh), ENone)
          | _ => (setpc (rmdir (fst sr) d) t n (PMkFs bh), ENone)   (* !added: b.Close() *)
          end
        else (rmdir (finish s t n) d, EErr)                          (* httpCache.Close() *)
    | PMkFs bh => let '(s1, d) := mkdir s true in (setpc s1 t n (PMeta bh d), ENone)
    | PMeta bh d =>
        if ok then
          let h := length (R.hs (lc s)) in
          let sr := lc_do s (R.Add n) in
          match snd sr with
          | Some (v, true) =>
              (finish (set_uh (set_lobjs (fst sr) (lobjs (fst sr) ++ [mkL false bh d])) (uh (fst sr) ++ [(h, false)])) t n,
               ERet v true)
          | Some (v, false) =>                                        (* !added: l.close() on the new object *)
              let s1 := finish (set_uh (fst sr) (uh (fst sr) ++ [(h, false)])) t n in
              (fst (bc_do (rmdir s1 d) (R.Release bh true)), ERet v false)
          | None => (s, ENone)
          end
        else                                                         (* fsCache.Close(); blobR.done(true) *)
          (fst (bc_do (rmdir (finish s t n) d) (R.Release bh true)), EErr)
    | PDone => (s, ENone)
    end
  end.

(* what the registry answers to a Refresh (blob.Refresh -> resolveFetcher): the same blob again, an error, a blob of
   another size (refused: "invalid size of new blob"), or a blob of the same size with other bytes (accepted: only
   the size is compared) *)
Inductive rfo := RfOk | RfErr | RfSize | RfContent.

Inductive op :=
| RStart (n : nat)
| RStep (t : nat) (ok : bool)
| Done (u : nat)
| Close (u : nat)
| ExpireL (n : nat)
| ExpireB (n : nat)
| Use (u : nat)
| Refresh (u : nat) (r : rfo)
| Probe (u : nat)   (* read of a part of the blob that is not in the blob cache yet *).

Definition release (s : st) (u : nat) (evict : bool) : st :=
  match nth_error (uh s) u with
  | Some (h, _) => fst (lc_do (set_uh s (R.upd (uh s) u (h, true))) (R.Release h evict))
  | None => s
  end.

Definition step (s : st) (o : op) : st * ev :=
  match o with
  | RStart n => (set_thrs s (thrs s ++ [mkT n PWait]), ENone)
  | RStep t ok => tstep s t ok
  | Done u => (release s u false, ENone)
  | Close u => (release s u true, ENone)
  | ExpireL n => (fst (lc_do s (R.Expire n)), ENone)
  | ExpireB n => (fst (bc_do s (R.Expire n)), ENone)
  | Use u =>
      match nth_error (uh s) u with
      | Some (h, _) => let '(a, b) := layer_flags s h in (s, EUse a b)
      | None => (s, ENone)
      end
  | Refresh u r =>
      (* layer.Refresh: closed layer / closed blob -> error; resolveFetcher error -> error; other size -> error;
         otherwise the blob's fetcher is replaced by the new one *)
      match nth_error (uh s) u with
      | Some (h, _) =>
          let '(a, b) := layer_flags s h in
          if negb a && negb b then
            match r, blob_of s h with
            | RfOk, Some bid => (set_bad s (rm bid (bad s)), ENone)
            | RfContent, Some bid => (set_bad s (bid :: rm bid (bad s)), ENone)
            | RfOk, None | RfContent, None => (s, ENone)
            | RfErr, _ | RfSize, _ => (s, EErr)
            end
          else (s, EErr)
      | None => (s, ENone)
      end
  | Probe u =>
      match nth_error (uh s) u with
      | Some (h, _) =>
          match blob_of s h with
          | Some bid => (s, EProbe (negb (snd (layer_flags s h)) && negb (mem bid (bad s))))
          | None => (s, EProbe false)
          end
      | None => (s, ENone)
      end
  end.

Definition exec (s : st) (os : list op) : st := fold_left (fun s o => fst (step s o)) os s.

(* ---------- coarse ops: what the harness can schedule (a thread runs from one external call to the next) ---------- *)
Definition pause_code (p : pc) : option nat :=
  match p with
  | PHit _ | PBHit _ => Some 1
  | PHandle _ => Some 3
  | PMeta _ _ => Some 4
  | _ => None
  end.

Definition pc_of (s : st) (t : nat) : pc :=
  match nth_error (thrs s) t with Some th => t_pc th | None => PDone end.

(* run thread t until it is about to make an external call, returns, or blocks *)
Fixpoint run_on (fuel : nat) (s : st) (t : nat) (e : ev) : st * ev :=
  match fuel with
  | O => (s, e)
  | S f =>
      match e with
      | ENone =>
          match pause_code (pc_of s t) with
          | Some k => (s, EPause k)
          | None => match pc_of s t with
                    | PDone => (s, e)
                    | _ => let '(s1, e1) := tstep s t true in run_on f s1 t e1
                    end
          end
      | _ => (s, e)
      end
  end.

(* When a Resolve returns it releases the per-name lock; a Resolve of the same name blocked on that lock (PWait)
   then proceeds on its own up to its first external call.  The harness cannot separate the two, so the coarse
   step reports both events. *)
Definition is_ret (e : ev) : bool := match e with ERet _ _ | EErr => true | _ => false end.

Fixpoint find_waiter (ths : list thr) (i n : nat) : option nat :=
  match ths with
  | [] => None
  | th :: r => match t_pc th with
               | PWait => if Nat.eqb (t_name th) n then Some i else find_waiter r (S i) n
               | _ => find_waiter r (S i) n
               end
  end.

Definition wake (s : st) (t : nat) (e : ev) : st * ev :=
  if is_ret e then
    match nth_error (thrs s) t with
    | Some th => match find_waiter (thrs s) 0 (t_name th) with
                 | Some w => run_on 16 s w ENone
                 | None => (s, ENone)
                 end
    | None => (s, ENone)
    end
  else (s, ENone).

Definition cstep (s : st) (o : op) : st * (ev * ev) :=
  match o with
  | RStart n =>
      let s1 := fst (step s o) in
      let '(s2, e) := run_on 16 s1 (length (thrs s)) ENone in
      let '(s3, e') := wake s2 (length (thrs s)) e in (s3, (e, e'))
  | RStep t ok =>
      let '(s1, e1) := tstep s t ok in
      let '(s2, e) := run_on 16 s1 t e1 in
      let '(s3, e') := wake s2 t e in (s3, (e, e'))
  | _ => let '(s1, e) := step s o in (s1, (e, ENone))
  end.

(* observable summary of the state: number of fscache dirs, httpcache dirs, open metadata readers *)
Definition kind_of (s : st) (d : nat) : bool := nth d (kinds s) false.
Definition view (s : st) : nat * nat * nat :=
  (length (filter (kind_of s) (dirs s)),
   length (filter (fun d => negb (kind_of s d)) (dirs s)),
   length (filter (fun o => negb (l_closed o)) (lobjs s))).

Definition out := (ev * ev * (nat * nat * nat))%type.

Fixpoint crun (s : st) (os : list op) : list out :=
  match os with
  | [] => []
  | o :: t => let '(s1, e) := cstep s o in (fst e, snd e, view s1) :: crun s1 t
  end.

(* --- equality tests used by the correspondence check --- *)
Definition ev_eqb (a b : ev) : bool :=
  match a, b with
  | ENone, ENone | EBlocked, EBlocked | EErr, EErr => true
  | EPause x, EPause y => Nat.eqb x y
  | ERet v f, ERet w g => Nat.eqb v w && Bool.eqb f g
  | EUse a1 b1, EUse a2 b2 => Bool.eqb a1 a2 && Bool.eqb b1 b2
  | EProbe a1, EProbe a2 => Bool.eqb a1 a2
  | _, _ => false
  end.
Definition out_eqb (a b : out) : bool :=
  let '(e1, w1, (x1, y1, z1)) := a in let '(e2, w2, (x2, y2, z2)) := b in
  ev_eqb e1 e2 && ev_eqb w1 w2 && Nat.eqb x1 x2 && Nat.eqb y1 y2 && Nat.eqb z1 z2.
Fixpoint outs_eqb (a b : list out) : bool :=
  match a, b with
  | [], [] => true
  | x :: a', y :: b' => out_eqb x y && outs_eqb a' b'
  | _, _ => false
  end.

(* a case = coarse op list + outputs observed on the implementation *)
Definition case := (list op * list out)%type.
Definition case_ok (c : case) : bool := outs_eqb (crun init (fst c)) (snd c).
Fixpoint mismatches_from (n : nat) (cs : list case) : list nat :=
  match cs with
  | [] => []
  | c :: t => if case_ok c then mismatches_from (S n) t else n :: mismatches_from (S n) t
  end.
Definition mismatches := mismatches_from 0.
