(* Model of cache/cache.go: directoryCache (memory LRU + fd LRU + wip/final files + bufPool) and MemoryCache.
   Executable definitions only; proofs are in Proofs/Cache.v.

   The two LRUs are instances of the refcounted-cache machine of C10 (Model/Refcache.v, untouched):
     dc = dataCache  : key -> value id, value id -> bytes.Buffer id   ([dval]); OnEvicted = Reset + bufPool.Put
     fc = fileCache  : key -> value id, value id -> *os.File id       ([fval]); OnEvicted = file.Close
   Every writer owns exactly one inode (its wip file, created by os.CreateTemp): its content is the field [w_file];
   [w_renamed] says that os.Rename moved it to the final path of its key.  [dir] is the final-path directory
   (key -> writer whose inode is currently linked there; newest binding first = rename replaces).
   An fd ([fds]) is (inode = writer index, still open?); reading a closed *os.File is an error, never other bytes.

   An op is one atomic sub-step (delimited by the LRU mutexes / single syscalls), so a schedule of concurrent callers
   is an op list:
     Add k direct pick     dc.wipFile + (memory path) bufPool.Get: [pick] = which pooled buffer sync.Pool hands out
                           (None = a new one); chosen by the environment
     Write w bs            direct writer: write(2) to its wip file; memory writer: bytes.Buffer.Write
     Commit w              direct: MkdirAll+Rename.  memory: dataCache.Add(key,b) under the LRU lock including the
                           OnEvicted callbacks it triggers, then putBuffer(b) if !added; the persist closure
                           [commit] is left pending (stage 0) holding the [done] handle - whether it then runs on
                           the caller (SyncAdd) or on a goroutine only restricts WHERE the next three ops may occur
     PWrite w              persist: w.Write(cached.Bytes()) into the wip file
     PFail w n             persist fault: short/failed write of n bytes, then w.Abort() (unlink)
     PRename w             persist: w.Commit() = rename
     PDone w               persist: deferred w.Close(); done()  (release of the data-cache reference)
     Abort w / CloseW w
     GetMem k / GetFd k / GetOpen k direct   the three lookups of Get as separate steps (other callers may run
                           between them); Get k direct = the three in sequence without interference
     ReadAt r off n        no state change
     CloseR r              reader.Close: done() / file.Close / fileCache.Add + done (+ Close if !added)
     Peek k                (observation only) read the file at the final path of k
     CloseCache            directoryCache.Close: closed = true, os.RemoveAll(directory) (open descriptors keep their inodes);
                           afterwards Add/Get/Commit report "cache is already closed"; lookups already past the check go on
     The flag [mk] of Commit / PRename is the fault "os.MkdirAll of the key's directory fails" (chosen by the environment).
   Ops that violate the cache.Writer / cache.Reader protocol (Write/Commit/Abort on a writer that is not open,
   use of a closed reader, persist steps out of order) leave the state unchanged: they are outside the property's
   quantifier and are never sent to the implementation.
   PassThrough() and FadvDontNeed have no effect on the logic of cache.go at this commit and do not occur here.
   History variables (not in the code): [w_acc] (concatenation of the Writes), [r_key], [r_val] (value seen at hit time). *)
From Coq Require Import List Arith NArith ZArith Bool.
From SV Require Model.Refcache.
Import ListNotations.
Module R := SV.Model.Refcache.

Definition bytes := list N.
Definition slice (off n : nat) (l : bytes) : bytes := firstn n (skipn off l).

Inductive wstatus := WOpen | WCommitted | WAborted.
Inductive pstage := PNone | PStage (stage h i : nat).

Record writer := mkW {
  w_key : nat;
  w_buf : option nat;
  w_file : bytes;
  w_renamed : bool;
  w_acc : bytes;
  w_status : wstatus;
  w_ps : pstage;
  w_closed : bool }.

Inductive rkind := RBuf (b len h : nat) | RFd (f h : nat) | ROwn (f : nat) (tocache : bool).
Record reader := mkR { r_key : nat; r_kind : rkind; r_val : bytes; r_open : bool }.

Record st := mkSt {
  dc : R.st; dval : list nat;
  fc : R.st; fval : list nat;
  bufs : list bytes; pool : list nat;
  fds : list (nat * bool);
  dir : list (nat * nat);
  writers : list writer;
  readers : list reader;
  closed : bool }.

Inductive op :=
| Add (k : nat) (direct : bool) (pick : option nat)
| Write (w : nat) (bs : bytes)
| Commit (w : nat) (mk : bool)
| PWrite (w : nat)
| PFail (w n : nat)
| PRename (w : nat) (mk : bool)
| PDone (w : nat)
| Abort (w : nat)
| CloseW (w : nat)
| Get (k : nat) (direct : bool)
| GetMem (k : nat)
| GetFd (k : nat)
| GetOpen (k : nat) (direct : bool)
| ReadAt (r off n : nat)
| CloseR (r : nat)
| Peek (k : nat)
| CloseCache.

Inductive out := ONone | OOk (b : bool) | OMiss | OHit | OData (d : bytes) | OErr.

Definition init (dcap fcap : nat) : st :=
  mkSt (R.init dcap) [] (R.init fcap) [] [] [] [] [] [] [] false.

(* ---- field updates ---- *)
Definition set_dc (s : st) c dv := mkSt c dv (fc s) (fval s) (bufs s) (pool s) (fds s) (dir s) (writers s) (readers s) (closed s).
Definition set_fc (s : st) c fv := mkSt (dc s) (dval s) c fv (bufs s) (pool s) (fds s) (dir s) (writers s) (readers s) (closed s).
Definition set_bufs (s : st) b := mkSt (dc s) (dval s) (fc s) (fval s) b (pool s) (fds s) (dir s) (writers s) (readers s) (closed s).
Definition set_pool (s : st) p := mkSt (dc s) (dval s) (fc s) (fval s) (bufs s) p (fds s) (dir s) (writers s) (readers s) (closed s).
Definition set_fds (s : st) f := mkSt (dc s) (dval s) (fc s) (fval s) (bufs s) (pool s) f (dir s) (writers s) (readers s) (closed s).
Definition set_dir (s : st) d := mkSt (dc s) (dval s) (fc s) (fval s) (bufs s) (pool s) (fds s) d (writers s) (readers s) (closed s).
Definition set_writers (s : st) w := mkSt (dc s) (dval s) (fc s) (fval s) (bufs s) (pool s) (fds s) (dir s) w (readers s) (closed s).
Definition set_readers (s : st) r := mkSt (dc s) (dval s) (fc s) (fval s) (bufs s) (pool s) (fds s) (dir s) (writers s) r (closed s).

Definition set_closed (s : st) c := mkSt (dc s) (dval s) (fc s) (fval s) (bufs s) (pool s) (fds s) (dir s) (writers s) (readers s) c.

Definition set_w (s : st) (w : nat) (wr : writer) := set_writers s (R.upd (writers s) w wr).
Definition add_writer (s : st) (wr : writer) := set_writers s (writers s ++ [wr]).
Definition add_reader (s : st) (rd : reader) := set_readers s (readers s ++ [rd]).

Definition wr_file (wr : writer) f := mkW (w_key wr) (w_buf wr) f (w_renamed wr) (w_acc wr) (w_status wr) (w_ps wr) (w_closed wr).
Definition wr_acc (wr : writer) a := mkW (w_key wr) (w_buf wr) (w_file wr) (w_renamed wr) a (w_status wr) (w_ps wr) (w_closed wr).
Definition wr_renamed (wr : writer) := mkW (w_key wr) (w_buf wr) (w_file wr) true (w_acc wr) (w_status wr) (w_ps wr) (w_closed wr).
Definition wr_status (wr : writer) x := mkW (w_key wr) (w_buf wr) (w_file wr) (w_renamed wr) (w_acc wr) x (w_ps wr) (w_closed wr).
Definition wr_ps (wr : writer) p := mkW (w_key wr) (w_buf wr) (w_file wr) (w_renamed wr) (w_acc wr) (w_status wr) p (w_closed wr).
Definition wr_close (wr : writer) := mkW (w_key wr) (w_buf wr) (w_file wr) (w_renamed wr) (w_acc wr) (w_status wr) (w_ps wr) true.

Definition w_active (wr : writer) : bool :=
  match w_status wr with WOpen => negb (w_closed wr) | _ => false end.

Fixpoint find (l : list (nat * nat)) (k : nat) : option nat :=
  match l with
  | [] => None
  | (k', x) :: t => if Nat.eqb k' k then Some x else find t k
  end.

Fixpoint remove1 (b : nat) (l : list nat) : list nat :=
  match l with
  | [] => []
  | x :: t => if Nat.eqb x b then t else x :: remove1 b t
  end.

Definition buf_at (s : st) (b : nat) : bytes := nth b (bufs s) [].
Definition file_of (s : st) (w : nat) : bytes :=
  match nth_error (writers s) w with Some wr => w_file wr | None => [] end.
(* content behind an *os.File: None = the file object has been closed *)
Definition fd_content (s : st) (f : nat) : option bytes :=
  match nth_error (fds s) f with
  | Some (w, true) => Some (file_of s w)
  | _ => None
  end.

(* ---- OnEvicted bodies ---- *)
(* dataCache.OnEvicted / putBuffer: b.Reset(); bufPool.Put(b) *)
Definition recycle (s : st) (b : nat) : st :=
  set_pool (set_bufs s (R.upd (bufs s) b [])) (b :: pool s).
(* fileCache.OnEvicted / file.Close() *)
Definition close_fd (s : st) (f : nat) : st :=
  match nth_error (fds s) f with
  | Some (w, _) => set_fds s (R.upd (fds s) f (w, false))
  | None => s
  end.

(* value ids finalised (OnEvicted called) by a refcache transition c -> c' *)
Definition finalised (c c' : R.st) : list nat := skipn (length (R.log c)) (R.log c').

(* install the new LRU state, then run the callbacks it triggered (they run inside the LRU lock) *)
Definition dc_apply (s : st) (c' : R.st) (dv : list nat) : st :=
  fold_left recycle (map (fun i => nth i dv 0) (finalised (dc s) c')) (set_dc s c' dv).
Definition fc_apply (s : st) (c' : R.st) (fv : list nat) : st :=
  fold_left close_fd (map (fun j => nth j fv 0) (finalised (fc s) c')) (set_fc s c' fv).

(* ---- Add ---- *)
Definition take_buf (s : st) (pick : option nat) : st * nat * bool :=
  let fresh := (set_bufs s (bufs s ++ [[]]), length (bufs s)) in
  match pick with
  | Some b => if existsb (Nat.eqb b) (pool s) then (set_pool s (remove1 b (pool s)), b, true)
              else (fresh, false)
  | None => (fresh, true)
  end.

Definition do_add (s : st) (k : nat) (direct : bool) (pick : option nat) : st * out :=
  if closed s then (s, OErr) else
  if direct then (add_writer s (mkW k None [] false [] WOpen PNone false), OOk true)
  else let '(s1, b, ok) := take_buf s pick in
       (add_writer s1 (mkW k (Some b) [] false [] WOpen PNone false), OOk ok).

(* ---- Write ---- *)
Definition do_write (s : st) (w : nat) (bs : bytes) : st :=
  match nth_error (writers s) w with
  | Some wr =>
      if w_active wr then
        match w_buf wr with
        | Some b => set_w (set_bufs s (R.upd (bufs s) b (buf_at s b ++ bs))) w (wr_acc wr (w_acc wr ++ bs))
        | None => set_w s w (wr_acc (wr_file wr (w_file wr ++ bs)) (w_acc wr ++ bs))
        end
      else s
  | None => s
  end.

(* ---- Commit ---- *)
(* (the writer record is marked first; the fields it touches are disjoint from those of the cache transition) *)
Definition do_commit (s : st) (w : nat) (mk : bool) : st :=
  match nth_error (writers s) w with
  | Some wr =>
      if w_active wr then
        if closed s then set_w s w (wr_status wr WAborted)   (* "cache is already closed": nothing is published *)
        else
        match w_buf wr with
        | None =>
            if mk then set_w (set_dir s ((w_key wr, w) :: dir s)) w (wr_status (wr_renamed wr) WCommitted)
            else set_w s w (wr_status wr WAborted)            (* MkdirAll failed: the wip file is removed *)
        | Some b =>
            let s0 := set_w s w (wr_status wr WCommitted) in
            let h := length (R.hs (dc s0)) in
            let '(c', r) := R.step (dc s0) (R.Add (w_key wr)) in
            match r with
            | Some (i, added) =>
                let s1 := dc_apply s0 c' (if added then dval s0 ++ [b] else dval s0) in
                let s2 := if added then s1 else recycle s1 b in
                set_w s2 w (wr_ps (wr_status wr WCommitted) (PStage 0 h i))
            | None => s
            end
        end
      else s
  | None => s
  end.

(* ---- persist sub-steps ---- *)
Definition cached_bytes (s : st) (i : nat) : bytes := buf_at s (nth i (dval s) 0).

Definition do_pwrite (s : st) (w : nat) : st :=
  match nth_error (writers s) w with
  | Some wr =>
      match w_ps wr with
      | PStage 0 h i => set_w s w (wr_ps (wr_file wr (w_file wr ++ cached_bytes s i)) (PStage 1 h i))
      | _ => s
      end
  | None => s
  end.

Definition do_pfail (s : st) (w n : nat) : st :=
  match nth_error (writers s) w with
  | Some wr =>
      match w_ps wr with
      | PStage 0 h i => set_w s w (wr_ps (wr_file wr (w_file wr ++ firstn n (cached_bytes s i))) (PStage 2 h i))
      | _ => s
      end
  | None => s
  end.

Definition do_prename (s : st) (w : nat) (mk : bool) : st :=
  match nth_error (writers s) w with
  | Some wr =>
      match w_ps wr with
      | PStage 1 h i =>
          if mk && negb (closed s)
          then set_w (set_dir s ((w_key wr, w) :: dir s)) w (wr_ps (wr_renamed wr) (PStage 2 h i))
          else set_w s w (wr_ps wr (PStage 2 h i))   (* w.Commit() failed (closed cache / MkdirAll): no rename *)
      | _ => s
      end
  | None => s
  end.

Definition dc_release (s : st) (h : nat) : st :=
  dc_apply s (fst (R.step (dc s) (R.Release h false))) (dval s).
Definition fc_release (s : st) (h : nat) : st :=
  fc_apply s (fst (R.step (fc s) (R.Release h false))) (fval s).

Definition do_pdone (s : st) (w : nat) : st :=
  match nth_error (writers s) w with
  | Some wr =>
      match w_ps wr with
      | PStage 2 h i => dc_release (set_w s w (wr_ps wr PNone)) h
      | _ => s
      end
  | None => s
  end.

Definition do_abort (s : st) (w : nat) : st :=
  match nth_error (writers s) w with
  | Some wr =>
      if w_active wr then
        let s1 := match w_buf wr with Some b => recycle s b | None => s end in
        set_w s1 w (wr_status wr WAborted)
      else s
  | None => s
  end.

Definition do_closew (s : st) (w : nat) : st :=
  match nth_error (writers s) w with
  | Some wr => set_w s w (wr_close wr)
  | None => s
  end.

(* ---- Get ---- *)
Definition get_mem (s : st) (k : nat) : st * out :=
  let h := length (R.hs (dc s)) in
  let '(c', r) := R.step (dc s) (R.Get k) in
  match r with
  | Some (i, _) =>
      let b := nth i (dval s) 0 in
      let v := buf_at s b in
      (add_reader (dc_apply s c' (dval s)) (mkR k (RBuf b (length v) h) v true), OHit)
  | None => (s, OMiss)
  end.

Definition get_fd (s : st) (k : nat) : st * out :=
  let h := length (R.hs (fc s)) in
  let '(c', r) := R.step (fc s) (R.Get k) in
  match r with
  | Some (j, _) =>
      let f := nth j (fval s) 0 in
      let v := match fd_content s f with Some v => v | None => [] end in
      (add_reader (fc_apply s c' (fval s)) (mkR k (RFd f h) v true), OHit)
  | None => (s, OMiss)
  end.

Definition get_open (s : st) (k : nat) (direct : bool) : st * out :=
  match find (dir s) k with
  | Some w =>
      let f := length (fds s) in
      (add_reader (set_fds s (fds s ++ [(w, true)])) (mkR k (ROwn f (negb direct)) (file_of s w) true), OHit)
  | None => (s, OMiss)
  end.

Definition is_hit (o : out) : bool := match o with OHit => true | _ => false end.

Definition do_get (s : st) (k : nat) (direct : bool) : st * out :=
  if closed s then (s, OMiss) else
  if direct then get_open s k true
  else
    let r1 := get_mem s k in
    if is_hit (snd r1) then r1
    else let r2 := get_fd s k in
         if is_hit (snd r2) then r2 else get_open s k false.

(* ---- ReadAt ---- *)
Definition read (s : st) (r off n : nat) : out :=
  match nth_error (readers s) r with
  | Some rd =>
      if r_open rd then
        match r_kind rd with
        | RBuf b len _ => OData (slice off n (firstn len (buf_at s b)))
        | RFd f _ | ROwn f _ =>
            match fd_content s f with
            | Some v => OData (slice off n v)
            | None => OErr
            end
        end
      else ONone
  | None => ONone
  end.

(* ---- reader.Close ---- *)
Definition rd_close (rd : reader) := mkR (r_key rd) (r_kind rd) (r_val rd) false.

Definition fd_put (s : st) (k f : nat) : st :=
  (* _, done, added := fileCache.Add(key, file); if !added { file.Close() }; done() *)
  let h := length (R.hs (fc s)) in
  let '(c1, r1) := R.step (fc s) (R.Add k) in
  match r1 with
  | Some (j, added) =>
      let s1 := fc_apply s c1 (if added then fval s ++ [f] else fval s) in
      let s2 := if added then s1 else close_fd s1 f in
      fc_release s2 h
  | None => s
  end.

Definition do_closer (s : st) (r : nat) : st :=
  match nth_error (readers s) r with
  | Some rd =>
      if r_open rd then
        let s0 := set_readers s (R.upd (readers s) r (rd_close rd)) in
        match r_kind rd with
        | RBuf _ _ h => dc_release s0 h
        | RFd _ h => fc_release s0 h
        | ROwn f false => close_fd s0 f
        | ROwn f true => fd_put s0 (r_key rd) f
        end
      else s
  | None => s
  end.

Definition do_peek (s : st) (k : nat) : out :=
  match find (dir s) k with
  | Some w => OData (file_of s w)
  | None => OMiss
  end.

Definition step (s : st) (o : op) : st * out :=
  match o with
  | Add k d p => do_add s k d p
  | Write w bs => (do_write s w bs, ONone)
  | Commit w mk => (do_commit s w mk, ONone)
  | PWrite w => (do_pwrite s w, ONone)
  | PFail w n => (do_pfail s w n, ONone)
  | PRename w mk => (do_prename s w mk, ONone)
  | PDone w => (do_pdone s w, ONone)
  | Abort w => (do_abort s w, ONone)
  | CloseW w => (do_closew s w, ONone)
  | Get k d => do_get s k d
  | GetMem k => get_mem s k
  | GetFd k => get_fd s k
  | GetOpen k d => get_open s k d
  | ReadAt r off n => (s, read s r off n)
  | CloseR r => (do_closer s r, ONone)
  | Peek k => (s, do_peek s k)
  | CloseCache => (set_closed (set_dir s []) true, ONone)   (* closed = true; os.RemoveAll(directory) *)
  end.

Definition exec (s : st) (os : list op) : st := fold_left (fun s o => fst (step s o)) os s.

Fixpoint run (s : st) (os : list op) : list out :=
  match os with
  | [] => []
  | o :: t => let '(s1, x) := step s o in x :: run s1 t
  end.

(* "v was committed under k": some writer of key k executed Commit after Writes whose concatenation is v *)
Definition committed (s : st) (k : nat) (v : bytes) : Prop :=
  exists w wr, nth_error (writers s) w = Some wr /\ w_key wr = k /\ w_status wr = WCommitted /\ w_acc wr = v.

(* =====================  MemoryCache  ===================== *)
(* Each Add allocates a new bytes.Buffer (the writer's own, field [mw_buf]); Commit stores it in Membuf[key]
   (replacing); Get snapshots b.Bytes(); nothing is ever recycled.  Same op type; the options and the persist /
   lookup sub-steps do not exist here (no-ops / GetMem = Get). *)
Record mwriter := mkMW { mw_key : nat; mw_buf : bytes; mw_acc : bytes; mw_status : wstatus; mw_closed : bool }.
Record mreader := mkMR { mr_key : nat; mr_w : nat; mr_len : nat; mr_val : bytes; mr_open : bool }.
Record mst := mkMst { m_map : list (nat * nat); m_ws : list mwriter; m_rs : list mreader }.

Definition minit : mst := mkMst [] [] [].
Definition mw_active (wr : mwriter) : bool :=
  match mw_status wr with WOpen => negb (mw_closed wr) | _ => false end.

Definition m_get (s : mst) (k : nat) : mst * out :=
  match find (m_map s) k with
  | Some w =>
      let v := match nth_error (m_ws s) w with Some wr => mw_buf wr | None => [] end in
      (mkMst (m_map s) (m_ws s) (m_rs s ++ [mkMR k w (length v) v true]), OHit)
  | None => (s, OMiss)
  end.

Definition mstep (s : mst) (o : op) : mst * out :=
  match o with
  | Add k _ _ => (mkMst (m_map s) (m_ws s ++ [mkMW k [] [] WOpen false]) (m_rs s), OOk true)
  | Write w bs =>
      match nth_error (m_ws s) w with
      | Some wr => if mw_active wr
                   then (mkMst (m_map s) (R.upd (m_ws s) w (mkMW (mw_key wr) (mw_buf wr ++ bs) (mw_acc wr ++ bs) WOpen (mw_closed wr))) (m_rs s), ONone)
                   else (s, ONone)
      | None => (s, ONone)
      end
  | Commit w _ =>
      match nth_error (m_ws s) w with
      | Some wr => if mw_active wr
                   then (mkMst ((mw_key wr, w) :: m_map s) (R.upd (m_ws s) w (mkMW (mw_key wr) (mw_buf wr) (mw_acc wr) WCommitted (mw_closed wr))) (m_rs s), ONone)
                   else (s, ONone)
      | None => (s, ONone)
      end
  | Abort w =>
      match nth_error (m_ws s) w with
      | Some wr => if mw_active wr
                   then (mkMst (m_map s) (R.upd (m_ws s) w (mkMW (mw_key wr) (mw_buf wr) (mw_acc wr) WAborted (mw_closed wr))) (m_rs s), ONone)
                   else (s, ONone)
      | None => (s, ONone)
      end
  | CloseW w =>
      match nth_error (m_ws s) w with
      | Some wr => (mkMst (m_map s) (R.upd (m_ws s) w (mkMW (mw_key wr) (mw_buf wr) (mw_acc wr) (mw_status wr) true)) (m_rs s), ONone)
      | None => (s, ONone)
      end
  | Get k _ | GetMem k => m_get s k
  | ReadAt r off n =>
      match nth_error (m_rs s) r with
      | Some rd =>
          if mr_open rd then
            (s, OData (slice off n (firstn (mr_len rd) (match nth_error (m_ws s) (mr_w rd) with Some wr => mw_buf wr | None => [] end))))
          else (s, ONone)
      | None => (s, ONone)
      end
  | CloseR r =>
      match nth_error (m_rs s) r with
      | Some rd => (mkMst (m_map s) (m_ws s) (R.upd (m_rs s) r (mkMR (mr_key rd) (mr_w rd) (mr_len rd) (mr_val rd) false)), ONone)
      | None => (s, ONone)
      end
  | Peek k =>
      (s, match find (m_map s) k with
          | Some w => OData (match nth_error (m_ws s) w with Some wr => mw_buf wr | None => [] end)
          | None => OMiss
          end)
  | _ => (s, ONone)
  end.

Definition mexec (s : mst) (os : list op) : mst := fold_left (fun s o => fst (mstep s o)) os s.
Fixpoint mrun (s : mst) (os : list op) : list out :=
  match os with
  | [] => []
  | o :: t => let '(s1, x) := mstep s o in x :: mrun s1 t
  end.
Definition mcommitted (s : mst) (k : nat) (v : bytes) : Prop :=
  exists w wr, nth_error (m_ws s) w = Some wr /\ mw_key wr = k /\ mw_status wr = WCommitted /\ mw_acc wr = v.

(* =====================  correspondence  ===================== *)
Fixpoint bytes_eqb (a b : bytes) : bool :=
  match a, b with
  | [], [] => true
  | x :: a', y :: b' => N.eqb x y && bytes_eqb a' b'
  | _, _ => false
  end.
Definition out_eqb (a b : out) : bool :=
  match a, b with
  | ONone, ONone | OMiss, OMiss | OHit, OHit | OErr, OErr => true
  | OOk x, OOk y => Bool.eqb x y
  | OData x, OData y => bytes_eqb x y
  | _, _ => false
  end.
Fixpoint outs_eqb (a b : list out) : bool :=
  match a, b with
  | [], [] => true
  | x :: a', y :: b' => out_eqb x y && outs_eqb a' b'
  | _, _ => false
  end.

(* a case = (memory cache?, MaxLRUCacheEntry, MaxCacheFds), executed sub-steps, outputs observed on the implementation *)
Definition case := ((bool * nat * nat) * list op * list out)%type.
Definition case_ok (c : case) : bool :=
  let '((mem, dcap, fcap), os, obs) := c in
  outs_eqb (if mem then mrun minit os else run (init dcap fcap) os) obs.
Fixpoint mismatches_from (n : nat) (cs : list case) : list nat :=
  match cs with
  | [] => []
  | c :: t => if case_ok c then mismatches_from (S n) t else n :: mismatches_from (S n) t
  end.
Definition mismatches := mismatches_from 0.
