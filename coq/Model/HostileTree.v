(* C04 — the entry tree built from an arbitrary TOC: estargz.Reader.initFields / getSource / getOrCreateDir,
   metadata/memory assignIDs, and the directory walk every consumer performs (prefetch, FUSE readdir/lookup).
   Executable definitions only; proofs are in Proofs/HostileTree.v.

   Names are cleaned paths (cleanEntryName) as lists of component numbers ([] = the root ""); TOC entries and the
   implicit directories are objects numbered in creation order (Go: *TOCEntry pointers; a pointer cannot dangle, so
   object lookup is total: [nth] with a default). Recursion that Go performs without a bound carries explicit fuel;
   [OutOfFuel] corresponds to a stack overflow / endless walk.

   A hardlink to a directory is accepted (supported behaviour): the child graph may be cyclic or share subtrees.
   Models the code after C04-fix-4 (getSource: bounded loop), C04-fix-6 (assignIDs visits an entry once),
   C04-fix-5 (the prefetch walk cacheWithReader visits a directory once). *)
From Coq Require Import List Arith ZArith Bool.
From SV Require Import Model.Footer.
Import ListNotations.

Local Open Scope nat_scope.
Definition name := list nat.
Inductive ety := TDir | TReg | TSymlink | THardlink | TChunk | TOther.
Record entry := mkEntry { e_name : name; e_ty : ety; e_link : name }.

Fixpoint name_eqb (a b : name) : bool :=
  match a, b with
  | [], [] => true
  | x :: a', y :: b' => Nat.eqb x y && name_eqb a' b'
  | _, _ => false
  end.
Definition is_dir (t : ety) : bool := match t with TDir => true | _ => false end.
Definition is_hardlink (t : ety) : bool := match t with THardlink => true | _ => false end.
Definition is_chunk (t : ety) : bool := match t with TChunk => true | _ => false end.

(* r.m: name -> object; the most recent binding wins (bindings are prepended) *)
Fixpoint m_find (m : list (name * nat)) (k : name) : option nat :=
  match m with
  | [] => None
  | (k', v) :: t => if name_eqb k' k then Some v else m_find t k
  end.
Fixpoint mem_name (k : name) (l : list name) : bool :=
  match l with [] => false | x :: t => name_eqb x k || mem_name k t end.
(* len(r.m): number of distinct keys *)
Fixpoint distinct_keys (m : list (name * nat)) (seen : list name) : nat :=
  match m with
  | [] => 0
  | (k, _) :: t => if mem_name k seen then distinct_keys t seen else S (distinct_keys t (k :: seen))
  end.
Definition m_size (m : list (name * nat)) : nat := distinct_keys m [].

Record st := mkSt {
  objs : list entry;                 (* object table: TOC entries first, implicit directories appended *)
  m : list (name * nat);             (* r.m *)
  ch : list (nat * nat * nat)        (* child edges (parent object, base name, child object), most recent first *)
}.
Definition dflt : entry := mkEntry [] TOther [].
Definition obj (s : st) (id : nat) : entry := nth id (objs s) dflt.
Definition add_child (s : st) (p b c : nat) : st := mkSt (objs s) (m s) ((p, b, c) :: ch s).

(* getOrCreateDir *)
Fixpoint goc (fuel : nat) (d : name) (s : st) : outcome (st * nat) :=
  match m_find (m s) d with
  | Some id => Ok (s, id)
  | None =>
      match fuel with
      | O => OutOfFuel
      | S f =>
          let id := length (objs s) in
          let s1 := mkSt (objs s ++ [mkEntry d TDir []]) ((d, id) :: m s) (ch s) in
          match d with
          | [] => Ok (s1, id)
          | _ => match goc f (removelast d) s1 with
                 | Ok (s2, pid) => Ok (add_child s2 pid (last d 0) id, id)
                 | Err => Err | Panic => Panic | OutOfFuel => OutOfFuel
                 end
          end
      end
  end.

(* getSource after C04-fix-4: for i := 0; ent.Type == "hardlink"; i++ { if i > len(r.m) error; ... }.
   [n] = iterations still allowed = len(r.m) + 1 - i. *)
Fixpoint get_source (n : nat) (s : st) (id : nat) : outcome nat :=
  if is_hardlink (e_ty (obj s id)) then
    match n with
    | O => Err                                           (* the chain of linknames loops *)
    | S n' => match m_find (m s) (e_link (obj s id)) with
              | None => Err                              (* linkname isn't found *)
              | Some org => get_source n' s org
              end
    end
  else Ok id.
Definition get_source_of (s : st) (id : nat) : outcome nat := get_source (S (m_size (m s))) s id.

(* first loop of initFields: r.m (chunk entries are not registered) *)
Fixpoint pass1 (es : list entry) (i : nat) (acc : list (name * nat)) : list (name * nat) :=
  match es with
  | [] => acc
  | e :: t => pass1 t (S i) (if is_chunk (e_ty e) then acc else (e_name e, i) :: acc)
  end.

(* second loop of initFields: children, implicit directories *)
Fixpoint pass2 (fuel : nat) (es : list entry) (i : nat) (s : st) : outcome st :=
  match es with
  | [] => Ok s
  | e :: t =>
      if is_chunk (e_ty e) then pass2 fuel t (S i) s else
      match e_name e with
      | [] => pass2 fuel t (S i) s                       (* name == parentDir(name): skipped *)
      | nm =>
          match goc fuel (removelast nm) s with
          | Ok (s1, pid) =>
              if is_hardlink (e_ty e) then
                match get_source_of s1 i with
                | Ok org => pass2 fuel t (S i) (add_child s1 pid (last nm 0) org)
                | Err => Err | Panic => Panic | OutOfFuel => OutOfFuel
                end
              else pass2 fuel t (S i) (add_child s1 pid (last nm 0) i)
          | Err => Err | Panic => Panic | OutOfFuel => OutOfFuel
          end
      end
  end.

Definition max_name_len (es : list entry) : nat := fold_right (fun e a => Nat.max (length (e_name e)) a) 0 es.

Definition init_fields (es : list entry) : outcome st :=
  match pass2 (S (max_name_len es)) es 0 (mkSt es (pass1 es 0 []) []) with
  | Ok s => match m s with
            | [] => Ok (mkSt (objs s ++ [mkEntry [] TDir []]) [([], length (objs s))] (ch s))
            | _ => Ok s
            end
  | r => r
  end.

(* children map of an object: one child per base name, the most recent edge wins *)
Fixpoint children_of (c : list (nat * nat * nat)) (p : nat) (seen : list nat) : list (nat * nat) :=
  match c with
  | [] => []
  | (p', b, x) :: t =>
      if Nat.eqb p' p && negb (existsb (Nat.eqb b) seen) then (b, x) :: children_of t p (b :: seen)
      else children_of t p seen
  end.
Definition children (s : st) (p : nat) : list (nat * nat) := children_of (ch s) p [].

(* iteration over a children map, threading the visited set through the recursive call [rec] *)
Fixpoint go_children (rec : nat -> list name -> outcome (list name)) (cs : list (nat * nat)) (vis : list name)
  : outcome (list name) :=
  match cs with
  | [] => Ok vis
  | (_, c) :: t => match rec c vis with
                   | Ok vis' => go_children rec t vis'
                   | r => r
                   end
  end.

(* Depth-first visit with a visited set keyed by entry name (= id: assignIDs gives one id per name).
   [rej]: entries on which the visit fails; [desc]: children the visit descends into. Two instances:
   - assignIDs.mapChildren after C04-fix-6: rej = hardlink entries, every child is visited;
   - the directory walk of fs/reader cacheWithReader after C04-fix-5 (and of the harness): only directories are
     descended into, each once. *)
Fixpoint visit (rej desc : entry -> bool) (fuel : nat) (s : st) (id : nat) (vis : list name) : outcome (list name) :=
  match fuel with
  | O => OutOfFuel
  | S f =>
      let o := obj s id in
      if rej o then Err
      else if mem_name (e_name o) vis then Ok vis
      else go_children (fun c v => if desc (obj s c) then visit rej desc f s c v else Ok v)
                       (children s id) (e_name o :: vis)
  end.

Definition map_children := visit (fun o => is_hardlink (e_ty o)) (fun _ => true).
Definition assign_ids (s : st) (root : nat) : outcome (list name) :=
  map_children (S (S (length (objs s)))) s root [].

Definition walk_dirs (s : st) (root : nat) : outcome (list name) :=
  visit (fun _ => false) (fun o => is_dir (e_ty o)) (S (S (length (objs s)))) s root [].

(* what the walk sees: one item (base name, 0 = directory / 1 = other) per child of every visited directory *)
Definition dir_items (s : st) (id : nat) : list (name * nat) :=
  map (fun bc => ([fst bc], if is_dir (e_ty (obj s (snd bc))) then 0 else 1)) (children s id).
Fixpoint listing_of (s : st) (vis : list name) : list (name * nat) :=
  match vis with
  | [] => []
  | k :: t => match m_find (m s) k with
              | Some id => dir_items s id ++ listing_of s t
              | None => listing_of s t
              end
  end.

(* memory.NewReader + full walk: number of ids, listing *)
Definition tree_run (es : list entry) : outcome (nat * list (name * nat)) :=
  match init_fields es with
  | Ok s =>
      match m_find (m s) [] with
      | None => Err
      | Some r0 =>
          match get_source_of s r0 with                   (* Lookup("") resolves a hardlink *)
          | Ok root =>
              match assign_ids s root with
              | Ok vis =>
                  match walk_dirs s root with
                  | Ok dirs => Ok (length vis, listing_of s dirs)
                  | Err => Err | Panic => Panic | OutOfFuel => OutOfFuel
                  end
              | Err => Err | Panic => Panic | OutOfFuel => OutOfFuel
              end
          | _ => Err
          end
      end
  | Err => Err | Panic => Panic | OutOfFuel => OutOfFuel
  end.

(* listings compared as multisets *)
Definition item_eqb (a b : name * nat) : bool := name_eqb (fst a) (fst b) && Nat.eqb (snd a) (snd b).
Definition count_item (x : name * nat) (l : list (name * nat)) : nat := length (filter (item_eqb x) l).
Definition listing_eqb (a b : list (name * nat)) : bool :=
  Nat.eqb (length a) (length b) && forallb (fun x => Nat.eqb (count_item x a) (count_item x b)) a.

(* ---- the TOC as encoding/json delivers it: the decoder is an oracle that may fail, may deliver a nil TOC (the JSON text
   "null") and nil entries ("entries":[null]) ---- *)
Inductive jdec := JErr | JNull | JToc (es : list (option entry)).

Fixpoint strip_entries (es : list (option entry)) : option (list entry) :=
  match es with
  | [] => Some []
  | None :: _ => None
  | Some e :: t => match strip_entries t with Some l => Some (e :: l) | None => None end
  end.

(* parseTOC + initFields after C04-fix-15: a nil TOC and a nil entry are errors (before: nil dereference) *)
Definition json_run (d : jdec) : outcome (nat * list (name * nat)) :=
  match d with
  | JErr => Err
  | JNull => Err
  | JToc es => match strip_entries es with
               | None => Err
               | Some l => tree_run l
               end
  end.

(* ---- capacity hint of a file's chunk table in initFields (C04-fix-10 / C04-fix-16), int64 arithmetic as Go does it.
   [make_cap c]: make([]*TOCEntry, 0, c) panics for a negative capacity or one beyond [max_cap] elements. ---- *)
Local Open Scope Z_scope.
Definition make_cap (max_cap c : Z) : outcome Z := if (c <? 0) || (max_cap <? c) then Panic else Ok c.
Definition chunk_table_cap (max_cap size cs nentries : Z) : outcome Z :=
  if (0 <? cs) && (cs <? size) then
    let n := size / cs in                                   (* no "+ 1" before the comparison *)
    let n' := if nentries <=? n then nentries - 1 else n in
    make_cap max_cap (wrap64 (n' + 1))
  else Ok 0.
(* the arithmetic before C04-fix-16, kept for the refutation witness: Size/ChunkSize + 1 wraps for Size = MaxInt64 *)
Definition chunk_table_cap_before_fix16 (max_cap size cs nentries : Z) : outcome Z :=
  if (0 <? cs) && (cs <? size) then
    let n := wrap64 (size / cs + 1) in
    make_cap max_cap (if nentries <? n then nentries else n)
  else Ok 0.
