(* Search aid for C13 (NOT a proof of the property, which is Proofs/Task.v): exhaustive exploration of the state
   graph of Model/Task.v for a bounded scenario - at most [ninv] invocations and [nprio] prioritized begin/end pairs,
   every interleaving of every atomic step of every actor, including arbitrarily late body completions and context
   timeouts - checking on every reachable state the clauses of the property as boolean predicates, and that no
   reachable state is a deadlock.  Executable definitions only. *)
From Coq Require Import List Arith Bool NArith FMapPositive.
From SV Require Import Model.Task.
Import ListNotations.

(* ---- injective (for components < 64) encoding of a state, used as the key of the visited set ---- *)
Definition dig (acc : N) (d : nat) : N := (acc * 64 + N.of_nat d)%N.
Definition enc_pc (acc : N) (p : pc) : N :=
  match p with
  | PW => dig acc 1 | PA => dig acc 2 | PS => dig acc 3 | PD ch => dig (dig acc 4) ch | PF => dig acc 5
  | PB ch k => dig (dig (dig acc 6) ch) k | PC k => dig (dig acc 7) k | PR => dig acc 8 | PRet => dig acc 9
  end.
Definition enc_bodies (acc : N) (b : list (nat * bool)) : N :=
  fold_left (fun (a : N) (x : nat * bool) => dig (dig a (fst x)) (if snd x then 1 else 2)) b (dig acc (length b)).
Definition enc_inv (acc : N) (v : inv) : N := enc_bodies (dig (enc_pc acc (ipc v)) (nexec v)) (bodies v).
Definition enc (s : st) : positive :=
  N.succ_pos (fold_left enc_inv (invs s)
    (dig (dig (dig (dig (dig (dig 1 (P s)) (inprog s)) (sil s)) (gen s)) (sem s)) (length (invs s)))).

(* ---- the alphabet of the bounded scenario ---- *)
Definition acts (kmax : nat) : list act :=
  [Pass; Acquire; Decide; Start; Cancel; Join; Finish; Release]
  ++ map BodyDone (seq 0 kmax) ++ map Timeout (seq 0 kmax).
Definition alphabet (ninv nprio : nat) (s : st) : list op :=
  (if length (invs s) <? ninv then [Invoke] else [])
  ++ (if gen s <? nprio then [PrioBegin] else [])
  ++ [PrioEnd; PrioDec]
  ++ flat_map (fun i => map (Act i) (acts (S (S nprio)))) (seq 0 ninv).

Definition succs (ninv nprio : nat) (s : st) : list st :=
  flat_map (fun o => let '(s', ok) := step s o in if ok then [s'] else []) (alphabet ninv nprio s).

(* ---- the clauses, as boolean predicates on one state ---- *)
Definition inv_ok (s : st) (v : inv) : bool :=
  (running v <=? 1)
  && (match ipc v with
      | PD ch => (length (bodies v) =? 0) && ((P s =? 0) || negb (ch =? gen s))     (* start only when quiet, or cancel pending *)
      | PB ch k => (P s =? 0) || negb (ch =? gen s) || negb (has k (bodies v))       (* running while not quiet => cancel enabled *)
      | PC k => forallb (fun b => Nat.eqb (fst b) k && snd b) (bodies v)             (* what still runs is cancelled *)
      | _ => length (bodies v) =? 0                                                  (* nothing runs outside B/C, in particular at PRet *)
      end).
Definition state_ok (s : st) : bool :=
  (total_running s <=? conc s) && (P s =? inprog s + sil s) && (sem s + holders s =? conc s)
  && forallb (inv_ok s) (invs s).
Definition final_state (ninv nprio : nat) (s : st) : bool :=
  all_returned_b s && (length (invs s) =? ninv) && (gen s =? nprio) && (P s =? 0).

Record result := mkRes { states : nat; violations : list st; deadlocks : list st; finals : nat; exhausted : bool }.

(* worklist exploration; [fuel] bounds the number of expanded states *)
Fixpoint explore (ninv nprio fuel : nat) (todo : list st) (seen : PositiveMap.t unit) (r : result) : result :=
  match fuel with
  | O => mkRes (states r) (violations r) (deadlocks r) (finals r) (match todo with [] => true | _ => false end)
  | S f =>
      match todo with
      | [] => mkRes (states r) (violations r) (deadlocks r) (finals r) true
      | s :: rest =>
          let nx := succs ninv nprio s in
          let fin := final_state ninv nprio s in
          let r' := mkRes (S (states r))
                          (if state_ok s then violations r else s :: violations r)
                          (match nx with [] => if fin then deadlocks r else s :: deadlocks r | _ => deadlocks r end)
                          (if fin then S (finals r) else finals r) false in
          let '(todo', seen') :=
            fold_left (fun acc s' =>
                         let k := enc s' in
                         match PositiveMap.find k (snd acc) with
                         | Some _ => acc
                         | None => (s' :: fst acc, PositiveMap.add k tt (snd acc))
                         end) nx (rest, seen) in
          explore ninv nprio f todo' seen' r'
      end
  end.

Definition search (c : nat) (w : bool) (ninv nprio fuel : nat) : result :=
  let s0 := init c w in
  explore ninv nprio fuel [s0] (PositiveMap.add (enc s0) tt (PositiveMap.empty unit)) (mkRes 0 [] [] 0 false).

Definition summary (r : result) : (N * N * N * N * bool) :=
  (N.of_nat (states r), N.of_nat (length (violations r)), N.of_nat (length (deadlocks r)), N.of_nat (finals r), exhausted r).
