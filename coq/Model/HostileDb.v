(* C04 — the db metadata store (cmd/containerd-stargz-grpc/db/reader.go) on an arbitrary TOC: initNodes' name
   resolution (getIDByName), getOrCreateDir, hardlink handling, directory overwrite; the child graph it leaves (cyclic
   when a hardlink names an ancestor directory) and the directory walk over it. Executable definitions only; proofs
   are in Proofs/HostileDb.v.

   Nodes are numbered in allocation order (model id = Go id - 1; the root is node 0). The state type [st] of
   Model/HostileTree.v is reused: [objs] = node table (the entry's name field holds the node's own key [id], its type
   says whether the node's mode is a directory), [ch] = md[pid].children, most recent first. The footer loop of
   db.NewReader is, after C04-fix-11, the same as estargz.Open's: [open_select] of Model/Footer.v.
   Case type and comparison for the harness harness/cmdmod/cmd/hostiledb are at the end. *)
From Coq Require Import List Arith ZArith Bool.
From SV Require Export Model.Footer Model.HostileTree Model.HostileRead Model.Hostile.
Import ListNotations.
Local Open Scope nat_scope.

(* md[pid].children[base] *)
Fixpoint child_lookup (c : list (nat * nat * nat)) (p b : nat) : option nat :=
  match c with
  | [] => None
  | (p', b', x) :: t => if Nat.eqb p' p && Nat.eqb b' b then Some x else child_lookup t p b
  end.

(* getIDByName: recursion on the directory part of the (cleaned) name; None = the Go error "not found" *)
Fixpoint db_get_id (fuel : nat) (s : st) (nm : name) : outcome (option nat) :=
  match nm with
  | [] => Ok (Some 0)
  | _ =>
      match fuel with
      | O => OutOfFuel
      | S f =>
          match db_get_id f s (removelast nm) with
          | Ok (Some pid) => Ok (child_lookup (ch s) pid (last nm 0))
          | r => r
          end
      end
  end.

Definition new_node (s : st) (t : ety) : st * nat :=
  let id := length (objs s) in
  (mkSt (objs s ++ [mkEntry [id] t []]) (([id], id) :: m s) (ch s), id).

(* reader.getOrCreateDir *)
Fixpoint db_goc (fuel : nat) (d : name) (s : st) : outcome (st * nat) :=
  match fuel with
  | O => OutOfFuel
  | S f =>
      match db_get_id (S (length d)) s d with
      | Ok (Some id) => Ok (s, id)
      | Ok None =>
          let '(s1, id) := new_node s TDir in
          match d with
          | [] => Ok (s1, id)
          | _ => match db_goc f (removelast d) s1 with
                 | Ok (s2, pid) => Ok (add_child s2 pid (last d 0) id, id)
                 | Err => Err | Panic => Panic | OutOfFuel => OutOfFuel
                 end
          end
      | Err => Err | Panic => Panic | OutOfFuel => OutOfFuel
      end
  end.

Fixpoint set_nth {A} (l : list A) (n : nat) (x : A) : list A :=
  match l, n with
  | [], _ => []
  | _ :: t, O => x :: t
  | h :: t, S n' => h :: set_nth t n' x
  end.
(* writeAttr of a directory entry over an existing node: the node becomes a directory *)
Definition make_dir (s : st) (id : nat) : st :=
  mkSt (set_nth (objs s) id (mkEntry [id] TDir [])) (m s) (ch s).

(* register the node under its parent (skipped for the root entry itself) *)
Definition db_link (fuel : nat) (s : st) (nm : name) (id : nat) : outcome st :=
  match nm with
  | [] => Ok s
  | _ => match db_goc fuel (removelast nm) s with
         | Ok (s1, pid) => Ok (add_child s1 pid (last nm 0) id)
         | Err => Err | Panic => Panic | OutOfFuel => OutOfFuel
         end
  end.

(* the entry loop of initNodes; [seen]: lastEntBucketID != 0 *)
Fixpoint db_pass (fuel : nat) (es : list entry) (seen : bool) (s : st) : outcome st :=
  match es with
  | [] => Ok s
  | e :: t =>
      match e_ty e with
      | TChunk => if seen then db_pass fuel t seen s else Err     (* chunk entry must not be the topmost *)
      | THardlink =>
          match db_get_id fuel s (e_link e) with
          | Ok (Some id) =>
              match db_link fuel s (e_name e) id with
              | Ok s1 => db_pass fuel t true s1
              | r => r
              end
          | Ok None => Err                                        (* cannot get link destination *)
          | Err => Err | Panic => Panic | OutOfFuel => OutOfFuel
          end
      | TDir =>
          match db_get_id fuel s (e_name e) with
          | Ok found =>
              let '(s0, id) := match found with
                               | Some id => (make_dir s id, id)    (* already created: overwrite *)
                               | None => new_node s TDir
                               end in
              match db_link fuel s0 (e_name e) id with
              | Ok s1 => db_pass fuel t true s1
              | r => r
              end
          | Err => Err | Panic => Panic | OutOfFuel => OutOfFuel
          end
      | ty =>
          let '(s0, id) := new_node s ty in
          match db_link fuel s0 (e_name e) id with
          | Ok s1 => db_pass fuel t true s1
          | r => r
          end
      end
  end.

Definition max_len (es : list entry) : nat :=
  fold_right (fun e a => Nat.max (Nat.max (length (e_name e)) (length (e_link e))) a) 0 es.

Definition db_state0 : st := mkSt [mkEntry [0] TDir []] [([0], 0)] [].

Definition db_init (es : list entry) : outcome st := db_pass (S (S (max_len es))) es false db_state0.

(* db.NewReader + initNodes, then the walk: number of nodes, listing *)
Definition db_run (es : list entry) : outcome (nat * list (name * nat)) :=
  match db_init es with
  | Ok s => match walk_dirs s 0 with
            | Ok dirs => Ok (length (objs s), listing_of s dirs)
            | Err => Err | Panic => Panic | OutOfFuel => OutOfFuel
            end
  | Err => Err | Panic => Panic | OutOfFuel => OutOfFuel
  end.

(* ---- harness cases ---- *)
Local Open Scope Z_scope.

Definition dbtree_matches (es : list entry) (o : obs) (listing : list (name * nat)) : bool :=
  match db_run es, o with
  | Ok (n, l), OOk [n'] => Z.eqb (Z.of_nat n) n' && listing_eqb l listing
  | Err, OErr => true
  | Panic, OPanic => true
  | OutOfFuel, OHang => true
  | _, _ => false
  end.

Inductive case :=
| CDbTree (es : list entry) (o : obs) (listing : list (name * nat))
| CDbOpen (size : Z) (ext : bool) (tocoff : Z) (tail51 : bytes) (g51 g47 g46 : gzres) (o : obs)
| CDbChunk (chunks : list chunk) (size off : Z) (o : obs)
| CDbOracle (o : obs).

Definition case_ok (c : case) : bool :=
  match c with
  | CDbTree es o l => dbtree_matches es o l
  | CDbOpen size ext tocoff t g51 g47 g46 o => open_matches size ext tocoff t g51 g47 g46 o
  | CDbChunk cs size off o => db_chunk_matches cs size off o
  | CDbOracle o => oracle_only o
  end.

Fixpoint mismatches_from (n : nat) (cs : list case) : list nat :=
  match cs with
  | [] => []
  | c :: t => if case_ok c then mismatches_from (S n) t else n :: mismatches_from (S n) t
  end.
Definition mismatches := mismatches_from 0.
