(* Model of the credential path of property C18:
     service/keychain/cri/cri.go   instrumentedService {config, cri}: PullImage / RemoveImage / credentials
     service/resolver/cri.go       ParseAuth
     service/resolver/registry.go  multiCredsFuncs
   Executable definitions only; proofs are in Proofs/Creds.v.

   Strings are byte lists.  Image references are identified with the index of their *normalised* form
   (distribution/reference.ParseDockerRef + containerd reference.Parse, refspec.String()): [None] is an
   image string that does not parse.  Equal index <-> equal normalised string is the contract on those two
   library functions; the harness draws image strings from a table that fixes the expected index by hand.

   The server address and the base64 "auth" field are given in the structured form the generator renders
   them from; what Go's url.Parse / base64.StdEncoding make of the rendered text is the contract recorded in
   [url_host] / [b64_buf] and checked on every generated case by the correspondence run. *)
From Coq Require Import List NArith Bool Arith.
From Coq Require Ascii String.
Import String.StringSyntax.
Delimit Scope string_scope with string.
Import ListNotations.

Definition str := list N.

Fixpoint str_eqb (a b : str) : bool :=
  match a, b with
  | [], [] => true
  | x :: a', y :: b' => N.eqb x y && str_eqb a' b'
  | _, _ => false
  end.

Definition is_nil (a : str) : bool := match a with [] => true | _ => false end.

Definition bytes_of (s : String.string) : str := map (fun c => Ascii.N_of_ascii c) (String.list_ascii_of_string s).

(* byte string given as a Coq string literal (used by the generated case terms; parses much faster than a list) *)
Definition bs (s : String.string) : str := bytes_of s.
Arguments bs s%string.

(* ---- AuthConfig ---- *)
Inductive saddr :=
| SAEmpty                 (* ServerAddress == "" *)
| SAText (t : str)        (* the ServerAddress text itself; [parse_url_host] is what url.Parse(t).Host yields *)
| SAUrl (host : str)      (* "<scheme>://<host>[/<path>]": url.Parse(..).Host = host (host incl. ":port") *)
| SABare                  (* "<name>[/<path>]" without scheme: url.Parse succeeds, Host = "" *)
| SABad.                  (* url.Parse fails *)

(* ---- net/url.Parse(text).Host, for texts of printable ASCII (bytes >= 0x80 are not generated) ----
   Follows url.Parse step by step: control bytes, fragment, scheme, query, opaque / first-segment-colon rule,
   authority (userinfo up to the LAST '@', host with optional bracketed literal and optional numeric port),
   validation of host characters and of the escapes in path and fragment.  The host is returned VERBATIM: no case
   folding, no removal of a default port, of a trailing dot or of brackets.  None = Parse returns an error. *)
Definition is_alpha (c : N) : bool := ((65 <=? c) && (c <=? 90) || (97 <=? c) && (c <=? 122))%N.
Definition is_digit (c : N) : bool := ((48 <=? c) && (c <=? 57))%N.
Definition is_hex (c : N) : bool := (is_digit c || (65 <=? c) && (c <=? 70) || (97 <=? c) && (c <=? 102))%N.
Definition is_ctl (c : N) : bool := ((c <? 32) || (c =? 127))%N.
Definition mem_byte (c : N) (l : str) : bool := existsb (N.eqb c) l.

(* split at the first byte satisfying p: (before, Some (that byte :: after)) *)
Fixpoint cut_at (p : N -> bool) (s : str) : str * option str :=
  match s with
  | [] => ([], None)
  | c :: t => if p c then ([], Some s) else let '(a, b) := cut_at p t in (c :: a, b)
  end.
(* split at the LAST occurrence of byte x: Some (before, after) *)
Fixpoint cut_last (x : N) (s : str) : option (str * str) :=
  match s with
  | [] => None
  | c :: t =>
      match cut_last x t with
      | Some (a, b) => Some (c :: a, b)
      | None => if N.eqb c x then Some ([], t) else None
      end
  end.
Fixpoint starts_with (pre s : str) : bool :=
  match pre, s with
  | [], _ => true
  | x :: p, y :: t => N.eqb x y && starts_with p t
  | _, [] => false
  end.

(* every '%' is followed by two hex digits *)
Fixpoint escapes_ok (s : str) : bool :=
  match s with
  | [] => true
  | c :: t =>
      if N.eqb c 37 then
        match t with
        | a :: b :: t' => is_hex a && is_hex b && escapes_ok t'
        | _ => false
        end
      else escapes_ok t
  end.

(* getScheme: Some (scheme present?, rest) or None = "missing protocol scheme" *)
Fixpoint get_scheme_from (i : nat) (s whole : str) : option (bool * str) :=
  match s with
  | [] => Some (false, whole)
  | c :: t =>
      if is_alpha c then get_scheme_from (S i) t whole
      else if is_digit c || mem_byte c [43; 45; 46]%N then
        match i with O => Some (false, whole) | _ => get_scheme_from (S i) t whole end
      else if N.eqb c 58 then
        match i with O => None | _ => Some (true, t) end
      else Some (false, whole)
  end.
Definition get_scheme (s : str) := get_scheme_from 0 s s.

(* validOptionalPort: "" or ":" digits *)
Definition valid_optional_port (p : str) : bool :=
  match p with
  | [] => true
  | c :: t => N.eqb c 58 && forallb is_digit t
  end.

(* bytes that may appear unescaped in a host (shouldEscape(c, encodeHost) = false) *)
Definition host_char_ok (c : N) : bool :=
  is_alpha c || is_digit c
  || mem_byte c [33; 36; 38; 39; 40; 41; 42; 43; 44; 59; 61; 58; 91; 93; 60; 62; 34; 45; 95; 46; 126]%N.
Definition userinfo_char_ok (c : N) : bool :=
  is_alpha c || is_digit c
  || mem_byte c [45; 46; 95; 58; 126; 33; 36; 38; 39; 40; 41; 42; 43; 44; 59; 61; 37; 64]%N.

Definition parse_host (h : str) : option str :=
  let port_ok :=
    match h with
    | 91 :: _ =>   (* '[' : the port follows the last ']' *)
        match cut_last 93 h with
        | Some (_, after) => valid_optional_port after
        | None => false
        end
    | _ =>
        match cut_last 58 h with
        | Some (_, after) => forallb is_digit after
        | None => true
        end
    end%N in
  if port_ok && forallb host_char_ok h then Some h else None.

Definition parse_authority (a : str) : option str :=
  match cut_last 64 a with
  | Some (ui, h) => if forallb userinfo_char_ok ui then parse_host h else None
  | None => parse_host a
  end.

Definition parse_url_host (t : str) : option str :=
  if existsb is_ctl t then None else
  let '(u, frag) := cut_at (N.eqb 35) t in
  if negb (match frag with Some f => escapes_ok f | None => true end) then None else
  match get_scheme u with
  | None => None
  | Some (has_scheme, rest0) =>
      let '(rest, _) := cut_at (N.eqb 63) rest0 in          (* the query is not validated *)
      if negb (starts_with [47]%N rest) && has_scheme then Some []   (* opaque *)
      else if negb (starts_with [47]%N rest) && negb has_scheme
              && mem_byte 58 (fst (cut_at (N.eqb 47) rest)) then None  (* first path segment cannot contain colon *)
      else if (has_scheme || negb (starts_with [47; 47; 47]%N rest)) && starts_with [47; 47]%N rest then
        let '(authority, path) := cut_at (N.eqb 47) (skipn 2 rest) in
        match parse_authority authority with
        | None => None
        | Some h => if match path with Some p => escapes_ok p | None => true end then Some h else None
        end
      else if escapes_ok rest then Some [] else None
  end.

Inductive b64 :=
| B64Bad                  (* Auth is not valid standard base64 *)
| B64 (d : str).          (* Auth = base64.StdEncoding.EncodeToString(d);  B64 [] is Auth == "" *)

Record auth := mkAuth {
  a_sa : saddr; a_user : str; a_pass : str; a_token : str; a_b64 : b64
}.

(* ServerAddress == "" *)
Definition sa_is_empty (sa : saddr) : bool :=
  match sa with SAEmpty => true | SAText [] => true | _ => false end.

(* url.Parse(ServerAddress): None = error, Some h = .Host *)
Definition url_host (sa : saddr) : option str :=
  match sa with
  | SAEmpty => Some []
  | SAText t => parse_url_host t
  | SAUrl h => Some h
  | SABare => Some []
  | SABad => None
  end.

(* result of a credential function: (username, secret) or an error *)
Inductive cres := COk (u s : str) | CErr.

Definition cres_eqb (a b : cres) : bool :=
  match a, b with
  | COk u s, COk u' s' => str_eqb u u' && str_eqb s s'
  | CErr, CErr => true
  | _, _ => false
  end.

Definition empty_cred : cres := COk [] [].
Definition cred_nonempty (c : cres) : bool :=
  match c with COk u s => negb (is_nil u) || negb (is_nil s) | CErr => false end.

(* the buffer ParseAuth decodes into: DecodedLen(len(Auth)) bytes, i.e. the payload followed by one
   NUL per '=' padding character (the code ignores the length Decode returns) *)
Definition b64_pad (n : nat) : nat := (3 - n mod 3) mod 3.
Definition b64_buf (d : str) : str := d ++ repeat 0%N (b64_pad (length d)).

(* strings.SplitN(s, ":", 2) : None when there is no ':' *)
Fixpoint split_colon (s : str) : option (str * str) :=
  match s with
  | [] => None
  | c :: t =>
      if N.eqb c 58 then Some ([], t)
      else match split_colon t with
           | Some (u, p) => Some (c :: u, p)
           | None => None
           end
  end.

(* strings.Trim(s, "\x00") *)
Fixpoint trim0_left (s : str) : str :=
  match s with
  | c :: t => if N.eqb c 0 then trim0_left t else s
  | [] => []
  end.
Definition trim0 (s : str) : str := rev (trim0_left (rev (trim0_left s))).

(* ParseAuth after the server-address test: which of the fields is the credential *)
Definition cred_of (a : auth) : cres :=
  if negb (is_nil (a_user a)) then COk (a_user a) (a_pass a)
  else if negb (is_nil (a_token a)) then COk [] (a_token a)
  else match a_b64 a with
       | B64Bad => CErr
       | B64 [] => empty_cred
       | B64 d =>
           match split_colon (b64_buf d) with
           | Some (u, p) => COk u (trim0 p)
           | None => CErr
           end
       end.

(* resolver.ParseAuth(auth, host) *)
Definition parse_auth (oa : option auth) (host : str) : cres :=
  match oa with
  | None => empty_cred
  | Some a =>
      if sa_is_empty (a_sa a) then cred_of a
      else
        match url_host (a_sa a) with
        | None => CErr
        | Some h => if str_eqb host h then cred_of a else empty_cred
        end
  end.

(* ---- keychain ---- *)
Definition docker_io := bytes_of "docker.io"%string.
Definition registry1_docker_io := bytes_of "registry-1.docker.io"%string.
Definition index_docker_io := bytes_of "index.docker.io"%string.

Definition alias (host : str) : str :=
  if str_eqb host docker_io || str_eqb host registry1_docker_io then index_docker_io else host.

Record st := mkSt {
  connected : bool;                      (* in.cri != nil *)
  cfg : list (nat * option auth)         (* in.config, keyed by normalised reference *)
}.

Definition init (c : bool) : st := mkSt c [].

Fixpoint cfg_find (l : list (nat * option auth)) (r : nat) : option (option auth) :=
  match l with
  | [] => None
  | (r', a) :: t => if Nat.eqb r' r then Some a else cfg_find t r
  end.

Fixpoint cfg_del (l : list (nat * option auth)) (r : nat) : list (nat * option auth) :=
  match l with
  | [] => []
  | (r', a) :: t => if Nat.eqb r' r then cfg_del t r else (r', a) :: cfg_del t r
  end.

Definition cfg_set l r a := (r, a) :: cfg_del l r.

(* instrumentedService.credentials(host, refspec) *)
Definition credentials (s : st) (host : str) (r : nat) : cres :=
  match cfg_find (cfg s) r with
  | Some oa => parse_auth oa (alias host)
  | None => empty_cred
  end.

(* multiCredsFuncs over the answers the individual functions would give, in order *)
Fixpoint multi (fs : list cres) : cres :=
  match fs with
  | [] => empty_cred
  | CErr :: _ => CErr
  | COk u s :: t => if cred_nonempty (COk u s) then COk u s else multi t
  end.
(* how many of the functions get called *)
Fixpoint multi_calls (fs : list cres) : nat :=
  match fs with
  | [] => 0
  | CErr :: _ => 1
  | COk u s :: t => if cred_nonempty (COk u s) then 1 else S (multi_calls t)
  end.

Inductive op :=
| Connect                                               (* the connection goroutine stores the client *)
| Pull (r : option nat) (a : option auth) (backend_ok : bool)
| Remove (r : option nat) (backend_ok : bool)
| Other                                                 (* ListImages / ImageStatus / ImageFsInfo *)
| Query (host : str) (r : nat)
| QueryMulti (pre : list cres) (host : str) (r : nat) (post : list cres)
| Len.

Inductive out :=
| OErr | ODone
| OCred (c : cres)
| OMulti (c : cres) (calls : nat)
| ONum (n : nat).

Definition step (s : st) (o : op) : st * out :=
  match o with
  | Connect => (mkSt true (cfg s), ODone)
  | Pull r a ok =>
      if connected s then
        match r with
        | Some r => (mkSt true (cfg_set (cfg s) r a), if ok then ODone else OErr)
        | None => (s, OErr)
        end
      else (s, OErr)
  | Remove r ok =>
      if connected s then
        match r with
        | Some r => (mkSt true (cfg_del (cfg s) r), if ok then ODone else OErr)
        | None => (s, OErr)
        end
      else (s, OErr)
  | Other => (s, if connected s then ODone else OErr)
  | Query h r => (s, OCred (credentials s h r))
  | QueryMulti pre h r post =>
      let fs := pre ++ credentials s h r :: post in (s, OMulti (multi fs) (multi_calls fs))
  | Len => (s, ONum (length (cfg s)))
  end.

Fixpoint run (s : st) (os : list op) : st * list out :=
  match os with
  | [] => (s, [])
  | o :: t => let '(s1, x) := step s o in let '(s2, xs) := run s1 t in (s2, x :: xs)
  end.

Definition exec (s : st) (os : list op) : st := fold_left (fun s o => fst (step s o)) os s.

(* ---- vocabulary of the property statements ---- *)
(* op o is a pull or remove request naming exactly the (normalised) reference r *)
Definition touches (r : nat) (o : op) : bool :=
  match o with
  | Pull (Some r') _ _ => Nat.eqb r' r
  | Remove (Some r') _ => Nat.eqb r' r
  | _ => false
  end.

Definition all_empty (l : list cres) : Prop := Forall (fun c => cred_nonempty c = false /\ c <> CErr) l.

(* ---- correspondence ---- *)
Definition out_eqb (a b : out) : bool :=
  match a, b with
  | OErr, OErr => true
  | ODone, ODone => true
  | OCred c, OCred c' => cres_eqb c c'
  | OMulti c n, OMulti c' n' => cres_eqb c c' && Nat.eqb n n'
  | ONum n, ONum n' => Nat.eqb n n'
  | _, _ => false
  end.
Fixpoint outs_eqb (a b : list out) : bool :=
  match a, b with
  | [], [] => true
  | x :: a', y :: b' => out_eqb x y && outs_eqb a' b'
  | _, _ => false
  end.

(* a case = initially connected?, op list, outputs observed on the implementation *)
Definition case := (bool * list op * list out)%type.
Definition case_ok (c : case) : bool :=
  let '(cn, os, obs) := c in outs_eqb (snd (run (init cn) os)) obs.
Fixpoint mismatches_from (n : nat) (cs : list case) : list nat :=
  match cs with
  | [] => []
  | c :: t => if case_ok c then mismatches_from (S n) t else n :: mismatches_from (S n) t
  end.
Definition mismatches := mismatches_from 0.
