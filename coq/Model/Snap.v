(* Model of snapshot/snapshot.go (the remote snapshotter) over
     - containerd core/snapshots/storage (bolt metadata: name -> id, kind, parent, labels; sequence),
     - the directory <root>/snapshots (entries <id> and new-* temp directories),
     - the backend snapshot.FileSystem (mount table mountpoint <id>/fs -> labels).
   Executable definitions only; proofs are in Proofs/Snap.v (C08) and Proofs/SnapCrash.v (C09).

   Conventions.
   * Snapshot keys/names are [nat] (the harness prints name n as "k%02d"); the empty parent "" is [None].
   * Labels: only what the code looks at is kept: the target label containerd.io/snapshot.ref ([l_target]),
     presence of containerd.io/snapshot/remote ([l_remote]), one opaque label inside the containerd.io/snapshot/
     namespace ([l_user]) and one outside it ([l_ext]); for both: 0 = absent, 1 = present with the EMPTY value,
     n >= 2 = present with value "n". boltutil.WriteLabels drops empty-valued labels when it persists a label map
     ([norm]); the backend Mount of a Prepare sees the caller's map as passed. Names >= 1000 stand for strings that
     cannot be bucket names: committing to such a name fails.
   * Every API call is ONE op whose body is the sequence of the sub-steps the Go code performs
     (write transaction, directory operations, backend calls), written as separate functions below so that
     crash points (Model/SnapCrash.v) can cut between them.
   * Faults are arguments of the op: [mok] = result of the backend Mount of this Prepare, [cbad] = ids whose
     backend Check fails during this call, [ubad] = ids whose backend Unmount fails during this call.
     The backend itself (the recording FileSystem of the harness, shaped after fs/fs.go):
       Mount ok      -> registers the mountpoint;  Mount fail -> registers nothing;
       Check mp      -> fails when mp is not registered, else as scripted;
       Unmount mp    -> fails when mp is not registered; else scripted: ok removes it, failure leaves it.
   * [log] is the history of backend calls and of the directory/metadata events the property speaks about. *)
From Coq Require Import List Arith Bool.
Import ListNotations.

Inductive kind := KView | KActive | KCommitted.
Definition name := nat.

(* [l_wp] is not a label: it is the other option a caller can pass next to WithLabels, snapshots.WithParent(p)
   (None = not passed). storage.CreateSnapshot ignores it; storage.CommitActive uses it to give a snapshot that was
   created without parent its parent at commit time ("rebase"), and rejects it when it contradicts the parent the
   snapshot has. It travels with the label record of the call and is carried along, unused, in what the model
   stores as [i_labels]; no comparison looks at it. *)
Record labels := mkL { l_target : option name; l_remote : bool; l_user : nat; l_ext : nat; l_wp : option name }.
Definition no_labels := mkL None false 0 0 None.
Definition set_remote (l : labels) := mkL (l_target l) true (l_user l) (l_ext l) (l_wp l).
Definition bad_name (n : name) : bool := Nat.eqb n 1000.
(* what metadata keeps of a label map: empty-valued entries are dropped *)
Definition nz (n : nat) : nat := if Nat.eqb n 1 then 0 else n.
Definition norm (l : labels) : labels :=
  mkL (match l_target l with Some t => if Nat.eqb t 1000 then None else Some t | None => None end)
      (l_remote l) (nz (l_user l)) (nz (l_ext l)) (l_wp l).
Arguments norm : simpl never.

Record info := mkI { i_id : nat; i_kind : kind; i_parent : option name; i_labels : labels }.

Inductive dirent := DId (id : nat) | DTemp (n : nat).

Inductive err := EExists | ENotFound | EInvalid | EUnavail | EFailedPre | EOther.

Inductive mnt :=
| MBind (id : nat) (ro : bool)                          (* bind mount of <id>/fs *)
| MOverlay (upper : option nat) (lower : list nat).     (* overlay: upperdir/workdir of [upper], lowerdir list in the order given *)

Inductive event :=
| EvMount (id : nat) (l : labels) (ok : bool)
| EvCheck (id : nat) (ok : bool)
| EvUnmount (d : dirent) (live ok : bool)               (* live = the mountpoint was registered when Unmount was called *)
| EvRmDir (d : dirent)
| EvMetaRemove (id : nat)                               (* storage.Remove committed for the snapshot with this id *)
| EvRemoteCommit (id : nat)                             (* Prepare committed this id as a remote snapshot *)
| EvClose.

Record st := mkSt {
  async  : bool;                       (* config: AsynchronousRemove *)
  meta   : list (name * info);         (* metadata.db *)
  seq    : nat;                        (* bolt sequence of the snapshots bucket = last id handed out *)
  dirs   : list dirent;                (* entries of <root>/snapshots *)
  tmpc   : nat;                        (* ghost: number of temp directories created so far (their names) *)
  mounts : list (nat * labels);        (* backend mount table: id (mountpoint <id>/fs) -> labels it was mounted with *)
  closed : bool;                       (* MetaStore closed *)
  log    : list event
}.

Definition init (a : bool) : st := mkSt a [] 0 [] 0 [] false [].

Definition set_meta s m := mkSt (async s) m (seq s) (dirs s) (tmpc s) (mounts s) (closed s) (log s).
Definition set_seq s n := mkSt (async s) (meta s) n (dirs s) (tmpc s) (mounts s) (closed s) (log s).
Definition set_dirs s d := mkSt (async s) (meta s) (seq s) d (tmpc s) (mounts s) (closed s) (log s).
Definition set_tmpc s n := mkSt (async s) (meta s) (seq s) (dirs s) n (mounts s) (closed s) (log s).
Definition set_mounts s m := mkSt (async s) (meta s) (seq s) (dirs s) (tmpc s) m (closed s) (log s).
Definition set_closed s c := mkSt (async s) (meta s) (seq s) (dirs s) (tmpc s) (mounts s) c (log s).
Definition emit s e := mkSt (async s) (meta s) (seq s) (dirs s) (tmpc s) (mounts s) (closed s) (log s ++ [e]).

(* ---------- small decidable equalities ---------- *)
Definition kind_eqb (a b : kind) : bool :=
  match a, b with KView, KView | KActive, KActive | KCommitted, KCommitted => true | _, _ => false end.
Definition dirent_eqb (a b : dirent) : bool :=
  match a, b with DId x, DId y => Nat.eqb x y | DTemp x, DTemp y => Nat.eqb x y | _, _ => false end.
Definition mem (x : nat) (l : list nat) : bool := existsb (Nat.eqb x) l.

(* ---------- metadata (bolt bucket) ---------- *)
Fixpoint lookup (m : list (name * info)) (k : name) : option info :=
  match m with
  | [] => None
  | (k', i) :: t => if Nat.eqb k' k then Some i else lookup t k
  end.
Fixpoint del (m : list (name * info)) (k : name) : list (name * info) :=
  match m with
  | [] => []
  | (k', i) :: t => if Nat.eqb k' k then del t k else (k', i) :: del t k
  end.
Definition ids_of (m : list (name * info)) : list nat := map (fun p => i_id (snd p)) m.
Definition has_child (m : list (name * info)) (k : name) : bool :=
  existsb (fun p => match i_parent (snd p) with Some q => Nat.eqb q k | None => false end) m.
Definition upd_labels (m : list (name * info)) (k : name) (l : labels) : list (name * info) :=
  map (fun p => if Nat.eqb (fst p) k
                then (fst p, mkI (i_id (snd p)) (i_kind (snd p)) (i_parent (snd p)) l) else p) m.

(* storage.parents: ids of the chain starting at the snapshot named [p], nearest first.
   Go loops without a bound; the model uses fuel ([PFuel] = would not terminate). *)
Inductive pres := POk (l : list nat) | PMissing | PFuel.
Fixpoint parents (fuel : nat) (m : list (name * info)) (p : name) : pres :=
  match fuel with
  | O => PFuel
  | S f =>
      match lookup m p with
      | None => PMissing
      | Some i =>
          match i_parent i with
          | None => POk [i_id i]
          | Some q => match parents f m q with POk l => POk (i_id i :: l) | r => r end
          end
      end
  end.
Definition fuel_of (s : st) : nat := S (length (meta s)).

(* ---------- directory and backend primitives ---------- *)
Definition has_dir (s : st) (d : dirent) : bool := existsb (dirent_eqb d) (dirs s).
Definition rm_dirent (l : list dirent) (d : dirent) : list dirent := filter (fun x => negb (dirent_eqb d x)) l.
Definition mounted (s : st) (id : nat) : bool := existsb (fun p => Nat.eqb (fst p) id) (mounts s).
Definition rm_mount (l : list (nat * labels)) (id : nat) := filter (fun p => negb (Nat.eqb (fst p) id)) l.

(* FileSystem.Mount(<id>/fs, labels) *)
Definition fs_mount (s : st) (id : nat) (l : labels) (ok : bool) : st :=
  let s1 := emit s (EvMount id l ok) in
  if ok then set_mounts s1 ((id, l) :: mounts s1) else s1.

(* FileSystem.Check(<id>/fs): [scripted] is the adversary's answer for a registered mountpoint *)
Definition fs_check (s : st) (id : nat) (scripted : bool) : st * bool :=
  let r := mounted s id && scripted in (emit s (EvCheck id r), r).

(* FileSystem.Unmount(<d>/fs) *)
Definition fs_unmount (s : st) (d : dirent) (scripted : bool) : st :=
  match d with
  | DId id =>
      if mounted s id then
        let s1 := emit s (EvUnmount d true scripted) in
        if scripted then set_mounts s1 (rm_mount (mounts s1) id) else s1
      else emit s (EvUnmount d false false)
  | DTemp _ => emit s (EvUnmount d false false)
  end.

(* cleanupSnapshotDirectory: Unmount(<d>/fs) (error only logged), then RemoveAll(<d>) *)
Definition cleanup_dir (ubad : list nat) (s : st) (d : dirent) : st :=
  let ok := match d with DId id => negb (mem id ubad) | DTemp _ => true end in
  let s1 := fs_unmount s d ok in
  emit (set_dirs s1 (rm_dirent (dirs s1) d)) (EvRmDir d).

Definition cleanup_dirs (ubad : list nat) (s : st) (ds : list dirent) : st := fold_left (cleanup_dir ubad) ds s.

(* getCleanupDirectories.
   cleanupCommitted = false: every entry of snapshots/ whose name is not the id of a snapshot in metadata;
   cleanupCommitted = true (Close): every entry that is the id of a snapshot carrying the remote label. *)
Definition remote_ids (m : list (name * info)) : list nat :=
  ids_of (filter (fun p => l_remote (i_labels (snd p))) m).
Definition cleanup_list (s : st) (committed : bool) : list dirent :=
  filter (fun d => match d with
                   | DId id => if committed then mem id (remote_ids (meta s)) else negb (mem id (ids_of (meta s)))
                   | DTemp _ => negb committed
                   end) (dirs s).

(* ---------- createSnapshot (one write transaction) ---------- *)
Record snap := mkSnap { sn_id : nat; sn_kind : kind; sn_parents : list nat }.

(* storage.CreateSnapshot inside the open transaction: checks and the record it would write *)
Definition meta_create (s : st) (k : kind) (key : name) (parent : option name) : err + snap :=
  let chk_parent :=
    match parent with
    | None => None
    | Some p => match lookup (meta s) p with
                | None => Some ENotFound
                | Some pi => if kind_eqb (i_kind pi) KCommitted then None else Some EInvalid
                end
    end in
  match chk_parent with
  | Some e => inl e
  | None =>
      match lookup (meta s) key with
      | Some _ => inl EExists
      | None =>
          let id := S (seq s) in
          match parent with
          | None => inr (mkSnap id k [])
          | Some p => match parents (fuel_of s) (meta s) p with
                      | POk l => inr (mkSnap id k l)
                      | PMissing => inl ENotFound
                      | PFuel => inl EOther
                      end
          end
      end
  end.

Definition create_snapshot (s : st) (k : kind) (key : name) (parent : option name) (l : labels) : st * (err + snap) :=
  if closed s then (s, inl EOther) else
  (* prepareDirectory: MkdirTemp new-*, fs (and work) *)
  let td := DTemp (tmpc s) in
  let s1 := set_tmpc (set_dirs s (td :: dirs s)) (S (tmpc s)) in
  match meta_create s1 k key parent with
  | inl e => (cleanup_dir [] s1 td, inl e)                     (* rollback; deferred cleanup of the temp directory *)
  | inr sn =>
      (* os.Stat(upperPath(ParentIDs[0])) *)
      let parent_ok := match sn_parents sn with [] => true | p :: _ => has_dir s1 (DId p) end in
      if negb parent_ok then (cleanup_dir [] s1 td, inl EOther) else
      (* os.Rename(td, snapshots/<id>): fails when the target exists (non-empty directory) *)
      if has_dir s1 (DId (sn_id sn)) then
        (cleanup_dir [] (cleanup_dir [] s1 td) (DId (sn_id sn)), inl EOther)
      else
        let s2 := set_dirs s1 (DId (sn_id sn) :: rm_dirent (dirs s1) td) in
        (* t.Commit() *)
        let s3 := set_seq (set_meta s2 ((key, mkI (sn_id sn) k parent l) :: meta s2)) (sn_id sn) in
        (s3, inr sn)
  end.

(* ---------- commit (one write transaction): storage.GetInfo, DiskUsage, storage.CommitActive ---------- *)
(* parent of the committed snapshot: [ip] = parent of the active snapshot, [wp] = WithParent option of the commit *)
Definition commit_parent (ip wp : option name) : err + option name :=
  match ip, wp with
  | None, _ => inr wp
  | Some p, None => inr (Some p)
  | Some p, Some q => if Nat.eqb p q then inr (Some p) else inl EInvalid
  end.

Definition commit_active (s : st) (nm key : name) (l : labels) (is_remote : bool) : st * option err :=
  if closed s then (s, Some EOther) else
  match lookup (meta s) key with
  | None => (s, Some ENotFound)
  | Some i =>
      if negb is_remote && negb (has_dir s (DId (i_id i))) then (s, Some EOther) else
      if bad_name nm then (s, Some EOther) else      (* CreateBucket(""): bucket name required *)
      match lookup (meta s) nm with
      | Some _ => (s, Some EExists)
      | None =>
          if negb (kind_eqb (i_kind i) KActive) then (s, Some EFailedPre) else
          match commit_parent (i_parent i) (l_wp l) with
          | inl e => (s, Some e)
          | inr np =>
              (* the parent is looked up after the new bucket was created and the key's bucket deleted.
                 DEVIATION (known finding C08-withparent-own-name-self-parent): for p = nm the real code finds the
                 bucket it has just created and commits the snapshot as its own parent; the model answers NotFound
                 and the generators never produce that input. *)
              let perr := match np with
                          | None => None
                          | Some p => if Nat.eqb p nm then Some ENotFound else
                                      match lookup (del (meta s) key) p with
                                      | None => Some ENotFound
                                      | Some pi => if kind_eqb (i_kind pi) KCommitted then None else Some EFailedPre
                                      end
                          end in
              match perr with
              | Some e => (s, Some e)
              | None => (set_meta s ((nm, mkI (i_id i) KCommitted np l) :: del (meta s) key), None)
              end
          end
      end
  end.

(* ---------- checkAvailability + mounts ---------- *)
(* walk the chain from [key]; every snapshot carrying the remote label gets a backend Check *)
Fixpoint check_chain (fuel : nat) (cbad : list nat) (s : st) (key : name) : st * bool :=
  match fuel with
  | O => (s, false)
  | S f =>
      match lookup (meta s) key with
      | None => (s, false)
      | Some i =>
          let '(s1, ok) := if l_remote (i_labels i) then fs_check s (i_id i) (negb (mem (i_id i) cbad)) else (s, true) in
          match i_parent i with
          | None => (s1, ok)
          | Some p => let '(s2, ok2) := check_chain f cbad s1 p in (s2, ok && ok2)
          end
      end
  end.
Definition check_avail (cbad : list nat) (s : st) (key : name) : st * bool :=
  if closed s then (s, false) else check_chain (fuel_of s) cbad s key.

Definition mount_shape (sn : snap) : mnt :=
  match sn_parents sn with
  | [] => MBind (sn_id sn) (kind_eqb (sn_kind sn) KView)
  | p :: rest =>
      if kind_eqb (sn_kind sn) KActive then MOverlay (Some (sn_id sn)) (p :: rest)
      else match rest with
           | [] => MBind p true
           | _ => MOverlay None (p :: rest)
           end
  end.

Inductive res :=
| ROk
| RErr (e : err)
| RMounts (m : mnt)
| RTargetExists                      (* Prepare: the remote snapshot was mounted; AlreadyExists for the target *)
| RInfo (k : kind) (p : option name) (l : labels).

Definition mounts_of (cbad : list nat) (s : st) (sn : snap) (check_key : option name) : st * res :=
  match check_key with
  | None => (s, RMounts (mount_shape sn))
  | Some ck =>
      let '(s1, ok) := check_avail cbad s ck in
      if ok then (s1, RMounts (mount_shape sn)) else (s1, RErr EUnavail)
  end.

(* ---------- API operations ---------- *)
Inductive op :=
| Prepare (key : name) (parent : option name) (l : labels) (mok : bool) (cbad : list nat)
| View (key : name) (parent : option name) (l : labels) (cbad : list nat)
| Commit (nm key : name) (l : labels)
| Mounts (key : name) (cbad : list nat)
| Remove (key : name) (ubad : list nat)
| Cleanup (ubad : list nat)
| Update (nm : name) (l : labels)
| Stat (nm : name)
| Close (ubad : list nat).

(* [l] = the labels as metadata keeps them ([norm] of the caller's), [lm] = the caller's label map as passed
   (what decides about the target and what the backend Mount sees) *)
Definition do_prepare (s : st) key parent l mok cbad (lm : labels) : st * res :=
  match create_snapshot s KActive key parent l with
  | (s1, inl e) => (s1, RErr e)
  | (s1, inr sn) =>
      match l_target lm with
      | None => mounts_of cbad s1 sn parent
      | Some t =>
          (* prepareRemoteSnapshot: GetInfo(key) then fs.Mount(upperPath(id), labels) *)
          match lookup (meta s1) key with
          | None => mounts_of cbad s1 sn parent
          | Some i =>
              let s2 := fs_mount s1 (i_id i) lm mok in
              if mok then
                match commit_active s2 t key (set_remote l) true with
                | (s3, None) => (emit s3 (EvRemoteCommit (i_id i)), RTargetExists)
                | (s3, Some EExists) => (s3, RTargetExists)
                | (s3, Some e) => (s3, RErr e)
                end
              else mounts_of cbad s2 sn parent
          end
      end
  end.

Definition do_view (s : st) key parent l cbad : st * res :=
  match create_snapshot s KView key parent l with
  | (s1, inl e) => (s1, RErr e)
  | (s1, inr sn) => mounts_of cbad s1 sn parent
  end.

Definition do_mounts (s : st) key cbad : st * res :=
  if closed s then (s, RErr EOther) else
  match lookup (meta s) key with
  | None => (s, RErr ENotFound)
  | Some i =>
      if kind_eqb (i_kind i) KCommitted then (s, RErr EFailedPre) else
      match i_parent i with
      | None => mounts_of cbad s (mkSnap (i_id i) (i_kind i) []) (Some key)
      | Some p =>
          match parents (fuel_of s) (meta s) p with
          | POk l => mounts_of cbad s (mkSnap (i_id i) (i_kind i) l) (Some key)
          | PMissing => (s, RErr ENotFound)
          | PFuel => (s, RErr EOther)
          end
      end
  end.

Definition do_remove (s : st) key ubad : st * res :=
  if closed s then (s, RErr EOther) else
  match lookup (meta s) key with
  | None => (s, RErr ENotFound)
  | Some i =>
      if has_child (meta s) key then (s, RErr EFailedPre) else
      let perr := match i_parent i with
                  | None => false
                  | Some p => match lookup (meta s) p with None => true | Some _ => false end
                  end in
      if perr then (s, RErr ENotFound) else
      let s1 := emit (set_meta s (del (meta s) key)) (EvMetaRemove (i_id i)) in
      if async s then (s1, ROk)
      else (cleanup_dirs ubad s1 (cleanup_list s1 false), ROk)
  end.

(* storage.IDMap/WalkInfo answer NotFound while the snapshots bucket does not exist yet (seq = 0);
   getCleanupDirectories tolerates that (fix C09-fix-1): no directory belongs to a snapshot then. *)
Definition do_cleanup (s : st) ubad : st * res :=
  if closed s then (s, RErr EOther) else
  (cleanup_dirs ubad s (cleanup_list s false), ROk).

Definition do_close (s : st) ubad : st * res :=
  if closed s then (s, ROk) else
  let s1 := emit s EvClose in
  if Nat.eqb (seq s) 0 then (set_closed s1 true, ROk) else
  (set_closed (cleanup_dirs ubad s1 (cleanup_list s1 true)) true, ROk).

Definition do_update (s : st) nm l : st * res :=
  if closed s then (s, RErr EOther) else
  match lookup (meta s) nm with
  | None => (s, RErr ENotFound)
  | Some i => (set_meta s (upd_labels (meta s) nm l), RInfo (i_kind i) (i_parent i) l)
  end.

Definition do_stat (s : st) nm : st * res :=
  if closed s then (s, RErr EOther) else
  match lookup (meta s) nm with
  | None => (s, RErr ENotFound)
  | Some i => (s, RInfo (i_kind i) (i_parent i) (i_labels i))
  end.

Definition step (s : st) (o : op) : st * res :=
  match o with
  | Prepare key parent l mok cbad => do_prepare s key parent (norm l) mok cbad l
  | View key parent l cbad => do_view s key parent (norm l) cbad
  | Commit nm key l =>
      let '(s1, r) := commit_active s nm key (norm l) false in (s1, match r with None => ROk | Some e => RErr e end)
  | Mounts key cbad => do_mounts s key cbad
  | Remove key ubad => do_remove s key ubad
  | Cleanup ubad => do_cleanup s ubad
  | Update nm l => do_update s nm (norm l)
  | Stat nm => do_stat s nm
  | Close ubad => do_close s ubad
  end.

Definition exec (s : st) (os : list op) : st := fold_left (fun s o => fst (step s o)) os s.

(* events emitted by one step *)
Definition step_events (s : st) (o : op) : list event := skipn (length (log s)) (log (fst (step s o))).

(* ---------- specification-level notions used by the theorems ---------- *)
(* [on_chain m k n i]: snapshot (n, i) is on the parent chain that starts at name k (k itself included) *)
Inductive on_chain (m : list (name * info)) : name -> name -> info -> Prop :=
| oc_here : forall k i, lookup m k = Some i -> on_chain m k k i
| oc_up : forall k i p n j, lookup m k = Some i -> i_parent i = Some p -> on_chain m p n j -> on_chain m k n j.

(* [chain_ids m p l]: l = ids of p, parent(p), parent(parent(p)), ... up to the root *)
Inductive chain_ids (m : list (name * info)) : name -> list nat -> Prop :=
| ci_root : forall p i, lookup m p = Some i -> i_parent i = None -> chain_ids m p [i_id i]
| ci_step : forall p i q l, lookup m p = Some i -> i_parent i = Some q -> chain_ids m q l -> chain_ids m p (i_id i :: l).

Definition lower_of (m : mnt) : list nat := match m with MBind _ _ => [] | MOverlay _ l => l end.
Definition mount_count (s : st) (id : nat) : nat := length (filter (fun p => Nat.eqb (fst p) id) (mounts s)).
Definition is_close (o : op) : bool := match o with Close _ => true | _ => false end.
(* the key whose chain mounts() checks: the parent for Prepare/View, the key itself for Mounts *)
Definition check_key (o : op) : option name :=
  match o with
  | Prepare _ p _ _ _ | View _ p _ _ => p
  | Mounts k _ => Some k
  | _ => None
  end.
Definition op_key (o : op) : option name :=
  match o with Prepare k _ _ _ _ | View k _ _ _ | Mounts k _ => Some k | _ => None end.
Definition cbad_of (o : op) : list nat :=
  match o with Prepare _ _ _ _ c | View _ _ _ c | Mounts _ c => c | _ => [] end.

(* What a Prepare naming target [t] may leave behind (s before, s' after, r its result); see C08. *)
Definition target_outcome (s s' : st) (key : name) (l : labels) (mok : bool) (t : name) (r : res) : Prop :=
  match r with
  | RTargetExists =>
      exists i, lookup (meta s') t = Some i /\ i_kind i = KCommitted /\
        (lookup (meta s) t = None ->
           i_labels i = set_remote (norm l) /\ mount_count s' (i_id i) = 1 /\ In (DId (i_id i)) (dirs s') /\
           lookup (meta s') key = None)
  | RMounts m =>
      mok = false /\
      exists i, lookup (meta s') key = Some i /\ i_kind i = KActive /\ i_labels i = norm l /\
        mounted s' (i_id i) = false /\ (m = MBind (i_id i) false \/ exists lw, m = MOverlay (Some (i_id i)) lw)
  | RErr e =>
      meta s' = meta s \/ (e = EUnavail /\ mok = false) \/
      (* the backend Mount succeeded but the internal commit failed (not AlreadyExists): no fallback; the key stays
         behind as an active, not-remote snapshot with its live backend mount ("this key must not be used again") *)
      (mok = true /\ e <> EExists /\
       exists i, lookup (meta s') key = Some i /\ i_kind i = KActive /\ i_labels i = norm l /\ mount_count s' (i_id i) = 1)
  | _ => False
  end.

(* Discipline of an event sequence: every Unmount that hits a live mount satisfies [P] (its directory),
   and every directory removal comes directly after the backend Unmount call for that directory. *)
Fixpoint disciplined (P : dirent -> Prop) (prev : option event) (l : list event) : Prop :=
  match l with
  | [] => True
  | e :: t =>
      match e with
      | EvUnmount d true _ => P d
      | EvRmDir d => exists lv ok, prev = Some (EvUnmount d lv ok)
      | _ => True
      end /\ disciplined P (Some e) t
  end.

(* ---------- observable view, compared with the implementation after every op ---------- *)
Definition kind_n (k : kind) : nat := match k with KView => 0 | KActive => 1 | KCommitted => 2 end.
Definition opt_eqb (a b : option nat) : bool :=
  match a, b with None, None => true | Some x, Some y => Nat.eqb x y | _, _ => false end.
Definition labels_eqb (a b : labels) : bool :=
  opt_eqb (l_target a) (l_target b) && Bool.eqb (l_remote a) (l_remote b) && Nat.eqb (l_user a) (l_user b)
  && Nat.eqb (l_ext a) (l_ext b).
Fixpoint natlist_eqb (a b : list nat) : bool :=
  match a, b with
  | [], [] => true
  | x :: a', y :: b' => Nat.eqb x y && natlist_eqb a' b'
  | _, _ => false
  end.
Definition err_n (e : err) : nat :=
  match e with EExists => 0 | ENotFound => 1 | EInvalid => 2 | EUnavail => 3 | EFailedPre => 4 | EOther => 5 end.
Definition mnt_eqb (a b : mnt) : bool :=
  match a, b with
  | MBind x r, MBind y q => Nat.eqb x y && Bool.eqb r q
  | MOverlay u l, MOverlay v k => opt_eqb u v && natlist_eqb l k
  | _, _ => false
  end.
(* the API cannot tell RTargetExists from another AlreadyExists: both are compared as the class AlreadyExists *)
Definition res_eqb (a b : res) : bool :=
  match a, b with
  | ROk, ROk => true
  | (RErr EExists | RTargetExists), (RErr EExists | RTargetExists) => true
  | RErr x, RErr y => Nat.eqb (err_n x) (err_n y)
  | RMounts x, RMounts y => mnt_eqb x y
  | RInfo k p l, RInfo k' p' l' => kind_eqb k k' && opt_eqb p p' && labels_eqb l l'
  | _, _ => false
  end.
Definition event_eqb (a b : event) : bool :=
  match a, b with
  | EvMount i l o, EvMount j k p => Nat.eqb i j && labels_eqb l k && Bool.eqb o p
  | EvCheck i o, EvCheck j p => Nat.eqb i j && Bool.eqb o p
  | EvUnmount d v o, EvUnmount e w p => dirent_eqb d e && Bool.eqb v w && Bool.eqb o p
  | EvRmDir d, EvRmDir e => dirent_eqb d e
  | _, _ => false
  end.
(* only backend calls and directory removals are observable; the ghost events are dropped.
   Temp directory names are random in the implementation: compared as DTemp 0. *)
Definition norm_dirent (d : dirent) : dirent := match d with DTemp _ => DTemp 0 | _ => d end.
Definition observable (e : event) : option event :=
  match e with
  | EvMount _ _ _ | EvCheck _ _ => Some e
  | EvUnmount d v o => Some (EvUnmount (norm_dirent d) v o)
  | EvRmDir d => Some (EvRmDir (norm_dirent d))
  | _ => None
  end.
Fixpoint obs_events (l : list event) : list event :=
  match l with
  | [] => []
  | e :: t => match observable e with Some e' => e' :: obs_events t | None => obs_events t end
  end.
(* Batches (readdir order, concurrent Check goroutines) are compared up to order: sorted by a key.
   The order of Unmount before RmDir of the same directory survives the sort (2k < 2k+1). *)
Definition dirent_key (d : dirent) : nat := match d with DId i => S i | DTemp _ => 0 end.
Definition event_key (e : event) : nat :=
  match e with
  | EvMount i _ _ => 4 * i
  | EvCheck i _ => 4 * i + 1
  | EvUnmount d _ _ => 4 * dirent_key d + 2
  | EvRmDir d => 4 * dirent_key d + 3
  | _ => 0
  end.
Fixpoint ins_by {A} (key : A -> nat) (x : A) (l : list A) : list A :=
  match l with
  | [] => [x]
  | y :: t => if Nat.leb (key x) (key y) then x :: l else y :: ins_by key x t
  end.
Definition sort_by {A} (key : A -> nat) (l : list A) : list A := fold_right (ins_by key) [] l.
Fixpoint list_eqb {A} (eqb : A -> A -> bool) (a b : list A) : bool :=
  match a, b with
  | [], [] => true
  | x :: a', y :: b' => eqb x y && list_eqb eqb a' b'
  | _, _ => false
  end.

Record view := mkView {
  v_walk   : list (name * (nat * option name * labels));     (* sorted by name: kind, parent, labels *)
  v_dirs   : list nat;                                       (* ids having a directory, ascending *)
  v_temps  : nat;                                            (* number of new-* directories *)
  v_mounts : list (nat * labels)                             (* backend mount table, ascending id *)
}.
Definition view_of (s : st) : view :=
  mkView
    (if closed s then [] (* Walk fails once the MetaStore is closed *) else
     sort_by fst (map (fun p => (fst p, (kind_n (i_kind (snd p)), i_parent (snd p), i_labels (snd p)))) (meta s)))
    (sort_by (fun x => x) (flat_map (fun d => match d with DId i => [i] | DTemp _ => [] end) (dirs s)))
    (length (filter (fun d => match d with DTemp _ => true | DId _ => false end) (dirs s)))
    (sort_by fst (mounts s)).
Definition walk_eqb (a b : name * (nat * option name * labels)) : bool :=
  Nat.eqb (fst a) (fst b) &&
  let '(k, p, l) := snd a in let '(k', p', l') := snd b in Nat.eqb k k' && opt_eqb p p' && labels_eqb l l'.
Definition view_eqb (a b : view) : bool :=
  list_eqb walk_eqb (v_walk a) (v_walk b) && natlist_eqb (v_dirs a) (v_dirs b) && Nat.eqb (v_temps a) (v_temps b)
  && list_eqb (fun x y => Nat.eqb (fst x) (fst y) && labels_eqb (snd x) (snd y)) (v_mounts a) (v_mounts b).

(* output of one op: result class, backend/directory events of the op (sorted by key), view afterwards *)
Definition out := (res * list event * view)%type.
Definition step_out (s : st) (o : op) : st * out :=
  let '(s1, r) := step s o in
  (s1, (r, sort_by event_key (obs_events (skipn (length (log s)) (log s1))), view_of s1)).
Definition out_eqb (a b : out) : bool :=
  let '(r, e, v) := a in let '(r', e', v') := b in
  res_eqb r r' && list_eqb event_eqb e (sort_by event_key e') && view_eqb v v'.
Fixpoint run (s : st) (os : list op) : st * list out :=
  match os with
  | [] => (s, [])
  | o :: t => let '(s1, x) := step_out s o in let '(s2, xs) := run s1 t in (s2, x :: xs)
  end.

(* a case = config (async remove), history, outputs observed on the implementation *)
Definition case := (bool * list op * list out)%type.
Definition case_ok (c : case) : bool :=
  let '(a, os, obs) := c in list_eqb out_eqb (snd (run (init a) os)) obs.
Fixpoint mismatches_from (n : nat) (cs : list case) : list nat :=
  match cs with
  | [] => []
  | c :: t => if case_ok c then mismatches_from (S n) t else n :: mismatches_from (S n) t
  end.
Definition mismatches := mismatches_from 0.
