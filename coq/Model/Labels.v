(* Model of the snapshot-label protocol between the pull-side handlers and the snapshotter (property C20).
   Executable definitions only; proofs are in Proofs/Labels.v.

   Go code modelled (as it is):
     fs/source/source.go   AppendDefaultLabelsHandlerWrapper, appendWithValidation, AppendExtraLabelsHandler,
                           layerFromDigest, FromDefaultLabels
     service/cri.go        sourceFromCRILabels;  service/service.go  sources(cri, default)
     fs/fs.go              Mount: TargetPrefetchSizeLabel parse (strconv.ParseInt base 10, 64 bit), neighboringLayers
   and, by contract (outside /repo, exercised by the correspondence check only):
     containerd pkg/labels.Validate (len key + len value <= 4096), pkg/snapshotters.AppendInfoHandlerWrapper/getLayers,
     go-digest Parse (sha256/sha384/sha512, lower-case hex of the exact length), strings.Split / TrimSuffix, fmt %d.
   containerd's reference.Parse is NOT modelled: it is an argument ([parse_ref : str -> option str], None = rejected;
   the result stands for the parsed reference.Spec).

   Strings are byte lists. A label map is an association list with pairwise distinct keys; the label keys are an
   inductive type whose lengths come from the Go constants (Gen/Consts.v, regenerated from the source each run).
   A descriptor's annotations are assumed empty before the handlers run. *)
From Coq Require Import List NArith ZArith Bool Arith.
From Coq Require String Ascii.
From SV Require Import Gen.Consts.
Import ListNotations.

Definition str := list N.
Definition comma : N := 44%N.

Fixpoint str_eqb (a b : str) : bool :=
  match a, b with
  | [], [] => true
  | x :: a', y :: b' => N.eqb x y && str_eqb a' b'
  | _, _ => false
  end.

(* strings.Split(s, ","): never empty, "" -> [""] *)
Fixpoint split_comma (s : str) : list str :=
  match s with
  | [] => [[]]
  | c :: t =>
      if N.eqb c comma then [] :: split_comma t
      else match split_comma t with
           | h :: r => (c :: h) :: r
           | [] => [[c]]
           end
  end.

Fixpoint join_comma (l : list str) : str :=
  match l with
  | [] => []
  | x :: t => match t with [] => x | _ :: _ => x ++ comma :: join_comma t end
  end.

(* the literal Go form: v += u + ","  for every element, then strings.TrimSuffix(v, ",");
   Proofs/Labels.v shows go_join = join_comma *)
Definition trim_comma (v : str) : str :=
  match rev v with
  | c :: r => if N.eqb c comma then rev r else v
  | [] => v
  end.
Definition go_join (l : list str) : str := trim_comma (concat (map (fun u => u ++ [comma]) l)).

(* ---- label keys ---- *)
Inductive key :=
| KRef | KDigest | KLayers | KUrls | KPrefetch          (* containerd.io/snapshot/remote/... *)
| KCriRef | KCriDigest | KCriLayers | KCriManifest      (* containerd.io/snapshot/cri.... *)
| KUrlsIdx (i : nat)                                    (* containerd.io/snapshot/remote/urls.<i> *)
| KOther (s : str).

Definition key_eqb (a b : key) : bool :=
  match a, b with
  | KRef, KRef | KDigest, KDigest | KLayers, KLayers | KUrls, KUrls | KPrefetch, KPrefetch
  | KCriRef, KCriRef | KCriDigest, KCriDigest | KCriLayers, KCriLayers | KCriManifest, KCriManifest => true
  | KUrlsIdx i, KUrlsIdx j => Nat.eqb i j
  | KOther s, KOther t => str_eqb s t
  | _, _ => false
  end.

(* number of decimal digits of fmt.Sprintf("%d", i) *)
Fixpoint dec_digits_fuel (fuel n : nat) : nat :=
  match fuel with
  | O => 1
  | S f => if n <? 10 then 1 else S (dec_digits_fuel f (n / 10))
  end.
Definition dec_digits (n : nat) : nat := dec_digits_fuel n n.

(* "containerd.io/snapshot/cri.manifest-digest" (containerd constant, not in /repo) *)
Definition cri_manifest_key_len : nat := 42.

Definition key_len (k : key) : nat :=
  match k with
  | KRef => length c20_lbl_ref
  | KDigest => length c20_lbl_digest
  | KLayers => length c20_lbl_layers
  | KUrls => length c20_lbl_urls
  | KPrefetch => length c20_lbl_prefetch
  | KCriRef => length c20_cri_lbl_ref
  | KCriDigest => length c20_cri_lbl_digest
  | KCriLayers => length c20_cri_lbl_layers
  | KCriManifest => cri_manifest_key_len
  | KUrlsIdx i => length c20_lbl_urls_prefix + dec_digits i
  | KOther s => length s
  end.

Definition labels := list (key * str).

Fixpoint lget (l : labels) (k : key) : option str :=
  match l with
  | [] => None
  | (k', v) :: t => if key_eqb k' k then Some v else lget t k
  end.

Fixpoint lset (l : labels) (k : key) (v : str) : labels :=
  match l with
  | [] => [(k, v)]
  | (k', v') :: t => if key_eqb k' k then (k, v) :: t else (k', v') :: lset t k v
  end.

Fixpoint ldel (l : labels) (k : key) : labels :=
  match l with
  | [] => []
  | (k', v') :: t => if key_eqb k' k then ldel t k else (k', v') :: ldel t k
  end.

Definition lset_absent (l : labels) (k : key) (v : str) : labels :=
  match lget l k with Some _ => l | None => lset l k v end.

(* containerd labels.Validate *)
Definition max_label : nat := 4096.
Definition validate (k : key) (v : str) : bool := key_len k + length v <=? max_label.

(* ---- decimal integers: fmt.Sprintf("%d", int64) and strconv.ParseInt(s, 10, 64) ---- *)
Fixpoint show_N_fuel (fuel : nat) (n : N) (acc : str) : str :=
  match fuel with
  | O => acc
  | S f =>
      let acc' := (48 + N.modulo n 10)%N :: acc in
      if (n <? 10)%N then acc' else show_N_fuel f (N.div n 10) acc'
  end.
Definition show_N (n : N) : str := show_N_fuel 20 n [].
Definition show_Z (z : Z) : str :=
  if (z <? 0)%Z then 45%N :: show_N (Z.to_N (- z)) else show_N (Z.to_N z).

Fixpoint digits_val (acc : Z) (l : str) : option Z :=
  match l with
  | [] => Some acc
  | c :: t =>
      if ((48 <=? c) && (c <=? 57))%N then digits_val (acc * 10 + (Z.of_N c - 48))%Z t else None
  end.

Definition int64_min : Z := (- 9223372036854775808)%Z.
Definition int64_max : Z := 9223372036854775807%Z.

Definition parse_int64 (s : str) : option Z :=
  match s with
  | [] => None
  | c :: t =>
      let '(neg, ds) := if N.eqb c 45 then (true, t) else if N.eqb c 43 then (false, t) else (false, s) in
      match ds with
      | [] => None
      | _ :: _ =>
          match digits_val 0 ds with
          | None => None
          | Some v =>
              let v' := if neg then (- v)%Z else v in
              if ((int64_min <=? v') && (v' <=? int64_max))%Z then Some v' else None
          end
      end
  end.

(* ---- go-digest Parse with the default algorithms ---- *)
Definition is_lhex (c : N) : bool := (((48 <=? c) && (c <=? 57)) || ((97 <=? c) && (c <=? 102)))%N.

Fixpoint strip_prefix (p s : str) : option str :=
  match p, s with
  | [], _ => Some s
  | x :: p', y :: s' => if N.eqb x y then strip_prefix p' s' else None
  | _ :: _, [] => None
  end.

Definition hex_of_len (n : nat) (s : str) : bool := Nat.eqb (length s) n && forallb is_lhex s.

Definition sha256_pfx : str := [115; 104; 97; 50; 53; 54; 58]%N.
Definition sha384_pfx : str := [115; 104; 97; 51; 56; 52; 58]%N.
Definition sha512_pfx : str := [115; 104; 97; 53; 49; 50; 58]%N.

Definition digest_valid (s : str) : bool :=
  match strip_prefix sha256_pfx s with
  | Some e => hex_of_len 64 e
  | None =>
      match strip_prefix sha384_pfx s with
      | Some e => hex_of_len 96 e
      | None =>
          match strip_prefix sha512_pfx s with
          | Some e => hex_of_len 128 e
          | None => false
          end
      end
  end.

(* ---- writer side ---- *)
Record child := mkChild { c_layer : bool; c_digest : str; c_urls : list str }.

(* the size-limited append loops: keep adding "<item>," while the label still validates, stop at the first
   item that does not fit. [budget] = bytes still available for the value. *)
Fixpoint take_fit (budget : nat) (items : list str) : list str :=
  match items with
  | [] => []
  | u :: t => if S (length u) <=? budget then u :: take_fit (budget - S (length u)) t else []
  end.

Definition budget (k : key) : nat := max_label - key_len k.

(* appendWithValidation(key, values) *)
Definition urls_value (k : key) (us : list str) : str := join_comma (take_fit (budget k) us).

(* AppendDefaultLabelsHandlerWrapper, inner loop over children[i:]: (index in children[i:], child) of every
   layer-typed child whose digest still fits in the layers label; stops at the first that does not fit;
   non-layer children are skipped but still counted by the index. *)
Fixpoint scan_layers (bud : nat) (j : nat) (cs : list child) : list (nat * child) :=
  match cs with
  | [] => []
  | c :: t =>
      if c_layer c then
        if S (length (c_digest c)) <=? bud
        then (j, c) :: scan_layers (bud - S (length (c_digest c))) (S j) t
        else []
      else scan_layers bud (S j) t
  end.

Definition default_ann (ref : str) (pf : Z) (suffix : list child) : labels :=
  match suffix with
  | [] => []
  | c :: _ =>
      let taken := scan_layers (budget KLayers) 0 suffix in
      [(KRef, ref); (KDigest, c_digest c)]
        ++ map (fun jc => (KUrlsIdx (fst jc), urls_value (KUrlsIdx (fst jc)) (c_urls (snd jc)))) taken
        ++ [(KLayers, join_comma (map (fun jc => c_digest (snd jc)) taken));
            (KPrefetch, show_Z pf);
            (KUrls, urls_value KUrls (c_urls c))]
  end.

(* containerd snapshotters.getLayers: "," + digest unless the accumulated string is empty *)
Fixpoint cri_scan (used : nat) (cs : list child) : list str :=
  match cs with
  | [] => []
  | c :: t =>
      if c_layer c then
        let item := (if used =? 0 then 0 else 1) + length (c_digest c) in
        if key_len KCriLayers + (used + item) <=? max_label
        then c_digest c :: cri_scan (used + item) t
        else []
      else cri_scan used t
  end.

Fixpoint drop_empty (l : list str) : list str :=
  match l with
  | [] :: t => drop_empty t
  | _ => l
  end.

Definition cri_layers_value (suffix : list child) : str := join_comma (drop_empty (cri_scan 0 suffix)).

Definition cri_ann (ref mdigest : str) (suffix : list child) : labels :=
  match suffix with
  | [] => []
  | c :: _ =>
      [(KCriRef, ref); (KCriDigest, c_digest c); (KCriLayers, cri_layers_value suffix); (KCriManifest, mdigest)]
  end.

(* layerFromDigest: the first child (of any type) with that digest *)
Definition layer_from_digest (children : list child) (d : str) : option child :=
  find (fun ch => str_eqb (c_digest ch) d) children.

(* AppendExtraLabelsHandler, loop over strings.Split(nlayers, ","); None = the handler returns an error *)
Fixpoint extra_urls (children : list child) (j : nat) (ds : list str) (acc : labels) : option labels :=
  match ds with
  | [] => Some acc
  | d :: t =>
      if digest_valid d then
        let acc' :=
          match layer_from_digest children d with
          | Some ch =>
              if c_layer ch then lset_absent acc (KUrlsIdx j) (urls_value (KUrlsIdx j) (c_urls ch)) else acc
          | None => acc
          end in
        extra_urls children (S j) t acc'
      else None
  end.

(* AppendExtraLabelsHandler on one layer child [c] whose annotations (as left by the wrapped handler) are [l0] *)
Definition extra_over (l0 : labels) (children : list child) (pf : Z) (c : child) : option labels :=
  let l1 := lset_absent l0 KUrls (urls_value KUrls (c_urls c)) in
  let l2 := lset_absent l1 KPrefetch (show_Z pf) in
  match lget l2 KCriLayers with
  | None => Some l2
  | Some nl => extra_urls children 0 (split_comma nl) l2
  end.

Definition extra_ann (children : list child) (ref : str) (pf : Z) (mdigest : str) (suffix : list child)
  : option labels :=
  match suffix with
  | [] => Some []
  | c :: _ => extra_over (cri_ann ref mdigest suffix) children pf c
  end.

(* Annotations the manifest itself carries on a descriptor (a0) are in the map before the handlers run: every
   handler assignment is a Go map assignment on top of them (overwrite or add), "nop if already set" tests see them. *)
Definition lset_all (l0 w : labels) : labels := fold_left (fun l kv => lset l (fst kv) (snd kv)) w l0.

Definition default_ann_over (a0 : labels) (ref : str) (pf : Z) (suffix : list child) : labels :=
  lset_all a0 (default_ann ref pf suffix).

Definition cri_ann_over (a0 : labels) (ref mdigest : str) (suffix : list child) : labels :=
  lset_all a0 (cri_ann ref mdigest suffix).

Definition extra_ann_over (a0 : labels) (children : list child) (ref : str) (pf : Z) (mdigest : str)
           (suffix : list child) : option labels :=
  match suffix with
  | [] => Some a0
  | c :: _ => extra_over (cri_ann_over a0 ref mdigest suffix) children pf c
  end.

(* [pres] = the pre-existing annotations of the children of [suffix], position by position (missing = none) *)
Fixpoint write_default (manifest : bool) (ref : str) (pf : Z) (suffix : list child) (pres : list labels)
  : list labels :=
  match suffix with
  | [] => []
  | c :: t =>
      (if manifest && c_layer c then default_ann_over (hd [] pres) ref pf suffix else hd [] pres)
        :: write_default manifest ref pf t (tl pres)
  end.

Fixpoint write_extra (manifest : bool) (children : list child) (ref : str) (pf : Z) (mdigest : str)
         (suffix : list child) (pres : list labels) : option (list labels) :=
  match suffix with
  | [] => Some []
  | c :: t =>
      match (if manifest && c_layer c then extra_ann_over (hd [] pres) children ref pf mdigest suffix
             else Some (hd [] pres)) with
      | None => None
      | Some l =>
          match write_extra manifest children ref pf mdigest t (tl pres) with
          | None => None
          | Some ls => Some (l :: ls)
          end
      end
  end.

(* ---- reader side ---- *)
Inductive rd :=
| RErr
| ROk (ref dg : str) (urls : list str) (neigh : list (str * list str)).

Definition urls_of (l : labels) (k : key) : list str :=
  match lget l k with Some u => split_comma u | None => [] end.

Fixpoint read_neigh (l : labels) (target : str) (i : nat) (ds : list str) : option (list (str * list str)) :=
  match ds with
  | [] => Some []
  | d :: t =>
      if digest_valid d then
        match read_neigh l target (S i) t with
        | None => None
        | Some r => Some (if str_eqb d target then r else (d, urls_of l (KUrlsIdx i)) :: r)
        end
      else None
  end.

Definition read_with (kref kdg klayers : key) (parse_ref : str -> option str) (l : labels) : rd :=
  match lget l kref with
  | None => RErr
  | Some refs =>
      match parse_ref refs with
      | None => RErr
      | Some ref =>
        match lget l kdg with
        | None => RErr
        | Some dg =>
            if digest_valid dg then
              match (match lget l klayers with
                     | None => Some []
                     | Some v => read_neigh l dg 0 (split_comma v)
                     end) with
              | None => RErr
              | Some ns => ROk ref dg (urls_of l KUrls) ns
              end
            else RErr
        end
      end
  end.

Definition read_default := read_with KRef KDigest KLayers.        (* source.FromDefaultLabels *)
Definition read_cri := read_with KCriRef KCriDigest KCriLayers.   (* service.sourceFromCRILabels *)
Definition read_service (parse_ref : str -> option str) (l : labels) : rd :=  (* service.sources(cri, default) *)
  match read_cri parse_ref l with
  | RErr => read_default parse_ref l
  | r => r
  end.

(* fs.neighboringLayers(src.Manifest, src.Target) with Manifest.Layers = target :: neighbours *)
Definition mount_neigh (r : rd) : list (str * list str) :=
  match r with
  | RErr => []
  | ROk _ dg urls ns => filter (fun p => negb (str_eqb (fst p) dg)) ((dg, urls) :: ns)
  end.

(* fs.Mount: prefetch size from the label, falling back to the configured default *)
Definition prefetch_of (l : labels) (dflt : Z) : Z :=
  match lget l KPrefetch with
  | Some s => match parse_int64 s with Some v => v | None => dflt end
  | None => dflt
  end.

(* ---- correspondence check ---- *)
Fixpoint strs_eqb (a b : list str) : bool :=
  match a, b with
  | [], [] => true
  | x :: a', y :: b' => str_eqb x y && strs_eqb a' b'
  | _, _ => false
  end.

Fixpoint neigh_eqb (a b : list (str * list str)) : bool :=
  match a, b with
  | [], [] => true
  | (d, u) :: a', (e, w) :: b' => str_eqb d e && strs_eqb u w && neigh_eqb a' b'
  | _, _ => false
  end.

Definition rd_eqb (a b : rd) : bool :=
  match a, b with
  | RErr, RErr => true
  | ROk r d u n, ROk r' d' u' n' => str_eqb r r' && str_eqb d d' && strs_eqb u u' && neigh_eqb n n'
  | _, _ => false
  end.

(* equality of label maps (both with pairwise distinct keys) *)
Definition labels_eqb (a b : labels) : bool :=
  Nat.eqb (length a) (length b)
  && forallb (fun kv => match lget b (fst kv) with Some v => str_eqb v (snd kv) | None => false end) a.

Fixpoint labelss_eqb (a b : list labels) : bool :=
  match a, b with
  | [], [] => true
  | x :: a', y :: b' => labels_eqb x y && labelss_eqb a' b'
  | _, _ => false
  end.

Inductive mut := MD (k : key) | MS (k : key) (v : str).

Definition apply_mut (l : labels) (m : mut) : labels :=
  match m with MD k => ldel l k | MS k v => lset l k v end.

(* a probe: take the annotations observed on child [p_layer], apply the mutations, hand the map to the readers;
   the remaining fields are what the implementation answered *)
Record probe := mkProbe {
  p_layer : nat; p_muts : list mut; p_dflt : Z;
  p_rdef : rd;                       (* source.FromDefaultLabels *)
  p_rsvc : option rd;                (* service: cri reader, then default reader; None = same answer as p_rdef *)
  p_mount : option (list (str * list str)); (* fs.neighboringLayers on the service result;
                                               None = same as the neighbour list of the service result *)
  p_pf : Z                           (* prefetch size Mount would use *)
}.

Record case := mkCase {
  k_extra : bool;            (* false: AppendDefaultLabelsHandlerWrapper; true: AppendExtraLabelsHandler over containerd's wrapper *)
  k_manifest : bool;         (* the handled descriptor is an image manifest *)
  k_ref : str; k_pf : Z; k_mdigest : str;
  k_children : list child;
  k_pre : list labels;       (* annotations the manifest carries on the children, position by position ([] = none at all) *)
  k_good_refs : list (str * str); (* reference strings of this case accepted by containerd's reference.Parse, with the parsed Spec *)
  k_ann : option (list (option labels));  (* observed annotations per child (inner None = not recorded for this
                                             child, large manifests); outer None = the handler returned an error *)
  k_probes : list probe
}.

Definition ref_ok_of (good : list (str * str)) (s : str) : option str :=
  match find (fun p => str_eqb (fst p) s) good with Some p => Some (snd p) | None => None end.

Definition model_ann (c : case) : option (list labels) :=
  if k_extra c
  then write_extra (k_manifest c) (k_children c) (k_ref c) (k_pf c) (k_mdigest c) (k_children c) (k_pre c)
  else Some (write_default (k_manifest c) (k_ref c) (k_pf c) (k_children c) (k_pre c)).

Fixpoint anns_eqb (m : list labels) (o : list (option labels)) : bool :=
  match m, o with
  | [], [] => true
  | x :: m', y :: o' => (match y with Some y' => labels_eqb x y' | None => true end) && anns_eqb m' o'
  | _, _ => false
  end.

Definition probe_ok (good : list (str * str)) (anns : list (option labels)) (p : probe) : bool :=
  let l := fold_left apply_mut (p_muts p) (match nth (p_layer p) anns None with Some l => l | None => [] end) in
  let rs := read_service (ref_ok_of good) l in
  rd_eqb (read_default (ref_ok_of good) l) (p_rdef p)
  && rd_eqb rs (match p_rsvc p with Some r => r | None => p_rdef p end)
  && neigh_eqb (mount_neigh rs)
               (match p_mount p with
                | Some n => n
                | None => match (match p_rsvc p with Some r => r | None => p_rdef p end) with
                          | ROk _ _ _ n => n
                          | RErr => []
                          end
                end)
  && Z.eqb (prefetch_of l (p_dflt p)) (p_pf p).

Definition case_ok (c : case) : bool :=
  match model_ann c, k_ann c with
  | None, None => true
  | Some m, Some o => anns_eqb m o && forallb (probe_ok (k_good_refs c) o) (k_probes c)
  | _, _ => false
  end.

Fixpoint mismatches_from (n : nat) (cs : list case) : list nat :=
  match cs with
  | [] => []
  | c :: t => if case_ok c then mismatches_from (S n) t else n :: mismatches_from (S n) t
  end.
Definition mismatches := mismatches_from 0.

(* ---- constructors used by the harness printer ----
   Observed strings are printed compressed: a value is the comma-join of pieces, a piece being a literal
   (Coq string) or a reference to a digest / URL of the case's own children. [V cs ps] decodes it. *)
(* run-length helpers for long literals: [srep n s] = s repeated n times *)
Fixpoint srep (n : nat) (s : String.string) : String.string :=
  match n with O => String.EmptyString | S n' => String.append s (srep n' s) end.
Definition sapp : String.string -> String.string -> String.string := String.append.
Definition s2b (s : String.string) : str :=
  map (fun a => Ascii.N_of_ascii a) (String.list_ascii_of_string s).
Inductive piece := PD (i : nat) | PU (i j : nat) | PS (s : String.string).
Definition dummy_child : child := mkChild false [] [].
Definition decode_piece (cs : list child) (p : piece) : str :=
  match p with
  | PD i => c_digest (nth i cs dummy_child)
  | PU i j => nth j (c_urls (nth i cs dummy_child)) []
  | PS s => s2b s
  end.
Definition V (cs : list child) (ps : list piece) : str := join_comma (map (decode_piece cs) ps).
Definition Ch (layer : bool) (d : String.string) (us : list String.string) : child :=
  mkChild layer (s2b d) (map s2b us).
Definition L (cs : list child) (k : key) (v : list piece) : key * str := (k, V cs v).
Definition KO (s : String.string) : key := KOther (s2b s).
Definition A (k : key) (v : String.string) : key * str := (k, s2b v).
Definition MSs (cs : list child) (k : key) (v : list piece) : mut := MS k (V cs v).
Definition Nb (cs : list child) (d : list piece) (us : list (list piece)) : str * list str :=
  (V cs d, map (V cs) us).
Definition RO (cs : list child) (ref : String.string) (dg : list piece) (us : list (list piece))
           (n : list (str * list str)) : rd :=
  ROk (s2b ref) (V cs dg) (map (V cs) us) n.
Definition mkCaseS (extra manifest : bool) (ref : String.string) (pf : Z) (md : String.string)
           (cs : list child) (pre : list labels) (good : list (String.string * String.string))
           (ann : option (list (option labels))) (ps : list probe) : case :=
  mkCase extra manifest (s2b ref) pf (s2b md) cs pre (map (fun p => (s2b (fst p), s2b (snd p))) good) ann ps.
