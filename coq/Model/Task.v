(* Model of task/task.go (BackgroundTaskManager), C13.  Executable definitions only; proofs are in
   Proofs/Task.v.

   Shared state of the manager:
     P       the counter prioritizedTasks (what the code reads)
     inprog  prioritized tasks begun and not yet ended             (specification-level ghost)
     sil     prioritized tasks ended whose silence period has not yet elapsed, i.e. the sleeping
             goroutines of DonePrioritizedTask                      (ghost)
     gen     number of DoPrioritizedTask calls so far = identity of the current
             prioritizedTaskStartNotify channel; "channel ch is closed" is [ch <> gen]
     sem     free slots of backgroundSem
   Each call of InvokeBackgroundTask is an invocation with a program counter over the atomic sub-steps the
   code is really made of (the notify mutex delimits [Decide]; the semaphore [Acquire]/[Release]):

     PW   waiting until prioritizedTasks = 0 (outer for / cond.Wait)
     PA   blocked in backgroundSem.Acquire
     PS   holds a slot, about to take the notify lock
     PD ch  decided to start (tasks = 0, ch snapshot), the body goroutine is not yet spawned
     PF   about to leave the closure with false (release the slot, retry)
     PB ch k  body execution k spawned, invoker in the select {<-ch; <-done}
     PC k  took the <-ch branch, cancel() called, waiting for <-done of execution k  (C13-fix-1)
     PR   took the <-done branch, about to leave the closure with true
     PRet InvokeBackgroundTask returned

   [bodies] of an invocation = the executions of its body that are still running, with the state of
   their context (true = cancelled).  A body finishes by its own step [BodyDone k], at any time, as late
   after cancellation as the adversary wants.  [waits] = the code contains C13-fix-1 (true for the
   current tree; false describes the code before the fix and is used only for the refutation). *)
From Coq Require Import List Arith Bool.
Import ListNotations.

Inductive pc := PW | PA | PS | PD (ch : nat) | PF | PB (ch k : nat) | PC (k : nat) | PR | PRet.

Record inv := mkInv { ipc : pc; nexec : nat; bodies : list (nat * bool) }.

Record st := mkSt {
  conc : nat; waits : bool;
  P : nat; inprog : nat; sil : nat; gen : nat; sem : nat;
  invs : list inv
}.

Inductive act :=
| Pass | Acquire | Decide | Start | Cancel | Join | Finish | Release
| BodyDone (k : nat) | Timeout (k : nat).

Inductive op :=
| Invoke | PrioBegin | PrioEnd | PrioDec
| Act (i : nat) (a : act).

Definition init (c : nat) (w : bool) : st := mkSt c w 0 0 0 0 c [].

Fixpoint upd {A} (l : list A) (n : nat) (x : A) : list A :=
  match l, n with
  | [], _ => []
  | _ :: t, O => x :: t
  | h :: t, S n' => h :: upd t n' x
  end.

Fixpoint has (k : nat) (l : list (nat * bool)) : bool :=
  match l with
  | [] => false
  | (k', _) :: t => Nat.eqb k' k || has k t
  end.

Fixpoint mark (k : nat) (l : list (nat * bool)) : list (nat * bool) :=
  match l with
  | [] => []
  | (k', c) :: t => (if Nat.eqb k' k then (k', true) else (k', c)) :: mark k t
  end.

Fixpoint drop (k : nat) (l : list (nat * bool)) : list (nat * bool) :=
  match l with
  | [] => []
  | (k', c) :: t => if Nat.eqb k' k then drop k t else (k', c) :: drop k t
  end.

Fixpoint flag (k : nat) (l : list (nat * bool)) : option bool :=
  match l with
  | [] => None
  | (k', c) :: t => if Nat.eqb k' k then Some c else flag k t
  end.

Definition set_pc (v : inv) (p : pc) : inv := mkInv p (nexec v) (bodies v).
Definition set_bodies (v : inv) (b : list (nat * bool)) : inv := mkInv (ipc v) (nexec v) b.

(* one step of invocation [v] (or of one of its bodies); result: its new state and the new semaphore value *)
Definition istep (s : st) (v : inv) (a : act) : option (inv * nat) :=
  match a with
  | Pass =>
      match ipc v with
      | PW => if P s =? 0 then Some (set_pc v PA, sem s) else None
      | _ => None
      end
  | Acquire =>
      match ipc v with
      | PA => match sem s with O => None | S n => Some (set_pc v PS, n) end
      | _ => None
      end
  | Decide =>                     (* lock; ch := notify; tasks := prioritizedTasks; unlock *)
      match ipc v with
      | PS => Some (set_pc v (if P s =? 0 then PD (gen s) else PF), sem s)
      | _ => None
      end
  | Start =>                      (* go func() { do(ctx); close(done) }() *)
      match ipc v with
      | PD ch => Some (mkInv (PB ch (nexec v)) (S (nexec v)) ((nexec v, false) :: bodies v), sem s)
      | _ => None
      end
  | Cancel =>                     (* case <-ch: cancel() *)
      match ipc v with
      | PB ch k => if ch =? gen s then None else Some (mkInv (PC k) (nexec v) (mark k (bodies v)), sem s)
      | _ => None
      end
  | Join =>                       (* <-done after cancel()  (without the fix: no wait) *)
      match ipc v with
      | PC k => if waits s && has k (bodies v) then None else Some (set_pc v PF, sem s)
      | _ => None
      end
  | Finish =>                     (* case <-done: *)
      match ipc v with
      | PB ch k => if has k (bodies v) then None else Some (set_pc v PR, sem s)
      | _ => None
      end
  | Release =>                    (* deferred backgroundSem.Release(1); false: retry, true: return *)
      match ipc v with
      | PF => Some (set_pc v PW, S (sem s))
      | PR => Some (set_pc v PRet, S (sem s))
      | _ => None
      end
  | BodyDone k => if has k (bodies v) then Some (set_bodies v (drop k (bodies v)), sem s) else None
  | Timeout k => if has k (bodies v) then Some (set_bodies v (mark k (bodies v)), sem s) else None
  end.

Definition set_invs (s : st) (l : list inv) : st :=
  mkSt (conc s) (waits s) (P s) (inprog s) (sil s) (gen s) (sem s) l.

(* result: new state, and whether the op was enabled (a disabled op leaves the state unchanged) *)
Definition step (s : st) (o : op) : st * bool :=
  match o with
  | Invoke => (set_invs s (invs s ++ [mkInv PW 0 []]), true)
  | PrioBegin =>                  (* under the notify lock: counter+1, close notify, fresh notify *)
      (mkSt (conc s) (waits s) (S (P s)) (S (inprog s)) (sil s) (S (gen s)) (sem s) (invs s), true)
  | PrioEnd =>                    (* DonePrioritizedTask: spawns the sleeper *)
      match inprog s with
      | O => (s, false)
      | S n => (mkSt (conc s) (waits s) (P s) n (S (sil s)) (gen s) (sem s) (invs s), true)
      end
  | PrioDec =>                    (* the sleeper after the silence period: counter-1 (+ broadcast) *)
      match sil s, P s with
      | S n, S p => (mkSt (conc s) (waits s) p (inprog s) n (gen s) (sem s) (invs s), true)
      | _, _ => (s, false)
      end
  | Act i a =>
      match nth_error (invs s) i with
      | Some v =>
          match istep s v a with
          | Some (v', m) =>
              (mkSt (conc s) (waits s) (P s) (inprog s) (sil s) (gen s) m (upd (invs s) i v'), true)
          | None => (s, false)
          end
      | None => (s, false)
      end
  end.

Definition exec (s : st) (os : list op) : st := fold_left (fun s o => fst (step s o)) os s.
Definition enabled (s : st) (o : op) : Prop := snd (step s o) = true.

(* ---------- specification vocabulary ---------- *)
(* no prioritized task in progress or inside its silence period *)
Definition quiet (s : st) : Prop := inprog s + sil s = 0.

Definition holder (p : pc) : bool :=
  match p with PS | PD _ | PF | PB _ _ | PC _ | PR => true | _ => false end.
Definition hold1 (v : inv) : nat := if holder (ipc v) then 1 else 0.
Definition holders (s : st) : nat := list_sum (map hold1 (invs s)).
Definition running (v : inv) : nat := length (bodies v).
Definition total_running (s : st) : nat := list_sum (map running (invs s)).

(* steps of the invoker goroutine itself (as opposed to steps of its bodies / their contexts) *)
Definition invoker_act (a : act) : bool :=
  match a with BodyDone _ | Timeout _ => false | _ => true end.

(* progress measure used by the completion theorem: an upper bound on the number of steps the invocation
   and its body still take once prioritized work has stopped *)
Definition rank (g : nat) (v : inv) : nat :=
  match ipc v with
  | PRet => 0
  | PR => 1
  | PB ch k => if ch =? g then (if has k (bodies v) then 3 else 2) else (if has k (bodies v) then 12 else 11)
  | PD ch => if ch =? g then 4 else 13
  | PS => 5
  | PA => 6
  | PW => 7
  | PF => 8
  | PC k => if has k (bodies v) then 10 else 9
  end.
Definition total_rank (s : st) : nat := list_sum (map (rank (gen s)) (invs s)).

Definition progress_op (o : op) : bool :=
  match o with
  | Act _ (Timeout _) => false
  | Act _ _ => true
  | _ => false
  end.
Definition env_free (o : op) : bool :=      (* neither a new prioritized task nor a new invocation *)
  match o with PrioBegin | Invoke => false | _ => true end.

(* number of enabled progress steps actually taken along a run *)
Fixpoint taken (s : st) (os : list op) : nat :=
  match os with
  | [] => 0
  | o :: t => (if progress_op o && snd (step s o) then 1 else 0) + taken (fst (step s o)) t
  end.

Definition all_returned (s : st) : Prop := forall i v, nth_error (invs s) i = Some v -> ipc v = PRet.

(* ---------- monitor used by the correspondence check ---------- *)
(* The harness records, in the manager's own lock order, one event per decision of the implementation.
   [Pass] (the unlocked read of the counter in the wait loop) has no event: the monitor performs it eagerly
   ([settle]), which is exact because every behaviour of an invocation at PW is a behaviour at PA. *)
Inductive ev :=
| EInvoke (i : nat) | EPrioBegin | EPrioEnd | EPrioDec
| EAcquire (i : nat) | EDecide (i : nat) (start : bool) | EStart (i : nat)
| ECancel (i : nat) | EJoin (i : nat) | EFinish (i : nat) | ERelease (i : nat)
| EBodyDone (i k : nat) (cancelled : bool)
| ETimeout (i k : nat)
| EReturn (i : nat).

Definition pass_ops (s : st) : list op := map (fun i => Act i Pass) (seq 0 (length (invs s))).
Definition settle (s : st) : st := exec s (pass_ops s).

Definition try (s : st) (o : op) : option st :=
  let '(s', ok) := step s o in if ok then Some s' else None.

Definition pc_of (s : st) (i : nat) : option pc :=
  match nth_error (invs s) i with Some v => Some (ipc v) | None => None end.

Definition observe (s : st) (e : ev) : option st :=
  match e with
  | EInvoke i => if i =? length (invs s) then try s Invoke else None
  | EPrioBegin => try s PrioBegin
  | EPrioEnd => try s PrioEnd
  | EPrioDec => try s PrioDec
  | EAcquire i => try s (Act i Acquire)
  | EDecide i b =>
      match try s (Act i Decide) with
      | Some s' =>
          match pc_of s' i with
          | Some (PD _) => if b then Some s' else None
          | Some PF => if b then None else Some s'
          | _ => None
          end
      | None => None
      end
  | EStart i => try s (Act i Start)
  | ECancel i => try s (Act i Cancel)
  | EJoin i => try s (Act i Join)
  | EFinish i => try s (Act i Finish)
  | ERelease i => try s (Act i Release)
  | EBodyDone i k c =>
      match nth_error (invs s) i with
      | Some v =>
          match flag k (bodies v) with
          | Some c' => if Bool.eqb c c' then try s (Act i (BodyDone k)) else None
          | None => None
          end
      | None => None
      end
  | ETimeout i k => try s (Act i (Timeout k))
  | EReturn i => match pc_of s i with Some PRet => Some s | _ => None end
  end.

Fixpoint accept (s : st) (tr : list ev) : option st :=
  match tr with
  | [] => Some s
  | e :: t => match observe (settle s) e with Some s' => accept s' t | None => None end
  end.

(* index of the first rejected event (debugging aid) *)
Fixpoint reject_at (s : st) (tr : list ev) (n : nat) : option nat :=
  match tr with
  | [] => None
  | e :: t => match observe (settle s) e with Some s' => reject_at s' t (S n) | None => Some n end
  end.

Definition is_ret (v : inv) : bool := match ipc v with PRet => true | _ => false end.
Definition all_returned_b (s : st) : bool := forallb is_ret (invs s).

(* a case = concurrency, the event trace observed on the implementation, and whether the harness drained
   the manager at the end (then everything must have returned and all counters must be back) *)
Definition case := (nat * list ev * bool)%type.
Definition case_ok (c : case) : bool :=
  let '(cn, tr, drained) := c in
  match accept (init cn true) tr with
  | Some s =>
      if drained then
        all_returned_b s && (sem s =? conc s) && (P s =? 0) && (inprog s =? 0) && (sil s =? 0)
      else true
  | None => false
  end.
Fixpoint mismatches_from (n : nat) (cs : list case) : list nat :=
  match cs with
  | [] => []
  | c :: t => if case_ok c then mismatches_from (S n) t else n :: mismatches_from (S n) t
  end.
Definition mismatches := mismatches_from 0.
