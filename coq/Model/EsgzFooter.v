(* C03 — the four footer byte layouts of eStargz blobs (format / round-trip side).
   Executable definitions only; proofs are in Proofs/EsgzFooter.v.

     estargz/gzip.go                      gzipFooterBytes / CreateGzipFooter / GzipDecompressor.ParseFooter (51 bytes)
                                          LegacyGzipDecompressor.ParseFooter (47 bytes; encoder = CreateGzipFooter("%016xSTARGZ"))
     estargz/zstdchunked/zstdchunked.go   zstdFooterBytes / appendSkippableFrameMagic / Decompressor.ParseFooter (40 bytes)
     estargz/externaltoc/externaltoc.go   gzipFooterBytes / GzipDecompressor.ParseFooter (46 bytes)

   Bytes are [N] (< 256).  Offsets handed to the encoders are Go int64 values that are >= 0 (they are
   countWriter.n); they are modelled as [N].  The parsers return Go int64 triples, modelled as [Z].
   The hostile-input side of ParseFooter (slice panics on malformed footers: findings F1-F3, and their
   repairs) belongs to C04 (Model/Footer.v); on those classes this model answers [PUnmodelled] and the
   C03 harness never generates them. *)
From Coq Require Import List NArith ZArith Bool Arith.
From SV Require Import Gen.Consts.
Import ListNotations.
Open Scope N_scope.

Definition bytes := list N.

Fixpoint bytes_eqb (a b : bytes) : bool :=
  match a, b with
  | [], [] => true
  | x :: a', y :: b' => (x =? y) && bytes_eqb a' b'
  | _, _ => false
  end.

(* ---- fmt.Sprintf("%016x", n) for 0 <= n < 2^64 : exactly 16 lower-case hex digits ---- *)
Definition hexchar (d : N) : N := if d <? 10 then 48 + d else 87 + d.

Fixpoint hexd (k : nat) (n : N) : bytes :=
  match k with
  | O => []
  | S k' => hexd k' (n / 16) ++ [hexchar (n mod 16)]
  end.

(* ---- strconv.ParseInt(s, 16, 64) ---- *)
Definition hexval (c : N) : option N :=
  if (48 <=? c) && (c <=? 57) then Some (c - 48)
  else if (97 <=? c) && (c <=? 102) then Some (c - 87)
  else if (65 <=? c) && (c <=? 70) then Some (c - 55)
  else None.

Fixpoint unhex_acc (l : bytes) (acc : N) : option N :=
  match l with
  | [] => Some acc
  | c :: t => match hexval c with Some d => unhex_acc t (acc * 16 + d) | None => None end
  end.

Definition parse_uint16 (l : bytes) : option N :=
  match l with
  | [] => None
  | _ => match unhex_acc l 0 with
         | Some n => if n <? 2 ^ 64 then Some n else None
         | None => None
         end
  end.

Definition parse_int16 (l : bytes) : option Z :=
  match l with
  | [] => None
  | c :: t =>
      let '(neg, ds) := if c =? 43 then (false, t) else if c =? 45 then (true, t) else (false, l) in
      match parse_uint16 ds with
      | None => None
      | Some un =>
          if neg then (if un <=? 2 ^ 63 then Some (- Z.of_N un)%Z else None)
          else (if un <? 2 ^ 63 then Some (Z.of_N un) else None)
      end
  end.

(* ---- little endian ---- *)
Fixpoint le_bytes (k : nat) (n : N) : bytes :=
  match k with
  | O => []
  | S k' => (n mod 256) :: le_bytes k' (n / 256)
  end.

Fixpoint le_val (l : bytes) : N :=
  match l with
  | [] => 0
  | b :: t => b + 256 * le_val t
  end.

(* uint64 -> int64 conversion *)
Definition to_int64 (n : N) : Z :=
  let m := n mod 2 ^ 64 in
  if m <? 2 ^ 63 then Z.of_N m else (Z.of_N m - 2 ^ 64)%Z.

(* ---- compress/gzip header reader (gzip.NewReader on a footer): returns Reader.Extra ---- *)
Inductive hres := HOk (extra : option bytes) | HErr | HUnmodelled.

Fixpoint skip_cstr (l : bytes) : option bytes :=
  match l with
  | [] => None
  | c :: t => if c =? 0 then Some t else skip_cstr t
  end.

Definition gzip_header (p : bytes) : hres :=
  match p with
  | id1 :: id2 :: cm :: flg :: _ :: _ :: _ :: _ :: _ :: _ :: rest =>
      if negb ((id1 =? 31) && (id2 =? 139) && (cm =? 8)) then HErr
      else if N.testbit flg 1 then HUnmodelled (* FHCRC: header CRC-16 check not modelled *)
      else
        let r1 :=
          if N.testbit flg 2 then
            match rest with
            | a :: b :: r =>
                let n := N.to_nat (a + 256 * b) in
                if (n <=? length r)%nat then Some (Some (firstn n r), skipn n r) else None
            | _ => None
            end
          else Some (None, rest) in
        match r1 with
        | None => HErr
        | Some (ex, r) =>
            match (if N.testbit flg 3 then skip_cstr r else Some r) with
            | None => HErr
            | Some r' =>
                match (if N.testbit flg 4 then skip_cstr r' else Some r') with
                | None => HErr
                | Some _ => HOk ex
                end
            end
        end
  | _ => HErr
  end.

(* estargz.CreateGzipFooter(extra) *)
Definition create_gzip_footer (extra : bytes) : bytes :=
  [31; 139; 8; 4; 0; 0; 0; 0; 0; 255]
  ++ le_bytes 2 (N.of_nat (length extra)) ++ extra
  ++ [1; 0; 0; 255; 255]
  ++ [0; 0; 0; 0; 0; 0; 0; 0].

Definition STARGZ : bytes := [83; 84; 65; 82; 71; 90].
Definition STARGZEXTERNALTOC : bytes := STARGZ ++ [69; 88; 84; 69; 82; 78; 65; 76; 84; 79; 67].

(* parser result: (blobPayloadSize, tocOffset, tocSize) | error | outside this model *)
Inductive pres := POk (bps tocoff tocsize : Z) | PErr | PUnmodelled.

(* ---- eStargz gzip footer (51 bytes) ---- *)
Definition gzip_footer_bytes (off : N) : bytes :=
  create_gzip_footer ([83; 71] ++ le_bytes 2 22 ++ hexd 16 off ++ STARGZ).

Definition parse_gzip_footer (p : bytes) : pres :=
  if negb (length p =? estargz_footer_size)%nat then PErr else
  match gzip_header p with
  | HErr => PErr
  | HUnmodelled => PUnmodelled
  | HOk ex =>
      match (match ex with Some e => e | None => [] end) with
      | si1 :: si2 :: l1 :: l2 :: sub =>
          if negb ((si1 =? 83) && (si2 =? 71)) then PErr
          else if negb (l1 + 256 * l2 =? 22) then PErr
          else if (length sub <? 16)%nat then PUnmodelled (* Go: subfield[16:] (slice panic, C04/F1) *)
          else if negb (bytes_eqb (skipn 16 sub) STARGZ) then PErr
          else match parse_int16 (firstn 16 sub) with
               | Some z => POk z z 0
               | None => PErr
               end
      | _ => PErr
      end
  end.

(* ---- legacy stargz footer (47 bytes) ---- *)
Definition legacy_footer_bytes (off : N) : bytes := create_gzip_footer (hexd 16 off ++ STARGZ).

Definition parse_legacy_footer (p : bytes) : pres :=
  if negb (length p =? estargz_legacy_footer_size)%nat then PErr else
  match gzip_header p with
  | HErr => PErr
  | HUnmodelled => PUnmodelled
  | HOk ex =>
      let extra := match ex with Some e => e | None => [] end in
      if negb (length extra =? 22)%nat then PErr
      else if negb (bytes_eqb (skipn 16 extra) STARGZ) then PErr
      else match parse_int16 (firstn 16 extra) with
           | Some z => POk z z 0
           | None => PErr
           end
  end.

(* ---- zstd:chunked footer: 40 bytes inside a skippable frame ---- *)
Definition skippable_magic : bytes := [80; 42; 77; 24].                   (* 0x50 0x2a 0x4d 0x18 *)
Definition zstd_chunked_magic : bytes := [71; 110; 85; 108; 73; 110; 85; 120]. (* "GnUlInUx" *)

Definition skippable (b : bytes) : bytes := skippable_magic ++ le_bytes 4 (N.of_nat (length b)) ++ b.

(* zstdFooterBytes(tocOff, tocRawSize, tocCompressedSize) *)
Definition zstd_footer_bytes (tocOff raw comp : N) : bytes :=
  le_bytes 8 tocOff ++ le_bytes 8 comp ++ le_bytes 8 raw ++ le_bytes 8 1 ++ zstd_chunked_magic.

(* what WriteTOCAndFooter appends after the TOC frame, given the payload size [off] *)
Definition zstd_footer_frame (off raw comp : N) : bytes := skippable (zstd_footer_bytes (off + 8) raw comp).

Definition parse_zstd_footer (p : bytes) : pres :=
  if (length p <? 40)%nat then PUnmodelled (* Go: p[32:40] (slice panic, C04/F2) *) else
  let off := le_val (firstn 8 p) in
  let comp := le_val (firstn 8 (skipn 8 p)) in
  if negb (bytes_eqb (firstn 8 (skipn 32 p)) zstd_chunked_magic) then PErr
  else POk (to_int64 (off + 2 ^ 64 - 8)) (to_int64 off) (to_int64 comp).

(* ---- external-TOC footer (46 bytes, constant) ---- *)
Definition exttoc_footer_bytes : bytes := create_gzip_footer ([83; 71] ++ le_bytes 2 17 ++ STARGZEXTERNALTOC).

Definition parse_exttoc_footer (p : bytes) : pres :=
  if negb (length p =? exttoc_footer_size)%nat then PErr else
  match gzip_header p with
  | HErr => PErr
  | HUnmodelled => PUnmodelled
  | HOk ex =>
      match (match ex with Some e => e | None => [] end) with
      | si1 :: si2 :: l1 :: l2 :: sub =>
          if negb ((si1 =? 83) && (si2 =? 71)) then PErr
          else if negb (l1 + 256 * l2 =? 17) then PErr
          else if negb (bytes_eqb sub STARGZEXTERNALTOC) then PErr
          else POk (-1) (-1) 0
      | _ => PUnmodelled (* Go: extra[0], extra[2:4] on a short extra field (slice panic, C04/F3) *)
      end
  end.

(* ---- correspondence cases (harness cmd/buildfooter) ---- *)
Inductive ffmt := FGzip | FLegacy | FZstd | FExt.

Inductive case :=
| CEnc (f : ffmt) (off raw comp : N) (obs : bytes)   (* footer bytes produced by the implementation *)
| CParse (f : ffmt) (p : bytes) (obs : pres).          (* ParseFooter(p) on the implementation *)

Definition enc (f : ffmt) (off raw comp : N) : bytes :=
  match f with
  | FGzip => gzip_footer_bytes off
  | FLegacy => legacy_footer_bytes off
  | FZstd => zstd_footer_frame off raw comp
  | FExt => exttoc_footer_bytes
  end.

Definition parse (f : ffmt) (p : bytes) : pres :=
  match f with
  | FGzip => parse_gzip_footer p
  | FLegacy => parse_legacy_footer p
  | FZstd => parse_zstd_footer p
  | FExt => parse_exttoc_footer p
  end.

Definition pres_eqb (a b : pres) : bool :=
  match a, b with
  | POk x y z, POk x' y' z' => (x =? x')%Z && (y =? y')%Z && (z =? z')%Z
  | PErr, PErr => true
  | _, _ => false   (* PUnmodelled never equals an observation: such a case is reported *)
  end.

Definition case_ok (c : case) : bool :=
  match c with
  | CEnc f off raw comp obs => bytes_eqb (enc f off raw comp) obs
  | CParse f p obs => pres_eqb (parse f p) obs
  end.

Fixpoint mismatches_from (n : nat) (cs : list case) : list nat :=
  match cs with
  | [] => []
  | c :: t => if case_ok c then mismatches_from (S n) t else n :: mismatches_from (S n) t
  end.
Definition mismatches := mismatches_from 0.
