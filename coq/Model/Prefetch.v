(* Model of prefetch / background fetch / prefetch waiter of a layer (property C15).
   Executable definitions only; proofs are in Proofs/Prefetch.v.

   Code modelled (fs/layer/layer.go, fs/reader/reader.go, fs/remote/blob.go, cache/cache.go, estargz/estargz.go):
     1. range selection of layer.prefetch                                  -> [prefetch_range]
     2. blob.Cache / cacheAt / walkChunks: which registry requests         -> [cache_requests]
     3. VerifiableReader.Cache + cacheWithReader with the offset filter:
        which chunk keys go through readAndCache                              -> [prefetch_keys], [all_keys]
     4. file.ReadAt on the chunk cache                                     -> [read_local]
     5. the chunk cache as far as visibility of a committed key goes
        (memory map / directory cache = LRU + asynchronous persistence)       -> [cstep]
     6. waiter + prefetchOnce + backgroundFetchOnce as an atomic-step machine -> [wstep]
     7. offsets the eStargz writer gives to chunks (landmark forces a stream) -> [wr_run]
     8. the script machine the harness drives, built from 1-6                 -> [sstep], [case], [mismatches] *)
From Coq Require Import List ZArith Bool Arith Lia.
Import ListNotations.
Open Scope Z_scope.

(* ------------------------------------------------------------------------------------------ *)
(* 1. range selection *)

(* np = GetChild(root, ".no.prefetch.landmark") succeeded; lm = offset of ".prefetch.landmark" if present *)
Definition prefetch_range (np : bool) (lm : option Z) (cfg_size blob_size : Z) : option Z :=
  if np then None
  else match lm with
       | Some off => Some off
       | None => Some (if cfg_size >? blob_size then blob_size else cfg_size)
       end.

(* threshold > 0 && prefetchSize > threshold: the waiter is released before the download *)
Definition goes_async (threshold n : Z) : bool := (threshold >? 0) && (n >? threshold).

(* ------------------------------------------------------------------------------------------ *)
(* 2. blob.Cache(0, n) *)

(* Go integer division truncates towards zero *)
Definition gfloor (n u : Z) : Z := Z.quot n u * u.
Definition gceil (n u : Z) : Z := (Z.quot n u + 1) * u.

(* walkChunks over region (b, e): chunks (i, min(i+cs-1, size-1)) for i = b, b+cs, ... while i <= e && i < size *)
Fixpoint walk_chunks (fuel : nat) (cs size i e : Z) : list (Z * Z) :=
  match fuel with
  | O => []
  | S k => if (i <=? e) && (i <? size)
           then (i, Z.min (i + cs - 1) (size - 1)) :: walk_chunks k cs size (i + cs) e
           else []
  end.

Definition chunk_fuel (cs b e : Z) : nat := Z.to_nat ((e - b) / cs + 2).

Definition memZ (x : Z) (l : list Z) : bool := existsb (Z.eqb x) l.

(* cacheAt(off, sz): the chunks of the aligned region that miss the cache; one request for their super region *)
Definition cache_at (cs size : Z) (have : list Z) (off sz : Z) : list (Z * Z) :=
  let b := gfloor off cs in
  let e := gceil (off + sz - 1) cs - 1 in
  let miss := filter (fun c => negb (memZ (fst c) have)) (walk_chunks (chunk_fuel cs b e) cs size b e) in
  match miss with
  | [] => []
  | c :: t =>
      let lo := fold_left (fun a x => Z.min a (fst x)) t (fst c) in
      let hi := fold_left (fun a x => Z.max a (snd x)) t (snd c) in
      [(lo, hi - lo + 1)]
  end.

(* the pieces of Cache(0, n) when prefetchChunkSize > chunkSize *)
Fixpoint pieces (fuel : nat) (fetch i n : Z) : list (Z * Z) :=
  match fuel with
  | O => []
  | S k => if i <? n then (i, if i + fetch >? n then n - i else fetch) :: pieces k fetch (i + fetch) n else []
  end.

(* requests (offset, size) of blob.Cache(0, n), sorted by construction (pieces ascend) *)
Definition cache_requests (cs pcs size : Z) (have : list Z) (n : Z) : list (Z * Z) :=
  if pcs <=? cs then cache_at cs size have 0 n
  else
    let fetch := cs * (pcs / cs) in
    flat_map (fun p => cache_at cs size have (fst p) (snd p)) (pieces (Z.to_nat (n / fetch + 2)) fetch 0 n).

(* ------------------------------------------------------------------------------------------ *)
(* 3. chunk keys *)

Definition key := (Z * Z * Z)%type.       (* metadata id, chunk offset, chunk size: the argument of genID *)
Definition key_eqb (a b : key) : bool :=
  let '(a1, a2, a3) := a in let '(b1, b2, b3) := b in (a1 =? b1) && (a2 =? b2) && (a3 =? b3).
Definition memK (k : key) (l : list key) : bool := existsb (key_eqb k) l.
Definition subK (a b : list key) : bool := forallb (fun k => memK k b) a.

Record file := mkFile {
  f_id : Z;
  f_off : Z;                    (* GetOffset: offset of the compressed stream holding the first chunk *)
  f_size : Z;
  f_chunks : list (Z * Z);      (* (chunk offset, chunk size) *)
  f_prio : bool;                (* named in the prioritized list *)
  f_land : bool                 (* a landmark file *)
}.

(* ChunkEntryForOffset: the chunk containing the offset *)
Fixpoint chunk_for (chunks : list (Z * Z)) (o : Z) : option (Z * Z) :=
  match chunks with
  | [] => None
  | (co, cz) :: t => if (co <=? o) && (o <? co + cz) then Some (co, cz) else chunk_for t o
  end.

(* the loop of cacheWithReader over one file: for nr < size { c := ChunkEntryForOffset(nr); nr = c.offset + c.size; cache c }
   (chunk_for only ever returns the chunk containing nr; a chunk that does not is an error in the code: hostile layers, C04) *)
Fixpoint cache_walk (fuel : nat) (chunks : list (Z * Z)) (nr size : Z) : list (Z * Z) :=
  match fuel with
  | O => []
  | S k => if nr <? size
           then match chunk_for chunks nr with
                | Some (co, cz) => (co, cz) :: cache_walk k chunks (co + cz) size
                | None => []
                end
           else []
  end.

Definition file_keys (f : file) : list key :=
  map (fun c => (f_id f, fst c, snd c)) (cache_walk (S (length (f_chunks f))) (f_chunks f) 0 (f_size f)).

(* VerifiableReader.Cache(WithFilter(offset < n)) *)
Definition prefetch_keys (fs : list file) (n : Z) : list key :=
  flat_map file_keys (filter (fun f => f_off f <? n) fs).

(* VerifiableReader.Cache() of BackgroundFetch: no filter *)
Definition all_keys (fs : list file) : list key := flat_map file_keys fs.

(* ------------------------------------------------------------------------------------------ *)
(* 4. file.ReadAt(p, offset) with len p = endo - cur: true = every chunk lookup hit the chunk cache
      (no call of the underlying blob reader at all) *)
Fixpoint read_local (fuel : nat) (vis : key -> bool) (id : Z) (chunks : list (Z * Z)) (cur endo : Z) : bool :=
  match fuel with
  | O => true
  | S k => if cur <? endo
           then match chunk_for chunks cur with
                | None => true                          (* break *)
                | Some (co, cz) => if vis (id, co, cz) then read_local k vis id chunks (co + cz) endo else false
                end
           else true
  end.

(* ------------------------------------------------------------------------------------------ *)
(* 5. visibility of keys in a chunk cache *)

Inductive ckind :=
| CMem                               (* cache.MemoryCache: a map, nothing is ever dropped *)
| CDir (cap : nat) (sync : bool).    (* directoryCache: LRU of [cap] buffers + files; sync = SyncAdd *)

Record cst := mkC {
  lru : list key;        (* most recently used first *)
  pending : list key;    (* committed, persist closure not finished (bytes referenced by that closure only) *)
  disk : list key        (* renamed into place (CMem: the map) *)
}.

Definition cinit : cst := mkC [] [] [].

Inductive cop :=
| Commit (k : key)         (* Add + Write + Commit without the Direct option *)
| CommitDirect (k : key)   (* ... with cache.Direct(): straight to the file *)
| Persist (k : key)        (* the persist closure of k runs to its end *)
| Touch (k : key)          (* Get hit in the LRU: MoveToFront *)
| RAC (k : key)            (* readAndCache: Get; on miss Add/Commit *)
| RACDirect (k : key).     (* readAndCache with cache.Direct() (background fetch) *)

Definition visible (s : cst) (k : key) : bool := memK k (lru s) || memK k (disk s).

Definition rmK (k : key) (l : list key) : list key := filter (fun x => negb (key_eqb k x)) l.

Definition commit (kind : ckind) (s : cst) (k : key) : cst :=
  match kind with
  | CMem => mkC (lru s) (pending s) (k :: disk s)
  | CDir cap sync =>
      let l := firstn cap (k :: rmK k (lru s)) in
      if sync then mkC l (pending s) (k :: disk s) else mkC l (k :: pending s) (disk s)
  end.

Definition cstep (kind : ckind) (s : cst) (o : cop) : cst :=
  match o with
  | Commit k => commit kind s k
  | CommitDirect k => mkC (lru s) (pending s) (k :: disk s)
  | Persist k => if memK k (pending s) then mkC (lru s) (rmK k (pending s)) (k :: disk s) else s
  | Touch k => if memK k (lru s) then mkC (k :: rmK k (lru s)) (pending s) (disk s) else s
  | RAC k => if visible s k then (if memK k (lru s) then mkC (k :: rmK k (lru s)) (pending s) (disk s) else s)
             else commit kind s k
  | RACDirect k => if visible s k then s else mkC (lru s) (pending s) (k :: disk s)
  end.

Definition cexec (kind : ckind) (s : cst) (os : list cop) : cst := fold_left (cstep kind) os s.

Definition quiescent (s : cst) : Prop := pending s = [].
Definition lossless (kind : ckind) : bool :=
  match kind with CMem => true | CDir _ sync => sync end.

(* ------------------------------------------------------------------------------------------ *)
(* 6. waiter, prefetchOnce, backgroundFetchOnce *)

Inductive phase := Idle | Running | Finished.
Definition phase_eqb (a b : phase) : bool :=
  match a, b with Idle, Idle | Running, Running | Finished, Finished => true | _, _ => false end.

Record wst := mkW {
  closed : bool;                  (* doneCh closed *)
  closes : nat;                   (* number of close(doneCh) executed: 2 would be a Go panic *)
  pf : phase; pf_bodies : nat; pf_early : bool;
  bg : phase; bg_bodies : nat;
  waiting : list nat;             (* calls of wait() parked in the select *)
  returned : list (nat * bool)    (* calls of wait() that returned: (id, timed out) *)
}.

Definition winit : wst := mkW false 0 Idle 0 false Idle 0 [] [].

Inductive aop :=
| PfCall                 (* a Prefetch call reaches prefetchOnce.Do *)
| PfAsync                (* the running body takes the async-threshold branch: waiter.done() *)
| PfReturn (ok : bool)   (* the running body returns, successfully or not: deferred waiter.done() *)
| BgCall
| BgReturn (ok : bool)
| WaitEnter (id : nat)   (* the select of wait() is evaluated: nil at once if closed, else the call parks *)
| WaitDone (id : nat)    (* a parked call sees the closed channel: returns nil *)
| WaitTimeout (id : nat). (* the timer of a parked call fires: waiter.done(); returns the timeout error *)

(* waiter.done(): doneOnce.Do(close(doneCh)) *)
Definition wdone (s : wst) : wst :=
  if closed s then s
  else mkW true (S (closes s)) (pf s) (pf_bodies s) (pf_early s) (bg s) (bg_bodies s) (waiting s) (returned s).

Definition memN (x : nat) (l : list nat) : bool := existsb (Nat.eqb x) l.
Definition rmN (x : nat) (l : list nat) : list nat := filter (fun y => negb (Nat.eqb x y)) l.

Definition wstep (s : wst) (o : aop) : wst :=
  match o with
  | PfCall =>
      match pf s with
      | Idle => mkW (closed s) (closes s) Running (S (pf_bodies s)) (pf_early s) (bg s) (bg_bodies s) (waiting s) (returned s)
      | _ => s        (* Once.Do: blocks until the first call is over, then returns without running the body *)
      end
  | PfAsync =>
      match pf s with
      | Running => let s1 := wdone s in
                   mkW (closed s1) (closes s1) Running (pf_bodies s1) true (bg s1) (bg_bodies s1) (waiting s1) (returned s1)
      | _ => s
      end
  | PfReturn _ =>
      match pf s with
      | Running => let s1 := wdone s in
                   mkW (closed s1) (closes s1) Finished (pf_bodies s1) (pf_early s1) (bg s1) (bg_bodies s1) (waiting s1) (returned s1)
      | _ => s
      end
  | BgCall =>
      match bg s with
      | Idle => mkW (closed s) (closes s) (pf s) (pf_bodies s) (pf_early s) Running (S (bg_bodies s)) (waiting s) (returned s)
      | _ => s
      end
  | BgReturn _ =>
      match bg s with
      | Running => mkW (closed s) (closes s) (pf s) (pf_bodies s) (pf_early s) Finished (bg_bodies s) (waiting s) (returned s)
      | _ => s
      end
  | WaitEnter id =>
      if memN id (waiting s) || existsb (fun r => Nat.eqb id (fst r)) (returned s) then s
      else if closed s
      then mkW (closed s) (closes s) (pf s) (pf_bodies s) (pf_early s) (bg s) (bg_bodies s) (waiting s) ((id, false) :: returned s)
      else mkW (closed s) (closes s) (pf s) (pf_bodies s) (pf_early s) (bg s) (bg_bodies s) (id :: waiting s) (returned s)
  | WaitDone id =>
      if memN id (waiting s) && closed s
      then mkW (closed s) (closes s) (pf s) (pf_bodies s) (pf_early s) (bg s) (bg_bodies s) (rmN id (waiting s)) ((id, false) :: returned s)
      else s
  | WaitTimeout id =>
      if memN id (waiting s)
      then let s1 := wdone s in
           mkW (closed s1) (closes s1) (pf s1) (pf_bodies s1) (pf_early s1) (bg s1) (bg_bodies s1) (rmN id (waiting s1)) ((id, true) :: returned s1)
      else s
  end.

Definition wexec (s : wst) (os : list aop) : wst := fold_left wstep os s.

(* ------------------------------------------------------------------------------------------ *)
(* 7. offsets given by the eStargz writer (estargz.Writer.appendTar), per entry in writing order.
      n = compressed bytes written so far (w.cw.n after flush), prev = offset of the open stream. *)

Record wentry := mkWE {
  we_hdr : Z;                (* compressed bytes the tar header adds (flushed before the first chunk) *)
  we_open : bool;            (* needsOpenGz: the entry is a landmark *)
  we_chunks : list Z         (* compressed bytes each chunk payload adds; [] = not a regular file with data *)
}.

(* one chunk: returns (offset recorded in the TOC, new n, new prev) *)
Definition wr_chunk (minc : Z) (open : bool) (n prev c : Z) : Z * Z * Z :=
  if open || (n - prev >=? minc) then (n, n + c, n) else (prev, n + c, prev).

Fixpoint wr_chunks (minc : Z) (open : bool) (n prev : Z) (cs : list Z) : list Z * Z * Z :=
  match cs with
  | [] => ([], n, prev)
  | c :: t => let '(o, n1, p1) := wr_chunk minc open n prev c in
              let '(os, n2, p2) := wr_chunks minc open n1 p1 t in (o :: os, n2, p2)
  end.

(* whole archive: the list of chunk offsets of every entry *)
Fixpoint wr_run (minc : Z) (n prev : Z) (es : list wentry) : list (list Z) :=
  match es with
  | [] => []
  | e :: t => let '(os, n1, p1) := wr_chunks minc (we_open e) (n + we_hdr e) prev (we_chunks e) in
              os :: wr_run minc n1 p1 t
  end.

(* the loop "for written < totalSize" of the writer: uncompressed (chunk offset, chunk size) of a file *)
Fixpoint mk_chunks (fuel : nat) (cs written total : Z) : list (Z * Z) :=
  match fuel with
  | O => []
  | S k => if written <? total
           then let c := Z.min cs (total - written) in (written, c) :: mk_chunks k cs (written + c) total
           else []
  end.

(* chunks lie one after the other from [from] to [total], none empty *)
Fixpoint tiled (chunks : list (Z * Z)) (from total : Z) : Prop :=
  match chunks with
  | [] => from = total
  | (co, cz) :: t => co = from /\ 0 < cz /\ tiled t (from + cz) total
  end.

Fixpoint tiledb (chunks : list (Z * Z)) (from total : Z) : bool :=
  match chunks with
  | [] => from =? total
  | (co, cz) :: t => (co =? from) && (0 <? cz) && tiledb t (from + cz) total
  end.

(* ------------------------------------------------------------------------------------------ *)
(* 8. the script machine of the correspondence harness *)

Record cfg := mkCfg {
  c_size : Z;            (* configured prefetch size *)
  c_async : Z;           (* prefetch_async_size *)
  c_cs : Z;              (* registry chunk size *)
  c_pcs : Z;             (* prefetch chunk size *)
  c_blob : Z;            (* blob size *)
  c_np : bool;           (* no-prefetch landmark present *)
  c_lm : option Z;       (* offset of the prefetch landmark *)
  c_http_lossless : bool;(* compressed-blob cache is a memory cache or a SyncAdd directory cache *)
  c_fs : ckind;          (* kind of the chunk cache *)
  c_exact : bool         (* chunk streams hold one chunk each (min-chunk-size 0): cached key sets are exact *)
}.

Inductive fault := FNone | FFail (from : Z) | FStall.
Inductive sop :=
| SHold | SSettle | SOff | SOn
| SRefresh                    (* layer.Refresh: a new fetcher; the compressed-blob cache starts cold under the new keys *)
| SPf (n : nat) (f : fault)
| SRel
| SWait (n : nat)
| SReadPrio | SReadAll
| SReadPart                   (* one byte of the second chunk of every multi-chunk file *)
| SMount (f : fault) (noprefetch nobg : bool)   (* fs.Mount: resolves, spawns Prefetch (unless noprefetch) and
                                                   BackgroundFetch (unless no_background_fetch), registers the layer *)
| SCheck (registered check_always noprefetch full : bool)  (* fs.Check; full = the blob was fetched completely (observed) *)
| SBg (n : nat) (f : fault) (intf : bool).

Inductive res := ROk | RErr | RTimeout | RStalled | RNone.
Definition res_eqb (a b : res) : bool :=
  match a, b with
  | ROk, ROk | RErr, RErr | RTimeout, RTimeout | RStalled, RStalled | RNone, RNone => true
  | _, _ => false
  end.

(* what was observed on the implementation for one op *)
Record oout := mkOut {
  o_res : res;
  o_reqs : list (Z * Z);          (* registry requests of the prefetch body, in arrival order *)
  o_pfsize : Z;                   (* Info().PrefetchSize after the body *)
  o_keys : option (list key);     (* chunk keys visible in the chunk cache, when probed (persistence quiescent) *)
  o_errs : Z;                     (* files that failed to read *)
  o_grew : bool;                  (* the request log grew during the reads *)
  o_waited : bool                 (* fs.Check took at least the prefetch timeout *)
}.

(* what the model says about one op; None / false = no claim *)
Record pred := mkPred {
  p_res : option res;
  p_reqs : option (list (Z * Z) * bool);  (* requests of blob.Cache (as a set; they come first); true = nothing may follow
                                             them (false: decompressing files that straddle the range reads on) *)
  p_pfsize : option Z;
  p_waited : option bool;
  p_local : bool                  (* the reads are served without the registry and succeed *)
}.

Record sst := mkS {
  s_w : wst;
  s_next : nat;                   (* next waiter id *)
  s_reg : bool;                   (* registry reachable *)
  s_held : bool;                  (* persist closures are being held back *)
  s_fs : list key;                (* keys that went through a successful readAndCache / cacheData *)
  s_exact : bool;                 (* s_fs is exactly the set of cached keys (else a lower bound) *)
  s_stalled : option (list (Z * Z) * list key);  (* prefetch body parked in the registry: its requests, its keys *)
  s_pfok : bool;                  (* a prefetch body returned nil *)
  s_cold : bool                   (* the compressed-blob cache was orphaned by a Refresh (new fetcher, new cache keys) *)
}.

Definition sinit (c : cfg) : sst := mkS winit 0 true false [] (c_exact c) None false false.

Definition set_w (s : sst) w := mkS w (s_next s) (s_reg s) (s_held s) (s_fs s) (s_exact s) (s_stalled s) (s_pfok s) (s_cold s).
Definition add_fs (s : sst) ks := mkS (s_w s) (s_next s) (s_reg s) (s_held s) (ks ++ s_fs s) (s_exact s) (s_stalled s) (s_pfok s) (s_cold s).
Definition inexact (s : sst) := mkS (s_w s) (s_next s) (s_reg s) (s_held s) (s_fs s) false (s_stalled s) (s_pfok s) (s_cold s).

Fixpoint repeat_op (n : nat) (o : aop) (w : wst) : wst :=
  match n with O => w | S k => repeat_op k o (wstep w o) end.

Definition req_fails (f : fault) (reg : bool) (r : Z * Z) : bool :=
  if negb reg then true
  else match f with FFail from => (fst r + snd r >? from) | _ => false end.

Definition mkP (r : option res) (q : option (list (Z * Z) * bool)) (z : option Z) (l : bool) : pred := mkPred r q z None l.
Definition nopred : pred := mkP None None None false.

(* reads are certainly local when every key needed was cached and nothing can have been dropped *)
Definition lossless_now (c : cfg) (s : sst) : bool := lossless (c_fs c) || negb (s_held s).

Definition files_local (s : sst) (fs : list file) : bool := subK (all_keys fs) (s_fs s).

(* fs.Check on the waiter: layer registered? connectivity (skipped when the blob is complete)? then, unless prefetch is
   disabled, WaitForPrefetchCompletion, whose timeout is only logged. In a script nothing else happens while the call is
   parked, so a parked call ends by its timer. Result: (waiter, result, waited). *)
Definition fs_check (registered conn_ok noprefetch : bool) (w : wst) (id : nat) : wst * res * bool :=
  if negb registered then (w, RErr, false)
  else if negb conn_ok then (w, RErr, false)
  else if noprefetch then (w, ROk, false)
  else let w1 := wstep w (WaitEnter id) in
       if memN id (waiting w1) then (wstep w1 (WaitTimeout id), ROk, true) else (w1, ROk, false).

Definition sstep (c : cfg) (fs : list file) (pre : list Z) (s : sst) (o : sop) : sst * pred :=
  let w := s_w s in
  let busy := match s_stalled s with Some _ => true | None => false end in
  match o with
  | SHold =>
      let lossy := negb (lossless (c_fs c)) || negb (c_http_lossless c) in
      (mkS w (s_next s) (s_reg s) lossy (s_fs s) (s_exact s) (s_stalled s) (s_pfok s) (s_cold s), mkP (Some ROk) None None false)
  | SSettle =>
      (mkS w (s_next s) (s_reg s) false (s_fs s) (s_exact s) (s_stalled s) (s_pfok s) (s_cold s), mkP (Some ROk) None None false)
  | SOff => (mkS w (s_next s) false (s_held s) (s_fs s) (s_exact s) (s_stalled s) (s_pfok s) (s_cold s), mkP (Some ROk) None None false)
  | SOn => (mkS w (s_next s) true (s_held s) (s_fs s) (s_exact s) (s_stalled s) (s_pfok s) (s_cold s), mkP (Some ROk) None None false)
  | SRefresh =>
      if s_reg s then (mkS w (s_next s) (s_reg s) (s_held s) (s_fs s) (s_exact s) (s_stalled s) (s_pfok s) true, mkP (Some ROk) None None false)
      else (s, mkP (Some RErr) None None false)
  | SPf n f =>
      let n := Nat.max n 1 in
      match pf w with
      | Idle =>
          let w1 := repeat_op n PfCall w in
          match prefetch_range (c_np c) (c_lm c) (c_size c) (c_blob c) with
          | None =>
              (set_w (mkS w (s_next s) (s_reg s) (s_held s) (s_fs s) (s_exact s) None true (s_cold s)) (wstep w1 (PfReturn true)),
               mkP (Some ROk) (Some ([], true)) (Some 0) false)
          | Some tgt =>
              let w2 := if goes_async (c_async c) tgt then wstep w1 PfAsync else w1 in
              let reqs := cache_requests (c_cs c) (c_pcs c) (c_blob c) pre tgt in
              let keys := prefetch_keys fs tgt in
              let known := c_http_lossless c || negb (s_held s) in
              let strict := match c_lm c with Some _ => true | None => false end in
              let preqs ok := if c_http_lossless c then Some (reqs, strict || negb ok) else None in
              match f, reqs, s_reg s with
              | FStall, _ :: _, _ =>      (* the registry parks a request before it decides whether to answer *)
                  (mkS w2 (s_next s) (s_reg s) (s_held s) (s_fs s) (s_exact s) (Some (reqs, keys)) false (s_cold s),
                   mkP (Some RStalled) None None false)
              | _, _, _ =>
                  let ok := negb (existsb (req_fails f (s_reg s)) reqs) in
                  (* without a landmark, files that start inside the range are decompressed completely, which may read
                     behind the range: under a registry fault the outcome of that second phase is not predicted *)
                  let certain := strict || negb ok || (s_reg s && match f with FFail _ => false | _ => true end) in
                  if known && certain then
                    let s1 := mkS (wstep w2 (PfReturn ok)) (s_next s) (s_reg s) (s_held s)
                                  (if ok then keys ++ s_fs s else s_fs s) (s_exact s) None ok (s_cold s) in
                    (s1, mkP (Some (if ok then ROk else RErr)) (preqs ok) (Some (if ok then tgt else 0)) false)
                  else
                    (* compressed chunks may be re-fetched while their persistence is held: no claim on success *)
                    (inexact (mkS (wstep w2 (PfReturn ok)) (s_next s) (s_reg s) (s_held s) (s_fs s) (s_exact s) None false (s_cold s)),
                     nopred)
              end
          end
      | Running => (set_w s (repeat_op n PfCall w), mkP (Some RStalled) None None false)
      | Finished => (set_w s (repeat_op n PfCall w), mkP (Some ROk) (Some ([], true)) None false)
      end
  | SRel =>
      match s_stalled s with
      | Some (reqs, keys) =>
          let known := c_http_lossless c || negb (s_held s) in
          let strict := match c_lm c with Some _ => true | None => false end in
          let ok := s_reg s in     (* the parked requests are answered iff the registry is reachable when released *)
          if known && (strict || negb ok) then
            (mkS (wstep w (PfReturn ok)) (s_next s) (s_reg s) (s_held s) (if ok then keys ++ s_fs s else s_fs s) (s_exact s) None ok (s_cold s),
             mkP (Some (if ok then ROk else RErr)) (if c_http_lossless c then Some (reqs, strict || negb ok) else None) None false)
          else if known then
            (* no landmark: the decompression phase may read on; with a reachable registry and no fault it succeeds *)
            (mkS (wstep w (PfReturn true)) (s_next s) (s_reg s) (s_held s) (keys ++ s_fs s) (s_exact s) None true (s_cold s),
             mkP (Some ROk) (if c_http_lossless c then Some (reqs, false) else None) None false)
          else
            (inexact (mkS (wstep w (PfReturn true)) (s_next s) (s_reg s) (s_held s) (s_fs s) (s_exact s) None false (s_cold s)), nopred)
      | None => (s, mkP (Some RNone) None None false)
      end
  | SWait n =>
      let n := Nat.max n 1 in
      if closed w then
        (* every call returns nil at once *)
        let w1 := fold_left (fun w i => wstep w (WaitEnter (s_next s + i)%nat)) (seq 0 n) w in
        (mkS w1 (s_next s + n) (s_reg s) (s_held s) (s_fs s) (s_exact s) (s_stalled s) (s_pfok s) (s_cold s), mkP (Some ROk) None None false)
      else
        (* all park; the first timer closes the waiter; the others time out as well or see the closed channel *)
        let w1 := fold_left (fun w i => wstep w (WaitEnter (s_next s + i)%nat)) (seq 0 n) w in
        let w2 := wstep w1 (WaitTimeout (s_next s)) in
        let w3 := fold_left (fun w i => wstep w (WaitDone (s_next s + i)%nat)) (seq 1 (n - 1)) w2 in
        (mkS w3 (s_next s + n) (s_reg s) (s_held s) (s_fs s) (s_exact s) (s_stalled s) (s_pfok s) (s_cold s), mkP (Some RTimeout) None None false)
  | SReadPrio | SReadAll =>
      if busy then (s, mkP (Some RNone) None None false)
      else
        let sel := match o with
                   | SReadPrio => filter (fun f => f_prio f && negb (f_land f)) fs
                   | _ => filter (fun f => negb (f_land f)) fs
                   end in
        let loc := files_local s sel && lossless_now c s in
        if loc then (s, mkP (Some ROk) None None true)
        else if s_reg s && lossless_now c s then (add_fs s (all_keys sel), mkP (Some ROk) None None false)
        else (inexact s, mkP (Some ROk) None None false)
  | SMount _ _ _ => (s, nopred)   (* see [sstep2] *)
  | SReadPart =>
      if busy then (s, mkP (Some RNone) None None false)
      else
        let keys := flat_map (fun f => if f_land f then [] else
                                match f_chunks f with _ :: (co, cz) :: _ => [(f_id f, co, cz)] | _ => [] end) fs in
        if subK keys (s_fs s) && lossless_now c s then (s, mkP (Some ROk) None None true)
        else if s_reg s && lossless_now c s then (add_fs s keys, mkP (Some ROk) None None false)
        else (inexact s, mkP (Some ROk) None None false)
  | SCheck registered check_always noprefetch full =>
      let conn_ok := full || negb check_always || s_reg s in
      let '(w1, r, waited) := fs_check registered conn_ok noprefetch w (s_next s) in
      (mkS w1 (S (s_next s)) (s_reg s) (s_held s) (s_fs s) (s_exact s) (s_stalled s) (s_pfok s) (s_cold s),
       mkPred (Some r) None None (Some waited) false)
  | SBg n f intf =>
      let n := Nat.max n 1 in
      if busy then (s, mkP (Some RNone) None None false)
      else
        match bg w with
        | Idle =>
            let w1 := repeat_op n BgCall w in
            let nonland := filter (fun f => negb (f_land f)) fs in
            if files_local s fs && lossless_now c s && (negb (s_cold s) || (s_reg s && match f with FNone => true | _ => false end)) then
              (mkS (wstep w1 (BgReturn true)) (s_next s) (s_reg s) (s_held s) (s_fs s) (s_exact s) None (s_pfok s) (s_cold s),
               mkP (Some ROk) None None false)
            else
              match f, s_reg s, lossless_now c s with
              | FNone, true, true =>
                  (mkS (wstep w1 (BgReturn true)) (s_next s) (s_reg s) (s_held s) (all_keys fs ++ s_fs s) (s_exact s) None (s_pfok s) (s_cold s),
                   mkP (Some ROk) None None false)
              | _, _, _ =>
                  (inexact (mkS (wstep w1 (BgReturn false)) (s_next s) (s_reg s) (s_held s) (s_fs s) (s_exact s) None (s_pfok s) (s_cold s)), nopred)
              end
        | _ => (set_w s (repeat_op n BgCall w), mkP (Some ROk) None None false)
        end
  end.

(* fs.Mount = the prefetch step of one caller (result not observable: the goroutine's error is only logged) followed,
   when background fetch is enabled, by the background-fetch step; with background fetch enabled the two run
   concurrently, so the requests are not attributed and a registry fault leaves everything open. *)
Definition sstep2 (c : cfg) (fs : list file) (pre : list Z) (s : sst) (o : sop) : sst * pred :=
  match o with
  | SMount f noprefetch nobg =>
      let '(s1, p1) := if noprefetch then (s, mkP (Some ROk) None None false) else sstep c fs pre s (SPf 1 f) in
      let stalled := match p_res p1 with Some RStalled => true | _ => false end in
      let p1' := mkP (if stalled then Some RStalled else Some ROk) (if nobg then p_reqs p1 else None) (if stalled then None else p_pfsize p1) false in
      if nobg || stalled then (s1, p1')
      else match f with
           | FNone => let '(s2, _) := sstep c fs pre s1 (SBg 1 FNone false) in (s2, p1')
           | _ => (inexact (mkS (wstep (wstep (s_w s1) BgCall) (BgReturn false)) (s_next s1) (s_reg s1) (s_held s1) (s_fs s1) false
                                (s_stalled s1) false (s_cold s1)), mkP (Some ROk) None None false)
           end
  | _ => sstep c fs pre s o
  end.

(* --- comparison with the observation --- *)
Fixpoint reqs_eqb (a b : list (Z * Z)) : bool :=
  match a, b with
  | [], [] => true
  | (x1, x2) :: a', (y1, y2) :: b' => (x1 =? y1) && (x2 =? y2) && reqs_eqb a' b'
  | _, _ => false
  end.

Definition memR (x : Z * Z) (l : list (Z * Z)) : bool := existsb (fun y => (fst x =? fst y) && (snd x =? snd y)) l.

Definition check_out (s' : sst) (p : pred) (o : oout) : bool :=
  (match p_res p with Some r => res_eqb r (o_res o) | None => true end)
  && (match p_reqs p with
      | Some (r, strict) =>
          let k := length r in
          let first := firstn k (o_reqs o) in
          (length first =? length r)%nat && forallb (fun x => memR x first) r && forallb (fun x => memR x r) first
          && (if strict then (length (o_reqs o) =? k)%nat else true)
      | None => true
      end)
  && (match p_pfsize p with Some z => z =? o_pfsize o | None => true end)
  && (match p_waited p with Some b => Bool.eqb b (o_waited o) | None => true end)
  && (if p_local p then negb (o_grew o) && (o_errs o =? 0) else true)
  && (match o_keys o with
      | Some ks => subK (s_fs s') ks && (if s_exact s' then subK ks (s_fs s') else true)
      | None => true
      end).

Fixpoint srun (c : cfg) (fs : list file) (pre : list Z) (s : sst) (os : list sop) (obs : list oout) : bool :=
  match os, obs with
  | [], [] => true
  | o :: os', x :: obs' => let '(s1, p) := sstep2 c fs pre s o in check_out s1 p x && srun c fs pre s1 os' obs'
  | _, _ => false
  end.

(* the layer the harness observed satisfies what the theorems assume of a built layer *)
Definition layout_ok (c : cfg) (fs : list file) : bool :=
  forallb (fun f => tiledb (f_chunks f) 0 (f_size f)) fs
  && match c_lm c with
     | Some n => forallb (fun f => if f_prio f && negb (f_land f) then f_off f <? n else true) fs
     | None => true
     end.

Definition case := (cfg * list file * list Z * list sop * list oout)%type.
Definition case_ok (x : case) : bool :=
  let '(c, fs, pre, os, obs) := x in layout_ok c fs && srun c fs pre (sinit c) os obs.
Fixpoint mismatches_from (n : nat) (cs : list case) : list nat :=
  match cs with
  | [] => []
  | x :: t => if case_ok x then mismatches_from (S n) t else n :: mismatches_from (S n) t
  end.
Definition mismatches := mismatches_from 0.
