(* Model of store/manager.go (LayerManager) + the parts of store/refs.go (refPool) and fs/layer.Resolver's
   result cache that decide the outcome of lookups in the additional-layer store.
   Executable definitions only; proofs are in Proofs/Store.v.

   World (immutable per history): the registry.
     ltoc   : layer digest id -> option TOC digest id  (None = not an eStargz layer: resolution always fails)
     images : ref id -> list of layer digest ids       (the manifest; a ref >= length images does not exist)

   State = the maps of LayerManager / refPool, flattened to association lists
     layers    (ref, toc, ld)   LayerManager.layer[ref][toc] = layer object made from layer digest ld
     counts    (ref, toc, n)    LayerManager.refcounter[ref][toc] = n
     memo      (ref, ld, ok)    LayerManager.resolveLayerCache[ref][ld] = nil (ok) / error
     rcache    (ref, ld)        fs/layer.Resolver.layerCache: (ref, ld) was resolved successfully before (TTL 120 s;
                                a hit makes Resolve succeed without touching the registry); [Expire] = its timer
     pool      (ref, n)         refPool.refcounter
     manifests ref              manifest+config are present in the pool directory
   Inner maps exist iff they have an entry (true of the code: the only place that could leave an empty inner map
   is compared through the [empties] observation of the harness).

   Ops.  API level (each is one call, run to quiescence):
           Lookup r t mf fl   layernode.Lookup("diff"|"blob") = getLayer(r,t) + Verify(t);
                              mf: the registry fails the manifest fetch; fl: layer digests whose blob fetch fails
           Info r t mf        layernode.Lookup("info") = getLayerInfo
           Use r t            layernode.Create("use")  = use
           Release r t        refnode.Rmdir(t)         = release
         Sub-steps of getLayer (for interleavings: racing lookups are arbitrary merges of these):
           LoadRef r mf       refPool.loadRef
           Resolve r l f      one resolveLayer goroutine: memo check, Resolver.Resolve, then ONE locked section that caches
                              the layer and records the success (C16-fix-4), or records the error;
                              getLayer starts one per layer of the manifest only, so it is a no-op for other l
           Probe r t          getCachedLayer
           Expire r l         TTL timer of the resolver's layer cache
   [variant] selects the release code: [Orig] = the code at the pinned commit (defects F15/F22),
   [Fixed] = with patches/C16-fix-1.diff and C16-fix-2.diff applied (what /repo contains). *)
From Coq Require Import List Arith ZArith Bool.
Import ListNotations.

Record world := mkW { ltoc : list (option nat); images : list (list nat) }.

Definition toc_of (w : world) (l : nat) : option nat := nth l (ltoc w) None.
Definition image (w : world) (r : nat) : list nat := nth r (images w) [].
Definition ref_exists (w : world) (r : nat) : bool := Nat.ltb r (length (images w)).

Record st := mkSt {
  layers : list (nat * nat * nat);
  counts : list (nat * nat * Z);
  memo : list (nat * nat * bool);
  rcache : list (nat * nat);
  pool : list (nat * Z);
  manifests : list nat
}.

Definition init : st := mkSt [] [] [] [] [] [].

Definition set_layers s x := mkSt x (counts s) (memo s) (rcache s) (pool s) (manifests s).
Definition set_counts s x := mkSt (layers s) x (memo s) (rcache s) (pool s) (manifests s).
Definition set_memo s x := mkSt (layers s) (counts s) x (rcache s) (pool s) (manifests s).
Definition set_rcache s x := mkSt (layers s) (counts s) (memo s) x (pool s) (manifests s).
Definition set_pool s x := mkSt (layers s) (counts s) (memo s) (rcache s) x (manifests s).
Definition set_manifests s x := mkSt (layers s) (counts s) (memo s) (rcache s) (pool s) x.

Inductive variant := Orig | Fixed.

Inductive op :=
| Lookup (r t : nat) (mf : bool) (fl : list nat)
| Info (r t : nat) (mf : bool)
| Use (r t : nat)
| Release (r t : nat)
| LoadRef (r : nat) (mf : bool)
| Resolve (r l : nat) (f : bool)
| Probe (r t : nat)
| Expire (r l : nat).

Inductive res :=
| ROk                 (* lookup succeeded / sub-step done *)
| RFail               (* lookup failed (EIO) *)
| RInfoEmpty          (* info of a layer that is not cached: only the TOC digest *)
| RInfoFull (i : nat) (* info of a cached layer: index of its diff id *)
| RCount (c : Z)      (* use / release: the new count *)
| RErr.               (* release: error (EIO) *)

(* ---- association-list helpers ---- *)
Definition key2 (r t : nat) (a b : nat) : bool := Nat.eqb a r && Nat.eqb b t.

Definition cached (s : st) (r t : nat) : bool :=
  existsb (fun e => key2 r t (fst (fst e)) (snd (fst e))) (layers s).
Fixpoint layer_find (ls : list (nat * nat * nat)) (r t : nat) : option nat :=
  match ls with
  | [] => None
  | (a, b, l) :: tl => if key2 r t a b then Some l else layer_find tl r t
  end.
Definition layer_del (ls : list (nat * nat * nat)) (r t : nat) :=
  filter (fun e => negb (key2 r t (fst (fst e)) (snd (fst e)))) ls.
Definition has_ref_layers (s : st) (r : nat) : bool :=
  existsb (fun e => Nat.eqb (fst (fst e)) r) (layers s).

Fixpoint count_find (cs : list (nat * nat * Z)) (r t : nat) : option Z :=
  match cs with
  | [] => None
  | (a, b, c) :: tl => if key2 r t a b then Some c else count_find tl r t
  end.
Definition count_del (cs : list (nat * nat * Z)) (r t : nat) :=
  filter (fun e => negb (key2 r t (fst (fst e)) (snd (fst e)))) cs.
Definition count_set (cs : list (nat * nat * Z)) (r t : nat) (c : Z) := (r, t, c) :: count_del cs r t.
Definition has_ref_counts (s : st) (r : nat) : bool :=
  existsb (fun e => Nat.eqb (fst (fst e)) r) (counts s).
Definition uses (s : st) (r t : nat) : Z :=
  match count_find (counts s) r t with Some c => c | None => 0%Z end.

Fixpoint memo_find (ms : list (nat * nat * bool)) (r l : nat) : option bool :=
  match ms with
  | [] => None
  | (a, b, ok) :: tl => if key2 r l a b then Some ok else memo_find tl r l
  end.
Definition memo_del_ref (ms : list (nat * nat * bool)) (r : nat) :=
  filter (fun e => negb (Nat.eqb (fst (fst e)) r)) ms.
Definition has_ref_memo (s : st) (r : nat) : bool :=
  existsb (fun e => Nat.eqb (fst (fst e)) r) (memo s).

Definition in_rcache (s : st) (r l : nat) : bool :=
  existsb (fun e => key2 r l (fst e) (snd e)) (rcache s).

Fixpoint pool_find (ps : list (nat * Z)) (r : nat) : option Z :=
  match ps with
  | [] => None
  | (a, c) :: tl => if Nat.eqb a r then Some c else pool_find tl r
  end.
Definition pool_del (ps : list (nat * Z)) (r : nat) := filter (fun e => negb (Nat.eqb (fst e) r)) ps.

Definition mem (x : nat) (l : list nat) : bool := existsb (Nat.eqb x) l.

(* index of the last occurrence of l in ls (genLayerInfo keeps the last match) *)
Fixpoint last_index_from (ls : list nat) (l : nat) (i : nat) (acc : option nat) : option nat :=
  match ls with
  | [] => acc
  | x :: tl => last_index_from tl l (S i) (if Nat.eqb x l then Some i else acc)
  end.

(* ---- refPool ---- *)
(* loadRef: read from the pool directory, else fetch from the registry and write *)
Definition loadref (w : world) (s : st) (r : nat) (mf : bool) : option st :=
  if mem r (manifests s) then Some s
  else if mf || negb (ref_exists w r) then None
  else Some (set_manifests s (r :: manifests s)).

Definition pool_use (s : st) (r : nat) : st :=
  match pool_find (pool s) r with
  | Some c => set_pool s ((r, (c + 1)%Z) :: pool_del (pool s) r)
  | None => set_pool s ((r, 1%Z) :: pool s)
  end.

Definition pool_release (s : st) (r : nat) : st :=
  match pool_find (pool s) r with
  | Some c => if (c - 1 <=? 0)%Z then set_pool s (pool_del (pool s) r)
              else set_pool s ((r, (c - 1)%Z) :: pool_del (pool s) r)
  | None => s
  end.

(* ---- LayerManager ---- *)
(* resolveLayer for one layer of the manifest: memo check; Resolver.Resolve; cacheLayer; memo set *)
Definition resolve1 (w : world) (s : st) (r l : nat) (f : bool) : st :=
  match memo_find (memo s) r l with
  | Some _ => s
  | None =>
      match toc_of w l with
      | Some t =>
          if in_rcache s r l || negb f then
            let s1 := if in_rcache s r l then s else set_rcache s ((r, l) :: rcache s) in
            let s2 := if cached s1 r t then s1 else set_layers s1 ((r, t, l) :: layers s1) in
            set_memo s2 ((r, l, true) :: memo s2)
          else set_memo s ((r, l, false) :: memo s)
      | None => set_memo s ((r, l, false) :: memo s)
      end
  end.

(* resolveLayer as it was before C16-fix-4: two separately locked sections - Resolve + cacheLayer, and (deferred, later)
   the memo write. Only used to state what was wrong (Properties/C16.v, C16_late_memo_refuted); with the fix the success
   path records the memo inside cacheLayer's section, which is what [resolve1] describes, and the deferred section only
   records errors (an error recorded late = [Expire] of the resolver entry followed by a failing [Resolve], an op list). *)
Definition cache_only (w : world) (s : st) (r l : nat) (f : bool) : st :=
  match memo_find (memo s) r l with
  | Some _ => s
  | None =>
      match toc_of w l with
      | Some t =>
          if in_rcache s r l || negb f then
            let s1 := if in_rcache s r l then s else set_rcache s ((r, l) :: rcache s) in
            if cached s1 r t then s1 else set_layers s1 ((r, t, l) :: layers s1)
          else s
      | None => s
      end
  end.
Definition memo_late (s : st) (r l : nat) (ok : bool) : st := set_memo s ((r, l, ok) :: memo s).

Definition resolve_all (w : world) (s : st) (r : nat) (fl : list nat) : st :=
  fold_left (fun s l => resolve1 w s r l (mem l fl)) (image w r) s.

Definition get_layer (w : world) (s : st) (r t : nat) (mf : bool) (fl : list nat) : st * res :=
  if cached s r t then (s, ROk)
  else match loadref w s r mf with
       | None => (s, RFail)
       | Some s1 =>
           let s2 := resolve_all w s1 r fl in
           (s2, if cached s2 r t then ROk else RFail)
       end.

Definition get_info (w : world) (s : st) (r t : nat) (mf : bool) : st * res :=
  match loadref w s r mf with
  | None => (s, RFail)
  | Some s1 =>
      match layer_find (layers s1) r t with
      | None => (s1, RInfoEmpty)
      | Some l => match last_index_from (image w r) l 0 None with
                  | Some i => (s1, RInfoFull i)
                  | None => (s1, RFail)
                  end
      end
  end.

Definition use (s : st) (r t : nat) : st * res :=
  let s0 := pool_use s r in
  match count_find (counts s0) r t with
  | None => (set_counts s0 ((r, t, 1%Z) :: counts s0), RCount 1)
  | Some c => (set_counts s0 (count_set (counts s0) r t (c + 1)), RCount (c + 1))
  end.

(* release as in the pinned commit: `delete(r.refcounter, tocDigest.String())` removes nothing (outer map, wrong key),
   so the inner entry stays (with count <= 0), len(inner) is never 0 and the memo is never reset *)
Definition release_orig (s : st) (r t : nat) : st * res :=
  let s0 := pool_release s r in
  if negb (has_ref_counts s0 r) then (s0, RErr)
  else match count_find (counts s0) r t with
       | None => (s0, RErr)
       | Some c =>
           let c' := (c - 1)%Z in
           let s1 := set_counts s0 (count_set (counts s0) r t c') in
           if (c' <=? 0)%Z then
             if negb (cached s1 r t) then (s1, RErr)
             else (set_layers s1 (layer_del (layers s1) r t), RCount c')
           else (s1, RCount c')
       end.

(* release with C16-fix-1 (delete the inner entry; reset the image's memo whenever a layer is dropped)
   and C16-fix-2 (when no use of the image remains, drop its other cached layers as well) *)
Definition release_fixed (s : st) (r t : nat) : st * res :=
  let s0 := pool_release s r in
  if negb (has_ref_counts s0 r) then (s0, RErr)
  else match count_find (counts s0) r t with
       | None => (s0, RErr)
       | Some c =>
           let c' := (c - 1)%Z in
           if (c' <=? 0)%Z then
             let s1 := set_counts s0 (count_del (counts s0) r t) in
             let s2 := if has_ref_counts s1 r then s1
                       else set_layers s1 (filter (fun e => negb (Nat.eqb (fst (fst e)) r) || Nat.eqb (snd (fst e)) t) (layers s1)) in
             let s3 := set_memo s2 (memo_del_ref (memo s2) r) in
             if negb (cached s3 r t) then (s3, RErr)
             else (set_layers s3 (layer_del (layers s3) r t), RCount c')
           else (set_counts s0 (count_set (counts s0) r t c'), RCount c')
       end.

Definition release (v : variant) := match v with Orig => release_orig | Fixed => release_fixed end.

Definition step (v : variant) (w : world) (s : st) (o : op) : st * res :=
  match o with
  | Lookup r t mf fl => get_layer w s r t mf fl
  | Info r t mf => get_info w s r t mf
  | Use r t => use s r t
  | Release r t => release v s r t
  | LoadRef r mf => match loadref w s r mf with Some s1 => (s1, ROk) | None => (s, RFail) end
  | Resolve r l f => ((if mem l (image w r) then resolve1 w s r l f else s), ROk)
  | Probe r t => (s, if cached s r t then ROk else RFail)
  | Expire r l => (set_rcache s (filter (fun e => negb (key2 r l (fst e) (snd e))) (rcache s)), ROk)
  end.

Definition exec (v : variant) (w : world) (s : st) (os : list op) : st :=
  fold_left (fun s o => fst (step v w s o)) os s.

(* the sub-steps getLayer performs after a cache miss, as ops *)
Definition lookup_substeps (w : world) (r t : nat) (mf : bool) (fl : list nat) : list op :=
  LoadRef r mf :: map (fun l => Resolve r l (mem l fl)) (image w r) ++ [Probe r t].

(* ---- observation = result + canonical dump of the maps ---- *)
Record obs := mkObs {
  o_res : res;
  o_chk : bool;      (* false: the dump was not taken (non-final member of a concurrent group) *)
  o_layers : list (nat * nat * nat);
  o_counts : list (nat * nat * Z);
  o_memo : list (nat * nat * bool);
  o_pool : list (nat * Z);
  o_manifests : list nat;
  o_empties : nat    (* inner maps that exist but are empty (the flattened model has none) *)
}.

Fixpoint run (v : variant) (w : world) (s : st) (os : list op) : list (res * st) :=
  match os with
  | [] => []
  | o :: tl => let '(s1, x) := step v w s o in (x, s1) :: run v w s1 tl
  end.

Definition res_eqb (a b : res) : bool :=
  match a, b with
  | ROk, ROk | RFail, RFail | RInfoEmpty, RInfoEmpty | RErr, RErr => true
  | RInfoFull i, RInfoFull j => Nat.eqb i j
  | RCount c, RCount d => Z.eqb c d
  | _, _ => false
  end.

Definition subset {A} (eqb : A -> A -> bool) (a b : list A) : bool :=
  forallb (fun x => existsb (eqb x) b) a.
Definition seteq {A} (eqb : A -> A -> bool) (a b : list A) : bool := subset eqb a b && subset eqb b a.

Definition l_eqb (a b : nat * nat * nat) := Nat.eqb (fst (fst a)) (fst (fst b)) && Nat.eqb (snd (fst a)) (snd (fst b)) && Nat.eqb (snd a) (snd b).
Definition c_eqb (a b : nat * nat * Z) := Nat.eqb (fst (fst a)) (fst (fst b)) && Nat.eqb (snd (fst a)) (snd (fst b)) && Z.eqb (snd a) (snd b).
Definition m_eqb (a b : nat * nat * bool) := Nat.eqb (fst (fst a)) (fst (fst b)) && Nat.eqb (snd (fst a)) (snd (fst b)) && Bool.eqb (snd a) (snd b).
Definition p_eqb (a b : nat * Z) := Nat.eqb (fst a) (fst b) && Z.eqb (snd a) (snd b).

Definition obs_ok (x : res * st) (o : obs) : bool :=
  let '(r, s) := x in
  res_eqb r (o_res o) &&
  (negb (o_chk o) ||
   (seteq l_eqb (layers s) (o_layers o) && seteq c_eqb (counts s) (o_counts o)
    && seteq m_eqb (memo s) (o_memo o) && seteq p_eqb (pool s) (o_pool o) && seteq Nat.eqb (manifests s) (o_manifests o)
    && Nat.eqb (o_empties o) 0)).

Fixpoint all_ok (xs : list (res * st)) (os : list obs) : bool :=
  match xs, os with
  | [], [] => true
  | x :: xt, o :: ot => obs_ok x o && all_ok xt ot
  | _, _ => false
  end.

(* entry constructors used by the harness when printing dumps (monomorphic: much cheaper to elaborate than tuples) *)
Definition tl (a b c : nat) : nat * nat * nat := (a, b, c).
Definition tc (a b : nat) (c : Z) : nat * nat * Z := (a, b, c).
Definition tm (a b : nat) (c : bool) : nat * nat * bool := (a, b, c).
Definition tp (a : nat) (c : Z) : nat * Z := (a, c).

(* a case = registry, history, observations on the implementation (working tree = Fixed) *)
Definition case := (world * list op * list obs)%type.
Definition case_ok (c : case) : bool :=
  let '(w, os, ob) := c in all_ok (run Fixed w init os) ob.
Fixpoint mismatches_from (n : nat) (cs : list case) : list nat :=
  match cs with
  | [] => []
  | c :: t => if case_ok c then mismatches_from (S n) t else n :: mismatches_from (S n) t
  end.
Definition mismatches := mismatches_from 0.

(* the same check against the code of the pinned commit (used once, by hand, on a scratch worktree without the fixes) *)
Definition case_ok_v (v : variant) (c : case) : bool :=
  let '(w, os, ob) := c in all_ok (run v w init os) ob.
