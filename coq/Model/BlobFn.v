(* Function-level correspondence cases for fs/remote: regionSet.add / totalSize / superRegion (Model/Region.v),
   bytesWriter.Write and walkChunks (Model/BlobRead.v), and parseRange (modelled here).
   Executable definitions only. *)
From Coq Require Import List ZArith NArith Bool.
From SV Require Import Model.Region Model.BlobRead.
Import ListNotations.
Open Scope Z_scope.

(* ---- parseRange ----
   Go: contentRangeRegexp = "bytes ([0-9]+)-([0-9]+)/([0-9]+|BACKSLASH BACKSLASH STAR)" written in a raw string,
   so the last alternative is "zero or more backslashes", not a literal star.  FindStringSubmatch = leftmost
   match, greedy; then strconv.ParseInt(_, 10, 64) of the three groups.  None = error. *)
Definition is_digit (c : N) : bool := ((48 <=? c) && (c <=? 57))%N.

Fixpoint span_digits (l : list N) : list N * list N :=
  match l with
  | c :: t => if is_digit c then let '(d, r) := span_digits t in (c :: d, r) else ([], l)
  | [] => ([], [])
  end.

Fixpoint strip_prefix (lit l : list N) : option (list N) :=
  match lit, l with
  | [], _ => Some l
  | x :: lit', y :: l' => if N.eqb x y then strip_prefix lit' l' else None
  | _ :: _, [] => None
  end.

Definition bytes_lit : list N := [98; 121; 116; 101; 115; 32]%N.   (* "bytes " *)

(* the three captured groups when the pattern matches at the head of l *)
Definition match_here (l : list N) : option (list N * list N * list N) :=
  match strip_prefix bytes_lit l with
  | None => None
  | Some l1 =>
      let '(d1, l2) := span_digits l1 in
      match d1, l2 with
      | _ :: _, 45%N :: l3 =>
          let '(d2, l4) := span_digits l3 in
          match d2, l4 with
          | _ :: _, 47%N :: l5 => let '(d3, _) := span_digits l5 in Some (d1, d2, d3)
          | _, _ => None
          end
      | _, _ => None
      end
  end.

Fixpoint find_match (l : list N) : option (list N * list N * list N) :=
  match match_here l with
  | Some g => Some g
  | None => match l with
            | [] => None
            | _ :: t => find_match t
            end
  end.

Definition max_int64 : Z := 9223372036854775807.

(* strconv.ParseInt(s, 10, 64) on a digit string: error on "" and on overflow *)
Definition parse_int (d : list N) : option Z :=
  match d with
  | [] => None
  | _ => let v := fold_left (fun a c => a * 10 + (Z.of_N c - 48)) d 0 in
         if v <=? max_int64 then Some v else None
  end.

Definition parse_range (h : list N) : option (Z * Z * Z) :=
  match find_match h with
  | None => None
  | Some (d1, d2, d3) =>
      match parse_int d1, parse_int d2, parse_int d3 with
      | Some b, Some e, Some sz => Some (b, e, sz)
      | _, _, _ => None
      end
  end.

(* ---- cases ---- *)
Inductive fcase :=
| FAdd (rs : list region) (r : region) (out : list region) (tot : Z)
| FSuper (rs : list region) (out : region)
| FWriter (dest : bytes) (off : Z) (pieces : list bytes) (panicked : bool) (out : bytes)
| FParse (h : list N) (out : option (Z * Z * Z))
| FWalk (size cs b e : Z) (out : option (list region)).

Definition case := fcase.

Definition case_ok (k : case) : bool :=
  match k with
  | FAdd rs r out tot => regions_eqb (add rs r) out && (total_size (add rs r) =? tot)
  | FSuper rs out => match super_region rs with Some s => region_eqb s out | None => false end
  | FWriter dest off pieces panicked out =>
      match bw_writes dest (mkW (0, 0) 0 (zlen dest) off 0) pieces with
      | Some (d, _) => negb panicked && bytes_eqb d out
      | None => panicked
      end
  | FParse h out =>
      match parse_range h, out with
      | Some (a, b, c), Some (x, y, z) => (a =? x) && (b =? y) && (c =? z)
      | None, None => true
      | _, _ => false
      end
  | FWalk size cs b e out =>
      match walk_chunks size cs (b, e), out with
      | Some x, Some y => regions_eqb x y
      | None, None => true
      | _, _ => false
      end
  end.

Fixpoint mismatches_from (n : nat) (ks : list case) : list nat :=
  match ks with
  | [] => []
  | k :: t => if case_ok k then mismatches_from (S n) t else n :: mismatches_from (S n) t
  end.
Definition mismatches := mismatches_from 0.
