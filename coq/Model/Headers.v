(* Model of the header / credential transport path of property C18:
     service/resolver/registry.go  RegistryHostsFromConfig: the host list and its per-host header tables
     fs/remote/resolver.go         newHTTPFetcher (per registry host: redirect, getSize), transport.RoundTrip
                                   (Authorize, send, on 401 AddResponses + re-authorize + resend), httpFetcher
                                   {url, header, blobURL, orgHeader, singleRange}: fetch (incl. 403 -> refreshURL
                                   -> retry and 400 -> single range -> retry), check, refreshURL
     containerd docker.Authorizer  (third-party; modelled by contract: per-host handlers, Basic / Bearer,
                                   token fetch POST -> GET fallback, token and error caching)
   Executable definitions only; proofs are in Proofs/Headers.v.

   Locations: [Blob i] is the blob URL on the i-th registry host returned by the RegistryHosts function
   (mirrors first, the origin last); [Ext h n] is another URL (number n) on host h (a redirect target; h may
   be a registry host); [Realm n] is the token endpoint of auth server n.  A header set is identified with the
   index of the host it was configured for ([None] = no headers).  The servers' behaviour is the adversary:
   every request is answered by an arbitrary [resp] given with the step.

   Concurrency: every API call (fetch / check) is a thread; [micro] advances one thread by one atomic
   sub-step (one critical section of urlMu / singleRangeMu / the authorizer's locks, or one request+response;
   a token fetch is atomic because the authorizer makes other users of the same token wait for it).
   [fixed = true] is the code with patches/C18-fix-1.diff (url and header are read in ONE critical section);
   [fixed = false] is the code before the fix (header read later, outside the lock). *)
From Coq Require Import List Arith Bool.
From SV Require Model.Creds.
Import ListNotations.

(* [Rel (Some h) n]: a scheme-relative reference "//host_h/..." given as Location; [Rel None n]: a reference without
   host (path-absolute "/p", path-relative "p", query-only "?q").  redirect() keeps the Location text VERBATIM as the
   new target (it does not resolve it against the blob URL), so later requests are built for that text: the request's
   URL host is h (resp. empty) and, having no http(s) scheme, it cannot be sent: the transport fails. *)
Inductive loc := Blob (i : nat) | Ext (host n : nat) | Realm (n : nat) | Rel (host : option nat) (n : nat).
Definition no_host := 900.
Definition host_of (l : loc) : nat :=
  match l with Blob i => i | Ext h _ => h | Realm n => 1000 + n | Rel (Some h) _ => h | Rel None _ => no_host end.
(* can the HTTP transport send a request to this URL (absolute http/https URL with a host) *)
Definition sendable (l : loc) : bool := match l with Rel _ _ => false | _ => true end.

Inductive meth := GET | HEAD | POST.

(* what a request carries by way of authorization *)
Inductive az :=
| AzNone
| AzBasic (j : nat)            (* Authorization: Basic <the credential the keychain gave for host j> *)
| AzBearer (j t : nat)         (* Authorization: Bearer <t-th token of this authorizer, fetched for host j> *)
| AzTok (j : nat) (cred : bool). (* token request on behalf of host j, with / without that host's credential *)

Record req := mkReq { r_meth : meth; r_loc : loc; r_hdr : option nat; r_az : az }.

(* WWW-Authenticate of a 401 *)
Inductive chal := ChNone | ChBasic | ChBearer (realm : option nat) (err : bool).

(* status code, Location header (None = absent/empty), well-formed (Content-Length / Content-Range / media type
   parse; for a token request: JSON with a token), challenge *)
Inductive resp := Resp (code : nat) (location : option loc) (wf : bool) (ch : chal) | RErr.

Definition default_resp := Resp 200 None true ChNone.
Definition next (sc : list resp) : resp * list resp :=
  match sc with [] => (default_resp, []) | r :: t => (r, t) end.

(* what the caller of the inner transport gets for a request to u when the server side would answer r *)
Definition effective (u : loc) (r : resp) : resp := if sendable u then r else RErr.

(* ================= RegistryHostsFromConfig ================= *)
Inductive hval := VStr | VList (all_strings : bool) | VBad.   (* type of one configured header value *)
Record mirror := mkMirror { m_valid : bool;                  (* host name non-empty and without '/' *)
                            m_hdr : option (list hval) }.    (* Header table: nil or the values of its keys *)

Record hostcfg := mkHost { h_valid : bool; h_hdr : bool (* a non-empty header set *) }.

Definition hval_ok (v : hval) : bool := match v with VStr => true | VList b => b | VBad => false end.
Definition table_ok (t : option (list hval)) : bool := match t with None => true | Some vs => forallb hval_ok vs end.
Definition table_nonempty (t : option (list hval)) : bool := match t with Some (_ :: _) => true | _ => false end.

(* one docker.RegistryHost per mirror, in order, then the origin host without headers; any value of a wrong type
   makes the whole function fail *)
Definition hosts_of_config (ms : list mirror) : option (list hostcfg) :=
  if forallb (fun m => table_ok (m_hdr m)) ms
  then Some (map (fun m => mkHost (m_valid m) (table_nonempty (m_hdr m))) ms ++ [mkHost true false])
  else None.

Definition org_of (i : nat) (h : hostcfg) : option nat := if h_hdr h then Some i else None.

(* ================= credentials as the authorizer sees them ================= *)
Inductive ckind := KErr | KNone | KUser | KSecret | KBoth.
Definition has_secret (k : ckind) : bool := match k with KSecret | KBoth => true | _ => false end.
Definition has_user (k : ckind) : bool := match k with KUser | KBoth => true | _ => false end.

Definition kind_of (c : Creds.cres) : ckind :=
  match c with
  | Creds.CErr => KErr
  | Creds.COk u s =>
      match Creds.is_nil u, Creds.is_nil s with
      | true, true => KNone
      | false, true => KUser
      | true, false => KSecret
      | false, false => KBoth
      end
  end.

(* ================= docker.Authorizer (contract) ================= *)
Inductive tokst := TNone | TOk (t : nat) | TFail.
Inductive handler := HBasic | HBearer (realm : nat) (k : ckind) (tok : tokst).
Record authz := mkAz { handlers : list (nat * handler); ntok : nat }.
Definition new_authz := mkAz [] 0.

Fixpoint h_find (l : list (nat * handler)) (j : nat) : option handler :=
  match l with
  | [] => None
  | (j', h) :: t => if Nat.eqb j' j then Some h else h_find t j
  end.
Fixpoint h_del (l : list (nat * handler)) (j : nat) : list (nat * handler) :=
  match l with
  | [] => []
  | (j', h) :: t => if Nat.eqb j' j then h_del t j else (j', h) :: h_del t j
  end.
Definition h_set l j h := (j, h) :: h_del l j.

Definition tok_ok (r : resp) : bool :=
  match r with Resp c _ wf _ => (200 <=? c) && (c <? 400) && wf | RErr => false end.
(* FetchTokenWithOAuth failed with a status for which the GET endpoint is tried *)
Definition tok_fallback (k : ckind) (r : resp) : bool :=
  match r with
  | Resp c _ _ _ => ((c =? 405) && has_user k) || (c =? 404) || (c =? 401) || (c =? 400)
  | RErr => false
  end.

(* end of a token fetch on behalf of host j: the token (or the error) is cached in the handler *)
Definition tok_fin (a : authz) (j n : nat) (k : ckind) (ok : bool) (qs : list req) : authz * list req * option az :=
  if ok then (mkAz (h_set (handlers a) j (HBearer n k (TOk (ntok a)))) (S (ntok a)), qs, Some (AzBearer j (ntok a)))
  else (mkAz (h_set (handlers a) j (HBearer n k TFail)) (ntok a), qs, None).

(* Authorizer.Authorize for a request to host j: token requests sent, the authorization added (None = error) *)
Definition authorize (a : authz) (j : nat) (sc : list resp) : authz * list req * option az :=
  match h_find (handlers a) j with
  | None => (a, [], Some AzNone)
  | Some HBasic => (a, [], Some (AzBasic j))
  | Some (HBearer n k tok) =>
      match tok with
      | TOk t => (a, [], Some (AzBearer j t))
      | TFail => (a, [], None)                        (* the error is cached with the token slot *)
      | TNone =>
          if has_secret k then
            let q1 := mkReq POST (Realm n) None (AzTok j true) in
            if tok_ok (fst (next sc)) then tok_fin a j n k true [q1]
            else if tok_fallback k (fst (next sc)) then
              tok_fin a j n k (tok_ok (fst (next (snd (next sc))))) [q1; mkReq GET (Realm n) None (AzTok j true)]
            else tok_fin a j n k false [q1]
          else
            tok_fin a j n k (tok_ok (fst (next sc))) [mkReq GET (Realm n) None (AzTok j false)]
      end
  end.

Inductive addres := AOk | ANotImpl | AErr.

(* Authorizer.AddResponses for a 401 from host j; [creds] is the credential function (multiCredsFuncs) *)
Definition add_responses (creds : nat -> ckind) (a : authz) (j : nat) (ch : chal) : authz * addres :=
  match ch with
  | ChNone => (a, ANotImpl)
  | ChBasic =>
      match creds j with
      | KBoth => (mkAz (h_set (handlers a) j HBasic) (ntok a), AOk)
      | _ => (a, AErr)
      end
  | ChBearer realm err =>
      let a1 := if err then mkAz (h_del (handlers a) j) (ntok a) else a in
      match h_find (handlers a1) j with
      | Some _ => (a1, AOk)
      | None =>
          match creds j with
          | KErr => (a1, AErr)
          | k => match realm with
                 | Some n => (mkAz (h_set (handlers a1) j (HBearer n k TNone)) (ntok a1), AOk)
                 | None => (a1, AErr)
                 end
          end
      end
  end.

(* ================= transport.RoundTrip, sequentially (used during the initial resolution) ================= *)
Definition chal_of (r : resp) : option chal :=
  match r with Resp c _ _ ch => if c =? 401 then Some ch else None | RErr => None end.

(* returns the authorizer, the requests sent, the response handed to the caller (RErr = error), the rest of the script *)
Definition xfer (creds : nat -> ckind) (a : authz) (m : meth) (u : loc) (h : option nat) (sc : list resp)
  : authz * list req * resp * list resp :=
  let '(a1, tq1, oaz) := authorize a (host_of u) sc in
  let sc1 := skipn (length tq1) sc in
  match oaz with
  | None => (a1, tq1, RErr, sc1)
  | Some z1 =>
      let '(r_, sc2) := next sc1 in
      let r := effective u r_ in
      let q := mkReq m u h z1 in
      match chal_of r with
      | None => (a1, tq1 ++ [q], r, sc2)
      | Some ch =>
          match add_responses creds a1 (host_of u) ch with
          | (a2, ANotImpl) => (a2, tq1 ++ [q], r, sc2)
          | (a2, AErr) => (a2, tq1 ++ [q], RErr, sc2)
          | (a2, AOk) =>
              let '(a3, tq2, oaz2) := authorize a2 (host_of u) sc2 in
              let sc3 := skipn (length tq2) sc2 in
              match oaz2 with
              | None => (a3, tq1 ++ [q] ++ tq2, RErr, sc3)
              | Some z2 =>
                  let '(r2, sc4) := next sc3 in
                  (a3, tq1 ++ [q] ++ tq2 ++ [mkReq m u h z2], effective u r2, sc4)
              end
          end
      end
  end.

(* redirect(): where to go and which headers to use there *)
Definition redirect_res (i : nat) (org : option nat) (r : resp) : option (loc * option nat) :=
  match r with
  | RErr => None
  | Resp code l _ _ =>
      if code / 100 =? 2 then Some (Blob i, org)
      else if code / 100 =? 3 then
        match l with
        | Some l => Some (l, None)      (* "Do not pass headers to the redirected location." *)
        | None => None
        end
      else None
  end.

(* getSize(): authorizer, requests sent, success, rest of the script *)
Definition get_size (creds : nat -> ckind) (a : authz) (u : loc) (hd : option nat) (sc : list resp)
  : authz * list req * bool * list resp :=
  let '(a1, qs1, r1, sc1) := xfer creds a HEAD u hd sc in
  match r1 with
  | RErr => (a1, qs1, false, sc1)
  | Resp c1 _ wf1 _ =>
      if c1 =? 200 then (a1, qs1, wf1, sc1)
      else
        let '(a2, qs2, r2, sc2) := xfer creds a1 GET u hd sc1 in
        match r2 with
        | RErr => (a2, qs1 ++ qs2, false, sc2)
        | Resp c2 _ wf2 _ => (a2, qs1 ++ qs2, ((c2 =? 200) || (c2 =? 206)) && wf2, sc2)
        end
  end.

Definition target := (nat * loc * option nat * authz)%type.   (* host index, url, header, its authorizer *)

(* newHTTPFetcher: try the hosts in order (each with its own fresh authorizer); the first that works wins *)
Fixpoint resolve_from (creds : nat -> ckind) (i : nat) (hs : list hostcfg) (sc : list resp)
  : list req * option target :=
  match hs with
  | [] => ([], None)
  | h :: t =>
      if negb (h_valid h) then resolve_from creds (S i) t sc
      else
        let org := org_of i h in
        let '(a0, qs0, r0, sc0) := xfer creds new_authz GET (Blob i) org sc in
        match redirect_res i org r0 with
        | None => let '(qs, res) := resolve_from creds (S i) t sc0 in (qs0 ++ qs, res)
        | Some (u, hd) =>
            let '(a1, qs1, ok, sc1) := get_size creds a0 u hd sc0 in
            if ok then (qs0 ++ qs1, Some (i, u, hd, a1))
            else let '(qs, res) := resolve_from creds (S i) t sc1 in (qs0 ++ qs1 ++ qs, res)
        end
  end.
Definition resolve creds := resolve_from creds 0.

(* ================= the fetcher ================= *)
Inductive kind := KFetch | KCheck.
(* who waits for the answer of a transport round trip *)
Inductive cont := CFetch (retry sr : bool) | CCheck | CRefresh (k : kind).
Inductive tphase :=
| TAuth (second : bool)                 (* about to call Authorize (for the first send / for the resend after a 401) *)
| TSend (second : bool) (z : az)        (* request built and authorized, not yet sent *)
| TAdd (r : resp).                      (* got 401 on the first send, about to call AddResponses *)
Inductive pc :=
| PStart (k : kind) (retry : bool)                      (* fetch: about to read singleRange *)
| PSnap (k : kind) (retry sr : bool)                    (* about to lock urlMu and read the target *)
| PHook (k : kind) (retry sr : bool) (u : loc) (h : option (option nat))
                                                        (* target read; h = None: header not read yet (unfixed) *)
| PT (c : cont) (u : loc) (h : option nat) (ph : tphase) (* inside transport.RoundTrip for a request to u with headers h *)
| PRefWrite (k : kind) (u : loc) (h : option nat)       (* refreshURL: answer known, about to lock and write *)
| PDone (ok : bool).

Record fs := mkFs {
  blob : nat;                 (* blobURL = Blob blob *)
  org : option nat;           (* orgHeader *)
  url : loc;
  header : option nat;
  single : bool;
  auth : authz;               (* the authorizer of the chosen registry host *)
  threads : list pc
}.

Definition mk_fetcher (c : nat) (o : option nat) (u : loc) (h : option nat) (a : authz) : fs :=
  mkFs c o u h false a [].

Fixpoint upd {A} (l : list A) (n : nat) (x : A) : list A :=
  match l, n with
  | [], _ => []
  | _ :: t, O => x :: t
  | h :: t, S n' => h :: upd t n' x
  end.

Definition set_pc (s : fs) (t : nat) (p : pc) : fs :=
  mkFs (blob s) (org s) (url s) (header s) (single s) (auth s) (upd (threads s) t p).
Definition set_auth (s : fs) (a : authz) : fs :=
  mkFs (blob s) (org s) (url s) (header s) (single s) a (threads s).
Definition set_single (s : fs) : fs :=
  mkFs (blob s) (org s) (url s) (header s) true (auth s) (threads s).

Definition refresh_pc (s : fs) (k : kind) : pc := PT (CRefresh k) (Blob (blob s)) (org s) (TAuth false).

(* what the caller of the round trip does with its result: next pc, and whether singleRange is set *)
Definition finish (s : fs) (c : cont) (r : resp) : pc * bool :=
  match c with
  | CFetch retry sr =>
      match r with
      | RErr => (PDone false, false)
      | Resp c _ wf _ =>
          if (c =? 200) || (c =? 206) then (PDone wf, false)
          else if retry && (c =? 403) then (refresh_pc s KFetch, false)
          else if retry && (c =? 400) && negb sr then (PStart KFetch false, true)
          else (PDone false, false)
      end
  | CCheck =>
      match r with
      | RErr => (PDone false, false)
      | Resp c _ _ _ =>
          if (c =? 200) || (c =? 206) then (PDone true, false)
          else if c =? 403 then (refresh_pc s KCheck, false)
          else (PDone false, false)
      end
  | CRefresh k =>
      match redirect_res (blob s) (org s) r with
      | Some (u, h) => (PRefWrite k u h, false)
      | None => (PDone false, false)
      end
  end.

Definition finish_at (s : fs) (t : nat) (c : cont) (r : resp) : fs :=
  let '(p, ss) := finish s c r in set_pc (if ss then set_single s else s) t p.

(* one atomic sub-step of thread t; r answers the request if this sub-step sends one to a registry / redirect
   location, toks answer the token requests if it calls Authorize *)
Definition micro (fixed : bool) (creds : nat -> ckind) (s : fs) (t : nat) (r : resp) (toks : list resp)
  : fs * list req :=
  match nth_error (threads s) t with
  | None => (s, [])
  | Some p =>
      match p with
      | PStart k retry => (set_pc s t (PSnap k retry (single s)), [])
      | PSnap k retry sr =>
          (set_pc s t (PHook k retry sr (url s) (if fixed then Some (header s) else None)), [])
      | PHook k retry sr u h =>
          let c := match k with KFetch => CFetch retry sr | KCheck => CCheck end in
          (set_pc s t (PT c u (match h with Some h => h | None => header s end) (TAuth false)), [])
      | PT c u h (TAuth second) =>
          let '(a1, tq, oaz) := authorize (auth s) (host_of u) toks in
          let s1 := set_auth s a1 in
          match oaz with
          | Some z => (set_pc s1 t (PT c u h (TSend second z)), tq)
          | None => (finish_at s1 t c RErr, tq)
          end
      | PT c u h (TSend second z) =>
          let q := mkReq GET u h z in
          let r := effective u r in
          match chal_of r with
          | Some _ => if second then (finish_at s t c r, [q]) else (set_pc s t (PT c u h (TAdd r)), [q])
          | None => (finish_at s t c r, [q])
          end
      | PT c u h (TAdd r0) =>
          match chal_of r0 with
          | None => (finish_at s t c r0, [])
          | Some ch =>
              let '(a1, res) := add_responses creds (auth s) (host_of u) ch in
              let s1 := set_auth s a1 in
              match res with
              | AOk => (set_pc s1 t (PT c u h (TAuth true)), [])
              | ANotImpl => (finish_at s1 t c r0, [])
              | AErr => (finish_at s1 t c RErr, [])
              end
          end
      | PRefWrite k u h =>
          let s1 := mkFs (blob s) (org s) u h (single s) (auth s) (threads s) in
          (set_pc s1 t (match k with KFetch => PStart KFetch false | KCheck => PDone true end), [])
      | PDone _ => (s, [])
      end
  end.

(* places where the harness can hold a thread: the scheduling hook, a request about to be sent, the end *)
Definition parked (p : pc) : bool :=
  match p with PHook _ _ _ _ _ | PT _ _ _ (TSend _ _) | PDone _ => true | _ => false end.

Definition is_parked (s : fs) (t : nat) : bool :=
  match nth_error (threads s) t with Some p => parked p | None => true end.

Fixpoint settle (fixed : bool) creds (fuel : nat) (s : fs) (t : nat) (toks : list resp) : fs * list req :=
  match fuel with
  | O => (s, [])
  | S f =>
      if is_parked s t then (s, [])
      else let '(s1, q1) := micro fixed creds s t RErr toks in
           let '(s2, q2) := settle fixed creds f s1 t toks in (s2, q1 ++ q2)
  end.

(* let thread t run from where it is held to the next place it can be held *)
Definition resume (fixed : bool) creds (s : fs) (t : nat) (r : resp) (toks : list resp) : fs * list req :=
  let '(s1, q1) := micro fixed creds s t r toks in
  let '(s2, q2) := settle fixed creds 8 s1 t toks in (s2, q1 ++ q2).

Inductive op :=
| Spawn (k : kind) (retry : bool)
| Micro (t : nat) (r : resp) (toks : list resp)
| Resume (t : nat) (r : resp) (toks : list resp).

Definition step (fixed : bool) creds (s : fs) (o : op) : fs * list req :=
  match o with
  | Spawn k retry =>
      (mkFs (blob s) (org s) (url s) (header s) (single s) (auth s) (threads s ++ [PStart k retry]), [])
  | Micro t r toks => micro fixed creds s t r toks
  | Resume t r toks => resume fixed creds s t r toks
  end.

Definition done_of (s : fs) (o : op) : option bool :=
  match o with
  | Spawn _ _ => None
  | Micro t _ _ | Resume t _ _ =>
      match nth_error (threads s) t with Some (PDone b) => Some b | _ => None end
  end.

Definition out := (list req * option bool)%type.

Fixpoint run (fixed : bool) creds (s : fs) (os : list op) : fs * list out :=
  match os with
  | [] => (s, [])
  | o :: t =>
      let '(s1, q) := step fixed creds s o in
      let '(s2, xs) := run fixed creds s1 t in (s2, (q, done_of s1 o) :: xs)
  end.

Definition exec (fixed : bool) creds (s : fs) (os : list op) : fs :=
  fold_left (fun s o => fst (step fixed creds s o)) os s.

(* all requests emitted along a schedule *)
Fixpoint emitted (fixed : bool) creds (s : fs) (os : list op) : list req :=
  match os with
  | [] => []
  | o :: t => let '(s1, q) := step fixed creds s o in q ++ emitted fixed creds s1 t
  end.

(* ================= the property, per request ================= *)
(* headers configured for host i travel only to the blob URL on host i *)
Definition confined (hs : list hostcfg) (q : req) : Prop :=
  forall i, r_hdr q = Some i -> r_loc q = Blob i /\ exists h, nth_error hs i = Some h /\ h_hdr h = true.

(* a credential obtained for host j travels only to host j (Basic) or, inside a token request made on behalf of
   host j, to a token endpoint, and only if the credential function offered a secret for j; a bearer token
   obtained on behalf of host j travels only to host j; token requests carry no configured headers *)
Definition cred_ok (creds : nat -> ckind) (q : req) : Prop :=
  match r_az q with
  | AzNone => True
  | AzBasic j => host_of (r_loc q) = j /\ creds j = KBoth
  | AzBearer j _ => host_of (r_loc q) = j
  | AzTok j c => (exists n, r_loc q = Realm n) /\ r_hdr q = None /\ (c = true -> has_secret (creds j) = true)
  end.

(* ================= correspondence ================= *)
Definition loc_eqb (a b : loc) : bool :=
  match a, b with
  | Blob i, Blob j => Nat.eqb i j
  | Ext h i, Ext h' j => Nat.eqb h h' && Nat.eqb i j
  | Realm i, Realm j => Nat.eqb i j
  | Rel (Some h) i, Rel (Some h') j => Nat.eqb h h' && Nat.eqb i j
  | Rel None i, Rel None j => Nat.eqb i j
  | _, _ => false
  end.
Definition onat_eqb (a b : option nat) : bool :=
  match a, b with
  | None, None => true
  | Some x, Some y => Nat.eqb x y
  | _, _ => false
  end.
Definition meth_eqb (a b : meth) : bool :=
  match a, b with GET, GET => true | HEAD, HEAD => true | POST, POST => true | _, _ => false end.
Definition az_eqb (a b : az) : bool :=
  match a, b with
  | AzNone, AzNone => true
  | AzBasic i, AzBasic j => Nat.eqb i j
  | AzBearer i t, AzBearer j t' => Nat.eqb i j && Nat.eqb t t'
  | AzTok i c, AzTok j c' => Nat.eqb i j && Bool.eqb c c'
  | _, _ => false
  end.
Definition req_eqb (a b : req) : bool :=
  meth_eqb (r_meth a) (r_meth b) && loc_eqb (r_loc a) (r_loc b) && onat_eqb (r_hdr a) (r_hdr b)
  && az_eqb (r_az a) (r_az b).
Fixpoint reqs_eqb (a b : list req) : bool :=
  match a, b with
  | [], [] => true
  | x :: a', y :: b' => req_eqb x y && reqs_eqb a' b'
  | _, _ => false
  end.
Definition obool_eqb (a b : option bool) : bool :=
  match a, b with
  | None, None => true
  | Some x, Some y => Bool.eqb x y
  | _, _ => false
  end.
Fixpoint outs_eqb (a b : list out) : bool :=
  match a, b with
  | [], [] => true
  | (q, d) :: a', (q', d') :: b' => reqs_eqb q q' && obool_eqb d d' && outs_eqb a' b'
  | _, _ => false
  end.

Definition otarget := option (nat * loc * option nat).
Definition target_eqb (a : option target) (b : otarget) : bool :=
  match a, b with
  | None, None => true
  | Some (i, u, h, _), Some (j, u', h') => Nat.eqb i j && loc_eqb u u' && onat_eqb h h'
  | _, _ => false
  end.
Definition final := (loc * option nat * bool)%type.   (* url, header, singleRange at the end *)
Definition final_eqb (a b : final) : bool :=
  let '(u, h, s) := a in let '(u', h', s') := b in loc_eqb u u' && onat_eqb h h' && Bool.eqb s s'.

(* the credential function of a case: the real keychain model after one pull of the image (reference 0) with
   the case's auth config, asked for the host's name *)
Definition case_creds (oa : option Creds.auth) (names : list (nat * Creds.str)) (j : nat) : ckind :=
  match find (fun p => Nat.eqb (fst p) j) names with
  | Some (_, nm) =>
      kind_of (Creds.credentials (Creds.exec (Creds.init true) [Creds.Pull (Some 0) oa true]) nm 0)
  | None => KNone
  end.

(* a case: mirror configuration, the pull's auth config and the host names, scripted answers during resolution,
   schedule; observed on the implementation: requests of the resolution, its result, per-op requests +
   completion, final fetcher state *)
Record case := mkCase {
  c_mirrors : list mirror; c_auth : option Creds.auth; c_names : list (nat * Creds.str);
  c_script : list resp; c_ops : list op;
  o_reqs : list req; o_target : otarget; o_outs : list out; o_final : option final
}.

Definition case_ok (c : case) : bool :=
  match hosts_of_config (c_mirrors c) with
  | None =>   (* the hosts function fails: no request at all *)
      reqs_eqb [] (o_reqs c) && target_eqb None (o_target c)
      && match o_final c with None => true | Some _ => false end
  | Some hs =>
      let creds := case_creds (c_auth c) (c_names c) in
      let '(qs, tg) := resolve creds hs (c_script c) in
      reqs_eqb qs (o_reqs c) && target_eqb tg (o_target c) &&
      match tg with
      | None => match o_final c with None => true | Some _ => false end
      | Some (i, u, h, a) =>
          let org := match nth_error hs i with Some hc => org_of i hc | None => None end in
          let '(s, outs) := run true creds (mk_fetcher i org u h a) (c_ops c) in
          outs_eqb outs (o_outs c) &&
          match o_final c with
          | Some f => final_eqb (url s, header s, single s) f
          | None => false
          end
      end
  end.

Fixpoint mismatches_from (n : nat) (cs : list case) : list nat :=
  match cs with
  | [] => []
  | c :: t => if case_ok c then mismatches_from (S n) t else n :: mismatches_from (S n) t
  end.
Definition mismatches := mismatches_from 0.
