(* Model of the header path of property C18: fs/remote/resolver.go
     newHTTPFetcher (per registry host: redirect, getSize), httpFetcher {url, header, blobURL, orgHeader,
     singleRange}: fetch (incl. 403 -> refreshURL -> retry and 400 -> single range -> retry), check, refreshURL.
   Executable definitions only; proofs are in Proofs/Headers.v.

   Locations: [Blob i] is the blob URL on the i-th registry host returned by the RegistryHosts function
   (mirrors first, the origin last); [Ext n] is any other URL (a redirect target).  A header set is identified
   with the index of the host it was configured for ([None] = no headers).  The registry's behaviour is the
   adversary: every request is answered by an arbitrary [resp] given with the step.

   Concurrency: every API call (fetch / check) is a thread; [micro] advances one thread by one atomic
   sub-step (one critical section of urlMu / singleRangeMu, or one request+response).  A schedule is a list
   of ops.  [fixed = true] is the code with patches/C18-fix-1.diff (url and header are read in ONE critical
   section); [fixed = false] is the code before the fix (header read later, outside the lock). *)
From Coq Require Import List Arith Bool.
Import ListNotations.

Inductive loc := Blob (i : nat) | Ext (n : nat).
Inductive meth := GET | HEAD.
Record req := mkReq { r_meth : meth; r_loc : loc; r_hdr : option nat }.
(* status code, Location header (None = absent/empty), well-formed (Content-Length / Content-Range / media type parse) *)
Inductive resp := Resp (code : nat) (location : option loc) (wf : bool) | RErr.

Record hostcfg := mkHost { h_valid : bool;   (* host name non-empty and without '/' *)
                           h_hdr : bool }.   (* headers configured for this host *)

Definition org_of (i : nat) (h : hostcfg) : option nat := if h_hdr h then Some i else None.

(* redirect(): where to go and which headers to use there *)
Definition redirect_res (i : nat) (org : option nat) (r : resp) : option (loc * option nat) :=
  match r with
  | RErr => None
  | Resp code l _ =>
      if code / 100 =? 2 then Some (Blob i, org)
      else if code / 100 =? 3 then
        match l with
        | Some l => Some (l, None)      (* "Do not pass headers to the redirected location." *)
        | None => None
        end
      else None
  end.

Definition default_resp := Resp 200 None true.
Definition next (sc : list resp) : resp * list resp :=
  match sc with [] => (default_resp, []) | r :: t => (r, t) end.

(* getSize(): requests sent and success *)
Definition get_size (u : loc) (hd : option nat) (sc : list resp) : list req * bool * list resp :=
  let '(r1, sc1) := next sc in
  let q1 := mkReq HEAD u hd in
  match r1 with
  | RErr => ([q1], false, sc1)
  | Resp c1 _ wf1 =>
      if c1 =? 200 then ([q1], wf1, sc1)
      else
        let '(r2, sc2) := next sc1 in
        let q2 := mkReq GET u hd in
        match r2 with
        | RErr => ([q1; q2], false, sc2)
        | Resp c2 _ wf2 => ([q1; q2], ((c2 =? 200) || (c2 =? 206)) && wf2, sc2)
        end
  end.

(* newHTTPFetcher: try the hosts in order; result = (host index, url, header) of the first that works *)
Fixpoint resolve_from (i : nat) (hs : list hostcfg) (sc : list resp)
  : list req * option (nat * loc * option nat) :=
  match hs with
  | [] => ([], None)
  | h :: t =>
      if negb (h_valid h) then resolve_from (S i) t sc
      else
        let org := org_of i h in
        let '(r0, sc0) := next sc in
        let q0 := mkReq GET (Blob i) org in
        match redirect_res i org r0 with
        | None => let '(qs, res) := resolve_from (S i) t sc0 in (q0 :: qs, res)
        | Some (u, hd) =>
            let '(qs1, ok, sc1) := get_size u hd sc0 in
            if ok then (q0 :: qs1, Some (i, u, hd))
            else let '(qs, res) := resolve_from (S i) t sc1 in (q0 :: qs1 ++ qs, res)
        end
  end.
Definition resolve := resolve_from 0.

(* ---- the fetcher ---- *)
Inductive kind := KFetch | KCheck.
Inductive pc :=
| PStart (k : kind) (retry : bool)                      (* fetch: about to read singleRange *)
| PSnap (k : kind) (retry sr : bool)                    (* about to lock urlMu and read the target *)
| PHook (k : kind) (retry sr : bool) (u : loc) (h : option (option nat))
                                                        (* target read; h = None: header not read yet (unfixed) *)
| PSend (k : kind) (retry sr : bool) (u : loc) (h : option nat)   (* request built, not yet sent *)
| PRefSend (k : kind)                                   (* refreshURL: about to ask the registry again *)
| PRefWrite (k : kind) (u : loc) (h : option nat)       (* refreshURL: answer known, about to lock and write *)
| PDone (ok : bool).

Record fs := mkFs {
  blob : nat;                 (* blobURL = Blob blob *)
  org : option nat;           (* orgHeader *)
  url : loc;
  header : option nat;
  single : bool;
  threads : list pc
}.

Definition mk_fetcher (c : nat) (o : option nat) (u : loc) (h : option nat) : fs := mkFs c o u h false [].

Fixpoint upd {A} (l : list A) (n : nat) (x : A) : list A :=
  match l, n with
  | [], _ => []
  | _ :: t, O => x :: t
  | h :: t, S n' => h :: upd t n' x
  end.

Definition set_pc (s : fs) (t : nat) (p : pc) : fs :=
  mkFs (blob s) (org s) (url s) (header s) (single s) (upd (threads s) t p).

(* what a fetch / check does with the answer to its request *)
Definition after_send (k : kind) (retry sr : bool) (r : resp) : pc * bool (* set single *) :=
  match r with
  | RErr => (PDone false, false)
  | Resp c _ wf =>
      match k with
      | KFetch =>
          if (c =? 200) || (c =? 206) then (PDone wf, false)
          else if retry && (c =? 403) then (PRefSend KFetch, false)
          else if retry && (c =? 400) && negb sr then (PStart KFetch false, true)
          else (PDone false, false)
      | KCheck =>
          if (c =? 200) || (c =? 206) then (PDone true, false)
          else if c =? 403 then (PRefSend KCheck, false)
          else (PDone false, false)
      end
  end.

(* one atomic sub-step of thread t; r answers the request if this sub-step sends one *)
Definition micro (fixed : bool) (s : fs) (t : nat) (r : resp) : fs * list req :=
  match nth_error (threads s) t with
  | None => (s, [])
  | Some p =>
      match p with
      | PStart k retry => (set_pc s t (PSnap k retry (single s)), [])
      | PSnap k retry sr =>
          (set_pc s t (PHook k retry sr (url s) (if fixed then Some (header s) else None)), [])
      | PHook k retry sr u h =>
          (set_pc s t (PSend k retry sr u (match h with Some h => h | None => header s end)), [])
      | PSend k retry sr u h =>
          let '(p', ss) := after_send k retry sr r in
          let s1 := if ss then mkFs (blob s) (org s) (url s) (header s) true (threads s) else s in
          (set_pc s1 t p', [mkReq GET u h])
      | PRefSend k =>
          let q := mkReq GET (Blob (blob s)) (org s) in
          match redirect_res (blob s) (org s) r with
          | Some (u, h) => (set_pc s t (PRefWrite k u h), [q])
          | None => (set_pc s t (PDone false), [q])
          end
      | PRefWrite k u h =>
          let s1 := mkFs (blob s) (org s) u h (single s) (threads s) in
          (set_pc s1 t (match k with KFetch => PStart KFetch false | KCheck => PDone true end), [])
      | PDone _ => (s, [])
      end
  end.

(* places where the harness can hold a thread: the scheduling hook, a request about to be sent, the end *)
Definition parked (p : pc) : bool :=
  match p with PHook _ _ _ _ _ | PSend _ _ _ _ _ | PRefSend _ | PDone _ => true | _ => false end.

Definition is_parked (s : fs) (t : nat) : bool :=
  match nth_error (threads s) t with Some p => parked p | None => true end.

Fixpoint settle (fixed : bool) (fuel : nat) (s : fs) (t : nat) : fs :=
  match fuel with
  | O => s
  | S f => if is_parked s t then s else settle fixed f (fst (micro fixed s t RErr)) t
  end.

(* let thread t run from where it is held to the next place it can be held *)
Definition resume (fixed : bool) (s : fs) (t : nat) (r : resp) : fs * list req :=
  let '(s1, q) := micro fixed s t r in (settle fixed 6 s1 t, q).

Inductive op :=
| Spawn (k : kind) (retry : bool)
| Micro (t : nat) (r : resp)
| Resume (t : nat) (r : resp).

Definition step (fixed : bool) (s : fs) (o : op) : fs * list req :=
  match o with
  | Spawn k retry =>
      (mkFs (blob s) (org s) (url s) (header s) (single s) (threads s ++ [PStart k retry]), [])
  | Micro t r => micro fixed s t r
  | Resume t r => resume fixed s t r
  end.

Definition done_of (s : fs) (o : op) : option bool :=
  match o with
  | Spawn _ _ => None
  | Micro t _ | Resume t _ =>
      match nth_error (threads s) t with Some (PDone b) => Some b | _ => None end
  end.

Definition out := (list req * option bool)%type.

Fixpoint run (fixed : bool) (s : fs) (os : list op) : fs * list out :=
  match os with
  | [] => (s, [])
  | o :: t =>
      let '(s1, q) := step fixed s o in
      let '(s2, xs) := run fixed s1 t in (s2, (q, done_of s1 o) :: xs)
  end.

Definition exec (fixed : bool) (s : fs) (os : list op) : fs :=
  fold_left (fun s o => fst (step fixed s o)) os s.

(* all requests emitted along a schedule *)
Fixpoint emitted (fixed : bool) (s : fs) (os : list op) : list req :=
  match os with
  | [] => []
  | o :: t => let '(s1, q) := step fixed s o in q ++ emitted fixed s1 t
  end.

(* the property, per request: headers configured for host i travel only to the blob URL on host i *)
Definition confined (hs : list hostcfg) (q : req) : Prop :=
  forall i, r_hdr q = Some i -> r_loc q = Blob i /\ exists h, nth_error hs i = Some h /\ h_hdr h = true.

(* ---- correspondence ---- *)
Definition loc_eqb (a b : loc) : bool :=
  match a, b with
  | Blob i, Blob j => Nat.eqb i j
  | Ext i, Ext j => Nat.eqb i j
  | _, _ => false
  end.
Definition onat_eqb (a b : option nat) : bool :=
  match a, b with
  | None, None => true
  | Some x, Some y => Nat.eqb x y
  | _, _ => false
  end.
Definition meth_eqb (a b : meth) : bool :=
  match a, b with GET, GET => true | HEAD, HEAD => true | _, _ => false end.
Definition req_eqb (a b : req) : bool :=
  meth_eqb (r_meth a) (r_meth b) && loc_eqb (r_loc a) (r_loc b) && onat_eqb (r_hdr a) (r_hdr b).
Fixpoint reqs_eqb (a b : list req) : bool :=
  match a, b with
  | [], [] => true
  | x :: a', y :: b' => req_eqb x y && reqs_eqb a' b'
  | _, _ => false
  end.
Definition obool_eqb (a b : option bool) : bool :=
  match a, b with
  | None, None => true
  | Some x, Some y => Bool.eqb x y
  | _, _ => false
  end.
Fixpoint outs_eqb (a b : list out) : bool :=
  match a, b with
  | [], [] => true
  | (q, d) :: a', (q', d') :: b' => reqs_eqb q q' && obool_eqb d d' && outs_eqb a' b'
  | _, _ => false
  end.

Definition target := (nat * loc * option nat)%type.   (* host index, url, header *)
Definition target_eqb (a b : option target) : bool :=
  match a, b with
  | None, None => true
  | Some (i, u, h), Some (j, u', h') => Nat.eqb i j && loc_eqb u u' && onat_eqb h h'
  | _, _ => false
  end.
Definition final := (loc * option nat * bool)%type.   (* url, header, singleRange at the end *)
Definition final_eqb (a b : final) : bool :=
  let '(u, h, s) := a in let '(u', h', s') := b in loc_eqb u u' && onat_eqb h h' && Bool.eqb s s'.

(* a case: host configuration, scripted answers during resolution, schedule; observed on the implementation:
   requests of the resolution, its result, per-op requests + completion, final fetcher state *)
Record case := mkCase {
  c_hosts : list hostcfg; c_script : list resp; c_ops : list op;
  o_reqs : list req; o_target : option target; o_outs : list out; o_final : option final
}.

Definition case_ok (c : case) : bool :=
  let '(qs, tg) := resolve (c_hosts c) (c_script c) in
  reqs_eqb qs (o_reqs c) && target_eqb tg (o_target c) &&
  match tg with
  | None => match o_final c with None => true | Some _ => false end
  | Some (i, u, h) =>
      let org := match nth_error (c_hosts c) i with Some hc => org_of i hc | None => None end in
      let '(s, outs) := run true (mk_fetcher i org u h) (c_ops c) in
      outs_eqb outs (o_outs c) &&
      match o_final c with
      | Some f => final_eqb (url s, header s, single s) f
      | None => false
      end
  end.

Fixpoint mismatches_from (n : nat) (cs : list case) : list nat :=
  match cs with
  | [] => []
  | c :: t => if case_ok c then mismatches_from (S n) t else n :: mismatches_from (S n) t
  end.
Definition mismatches := mismatches_from 0.
