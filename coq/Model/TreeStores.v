(* Model of the two metadata stores of stargz-snapshotter (C05):
     - memory : estargz.Reader.initFields (two passes over the TOC) + metadata/memory (assignIDs, attrFromTOCEntry,
                ChunkEntryForOffset);
     - db     : cmd/containerd-stargz-grpc/db  initNodes (one streaming pass), writeAttr/readAttr, readChunks (chunk
                sizes recomputed from neighbouring offsets), file.ChunkEntryForOffset, the multi-layer bolt database.
   Both produce the same kind of canonical [view] (pre-order walk, children sorted by name) from a decoded TOC.
   Executable definitions only; proofs are in Proofs/TreeStores.v.

   Conventions: every number is Z. Strings are interned by the harness (injectively; the empty string is 0):
   path components (0 = "", 1 = ".", 2 = ".."), xattr keys/values, link names, digests. A cleaned path is the
   REVERSED list of its components (root = [], parent = tl, base name = hd).  Go maps are association lists;
   where Go iterates a map (first xattr / first child stored apart from the "extra" bucket) the result read back is
   a map again, so the model stores the list as it is. *)
From Coq Require Import List ZArith Bool.
Import ListNotations.
Open Scope Z_scope.

Inductive etype := TDir | TReg | TSymlink | THardlink | TChar | TBlock | TFifo | TChunk | TOther.

Definition etype_eqb (a b : etype) : bool :=
  match a, b with
  | TDir, TDir | TReg, TReg | TSymlink, TSymlink | THardlink, THardlink | TChar, TChar
  | TBlock, TBlock | TFifo, TFifo | TChunk, TChunk | TOther, TOther => true
  | _, _ => false
  end.

(* a decoded TOC entry (estargz.TOCEntry after JSON decoding) *)
Record entry := E {
  e_name : list Z;        (* raw name split at '/' *)
  e_type : etype;
  e_size : Z;
  e_mtime : option Z;     (* time.Parse(RFC3339): None = zero time (absent / unparsable) *)
  e_link : Z;             (* LinkName as a string *)
  e_hl : list Z;          (* LinkName split at '/' (hardlinks) *)
  e_perm : Z;             (* Stat().Mode() permission/setuid/setgid/sticky bits (shared code, computed by Go) *)
  e_uid : Z; e_gid : Z; e_dmaj : Z; e_dmin : Z;
  e_xattrs : list (Z * Z);
  e_off : Z; e_inner : Z; e_choff : Z; e_chsize : Z;
  e_dg : Z; e_cdg : Z
}.

Record attr := A {
  a_size : Z; a_mtime : option Z; a_link : Z; a_mode : Z;
  a_uid : Z; a_gid : Z; a_dmaj : Z; a_dmin : Z;
  a_xattrs : list (Z * Z); a_nlink : Z
}.

(* ---------- names ---------- *)

(* cleanEntryName = TrimPrefix(path.Clean("/"+name), "/"), as a reversed component list *)
Definition clean_step (acc : list Z) (c : Z) : list Z :=
  if (c =? 0) || (c =? 1) then acc else if c =? 2 then tl acc else c :: acc.
Definition clean (raw : list Z) : list Z := fold_left clean_step raw [].

Fixpoint path_eqb (a b : list Z) : bool :=
  match a, b with
  | [], [] => true
  | x :: a', y :: b' => (x =? y) && path_eqb a' b'
  | _, _ => false
  end.

(* ---------- attributes ---------- *)

Definition type_bits (t : etype) : Z :=
  match t with
  | TDir => 2147483648          (* os.ModeDir *)
  | TSymlink => 134217728       (* os.ModeSymlink *)
  | TChar => 67108864 + 2097152 (* os.ModeDevice | os.ModeCharDevice *)
  | TBlock => 67108864          (* os.ModeDevice *)
  | TFifo => 33554432           (* os.ModeNamedPipe *)
  | _ => 0
  end.

Definition mode_of (e : entry) : Z := e_perm e + type_bits (e_type e).

(* os.FileMode.IsRegular for the modes Stat().Mode() can produce: every type bit it sets is >= 2^24 or comes with one *)
Definition is_regular (m : Z) : bool := m <? 16777216.

(* attrFromTOCEntry (identical in both packages) *)
Definition attr_of (e : entry) (nlink : Z) : attr :=
  A (e_size e) (e_mtime e) (e_link e) (mode_of e) (e_uid e) (e_gid e) (e_dmaj e) (e_dmin e) (e_xattrs e) nlink.

(* the FUSE layer reports NumLink 0 as 1 *)
Definition norm_nlink (n : Z) : Z := if n =? 0 then 1 else n.
Definition norm_attr (a : attr) : attr :=
  A (a_size a) (a_mtime a) (a_link a) (a_mode a) (a_uid a) (a_gid a) (a_dmaj a) (a_dmin a) (a_xattrs a) (norm_nlink (a_nlink a)).

Definition implicit_dir (rp : list Z) : entry :=
  E (rev rp) TDir 0 None 0 [] 493 0 0 0 0 [] 0 0 0 0 0 0.

(* ---------- sorted finite maps keyed by Z (Go maps whose iteration order is canonicalised by sorting) ---------- *)

Fixpoint ins {B} (k : Z) (v : B) (l : list (Z * B)) : list (Z * B) :=
  match l with
  | [] => [(k, v)]
  | (k', v') :: t => if k <? k' then (k, v) :: l else if k =? k' then (k, v) :: t else (k', v') :: ins k v t
  end.

Fixpoint find {B} (k : Z) (l : list (Z * B)) : option B :=
  match l with
  | [] => None
  | (k', v) :: t => if k =? k' then Some v else find k t
  end.

Fixpoint upd {B} (l : list B) (n : nat) (x : B) : list B :=
  match l, n with
  | [], _ => []
  | _ :: t, O => x :: t
  | h :: t, S n' => h :: upd t n' x
  end.

Fixpoint pfind {B} (p : list Z) (l : list (list Z * B)) : option B :=
  match l with
  | [] => None
  | (p', v) :: t => if path_eqb p p' then Some v else pfind p t
  end.

(* ---------- chunk tables ---------- *)

(* one chunk as a File sees it: (chunkOffset, chunkSize, digest) + where its data is (offset, innerOffset) *)
Record chunk := CH { c_choff : Z; c_size : Z; c_dg : Z; c_off : Z }.

(* sort.Search(n, f): smallest i in [0,n) with f i, by bisection exactly as the Go library does it
   (on a non-monotone predicate the answer is whatever the bisection lands on) *)
Fixpoint bsearch (fuel : nat) (f : nat -> bool) (i j : nat) : nat :=
  match fuel with
  | O => i
  | S fuel' =>
      if Nat.ltb i j then
        let h := Nat.div (i + j) 2 in
        if f h then bsearch fuel' f i h else bsearch fuel' f (S h) j
      else i
  end.

Definition chunk_pred (cs : list chunk) (off : Z) (i : nat) : bool :=
  match nth_error cs i with
  | Some c => (c_choff c >=? off) || ((off >? c_choff c) && (off <? c_choff c + c_size c))
  | None => true
  end.

(* file.ChunkEntryForOffset of both stores on a table of >= 2 entries (db: on any table) *)
Definition chunk_search (cs : list chunk) (off : Z) : option (Z * Z * Z) :=
  let i := bsearch (S (length cs)) (chunk_pred cs off) 0 (length cs) in
  match nth_error cs i with
  | Some c => Some (c_choff c, c_size c, c_dg c)
  | None => None
  end.

(* ---------- memory store: estargz initFields ---------- *)

Record mnode := MN { mn_e : entry; mn_nlink : Z; mn_ch : list (Z * nat) }.
Record mst := MS { ms_nodes : list mnode; ms_m : list (list Z * nat) }.

(* effective ChunkSize after initFields' defaulting; [lastreg] = Size of the last "reg" entry seen, if any *)
Definition mem_chsize (e : entry) (lastreg : option Z) : Z :=
  let c1 := match e_type e, lastreg with
            | TChunk, Some sz => if e_chsize e =? 0 then sz - e_choff e else e_chsize e
            | _, _ => e_chsize e
            end in
  if (c1 =? 0) && negb (e_size e =? 0) then e_size e else c1.

(* the digest a chunk is reported with: ChunkDigest, else the entry's Digest (both stores since fix-10) *)
Definition mem_dg (e : entry) : Z := if e_cdg e =? 0 then e_dg e else e_cdg e.

Definition mem_chunk (e : entry) (lastreg : option Z) : chunk :=
  CH (e_choff e) (mem_chsize e lastreg) (mem_dg e) (e_off e).

(* pass 1: node i = entry i (chunk entries get a node that is never referenced); m = name -> index, newest first;
   chunks = name -> entries of that file in TOC order *)
Record p1 := P1 { p1_nodes : list mnode; p1_m : list (list Z * nat); p1_chunks : list (list Z * list chunk);
                  p1_lastpath : list Z; p1_lastreg : option Z }.

Definition chunks_of (name : list Z) (cm : list (list Z * list chunk)) : list chunk :=
  match pfind name cm with Some l => l | None => [] end.

Definition pass1_step (s : p1) (e : entry) : p1 :=
  let i := length (p1_nodes s) in
  let lastreg := if etype_eqb (e_type e) TReg then Some (e_size e) else p1_lastreg s in
  if etype_eqb (e_type e) TChunk then
    let name := p1_lastpath s in
    let c := mem_chunk e lastreg in
    P1 (p1_nodes s ++ [MN e 0 []]) (p1_m s) ((name, chunks_of name (p1_chunks s) ++ [c]) :: p1_chunks s)
       name lastreg
  else
    let name := clean (e_name e) in
    let nl := if etype_eqb (e_type e) TDir then 1 else 0 in
    let cm := if etype_eqb (e_type e) TReg && (e_chsize e >? 0) && (e_chsize e <? e_size e)
              then (name, [mem_chunk e lastreg]) :: p1_chunks s else p1_chunks s in
    P1 (p1_nodes s ++ [MN e nl []]) ((name, i) :: p1_m s) cm name lastreg.

Definition pass1 (toc : list entry) : p1 := fold_left pass1_step toc (P1 [] [] [] [] None).

Definition m_nlink_inc (s : mst) (i : nat) : mst :=
  match nth_error (ms_nodes s) i with
  | Some n => MS (upd (ms_nodes s) i (MN (mn_e n) (mn_nlink n + 1) (mn_ch n))) (ms_m s)
  | None => s
  end.

Definition m_type (s : mst) (i : nat) : etype :=
  match nth_error (ms_nodes s) i with Some n => e_type (mn_e n) | None => TOther end.

(* TOCEntry.addChild *)
Definition m_add_child (s : mst) (pid : nat) (base : Z) (child : nat) : mst :=
  let s1 := if etype_eqb (m_type s child) TDir then m_nlink_inc s pid else s in
  match nth_error (ms_nodes s1) pid with
  | Some n => MS (upd (ms_nodes s1) pid (MN (mn_e n) (mn_nlink n) (ins base child (mn_ch n)))) (ms_m s1)
  | None => s1
  end.

(* getOrCreateDir: structural on the reversed path *)
Fixpoint m_goc (s : mst) (d : list Z) : mst * nat :=
  match pfind d (ms_m s) with
  | Some i => (s, i)
  | None =>
      let k := length (ms_nodes s) in
      let s1 := MS (ms_nodes s ++ [MN (implicit_dir d) 2 []]) ((d, k) :: ms_m s) in
      match d with
      | [] => (s1, k)
      | base :: par => let '(s2, pid) := m_goc s1 par in (m_add_child s2 pid base k, k)
      end
  end.

(* getSource: follow LinkName through m while the entry is a hardlink; None = error (missing target or loop) *)
Fixpoint m_source (fuel : nat) (s : mst) (i : nat) : option nat :=
  match nth_error (ms_nodes s) i with
  | None => None
  | Some n =>
      if etype_eqb (e_type (mn_e n)) THardlink then
        match fuel with
        | O => None
        | S fuel' =>
            match pfind (clean (e_hl (mn_e n))) (ms_m s) with
            | Some j => m_source fuel' s j
            | None => None
            end
        end
      else Some i
  end.

(* pass 2, one non-chunk entry (index i) *)
Definition pass2_step (acc : option mst) (ie : nat * entry) : option mst :=
  match acc with
  | None => None
  | Some s =>
      let '(i, e) := ie in
      if etype_eqb (e_type e) TChunk then Some s else
      match clean (e_name e) with
      | [] => Some (m_nlink_inc s i)   (* the entry is its own parent (root): counted as "." only, not linked *)
      | base :: par =>
          let '(s1, pid) := m_goc s par in
          let s2 := m_nlink_inc s1 i in
          if etype_eqb (e_type e) THardlink then
            match m_source (S (length (ms_m s2))) s2 i with
            | None => None
            | Some org => Some (m_add_child (m_nlink_inc s2 org) pid base org)
            end
          else Some (m_add_child s2 pid base i)
      end
  end.

Fixpoint number {B} (n : nat) (l : list B) : list (nat * B) :=
  match l with [] => [] | x :: t => (n, x) :: number (S n) t end.

Definition mem_build (toc : list entry) : option (mst * list (list Z * list chunk)) :=
  let p := pass1 toc in
  match fold_left pass2_step (number 0 toc) (Some (MS (p1_nodes p) (p1_m p))) with
  | None => None
  | Some s =>
      match ms_m s with
      | [] => Some (MS (ms_nodes s ++ [MN (implicit_dir []) 2 []]) [([], length (ms_nodes s))], p1_chunks p)
      | _ => Some (s, p1_chunks p)
      end
  end.

(* ---------- the canonical view ---------- *)

Record vnode := V {
  v_path : list Z;                      (* components from the root *)
  v_attr : attr;                        (* GetAttr, NumLink normalised *)
  v_off : Z;                            (* GetOffset *)
  v_ino : nat;                          (* index of the first path of this view that has the same node id *)
  v_reg : bool;                         (* OpenFile succeeds *)
  v_probes : list (option (Z * Z * Z))  (* ChunkEntryForOffset at the probe offsets *)
}.

(* raw walk result: vnode with the node identity instead of v_ino *)
Definition rnode := (nat * vnode)%type.

Fixpoint first_index (id : nat) (l : list rnode) (n : nat) : nat :=
  match l with
  | [] => n
  | (id', _) :: t => if Nat.eqb id id' then n else first_index id t (S n)
  end.

Definition assign_inos (l : list rnode) : list vnode :=
  map (fun r : rnode => let '(id, v) := r in
         V (v_path v) (v_attr v) (v_off v) (first_index id l 0) (v_reg v) (v_probes v)) l.

(* memory: Reader.ChunkEntryForOffset(name, off) through metadata/memory's file *)
Definition mem_chunk_at (s : mst) (cm : list (list Z * list chunk)) (i : nat) (off : Z) : option (Z * Z * Z) :=
  match nth_error (ms_nodes s) i with
  | None => None
  | Some n =>
      let e := mn_e n in
      if negb (etype_eqb (e_type e) TReg) then None else
      let ents := chunks_of (clean (e_name e)) cm in
      if Nat.ltb (length ents) 2 then
        let c := mem_chunk e None in
        if off >=? c_size c then None else Some (c_choff c, c_size c, c_dg c)
      else chunk_search ents off
  end.

Section MemWalk.
  Variable s : mst.
  Variable cm : list (list Z * list chunk).
  Variable probes : list Z.

  Definition mem_vnode (i : nat) (n : mnode) (path : list Z) : rnode :=
    let e := mn_e n in
    let reg := etype_eqb (e_type e) TReg in
    (i, V (rev path) (norm_attr (attr_of e (mn_nlink n))) (e_off e) 0 reg
          (if reg then map (mem_chunk_at s cm i) probes else [])).

  (* path is reversed here *)
  Fixpoint mem_walk (fuel : nat) (i : nat) (path : list Z) : list rnode :=
    match fuel with
    | O => []
    | S fuel' =>
        match nth_error (ms_nodes s) i with
        | None => []
        | Some n =>
            mem_vnode i n path :: flat_map (fun kc : Z * nat => mem_walk fuel' (snd kc) (fst kc :: path)) (mn_ch n)
        end
    end.
End MemWalk.

Definition result := option (list vnode).

(* Fuel of the tree walks (the Go code recurses without a bound): a node at depth d is reached with fuel d + 1, and the
   depth of a node is at most the number of components of the longest entry name. *)
Definition walk_fuel (toc : list entry) : nat :=
  S (S (fold_right (fun e m => Nat.max (length (e_name e)) m) O toc)).

Definition view_mem (toc : list entry) (probes : list Z) : result :=
  match mem_build toc with
  | None => None
  | Some (s, cm) =>
      match pfind [] (ms_m s) with
      | None => None
      | Some root => Some (assign_inos (mem_walk s cm probes (walk_fuel toc) root []))
      end
  end.

(* ---------- db store ---------- *)

(* a node bucket: a key is present only when writeAttr saw a non-zero value (or putInt wrote it) *)
Record bucket := B {
  b_size : option Z; b_mtime : option Z; b_link : option Z; b_mode : option Z;
  b_uid : option Z; b_gid : option Z; b_dmaj : option Z; b_dmin : option Z;
  b_xfirst : option (Z * Z); b_xextra : list (Z * Z);
  b_nlink : option Z         (* stored value = NumLink - 1 *)
}.

Definition put_nz (v : Z) : option Z := if v =? 0 then None else Some v.

(* writeAttr into a fresh bucket (a new node, or an existing directory after resetAttr) *)
Definition write_attr (a : attr) : bucket :=
  B (put_nz (a_size a)) (a_mtime a) (put_nz (a_link a)) (put_nz (a_mode a))
    (put_nz (a_uid a)) (put_nz (a_gid a)) (put_nz (a_dmaj a)) (put_nz (a_dmin a))
    (match a_xattrs a with x :: _ => Some x | [] => None end)
    (match a_xattrs a with _ :: r => r | [] => [] end)
    (put_nz (a_nlink a - 1)).

Definition dflt (o : option Z) : Z := match o with Some v => v | None => 0 end.

(* readAttr *)
Definition read_attr (b : bucket) : attr :=
  A (dflt (b_size b)) (b_mtime b) (dflt (b_link b)) (dflt (b_mode b))
    (dflt (b_uid b)) (dflt (b_gid b)) (dflt (b_dmaj b)) (dflt (b_dmin b))
    (match b_xfirst b with Some x => x :: b_xextra b | None => b_xextra b end)
    (match b_nlink b with Some n => n + 1 | None => 0 end).

Definition read_numlink (b : bucket) : Z := dflt (b_nlink b) + 1.
Definition bump_nlink (b : bucket) : bucket :=
  B (b_size b) (b_mtime b) (b_link b) (b_mode b) (b_uid b) (b_gid b) (b_dmaj b) (b_dmin b) (b_xfirst b) (b_xextra b)
    (Some (dflt (b_nlink b) + 1)).

Record dnode := DN { dn_b : bucket; dn_ch : list (Z * nat); dn_chunks : list chunk }.
(* node id = index + 1; index 0 is the root *)
Record dst := DS { ds_nodes : list dnode; ds_last : option nat; ds_lastsize : Z }.

Definition root_attr : attr := A 0 None 0 (493 + 2147483648) 0 0 0 0 [] 2.

Definition d_init : dst := DS [DN (write_attr root_attr) [] []] None 0.

Definition d_children (s : dst) (i : nat) : list (Z * nat) :=
  match nth_error (ds_nodes s) i with Some n => dn_ch n | None => [] end.

(* getIDByName *)
Fixpoint d_find (s : dst) (p : list Z) : option nat :=
  match p with
  | [] => Some O
  | base :: par =>
      match d_find s par with
      | Some pid => find base (d_children s pid)
      | None => None
      end
  end.

Definition d_set_nodes (s : dst) (ns : list dnode) : dst := DS ns (ds_last s) (ds_lastsize s).

Definition d_upd_bucket (s : dst) (i : nat) (f : bucket -> bucket) : dst :=
  match nth_error (ds_nodes s) i with
  | Some n => d_set_nodes s (upd (ds_nodes s) i (DN (f (dn_b n)) (dn_ch n) (dn_chunks n)))
  | None => s
  end.

(* setChild *)
Definition d_set_child (s : dst) (pid : nat) (base : Z) (id : nat) (isdir : bool) : dst :=
  let s1 := match nth_error (ds_nodes s) pid with
            | Some n => d_set_nodes s (upd (ds_nodes s) pid (DN (dn_b n) (ins base id (dn_ch n)) (dn_chunks n)))
            | None => s
            end in
  if isdir then d_upd_bucket s1 pid bump_nlink else s1.

Definition d_new (s : dst) (a : attr) : dst * nat :=
  (d_set_nodes s (ds_nodes s ++ [DN (write_attr a) [] []]), length (ds_nodes s)).

(* getOrCreateDir *)
Fixpoint d_goc (s : dst) (d : list Z) : dst * nat :=
  match d_find s d with
  | Some i => (s, i)
  | None =>
      let '(s1, k) := d_new s root_attr in
      match d with
      | [] => (s1, k)
      | base :: par => let '(s2, pid) := d_goc s1 par in (d_set_child s2 pid base k true, k)
      end
  end.

Definition db_chsize (e : entry) (lastsize : Z) : Z :=
  let c1 := if etype_eqb (e_type e) TChunk && (e_chsize e =? 0) then lastsize - e_choff e else e_chsize e in
  if (c1 =? 0) && negb (e_size e =? 0) then e_size e else c1.

Definition d_add_chunk (s : dst) (e : entry) (cs : Z) : dst :=
  if (etype_eqb (e_type e) TReg && (e_size e >? 0)) || (etype_eqb (e_type e) TChunk && (cs >? 0)) then
    match ds_last s with
    | Some i =>
        match nth_error (ds_nodes s) i with
        | Some n => d_set_nodes s (upd (ds_nodes s) i (DN (dn_b n) (dn_ch n) (dn_chunks n ++ [CH (e_choff e) cs (mem_dg e) (e_off e)])))
        | None => s
        end
    | None => s
    end
  else s.

(* initNodes, one entry; None = the transaction fails, the layer is rejected *)
Definition db_step (acc : option dst) (e : entry) : option dst :=
  match acc with
  | None => None
  | Some s =>
      let name := clean (e_name e) in
      if etype_eqb (e_type e) TChunk then
        match ds_last s with
        | None => None                    (* "chunk entry must not be the topmost" *)
        | Some _ => Some (d_add_chunk s e (db_chsize e (ds_lastsize s)))
        end
      else
        let cs := db_chsize e (ds_lastsize s) in
        let r :=
          if etype_eqb (e_type e) THardlink then
            match d_find s (clean (e_hl e)) with
            | None => None
            | Some id => Some (d_upd_bucket s id bump_nlink, id)
            end
          else
            match (if etype_eqb (e_type e) TDir then d_find s name else None) with
            | Some id =>
                let nl := match nth_error (ds_nodes s) id with Some n => read_numlink (dn_b n) | None => 1 end in
                Some (d_upd_bucket s id (fun _ => write_attr (attr_of e nl)), id)
            | None => Some (d_new s (attr_of e (if etype_eqb (e_type e) TDir then 2 else 1)))
            end in
        match r with
        | None => None
        | Some (s1, id) =>
            let s2 := match name with
                      | [] => s1
                      | base :: par => let '(s', pid) := d_goc s1 par in d_set_child s' pid base id (etype_eqb (e_type e) TDir)
                      end in
            Some (d_add_chunk (DS (ds_nodes s2) (Some id) (e_size e)) e cs)
        end
  end.

Definition db_build (toc : list entry) : option dst := fold_left db_step toc (Some d_init).

(* readChunks: first chunk + extras keyed by chunkOffset, sorted by chunkOffset, sizes recomputed from the next offset *)
Fixpoint ins_chunk (replace : bool) (c : chunk) (l : list chunk) : list chunk :=
  match l with
  | [] => [c]
  | c' :: t => if c_choff c <? c_choff c' then c :: l
               else if replace && (c_choff c =? c_choff c') then c :: t
               else c' :: ins_chunk replace c t
  end.

Fixpoint recompute (l : list chunk) (size : Z) : list chunk :=
  match l with
  | [] => []
  | c :: t =>
      let nxt := match t with c' :: _ => c_choff c' | [] => size end in
      CH (c_choff c) (nxt - c_choff c) (c_dg c) (c_off c) :: recompute t size
  end.

Definition read_chunks (stored : list chunk) (size : Z) : list chunk :=
  match stored with
  | [] => []
  | first :: extras => recompute (ins_chunk false first (fold_left (fun acc c => ins_chunk true c acc) extras [])) size
  end.

Section DbWalk.
  Variable s : dst.
  Variable probes : list Z.

  Definition db_vnode (i : nat) (n : dnode) (path : list Z) : rnode :=
    let a := read_attr (dn_b n) in
    let cs := read_chunks (dn_chunks n) (dflt (b_size (dn_b n))) in
    let reg := is_regular (dflt (b_mode (dn_b n))) in
    (i, V (rev path) (norm_attr a) (match cs with c :: _ => c_off c | [] => 0 end) 0 reg
          (if reg then map (chunk_search cs) probes else [])).

  Fixpoint db_walk (fuel : nat) (i : nat) (path : list Z) : list rnode :=
    match fuel with
    | O => []
    | S fuel' =>
        match nth_error (ds_nodes s) i with
        | None => []
        | Some n =>
            db_vnode i n path :: flat_map (fun kc : Z * nat => db_walk fuel' (snd kc) (fst kc :: path)) (dn_ch n)
        end
    end.
End DbWalk.

(* a TOC object without an entries array ("entries":null) is the empty entry list in both stores (fix-9) *)
Definition view_db (toc : list entry) (probes : list Z) : result :=
  match db_build toc with
  | None => None
  | Some s => Some (assign_inos (db_walk s probes (walk_fuel toc) O []))
  end.

(* ---------- the multi-layer database (one bolt file) ---------- *)

(* filesystems/<fsID> -> the layer's state; ids come from an arbitrary stream (xid), a taken id is retried *)
Definition ldb := list (Z * dst).

Fixpoint l_find (k : Z) (d : ldb) : option dst :=
  match d with
  | [] => None
  | (k', v) :: t => if k =? k' then Some v else l_find k t
  end.

Fixpoint l_del (k : Z) (d : ldb) : ldb :=
  match d with
  | [] => []
  | (k', v) :: t => if k =? k' then l_del k t else (k', v) :: l_del k t
  end.

Inductive lop :=
| LOpen (cands : list Z) (toc : list entry)   (* NewReader: candidate fs ids in the order xid produces them *)
| LClose (fsid : Z)
| LQuery (fsid : Z).                          (* any read-only call *)

(* init: the first candidate (of at most 100) whose bucket does not exist *)
Fixpoint pick_id (d : ldb) (cands : list Z) (tries : nat) : option Z :=
  match tries, cands with
  | S n, c :: t => match l_find c d with None => Some c | Some _ => pick_id d t n end
  | _, _ => None
  end.

Definition l_step (d : ldb) (o : lop) : ldb :=
  match o with
  | LOpen cands toc =>
      match pick_id d cands 100 with
      | None => d
      | Some id =>
          match db_build toc with
          | Some s => (id, s) :: d
          | None => (id, d_init) :: d   (* the failed transaction rolls back; the root bucket of the layer stays *)
          end
      end
  | LClose id => l_del id d
  | LQuery _ => d
  end.

Definition l_run (d : ldb) (os : list lop) : ldb := fold_left l_step os d.

Definition lop_touches (id : Z) (o : lop) : bool :=
  match o with LClose i => i =? id | _ => false end.

(* what a reader of layer [id] can observe *)
Definition l_view (d : ldb) (id : Z) (probes : list Z) : result :=
  match l_find id d with
  | None => None
  | Some s => Some (assign_inos (db_walk s probes (S (length (ds_nodes s))) O []))
  end.

(* ---------- TOC digest ---------- *)

Section Digest.
  Variable H : list Z -> Z.
  (* memory (after the repair): the JSON decoder pulls [k] bytes through the tee, the rest is drained into the same hash *)
  Definition digest_mem (k : nat) (toc_bytes : list Z) : Z := H (firstn k toc_bytes ++ skipn k toc_bytes).
  (* memory before the repair hashed only what the decoder had read *)
  Definition digest_mem_unrepaired (k : nat) (toc_bytes : list Z) : Z := H (firstn k toc_bytes).
  (* db: the whole stream is spooled to a file through the tee *)
  Definition digest_db (toc_bytes : list Z) : Z := H toc_bytes.
End Digest.

(* ---------- equality tests for the correspondence check ---------- *)

Definition optz_eqb (a b : option Z) : bool :=
  match a, b with Some x, Some y => x =? y | None, None => true | _, _ => false end.

Fixpoint zz_eqb (a b : list (Z * Z)) : bool :=
  match a, b with
  | [], [] => true
  | (x, y) :: a', (x', y') :: b' => (x =? x') && (y =? y') && zz_eqb a' b'
  | _, _ => false
  end.

Definition attr_eqb (a b : attr) : bool :=
  (a_size a =? a_size b) && optz_eqb (a_mtime a) (a_mtime b) && (a_link a =? a_link b) && (a_mode a =? a_mode b)
  && (a_uid a =? a_uid b) && (a_gid a =? a_gid b) && (a_dmaj a =? a_dmaj b) && (a_dmin a =? a_dmin b)
  && zz_eqb (a_xattrs a) (a_xattrs b) && (a_nlink a =? a_nlink b).

Definition probe_eqb (a b : option (Z * Z * Z)) : bool :=
  match a, b with
  | None, None => true
  | Some (x, y, z), Some (x', y', z') => (x =? x') && (y =? y') && (z =? z')
  | _, _ => false
  end.

Fixpoint list_eqb {B} (eqb : B -> B -> bool) (a b : list B) : bool :=
  match a, b with
  | [], [] => true
  | x :: a', y :: b' => eqb x y && list_eqb eqb a' b'
  | _, _ => false
  end.

Definition vnode_eqb (a b : vnode) : bool :=
  list_eqb Z.eqb (v_path a) (v_path b) && attr_eqb (v_attr a) (v_attr b) && (v_off a =? v_off b)
  && Nat.eqb (v_ino a) (v_ino b) && Bool.eqb (v_reg a) (v_reg b) && list_eqb probe_eqb (v_probes a) (v_probes b).

Definition result_eqb (a b : result) : bool :=
  match a, b with
  | None, None => true
  | Some x, Some y => list_eqb vnode_eqb x y
  | _, _ => false
  end.

(* a case = (decoded TOC, probe offsets, view observed on the memory store, view observed on the db store) *)
Definition case := (list entry * list Z * result * result)%type.

Definition case_ok (c : case) : bool :=
  let '(toc, probes, om, od) := c in
  result_eqb (view_mem toc probes) om && result_eqb (view_db toc probes) od.

Fixpoint mismatches_from (n : nat) (cs : list case) : list nat :=
  match cs with
  | [] => []
  | c :: t => if case_ok c then mismatches_from (S n) t else n :: mismatches_from (S n) t
  end.
Definition mismatches := mismatches_from 0.

(* ---------- one file in isolation: a "reg" entry [r] followed by its "chunk" entries [cs] ----------
   These are the per-file slices of the two interpreters above (same functions mem_chunk / chunk_search / read_chunks):
   what pass1 puts into r.chunks[name] and what initNodes appends to md[id].chunks for this run of entries. *)
Definition file_mem_ents (r : entry) (cs : list entry) : list chunk :=
  (if (e_chsize r >? 0) && (e_chsize r <? e_size r) then [mem_chunk r None] else [])
  ++ map (fun c => mem_chunk c (Some (e_size r))) cs.

Definition file_mem_lookup (r : entry) (cs : list entry) (off : Z) : option (Z * Z * Z) :=
  let ents := file_mem_ents r cs in
  if Nat.ltb (length ents) 2 then
    let c := mem_chunk r None in
    if off >=? c_size c then None else Some (c_choff c, c_size c, c_dg c)
  else chunk_search ents off.

Definition db_chunk (e : entry) (lastsize : Z) : chunk := CH (e_choff e) (db_chsize e lastsize) (mem_dg e) (e_off e).

Definition file_db_stored (r : entry) (cs : list entry) : list chunk :=
  (if e_size r >? 0 then [db_chunk r (e_size r)] else [])
  ++ filter (fun c => c_size c >? 0) (map (fun c => db_chunk c (e_size r)) cs).

Definition file_db_lookup (r : entry) (cs : list entry) (off : Z) : option (Z * Z * Z) :=
  chunk_search (read_chunks (file_db_stored r cs) (e_size r)) off.

(* ---------- spec-conforming TOCs (explicit boolean predicate) ---------- *)

Definition nonchunk (toc : list entry) : list entry := filter (fun e => negb (etype_eqb (e_type e) TChunk)) toc.

(* p is a proper ancestor of q (both reversed paths) *)
Fixpoint is_suffix_proper (p q : list Z) : bool :=
  match q with
  | [] => false
  | _ :: q' => path_eqb p q' || is_suffix_proper p q'
  end.

Fixpoint ssortedb (l : list chunk) : bool :=
  match l with
  | [] => true
  | c :: t => (match t with c' :: _ => c_choff c <? c_choff c' | [] => true end) && ssortedb t
  end.
Fixpoint tilesb (l : list chunk) (size : Z) : bool :=
  match l with
  | [] => true
  | c :: t => (c_size c =? (match t with c' :: _ => c_choff c' | [] => size end) - c_choff c) && (0 <? c_size c) && tilesb t size
  end.

(* split the TOC into (non-chunk entry, its chunk entries); None when the TOC starts with a chunk *)
Fixpoint groups (toc : list entry) (cur : option (entry * list entry)) (acc : list (entry * list entry)) : option (list (entry * list entry)) :=
  match toc with
  | [] => Some (rev (match cur with Some g => g :: acc | None => acc end))
  | e :: t =>
      if etype_eqb (e_type e) TChunk then
        match cur with
        | Some (h, cs) => groups t (Some (h, cs ++ [e])) acc
        | None => None
        end
      else groups t (Some (e, [])) (match cur with Some g => g :: acc | None => acc end)
  end.

Definition group_ok (g : entry * list entry) : bool :=
  let '(h, cs) := g in
  match cs with
  | [] => if etype_eqb (e_type h) TReg && (0 <? e_size h)
          then (e_choff h =? 0) && tilesb [mem_chunk h None] (e_size h) else true
  | _ => etype_eqb (e_type h) TReg && (e_choff h =? 0)
         && forallb (fun c => e_size c =? 0) cs
         && let tb := mem_chunk h None :: map (fun c => mem_chunk c (Some (e_size h))) cs in
            ssortedb tb && tilesb tb (e_size h)
  end.

Definition conforming (toc : list entry) : bool :=
  let nc := nonchunk toc in
  forallb (fun e => negb (etype_eqb (e_type e) TOther)) toc
  && match groups toc None [] with Some gs => forallb group_ok gs | None => false end
  && forallb (fun e =>
       if etype_eqb (e_type e) TDir then true else
       let n := clean (e_name e) in
       negb (path_eqb n [])                                                              (* only a directory may be the root *)
       && (Nat.eqb (length (filter (fun e' => path_eqb (clean (e_name e')) n) nc)) 1)    (* its name is not repeated *)
       && negb (existsb (fun e' => is_suffix_proper n (clean (e_name e'))) nc)           (* nothing lives below it *)
       && (if etype_eqb (e_type e) THardlink then                                        (* the target exists and is no directory *)
             existsb (fun e' => path_eqb (clean (e_name e')) (clean (e_hl e)) && negb (etype_eqb (e_type e') TDir)) nc
             && negb (existsb (fun e' => path_eqb (clean (e_name e')) (clean (e_hl e)) && etype_eqb (e_type e') TDir) nc)
           else true)) nc.

(* db GetAttr(root) before the background initialisation has run *)
Definition db_early_root_attr : attr := norm_attr (read_attr (write_attr root_attr)).
Definition root_attr_of (r : result) : option attr :=
  match r with Some (v :: _) => Some (v_attr v) | _ => None end.

(* ---------- byte level of the integer attributes: encoding/binary PutVarint / Varint (db.go encodeInt, readAttr) ---------- *)

(* zig-zag: ux = uint64(x) << 1, complemented when x < 0 *)
Definition zigzag (x : Z) : Z := if x <? 0 then - 2 * x - 1 else 2 * x.
Definition unzigzag (u : Z) : Z := if u mod 2 =? 0 then u / 2 else - (u / 2) - 1.   (* x = ux >> 1; complemented when ux & 1 *)

(* PutUvarint into a buffer of [n] bytes (binary.MaxVarintLen64 = 10): 7 bits per byte, least significant group first,
   bit 7 = "more follows" *)
Fixpoint put_uvarint (n : nat) (u : Z) : list Z :=
  match n with
  | O => []
  | S n' => if u <? 128 then [u] else (u mod 128 + 128) :: put_uvarint n' (u / 128)
  end.

(* Uvarint: x |= (b & 0x7f) << s for every byte with bit 7 set, then the final byte; the groups occupy disjoint bits,
   so the OR is a sum. None = the buffer ends before a final byte. *)
Fixpoint uvarint (l : list Z) : option Z :=
  match l with
  | [] => None
  | b :: t => if b <? 128 then Some b else option_map (fun r => (b - 128) + 128 * r) (uvarint t)
  end.

Definition encode_int (x : Z) : list Z := put_uvarint 10 (zigzag x).
Definition decode_int (l : list Z) : option Z := option_map unzigzag (uvarint l).

(* ---------- classes of TOCs for which tree agreement is proved (explicit boolean predicates) ---------- *)

Definition known_type (t : etype) : bool :=
  match t with TDir | TReg | TSymlink | TChar | TBlock | TFifo => true | _ => false end.

(* one entry: known non-link type, permission bits below the type bits, not the root, a single-chunk file *)
Definition entry_okb (e : entry) : bool :=
  known_type (e_type e) && (0 <=? e_perm e) && (e_perm e <? 16777216) && negb (path_eqb (clean (e_name e)) [])
  && (if etype_eqb (e_type e) TReg
      then (0 <=? e_size e) && (e_choff e =? 0) && ((e_chsize e =? 0) || (e_chsize e =? e_size e))
           && (negb (e_size e =? 0) || (e_off e =? 0))
      else e_off e =? 0).

Fixpoint nodup_paths (l : list (list Z)) : bool :=
  match l with
  | [] => true
  | p :: t => negb (existsb (path_eqb p) t) && nodup_paths t
  end.

(* implicit parent directories allowed: distinct names, and an entry whose name is an ancestor of another entry's
   name comes before it *)
Definition implicit_tocb (toc : list entry) : bool :=
  forallb entry_okb toc
  && nodup_paths (map (fun e => clean (e_name e)) toc)
  && forallb (fun je : nat * entry =>
       forallb (fun ke : nat * entry =>
         negb (is_suffix_proper (clean (e_name (snd ke))) (clean (e_name (snd je)))) || Nat.ltb (fst ke) (fst je))
         (number 0 toc)) (number 0 toc).

(* an explicit root entry ("./", "/", "."): a directory whose cleaned name is empty *)
Definition root_entryb (e : entry) : bool :=
  path_eqb (clean (e_name e)) [] && etype_eqb (e_type e) TDir && (0 <=? e_perm e) && (e_perm e <? 16777216) && (e_off e =? 0).

(* implicit parent directories AND an explicit root entry allowed (the ordering condition puts the root entry first) *)
Definition rooted_tocb (toc : list entry) : bool :=
  forallb (fun e => entry_okb e || root_entryb e) toc
  && nodup_paths (map (fun e => clean (e_name e)) toc)
  && forallb (fun je : nat * entry =>
       forallb (fun ke : nat * entry =>
         negb (is_suffix_proper (clean (e_name (snd ke))) (clean (e_name (snd je)))) || Nat.ltb (fst ke) (fst je))
         (number 0 toc)) (number 0 toc).

(* a hardlink entry: its name is not the root; its target is checked positionally in hardlink_tocb *)
Definition link_entryb (e : entry) : bool :=
  etype_eqb (e_type e) THardlink && negb (path_eqb (clean (e_name e)) []).

(* implicit parents, an optional explicit root entry AND backward hardlinks: every hardlink names (after cleaning) an
   EARLIER entry that is not a directory (it may itself be a hardlink: chains), whatever has entries below it is a directory *)
Definition hardlink_tocb (toc : list entry) : bool :=
  forallb (fun e => entry_okb e || root_entryb e || link_entryb e) toc
  && nodup_paths (map (fun e => clean (e_name e)) toc)
  && forallb (fun je : nat * entry =>
       forallb (fun ke : nat * entry =>
         negb (is_suffix_proper (clean (e_name (snd ke))) (clean (e_name (snd je))))
         || (Nat.ltb (fst ke) (fst je) && etype_eqb (e_type (snd ke)) TDir))
         (number 0 toc)
       && (negb (etype_eqb (e_type (snd je)) THardlink)
           || existsb (fun ke : nat * entry =>
                Nat.ltb (fst ke) (fst je) && path_eqb (clean (e_name (snd ke))) (clean (e_hl (snd je)))
                && negb (etype_eqb (e_type (snd ke)) TDir)) (number 0 toc)))
       (number 0 toc).
