(* The filesystem view a tar archive describes (specification level), entry-name cleaning and the
   conversion of attributes to FUSE (C02).  Executable definitions only; proofs are in Proofs/TarView.v.

   Sources:
     - [clean_name]    estargz/estargz.go cleanEntryName = strings.TrimPrefix(path.Clean("/"+name), "/"),
                       represented as the list of path components of the result ([] = root);
     - [dedup]         estargz/build.go importTar (an entry replaces every earlier entry of the same clean name)
                       + the reserved names dropped by importTar / appendTar;
     - [view_of_tar]   flat map  clean path -> node  that estargz initFields + metadata/memory build:
                       the last duplicate wins, missing parents are 0755 directories, a hardlink denotes its
                       (transitively resolved) target, link counts as initFields/addChild compute them;
     - [stat_mode]     estargz/types.go fileInfo.Mode (tar header mode + entry type -> os.FileMode);
     - [fuse_mode], [fuse_attr]  fs/layer/node.go fileModeToSystemMode, entryToAttr. *)
From Coq Require Import List ZArith Bool Arith String Ascii.
From SV Require Import Gen.Consts Model.ChunkRead.
Import ListNotations.
Open Scope Z_scope.

Definition path := list string.
Definition path_eqb (a b : path) : bool := list_eqb String.eqb a b.

(* ---------- names ---------- *)
Definition slash : ascii := "/"%char.

(* strings.Split(s, "/") *)
Fixpoint split_slash (s : string) : list string :=
  match s with
  | EmptyString => [EmptyString]
  | String c r =>
      if Ascii.eqb c slash then EmptyString :: split_slash r
      else match split_slash r with
           | h :: t => String c h :: t
           | [] => [String c EmptyString]
           end
  end.

(* path.Clean on a rooted path, as a stack of components (most recent first) *)
Fixpoint clean_stack (acc : list string) (cs : list string) : list string :=
  match cs with
  | [] => acc
  | c :: t =>
      if String.eqb c ""%string || String.eqb c "."%string then clean_stack acc t
      else if String.eqb c ".."%string then clean_stack (tl acc) t
      else clean_stack (c :: acc) t
  end.
Definition clean_comps (cs : list string) : path := rev (clean_stack [] cs).
Definition clean_name (s : string) : path := clean_comps (split_slash s).

(* strings.Join(p, "/") *)
Fixpoint join_slash (p : path) : string :=
  match p with
  | [] => EmptyString
  | [c] => c
  | c :: t => (c ++ String slash (join_slash t))%string
  end.

Fixpoint string_of_bytes (b : list N) : string :=
  match b with
  | [] => EmptyString
  | x :: t => String (ascii_of_N x) (string_of_bytes t)
  end.

(* names that never reach the TOC: importTar drops the landmarks, appendTar drops the TOC file *)
Definition reserved (p : path) : bool :=
  path_eqb p [string_of_bytes prefetch_landmark] || path_eqb p [string_of_bytes no_prefetch_landmark]
  || path_eqb p [string_of_bytes toc_tar_name].

(* ---------- tar entries ---------- *)
Inductive kind := KReg | KDir | KSymlink | KHardlink | KChar | KBlock | KFifo.
Definition kind_eqb (a b : kind) : bool :=
  match a, b with
  | KReg, KReg | KDir, KDir | KSymlink, KSymlink | KHardlink, KHardlink | KChar, KChar | KBlock, KBlock | KFifo, KFifo => true
  | _, _ => false
  end.

Record tent := mkTent {
  t_name : string;
  t_kind : kind;
  t_mode : Z;                      (* tar header Mode *)
  t_uid : Z; t_gid : Z;
  t_mtime : Z;                     (* seconds since the epoch *)
  t_link : string;                 (* Linkname (symlink target / hardlink target) *)
  t_maj : Z; t_min : Z;
  t_xattrs : list (string * string);   (* SCHILY.xattr.* PAX records, prefix removed *)
  t_data : bytes                   (* payload of a regular file *)
}.

Definition cname (e : tent) : path := clean_name (t_name e).

Fixpoint dedup_acc (es acc : list tent) : list tent :=
  match es with
  | [] => acc
  | e :: t => dedup_acc t (filter (fun x => negb (path_eqb (cname x) (cname e))) acc ++ [e])
  end.
Definition dedup (es : list tent) : list tent :=
  filter (fun e => negb (reserved (cname e))) (dedup_acc es []).

Definition find_ent (es : list tent) (p : path) : option tent :=
  find (fun e => path_eqb (cname e) p) es.

(* Reader.getSource: follow hardlinks; [None] = target missing (estargz.Open fails) or a cycle *)
Fixpoint resolve (fuel : nat) (es : list tent) (e : tent) : option tent :=
  match fuel with
  | O => match t_kind e with KHardlink => None | _ => Some e end
  | S f =>
      match t_kind e with
      | KHardlink =>
          match find_ent es (clean_name (t_link e)) with
          | Some t => resolve f es t
          | None => None
          end
      | _ => Some e
      end
  end.
Definition resolve_in (es : list tent) (e : tent) : option tent := resolve (List.length es) es e.

(* ---------- os.FileMode and POSIX mode ---------- *)
Definition ModeDir := 2147483648.
Definition ModeSymlink := 134217728.
Definition ModeDevice := 67108864.
Definition ModeNamedPipe := 33554432.
Definition ModeSocket := 16777216.
Definition ModeSetuid := 8388608.
Definition ModeSetgid := 4194304.
Definition ModeCharDevice := 2097152.
Definition ModeSticky := 1048576.
Definition ModeIrregular := 524288.
Definition ModeType := Z.lor ModeDir (Z.lor ModeSymlink (Z.lor ModeNamedPipe (Z.lor ModeSocket
                        (Z.lor ModeDevice (Z.lor ModeCharDevice ModeIrregular))))).
Definition ModePerm := 511.

Definition S_IFBLK := 24576.  Definition S_IFCHR := 8192.  Definition S_IFDIR := 16384.
Definition S_IFIFO := 4096.   Definition S_IFLNK := 40960. Definition S_IFREG := 32768.
Definition S_IFSOCK := 49152.
Definition S_ISUID := 2048.   Definition S_ISGID := 1024.  Definition S_ISVTX := 512.

(* fileInfo.Mode: (&tar.Header{Mode: m}).FileInfo().Mode() & (perm|setuid|setgid|sticky), then the type of the entry *)
Definition stat_mode (k : kind) (m : Z) : Z :=
  let perm := Z.land m ModePerm in
  let a := if Z.testbit m 11 then Z.lor perm ModeSetuid else perm in
  let b := if Z.testbit m 10 then Z.lor a ModeSetgid else a in
  let c := if Z.testbit m 9 then Z.lor b ModeSticky else b in
  match k with
  | KDir => Z.lor c ModeDir
  | KSymlink => Z.lor c ModeSymlink
  | KChar => Z.lor c (Z.lor ModeDevice ModeCharDevice)
  | KBlock => Z.lor c ModeDevice
  | KFifo => Z.lor c ModeNamedPipe
  | KReg | KHardlink => c
  end.

(* fileModeToSystemMode *)
Definition fuse_mode (m : Z) : Z :=
  let res := Z.land m ModePerm in
  let ty := Z.land m ModeType in
  let res :=
    if ty =? ModeDevice then Z.lor res S_IFBLK
    else if ty =? Z.lor ModeDevice ModeCharDevice then Z.lor res S_IFCHR
    else if ty =? ModeDir then Z.lor res S_IFDIR
    else if ty =? ModeNamedPipe then Z.lor res S_IFIFO
    else if ty =? ModeSymlink then Z.lor res S_IFLNK
    else if ty =? ModeSocket then Z.lor res S_IFSOCK
    else Z.lor res S_IFREG in
  let res := if negb (Z.land m ModeSetuid =? 0) then Z.lor res S_ISUID else res in
  let res := if negb (Z.land m ModeSetgid =? 0) then Z.lor res S_ISGID else res in
  if negb (Z.land m ModeSticky =? 0) then Z.lor res S_ISVTX else res.

(* the POSIX st_mode a tar entry of kind k and header mode m describes *)
Definition posix_ifmt (k : kind) : Z :=
  match k with
  | KDir => S_IFDIR | KSymlink => S_IFLNK | KChar => S_IFCHR | KBlock => S_IFBLK | KFifo => S_IFIFO
  | KReg | KHardlink => S_IFREG
  end.
Definition posix_mode (k : kind) (m : Z) : Z := Z.lor (posix_ifmt k) (Z.land m 4095).

(* golang.org/x/sys/unix.Mkdev (Linux), then the uint32 conversion of entryToAttr *)
Definition mkdev (major minor : Z) : Z :=
  Z.lor (Z.lor (Z.shiftl (Z.land major 4095) 8) (Z.shiftl (Z.land major 4294963200) 32))
        (Z.lor (Z.land minor 255) (Z.shiftl (Z.land minor 4294967040) 12)).
Definition u32 (z : Z) : Z := z mod 4294967296.
Definition u64 (z : Z) : Z := z mod 18446744073709551616.

(* ---------- nodes of the view ---------- *)
Definition zero_time : Z := -62135596800.      (* time.Time{}.Unix() *)

Record vnode := mkVnode {
  v_kind : kind;
  v_mode : Z;                      (* os.FileMode *)
  v_uid : Z; v_gid : Z;
  v_size : Z;
  v_mtime : Z;
  v_link : string;
  v_maj : Z; v_min : Z;
  v_xattrs : list (string * string);
  v_nlink : Z;
  v_data : bytes;
  v_owner : path                   (* clean name of the entry that owns the node (hardlinks share it) *)
}.

(* out of entryToAttr: (Mode, Size, Blocks, Rdev, Nlink, Uid, Gid, Mtime) *)
Definition fattr := (Z * Z * Z * Z * Z * Z * Z * Z)%type.
Definition fuse_attr (mode size : Z) (link : string) (maj mi nlink uid gid mtime : Z) : fattr :=
  let sz := if negb (Z.land mode ModeSymlink =? 0) then Z.of_nat (String.length link) else u64 size in
  let blocks := (sz + fuse_block_size - 1) / fuse_block_size * fuse_physical_block_ratio in
  let nl := if u32 nlink =? 0 then 1 else u32 nlink in
  (fuse_mode mode, sz, blocks, u32 (mkdev (u32 maj) (u32 mi)), nl, u32 uid, u32 gid, u64 mtime).

Definition prefixes (q : path) : list path := map (fun n => firstn n q) (seq 0 (List.length q)).
(* every path of the view, with repetitions: the root, every entry and every proper ancestor of an entry *)
Definition all_paths (es : list tent) : list path :=
  [] :: flat_map (fun e => prefixes (cname e) ++ [cname e]) es.

Fixpoint nodup_paths (l : list path) : list path :=
  match l with
  | [] => []
  | p :: t => if existsb (path_eqb p) t then nodup_paths t else p :: nodup_paths t
  end.

Definition is_dir_at (es : list tent) (p : path) : bool :=
  match find_ent es p with
  | Some e => match resolve_in es e with Some t => kind_eqb (t_kind t) KDir | None => false end
  | None => existsb (path_eqb p) (all_paths es)
  end.

Definition child_dirs (es : list tent) (p : path) : Z :=
  zlen (filter (fun q => negb (path_eqb q []) && path_eqb (removelast q) p && is_dir_at es q)
               (nodup_paths (all_paths es))).

Definition links_to (es : list tent) (p : path) : Z :=
  zlen (filter (fun h => kind_eqb (t_kind h) KHardlink &&
                         match resolve_in es h with Some t => path_eqb (cname t) p | None => false end) es).

Definition node_of_ent (es : list tent) (t : tent) : vnode :=
  let p := cname t in
  let isdir := kind_eqb (t_kind t) KDir in
  let isreg := kind_eqb (t_kind t) KReg in
  let isdev := kind_eqb (t_kind t) KChar || kind_eqb (t_kind t) KBlock in
  let nlink :=
    if isdir then 2 + child_dirs es p     (* "." + the link from the parent (also counted for an explicit root entry) + ".." of each sub-directory *)
    else 1 + links_to es p in             (* its own name + every hardlink that resolves to it *)
  mkVnode (t_kind t) (stat_mode (t_kind t) (t_mode t)) (t_uid t) (t_gid t)
          (if isreg then zlen (t_data t) else 0)
          (if t_mtime t =? 0 then zero_time else t_mtime t)
          (t_link t)
          (if isdev then t_maj t else 0) (if isdev then t_min t else 0)
          (t_xattrs t) nlink (if isreg then t_data t else []) p.

Definition implicit_dir (es : list tent) (p : path) : vnode :=
  mkVnode KDir (stat_mode KDir 493) 0 0 0 zero_time EmptyString 0 0 [] (2 + child_dirs es p) [] p.

(* the node served at clean path p for the (already de-duplicated) entry list *)
Definition node_at (es : list tent) (p : path) : option vnode :=
  match find_ent es p with
  | Some e => match resolve_in es e with Some t => Some (node_of_ent es t) | None => None end
  | None => if existsb (path_eqb p) (all_paths es) then Some (implicit_dir es p) else None
  end.

(* [None] = the layer cannot be opened (a hardlink without target) *)
Definition view_of_tar (tar : list tent) : option (list (path * vnode)) :=
  let es := dedup tar in
  let ps := nodup_paths (all_paths es) in
  let ns := map (fun p => (p, node_at es p)) ps in
  if forallb (fun x => match snd x with Some _ => true | None => false end) ns
  then Some (flat_map (fun x => match snd x with Some n => [(fst x, n)] | None => [] end) ns)
  else None.

Definition lookup_view (v : list (path * vnode)) (p : path) : option vnode :=
  match find (fun x => path_eqb (fst x) p) v with Some x => Some (snd x) | None => None end.
