(* Model of util/cacheutil: refCounter + LRUCache (groupcache/lru) + TTLCache.
   Executable definitions only; proofs are in Proofs/Refcache.v.

   One machine covers both caches:
     - LRUCache  = capacity [cap] (0 = unlimited; negative: nothing stays cached — as groupcache/lru), done() never evicts
                   (harness only issues Release _ false), no timers;
     - TTLCache  = cap 0, done(evict), timer body = [Expire k] (the AfterFunc closure:
                   lock; evictLocked(key)), which may fire at any time, also for a key whose
                   value was already replaced ("stale" timers are just Expire on whatever is cached now;
                   the Go closure captures the key only).
   Values are identified with the index of their refCounter in [ents] (allocation order of
   successful Add calls); handles (the done closures, each with its own sync.Once) with their
   index in [hs]. [log] is the history of OnEvicted invocations (value ids, in order). *)
From Coq Require Import List Arith ZArith Bool.
Import ListNotations.

Record ent := mkEnt { e_key : nat; e_refs : Z; e_fin : bool }.

Record st := mkSt {
  cap  : Z;                      (* MaxEntries as given to lru.New: 0 = no limit; negative = every Add evicts at once *)
  lru  : list (nat * nat);       (* (key, value id), most recently used first *)
  ents : list ent;               (* every refCounter ever created *)
  hs   : list (nat * bool);      (* done closures: (value id, once-already-fired) *)
  log  : list nat                (* OnEvicted calls so far *)
}.

Inductive op :=
| Add (k : nat)
| Get (k : nat)
| Remove (k : nat)
| Expire (k : nat)
| Release (h : nat) (evict : bool).

Definition initZ (c : Z) : st := mkSt c [] [] [] [].
(* the capacities used by the other models (C11, C12) are natural numbers *)
Definition init (c : nat) : st := initZ (Z.of_nat c).

Fixpoint upd {A} (l : list A) (n : nat) (x : A) : list A :=
  match l, n with
  | [], _ => []
  | _ :: t, O => x :: t
  | h :: t, S n' => h :: upd t n' x
  end.

Definition set_lru (s : st) l := mkSt (cap s) l (ents s) (hs s) (log s).
Definition set_ents (s : st) e := mkSt (cap s) (lru s) e (hs s) (log s).
Definition set_hs (s : st) h := mkSt (cap s) (lru s) (ents s) h (log s).
Definition set_log (s : st) g := mkSt (cap s) (lru s) (ents s) (hs s) g.

Fixpoint lru_find (l : list (nat * nat)) (k : nat) : option nat :=
  match l with
  | [] => None
  | (k', i) :: t => if Nat.eqb k' k then Some i else lru_find t k
  end.

Fixpoint lru_del (l : list (nat * nat)) (k : nat) : list (nat * nat) :=
  match l with
  | [] => []
  | (k', i) :: t => if Nat.eqb k' k then lru_del t k else (k', i) :: lru_del t k
  end.

(* refCounter.inc *)
Definition inc (s : st) (i : nat) : st :=
  match nth_error (ents s) i with
  | Some e => set_ents s (upd (ents s) i (mkEnt (e_key e) (e_refs e + 1) (e_fin e)))
  | None => s
  end.

(* refCounter.dec: decrement, call onEvicted when the count is <= 0 *)
Definition dec (s : st) (i : nat) : st :=
  match nth_error (ents s) i with
  | Some e =>
      let r := (e_refs e - 1)%Z in
      let s' := set_ents s (upd (ents s) i (mkEnt (e_key e) r (e_fin e))) in
      if (r <=? 0)%Z then set_log s' (log s ++ [i]) else s'
  | None => s
  end.

(* refCounter.finalize: finalizeOnce.Do(dec) *)
Definition finalize (s : st) (i : nat) : st :=
  match nth_error (ents s) i with
  | Some e =>
      if e_fin e then s
      else dec (set_ents s (upd (ents s) i (mkEnt (e_key e) (e_refs e) true))) i
  | None => s
  end.

(* inc + hand out a fresh done closure *)
Definition acquire (s : st) (i : nat) : st :=
  let s1 := inc s i in set_hs s1 (hs s1 ++ [(i, false)]).

(* lru.Cache.Get hit: MoveToFront *)
Definition touch (s : st) (k i : nat) : st := set_lru s ((k, i) :: lru_del (lru s) k).

(* lru.Cache.removeElement + OnEvicted -> finalize *)
Definition evict_key (s : st) (k : nat) : st :=
  match lru_find (lru s) k with
  | Some i => finalize (set_lru s (lru_del (lru s) k)) i
  | None => s
  end.

(* lru.Cache.Add of a fresh key: PushFront, then RemoveOldest when over capacity *)
Definition trim (s : st) : st :=
  (* if c.MaxEntries != 0 && c.ll.Len() > c.MaxEntries { c.RemoveOldest() } *)
  if negb (Z.eqb (cap s) 0) && Z.ltb (cap s) (Z.of_nat (length (lru s))) then
    match last (map Some (lru s)) None with
    | Some (k, _) => evict_key s k
    | None => s
    end
  else s.

Definition ret := option (nat * bool).

Definition step (s : st) (o : op) : st * ret :=
  match o with
  | Add k =>
      match lru_find (lru s) k with
      | Some i => (acquire (touch s k i) i, Some (i, false))
      | None =>
          let i := length (ents s) in
          (* initialize() + inc() = 2 references, then insertion (+ capacity eviction) *)
          let s1 := set_ents s (ents s ++ [mkEnt k 1 false]) in
          let s2 := acquire s1 i in
          let s3 := set_lru s2 ((k, i) :: lru s2) in
          (trim s3, Some (i, true))
      end
  | Get k =>
      match lru_find (lru s) k with
      | Some i => (acquire (touch s k i) i, Some (i, true))
      | None => (s, None)
      end
  | Remove k | Expire k => (evict_key s k, None)
  | Release h ev =>
      match nth_error (hs s) h with
      | Some (i, fired) =>
          let s1 := if fired then s else dec (set_hs s (upd (hs s) h (i, true))) i in
          let s2 :=
            if ev then
              let s' := finalize s1 i in
              match nth_error (ents s') i with
              | Some e =>
                  match lru_find (lru s') (e_key e) with
                  | Some j => if Nat.eqb j i then set_lru s' (lru_del (lru s') (e_key e)) else s'
                  | None => s'
                  end
              | None => s'
              end
            else s1 in
          (s2, None)
      | None => (s, None)
      end
  end.

(* observable output of one op: return value + the OnEvicted calls it triggered *)
Definition out := (ret * list nat)%type.

Definition step_out (s : st) (o : op) : st * out :=
  let '(s', r) := step s o in (s', (r, skipn (length (log s)) (log s'))).

Fixpoint run (s : st) (os : list op) : st * list out :=
  match os with
  | [] => (s, [])
  | o :: t => let '(s1, x) := step_out s o in let '(s2, xs) := run s1 t in (s2, x :: xs)
  end.

Definition exec (s : st) (os : list op) : st := fold_left (fun s o => fst (step s o)) os s.

(* number of done closures of value i that have not fired *)
Definition live (s : st) (i : nat) : nat :=
  length (filter (fun h => Nat.eqb (fst h) i && negb (snd h)) (hs s)).

Definition in_cache (s : st) (i : nat) : Prop := exists k, In (k, i) (lru s).
Definition callbacks (s : st) (i : nat) : nat := count_occ Nat.eq_dec (log s) i.

(* --- equality tests used by the correspondence check --- *)
Definition ret_eqb (a b : ret) : bool :=
  match a, b with
  | None, None => true
  | Some (x, p), Some (y, q) => Nat.eqb x y && Bool.eqb p q
  | _, _ => false
  end.
Fixpoint natlist_eqb (a b : list nat) : bool :=
  match a, b with
  | [], [] => true
  | x :: a', y :: b' => Nat.eqb x y && natlist_eqb a' b'
  | _, _ => false
  end.
Definition out_eqb (a b : out) : bool := ret_eqb (fst a) (fst b) && natlist_eqb (snd a) (snd b).
Fixpoint outs_eqb (a b : list out) : bool :=
  match a, b with
  | [], [] => true
  | x :: a', y :: b' => out_eqb x y && outs_eqb a' b'
  | _, _ => false
  end.

(* a case = capacity, op list, outputs observed on the implementation *)
Definition case := (Z * list op * list out)%type.
Definition case_ok (c : case) : bool :=
  let '(cp, os, obs) := c in outs_eqb (snd (run (initZ cp) os)) obs.
Fixpoint mismatches_from (n : nat) (cs : list case) : list nat :=
  match cs with
  | [] => []
  | c :: t => if case_ok c then mismatches_from (S n) t else n :: mismatches_from (S n) t
  end.
Definition mismatches := mismatches_from 0.
