(* C04 — chunk selection over an ARBITRARY chunk table (unsorted, overlapping, duplicated, negative numbers):
   sort.Search as the Go library implements it, estargz.Reader.ChunkEntryForOffset, estargz fileReader.ReadAt's entry
   selection, db file.ChunkEntryForOffset, db fileReader.ReadAt's entry selection. Every slice index is a partial
   operation ([ix], None = index out of range panic), also inside the search predicates.
   Executable definitions only; proofs are in Proofs/HostileChunk.v. *)
From Coq Require Import List ZArith NArith Bool.
From SV Require Import Model.Footer.
Import ListNotations.
Local Open Scope Z_scope.

(* sort.Search(n, f): i, j := 0, n; for i < j { h := int(uint(i+j) >> 1); if !f(h) { i = h + 1 } else { j = h } }; return i.
   [f h = None]: the predicate panicked. The loop's own bound is not assumed: explicit fuel. *)
Fixpoint search_loop (fuel : nat) (f : Z -> option bool) (i j : Z) : outcome Z :=
  if negb (i <? j) then Ok i else
  match fuel with
  | O => OutOfFuel
  | S k =>
      let h := (i + j) / 2 in
      match f h with
      | None => Panic
      | Some true => search_loop k f i h
      | Some false => search_loop k f (h + 1) j
      end
  end.
Definition sort_search (n : Z) (f : Z -> option bool) : outcome Z := search_loop (S (Z.to_nat n)) f 0 n.

Definition chunk := (Z * Z)%type.            (* ChunkOffset, ChunkSize *)
Definition co (c : chunk) : Z := fst c.
Definition cs (c : chunk) : Z := snd c.

Definition obind {A B} (o : outcome A) (f : A -> outcome B) : outcome B :=
  match o with Ok a => f a | Err => Err | Panic => Panic | OutOfFuel => OutOfFuel end.

(* the predicate of both ChunkEntryForOffset implementations (int64 wrap-around in ChunkOffset+ChunkSize) *)
Definition contains_or_after (ents : list chunk) (off : Z) (h : Z) : option bool :=
  match ix ents h with
  | None => None
  | Some e => Some ((off <=? co e) || ((co e <? off) && (off <? wrap64 (co e + cs e))))
  end.

(* estargz.Reader.ChunkEntryForOffset for a regular file: [first] = the file's "reg" entry, [ents] = r.chunks[name]
   (fewer than two entries: not chunked). Some None = (nil, false). *)
Definition esgz_chunk_entry (first : chunk) (ents : list chunk) (off : Z) : outcome (option chunk) :=
  if zlen ents <? 2 then Ok (if cs first <=? off then None else Some first)
  else obind (sort_search (zlen ents) (contains_or_after ents off)) (fun i =>
       if i =? zlen ents then Ok None else pbind (ix ents i) (fun e => Ok (Some e))).

(* db file.ChunkEntryForOffset *)
Definition db_chunk_entry (ents : list chunk) (off : Z) : outcome (option chunk) :=
  obind (sort_search (zlen ents) (contains_or_after ents off)) (fun i =>
  if i =? zlen ents then Ok None else pbind (ix ents i) (fun e => Ok (Some e))).

(* estargz fileReader.ReadAt: which entry the read starts from (index), or an error.
   [ents] has at least one entry (getChunks); the rest of ReadAt (section reader, Peek, decompression) is arithmetic on
   int64 without indexing: errors only. *)
Definition esgz_read_select (size : Z) (ents : list chunk) (off : Z) : outcome Z :=
  if size <=? off then Err else          (* io.EOF *)
  if off <? 0 then Err else
  obind (if 1 <? zlen ents
         then obind (sort_search (zlen ents) (fun h => match ix ents h with None => None | Some e => Some (off <=? co e) end))
                    (fun i => Ok (if i =? zlen ents then zlen ents - 1 else i))
         else Ok 0) (fun i =>
  pbind (ix ents i) (fun ent =>
  if off <? co ent then
    (if i =? 0 then Err else pbind (ix ents (i - 1)) (fun _ => Ok (i - 1)))
  else Ok i)).

(* db fileReader.ReadAt *)
Definition db_read_select (size : Z) (ents : list chunk) (off : Z) : outcome Z :=
  if size <=? off then Err else
  if off <? 0 then Err else
  match ents with
  | [] => Err                                         (* no chunk is registered *)
  | [e] => if off <? co e then Err else Ok 0
  | _ =>
      obind (sort_search (zlen ents) (fun h => match ix ents h with None => None | Some e => Some (off <? co e) end))
            (fun i => if i =? 0 then Err else pbind (ix ents (i - 1)) (fun _ => Ok (i - 1)))
  end.
