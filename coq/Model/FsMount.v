(* Model of fs/fs.go's use of the layer resolver (filesystem.Mount / Check / check / Unmount) on top of
   Model/Resolver.v.  Executable definitions only; proofs are in Proofs/FsMount.v.

   Mount(mountpoint, labels): one Resolve call for the target layer and, in parallel, one per neighbouring layer of
   the manifest (pre-resolve: on success the layerRef is released with Done at once and only the cache keeps the
   layer).  When the target's Resolve returns a layer, Mount skip-verifies it, takes its root node and registers it
   under the mountpoint; when it returns an error, or when the verification of the resolved layer refuses it (TOC digest
   mismatch, unparsable or missing digest label), Mount fails, registers nothing and releases the layerRef (Done).  (The FUSE server itself and the
   30 s wait are outside the model; prefetch / background fetch are switched off in the harness.)
   Every Resolve call is a thread of Model/Resolver.v; here a thread additionally has a role: target of a mountpoint
   or neighbour.  A sub-step of such a thread is the Resolver sub-step followed, when it returns a layer, by the
   registration (target) or by Done (neighbour).
   Check(mountpoint): the registered layer's Check(); if that fails, Refresh through the source (which replaces the blob's
   fetcher when it is accepted).
   Unmount(mountpoint): unregister, Close the layerRef (evicting). *)
From Coq Require Import List Arith ZArith Bool.
From SV Require Model.Refcache.
From SV Require Export Model.Resolver.
Import ListNotations.

(* vok: the verification Mount performs on the resolved layer (TOC digest label / skip label) will pass *)
Inductive role := Target (mp : nat) (vok : bool) | Neighbour.

Record fst_ := mkF {
  rs : Resolver.st;
  mnts : list (nat * nat);      (* fs.layer: mountpoint -> user handle (index into uh) *)
  roles : list role             (* by thread id *)
}.

Definition finit : fst_ := mkF Resolver.init [] [].

Fixpoint lookup (mp : nat) (l : list (nat * nat)) : option nat :=
  match l with
  | [] => None
  | (m, u) :: r => if Nat.eqb m mp then Some u else lookup mp r
  end.
Fixpoint unreg (mp : nat) (l : list (nat * nat)) : list (nat * nat) :=
  match l with
  | [] => []
  | (m, u) :: r => if Nat.eqb m mp then unreg mp r else (m, u) :: unreg mp r
  end.

Inductive fop :=
| FMount (mp n : nat) (vok : bool) (nbs : list nat)   (* start Mount: target name n, neighbour names nbs *)
| FStep (t : nat) (ok : bool)              (* one sub-step of a Resolve call started by some Mount *)
| FCheck (mp : nat) (ok1 : bool) (r : rfo)  (* Check: ok1 = connectivity check, r = what the registry answers to the Refresh *)
| FUnmount (mp : nat)
| FUse (mp : nat)
| FProbe (mp : nat)                         (* read through the mounted layer that has to go to the registry *)
| FExpireL (n : nat)
| FExpireB (n : nat).

Definition starts (s : Resolver.st) (ns : list nat) : Resolver.st :=
  fold_left (fun s n => fst (Resolver.step s (RStart n))) ns s.

(* what Mount / the pre-resolve goroutine does with the result of its Resolve call *)
Definition after_ret (s : fst_) (r : Resolver.st) (t : nat) (e : ev) (u : nat) : fst_ :=
  match e with
  | ERet _ _ =>
      match nth_error (roles s) t with
      | Some (Target mp true) => mkF r ((mp, u) :: unreg mp (mnts s)) (roles s)   (* fs.layer[mountpoint] = l *)
      | Some (Target mp false) => mkF (fst (Resolver.step r (Done u))) (mnts s) (roles s)   (* verification refused: deferred l.Done() *)
      | Some Neighbour => mkF (fst (Resolver.step r (Done u))) (mnts s) (roles s)   (* l.Done() *)
      | None => mkF r (mnts s) (roles s)
      end
  | _ => mkF r (mnts s) (roles s)
  end.

(* layer.Check(): error when the layer or its blob is closed, else the outcome of the connectivity check *)
Definition check_ev (s : Resolver.st) (u : nat) (ok : bool) : ev :=
  match nth_error (uh s) u with
  | Some (h, _) => let '(a, b) := layer_flags s h in if negb a && negb b && ok then ENone else EErr
  | None => ENone
  end.

Definition fstep (s : fst_) (o : fop) : fst_ * ev :=
  match o with
  | FMount mp n vok nbs =>
      (mkF (starts (rs s) (n :: nbs)) (mnts s) (roles s ++ Target mp vok :: map (fun _ => Neighbour) nbs), ENone)
  | FStep t ok =>
      let '(r, e) := Resolver.step (rs s) (RStep t ok) in
      (after_ret s r t e (length (uh (rs s))), e)
  | FCheck mp ok1 r =>
      match lookup mp (mnts s) with
      | None => (s, EErr)                                   (* "layer not registered" *)
      | Some u =>
          match check_ev (rs s) u ok1 with                  (* l.Check() *)
          | ENone => (s, ENone)
          | _ => let '(r1, e) := Resolver.step (rs s) (Refresh u r) in (mkF r1 (mnts s) (roles s), e)   (* l.Refresh(...) *)
          end
      end
  | FUnmount mp =>
      match lookup mp (mnts s) with
      | None => (s, EErr)
      | Some u => (mkF (fst (Resolver.step (rs s) (Close u))) (unreg mp (mnts s)) (roles s), ENone)
      end
  | FUse mp =>
      match lookup mp (mnts s) with
      | None => (s, EErr)
      | Some u => (s, snd (Resolver.step (rs s) (Use u)))
      end
  | FProbe mp =>
      match lookup mp (mnts s) with
      | None => (s, EErr)
      | Some u => (s, snd (Resolver.step (rs s) (Probe u)))
      end
  | FExpireL n => (mkF (fst (Resolver.step (rs s) (ExpireL n))) (mnts s) (roles s), ENone)
  | FExpireB n => (mkF (fst (Resolver.step (rs s) (ExpireB n))) (mnts s) (roles s), ENone)
  end.

Definition fexec (s : fst_) (os : list fop) : fst_ := fold_left (fun s o => fst (fstep s o)) os s.

(* ---------- coarse ops of the harness: a Mount runs all its Resolve calls to completion, every external call
   taking its outcome from a per-thread script (missing entries = success) ---------- *)
Fixpoint run_script (fuel : nat) (s : fst_) (t : nat) (sc : list bool) : fst_ * ev :=
  match fuel with
  | O => (s, ENone)
  | S f =>
      let ok := match sc with b :: _ => b | [] => true end in
      let paused := match pause_code (pc_of (rs s) t) with Some _ => true | None => false end in
      let '(s1, e) := fstep s (FStep t ok) in
      match e with
      | ENone => match pc_of (rs s1) t with
                 | PDone => (s1, e)
                 | _ => run_script f s1 t (if paused then tl sc else sc)
                 end
      | _ => (s1, e)
      end
  end.

Fixpoint run_all (s : fst_) (t : nat) (scs : list (list bool)) : fst_ * list ev :=
  match scs with
  | [] => (s, [])
  | sc :: r => let '(s1, e) := run_script 40 s t sc in let '(s2, es) := run_all s1 (S t) r in (s2, e :: es)
  end.

Inductive cop :=
| CMount (mp n : nat) (vok : bool) (nbs : list nat) (scs : list (list bool))   (* scripts: target first, then neighbours *)
| COp (o : fop).

Definition cfstep (s : fst_) (o : cop) : fst_ * ev :=
  match o with
  | CMount mp n vok nbs scs =>
      let t0 := length (thrs (rs s)) in
      let s1 := fst (fstep s (FMount mp n vok nbs)) in
      let '(s2, es) := run_all s1 t0 scs in
      (s2, match es with ERet _ _ :: _ => if vok then ENone else EErr | _ => EErr end)   (* nil iff resolved and verified *)
  | COp o => fstep s o
  end.

Definition fview (s : fst_) : nat * nat * nat * nat :=
  let '(a, b, c) := view (rs s) in (a, b, c, length (mnts s)).

Definition fout := (ev * (nat * nat * nat * nat))%type.

Fixpoint cfrun (s : fst_) (os : list cop) : list fout :=
  match os with
  | [] => []
  | o :: t => let '(s1, e) := cfstep s o in (e, fview s1) :: cfrun s1 t
  end.

Definition fout_eqb (a b : fout) : bool :=
  let '(e1, (x1, y1, z1, w1)) := a in let '(e2, (x2, y2, z2, w2)) := b in
  ev_eqb e1 e2 && Nat.eqb x1 x2 && Nat.eqb y1 y2 && Nat.eqb z1 z2 && Nat.eqb w1 w2.
Fixpoint fouts_eqb (a b : list fout) : bool :=
  match a, b with
  | [], [] => true
  | x :: a', y :: b' => fout_eqb x y && fouts_eqb a' b'
  | _, _ => false
  end.

Definition case := (list cop * list fout)%type.
Definition case_ok (c : case) : bool := fouts_eqb (cfrun finit (fst c)) (snd c).
Fixpoint mismatches_from (n : nat) (cs : list case) : list nat :=
  match cs with
  | [] => []
  | c :: t => if case_ok c then mismatches_from (S n) t else n :: mismatches_from (S n) t
  end.
Definition mismatches := mismatches_from 0.
