(* Model of fs/remote/blob.go (ReadAt, Cache/cacheAt, prepareChunksForRead, readFromCache, fetchRange /
   fetchRegions / cacheChunkData, handleSharedFetch / copyFetchedChunks, adjustBufferSize, walkChunks,
   bytesWriter, floor/ceil/positive) and of the reply analysis of fs/remote/resolver.go (httpFetcher.fetch:
   range squashing, single-range mode, 200 / 206 single / 206 multipart / 403 + refreshURL / 400 fallback;
   check; Blob.Refresh).  Executable definitions only; proofs are in Proofs/BlobRead.v.

   - Bytes are N, the caller's buffer p is a list N; every Go slice expression is a partial operation
     (Panic result).  int64 is unbounded Z (no wrap-around below 2^62).
   - The blob content itself is NOT part of the model: whatever the registry sends is an input (the
     [resp] values carried by each op, chosen by the adversary / recorded by the harness's server).
   - The cache is keyed by region (Go: sha256(blobURL-b-e), assumed collision free); one entry per key.
   - One op = one API call executed without interference (used for the correspondence check and the
     history theorems).  The per-reader rely/guarantee model for concurrent readers ([read_conc]) is at
     the end: every shared-cache lookup and every single-flight role is an adversarial input there. *)
From Coq Require Import List ZArith NArith Bool.
From SV Require Import Model.Region.
Import ListNotations.
Open Scope Z_scope.

Definition bytes := list N.
Definition zlen {A} (l : list A) : Z := Z.of_nat (length l).

(* ---- arithmetic helpers of blob.go ---- *)
Definition positive (n : Z) : Z := if n <? 0 then 0 else n.
Definition floorZ (n unit : Z) : Z := Z.quot n unit * unit.          (* (n / unit) * unit, Go division truncates *)
Definition ceilZ (n unit : Z) : Z := (Z.quot n unit + 1) * unit.     (* (n/unit + 1) * unit *)

(* copy(p[k:], src): overwrites p from index k with src, never grows p *)
Fixpoint write_at (p : bytes) (k : nat) (src : bytes) : bytes :=
  match p with
  | [] => []
  | h :: t =>
      match k with
      | S k' => h :: write_at t k' src
      | O => match src with
             | [] => p
             | s :: src' => s :: write_at t O src'
             end
      end
  end.

(* copy(p[at : at+maxlen], src) for a window known to lie inside p *)
Definition copy_into (p : bytes) (pos maxlen : Z) (src : bytes) : bytes :=
  write_at p (Z.to_nat pos) (firstn (Z.to_nat maxlen) src).

Definition slice (l : bytes) (from len : Z) : bytes := firstn (Z.to_nat len) (skipn (Z.to_nat from) l).

(* ---- walkChunks ---- *)
(* for i := b; i <= e && i < size; i += cs { reg := {i, min(i+cs-1, size-1)} } *)
Fixpoint walk_loop (fuel : nat) (size cs i e : Z) : list region :=
  match fuel with
  | O => []
  | S f =>
      if (i <=? e) && (i <? size) then
        (i, if size <=? i + cs - 1 then size - 1 else i + cs - 1) :: walk_loop f size cs (i + cs) e
      else []
  end.
(* number of iterations the Go loop makes (for cs > 0); Proofs/BlobRead.v shows the loop condition is false
   when the fuel is used up, so the fuel never cuts the walk short *)
Definition walk_fuel (size cs b e : Z) : nat :=
  Z.to_nat ((Z.min e (size - 1) - b) / cs + 1).
(* None = the "must be aligned by chunk size" error *)
Definition walk_chunks (size cs : Z) (r : region) : option (list region) :=
  if Z.rem (rb r) cs =? 0 then Some (walk_loop (walk_fuel size cs (rb r) (re r)) size cs (rb r) (re r))
  else None.

(* ---- bytesWriter ---- *)
(* dest = p[w_base : w_base + w_len] (a window of the caller's buffer), destOff = w_off, current = w_cur *)
Record writer := mkW { w_chunk : region; w_base : Z; w_len : Z; w_off : Z; w_cur : Z }.

Definition w_advance (w : writer) (n : Z) : writer :=
  mkW (w_chunk w) (w_base w) (w_len w) (w_off w) (w_cur w + n).

(* bytesWriter.Write(data); None = slice-bounds panic *)
Definition bw_write (p : bytes) (w : writer) (data : bytes) : option (bytes * writer) :=
  let w' := w_advance w (zlen data) in
  let destBase := positive (w_cur w - w_off w) in
  let pBegin := positive (w_off w - w_cur w) in
  let pEnd0 := positive (w_off w + w_len w - w_cur w) in
  if w_len w <? destBase then Some (p, w')
  else if zlen data <=? pBegin then Some (p, w')
  else
    let pEnd := if zlen data <? pEnd0 then zlen data else pEnd0 in
    if pEnd <? pBegin then None
    else Some (copy_into p (w_base w + destBase) (w_len w - destBase) (slice data pBegin (pEnd - pBegin)), w').

(* a sequence of Write calls *)
Fixpoint bw_writes (p : bytes) (w : writer) (pieces : list bytes) : option (bytes * writer) :=
  match pieces with
  | [] => Some (p, w)
  | d :: t => match bw_write p w d with
              | Some (p', w') => bw_writes p' w' t
              | None => None
              end
  end.

(* ---- cache ---- *)
Definition cache := list (region * bytes).
Fixpoint cache_get (c : cache) (k : region) : option bytes :=
  match c with
  | [] => None
  | (k', d) :: t => if region_eqb k' k then Some d else cache_get t k
  end.
Fixpoint cache_del (c : cache) (k : region) : cache :=
  match c with
  | [] => []
  | (k', d) :: t => if region_eqb k' k then cache_del t k else (k', d) :: cache_del t k
  end.
Definition cache_put (c : cache) (k : region) (d : bytes) : cache := (k, d) :: cache_del c k.

(* ---- configuration and shared state of one blob ---- *)
(* c_handler: the blob is served by a custom remote.Handler (remoteFetcher) instead of the HTTP fetcher *)
Record cfg := mkCfg { c_size : Z; c_cs : Z; c_pcs : Z; c_force : bool; c_handler : bool }.
Record st := mkSt {
  s_cache : cache;               (* chunks currently in the cache *)
  s_fetched : list region;       (* fetchedRegionSet.rs *)
  s_single : bool;               (* httpFetcher.singleRange of the current fetcher *)
  s_ever : list region           (* ghost: every chunk ever committed to the cache *)
}.
Definition init (c : cfg) : st := mkSt [] [] (c_force c) [].

(* ---- what the registry answers (adversary inputs) ---- *)
Inductive resp :=
| R200 (clen : Z) (body : bytes)                          (* 200 with Content-Length clen *)
| R206S (r : region) (body : bytes)                       (* 206, not multipart, Content-Range r *)
| R206M (parts : list (region * bytes)) (end_ok : bool)   (* 206 multipart; end_ok = false: stream breaks after these parts *)
| R403
| R400
| RFail                                                   (* other status, transport error, unparsable headers *)
| RRedirOK | RRedirFail                                   (* answer to the redirect request of refreshURL / resolve *)
| RSize (sz : Z)                                          (* HEAD 200 (or GET fallback) reporting this size *)
| RChkOK                                                  (* check(): 200 / 206; Handler: Check() = nil *)
| RH (b : Z) (body : bytes).                              (* Handler: Fetch(b, _) returned a reader carrying body *)

(* requests the implementation sends (compared with the server's log) *)
Inductive req :=
| QData (ranges : list region)
| QRedir | QHead | QSizeGet | QCheck
| QFetch (r : region)                                     (* Handler: Fetch(r.b, r.size()) *)
| QHandle.                                                (* Handler: Handle(desc) *)

Inductive status := SOk | SErr | SPanic | SBadScript.

(* ---- httpFetcher.fetch ---- *)
Definition squash (regs : list region) : list region := fold_left add regs [].
Definition requests (single : bool) (regs : list region) : list region :=
  if single then match super_region (squash regs) with Some s => [s] | None => [] end
  else squash regs.

(* outcome of fetch: the multipartReadCloser as a list of parts, or an error *)
Inductive fres := FParts (parts : list (region * bytes)) (end_ok : bool) | FErr | FBad.

Definition reply_parts (r : resp) : option fres :=
  match r with
  | R200 clen body => Some (FParts [((0, clen - 1), body)] true)
  | R206S reg body => Some (FParts [(reg, body)] true)
  | R206M parts ok => Some (FParts parts ok)
  | RFail => Some FErr
  | _ => None
  end.

(* second attempt: fetch(ctx, rs, retry=false) *)
Definition fetch1 (single : bool) (regs : list region) (rs : list resp) : fres * list resp * list req :=
  match rs with
  | [] => (FBad, [], [])
  | r :: rest =>
      let q := [QData (requests single regs)] in
      match reply_parts r with
      | Some f => (f, rest, q)
      | None => match r with
                | R403 | R400 => (FErr, rest, q)
                | _ => (FBad, rest, q)
                end
      end
  end.

(* fetch(ctx, rs, retry=true); returns the new singleRange flag as well *)
Definition fetch0 (single : bool) (regs : list region) (rs : list resp) : fres * bool * list resp * list req :=
  match rs with
  | [] => (FBad, single, [], [])
  | r :: rest =>
      let q := [QData (requests single regs)] in
      match reply_parts r with
      | Some f => (f, single, rest, q)
      | None =>
          match r with
          | R403 =>
              match rest with
              | RRedirOK :: rest' =>
                  let '(f, rest'', q') := fetch1 single regs rest' in (f, single, rest'', q ++ [QRedir] ++ q')
              | RRedirFail :: rest' => (FErr, single, rest', q ++ [QRedir])
              | RFail :: rest' => (FErr, single, rest', q ++ [QRedir])
              | _ => (FBad, single, rest, q)
              end
          | R400 =>
              if single then (FErr, single, rest, q)
              else let '(f, rest', q') := fetch1 true regs rest in (f, true, rest', q ++ q')
          | _ => (FBad, single, rest, q)
          end
      end
  end.

(* remoteFetcher.fetch: squash, ask the Handler for the one super-region, hand its reader over as a single part
   labelled with the REQUESTED region (nothing the Handler says is looked at) *)
Definition fetchH (regs : list region) (rs : list resp) : fres * list resp * list req :=
  match super_region (squash regs) with
  | None => (FBad, rs, [])
  | Some reg =>
      match rs with
      | [] => (FBad, [], [])
      | RH b body :: rest =>
          if b =? rb reg then (FParts [(reg, body)] true, rest, [QFetch reg]) else (FBad, rest, [QFetch reg])
      | RFail :: rest => (FErr, rest, [QFetch reg])
      | _ :: rest => (FBad, rest, [QFetch reg])
      end
  end.

(* the blob's fetcher, whichever kind it is *)
Definition fetch_any (c : cfg) (single : bool) (regs : list region) (rs : list resp) : fres * bool * list resp * list req :=
  if c_handler c then let '(f, rest, q) := fetchH regs rs in (f, single, rest, q)
  else fetch0 single regs rs.

(* ---- fetchRegions: chunk and cache the replied data ---- *)
Record fstate := mkF {
  f_cache : cache; f_fetched : list region; f_ever : list region;
  f_p : bytes; f_ws : list writer; f_seen : list region
}.

(* io.MultiWriter(cw, allData[chunk]) when the chunk was requested: tee into its writer.
   allData is a Go map (one writer per chunk); the list rendering writes to every entry with that key. *)
Fixpoint ws_write (p : bytes) (ws : list writer) (c : region) (data : bytes) : option (bytes * list writer) :=
  match ws with
  | [] => Some (p, [])
  | w :: t =>
      if region_eqb (w_chunk w) c then
        match bw_write p w data with
        | Some (p', w') =>
            match ws_write p' t c data with
            | Some (p'', t') => Some (p'', w' :: t')
            | None => None
            end
        | None => None
        end
      else
        match ws_write p t c data with
        | Some (p', t') => Some (p', w :: t')
        | None => None
        end
  end.

(* cacheChunkData: io.CopyN(w, r, chunk.size()); Abort on short data, else Commit + regionSet.add *)
Definition cache_chunk (f : fstate) (c : region) (body : bytes) : fstate * bytes * status :=
  let n := Z.to_nat (rsize c) in
  let take := firstn n body in
  let rest := skipn n body in
  match ws_write (f_p f) (f_ws f) c take with
  | None => (f, rest, SPanic)
  | Some (p', ws') =>
      if zlen take <? rsize c then
        (mkF (f_cache f) (f_fetched f) (f_ever f) p' ws' (f_seen f), rest, SErr)
      else
        (mkF (cache_put (f_cache f) c take) (add (f_fetched f) c) (c :: f_ever f) p' ws' (c :: f_seen f), rest, SOk)
  end.

Fixpoint cache_chunks (f : fstate) (cs : list region) (body : bytes) : fstate * status :=
  match cs with
  | [] => (f, SOk)
  | c :: t =>
      let '(f', rest, s) := cache_chunk f c body in
      match s with
      | SOk => cache_chunks f' t rest
      | _ => (f', s)
      end
  end.

Fixpoint fetch_parts (c : cfg) (f : fstate) (parts : list (region * bytes)) : fstate * status :=
  match parts with
  | [] => (f, SOk)
  | (reg, body) :: t =>
      match walk_chunks (c_size c) (c_cs c) reg with
      | None => (f, SErr)
      | Some chunks =>
          let '(f', s) := cache_chunks f chunks body in
          match s with
          | SOk => fetch_parts c f' t
          | _ => (f', s)
          end
      end
  end.

Fixpoint mem_region (r : region) (l : list region) : bool :=
  match l with
  | [] => false
  | x :: t => region_eqb x r || mem_region r t
  end.

Definition all_seen (ws : list writer) (seen : list region) : bool :=
  forallb (fun w => mem_region (w_chunk w) seen) ws.

(* the part of fetchRegions after a successful fetch *)
Definition fetch_regions (c : cfg) (f : fstate) (parts : list (region * bytes)) (end_ok : bool) : fstate * status :=
  let '(f', s) := fetch_parts c f parts in
  match s with
  | SOk => if negb end_ok then (f', SErr)
           else if all_seen (f_ws f') (f_seen f') then (f', SOk) else (f', SErr)
  | _ => (f', s)
  end.

(* fetchRange as the only caller (leader of its single-flight, nothing shared) *)
Definition fetch_range (c : cfg) (s : st) (p : bytes) (ws : list writer) (rs : list resp)
  : st * bytes * list writer * status * list req :=
  match ws with
  | [] => (s, p, ws, SOk, [])
  | _ =>
      let '(fr, single', _, q) := fetch_any c (s_single s) (map w_chunk ws) rs in
      match fr with
      | FBad => (mkSt (s_cache s) (s_fetched s) single' (s_ever s), p, ws, SBadScript, q)
      | FErr => (mkSt (s_cache s) (s_fetched s) single' (s_ever s), p, ws, SErr, q)
      | FParts parts ok =>
          let '(f, stt) := fetch_regions c (mkF (s_cache s) (s_fetched s) (s_ever s) p ws []) parts ok in
          (mkSt (f_cache f) (f_fetched f) single' (f_ever f), f_p f, f_ws f, stt, q)
      end
  end.

(* ---- ReadAt ---- *)
(* geometry of one chunk relative to the read [off, off+n): (base, lowerUnread, expectedSize) *)
Definition chunk_geom (off n : Z) (c : region) : Z * Z * Z :=
  let base := positive (rb c - off) in
  let lower := positive (off - rb c) in
  let upper := positive (re c + 1 - (off + n)) in
  (base, lower, rsize c - upper - lower).

(* what a cache lookup answers *)
Definition lookup := option bytes.

(* prepareChunksForRead, one chunk: p[base:base+expected] (Panic if out of range), cache first
   (r.ReadAt(dest, lowerUnread); a short read is treated as a miss but has already written), else a writer *)
Definition prepare_chunk (off : Z) (p : bytes) (c : region) (lk : lookup) : option (bytes * option writer) :=
  let '(base, lower, ex) := chunk_geom off (zlen p) c in
  if (ex <? 0) || (zlen p <? base + ex) then None
  else
    let w := mkW c base ex lower 0 in
    match lk with
    | None => Some (p, Some w)
    | Some data =>
        let avail := skipn (Z.to_nat lower) data in
        let p' := copy_into p base ex avail in
        if ex <=? zlen avail then Some (p', None) else Some (p', Some w)
    end.

(* the chunks of the walk are visited in order; [lk c] = what the cache answers for chunk c at that moment *)
Fixpoint prepare_conc (off : Z) (p : bytes) (chunks : list region) (lk : region -> lookup) : option (bytes * list writer) :=
  match chunks with
  | [] => Some (p, [])
  | c :: t =>
      match prepare_chunk off p c (lk c) with
      | None => None
      | Some (p', ow) =>
          match prepare_conc off p' t lk with
          | None => None
          | Some (p'', ws) => Some (p'', match ow with Some w => w :: ws | None => ws end)
          end
      end
  end.

(* without interference the lookups are those of the current cache *)
Definition prepare (ch : cache) (off : Z) (p : bytes) (chunks : list region) : option (bytes * list writer) :=
  prepare_conc off p chunks (cache_get ch).

(* adjustBufferSize: number of bytes reported *)
Definition adjust (size off n : Z) : Z :=
  let remain := size - off in
  if remain <=? n then (if remain <? 0 then 0 else remain) else n.

Inductive result := ROk (data : bytes) | RErr | RPanic | RBadScript.

Definition all_region (cs off n : Z) : region := (floorZ off cs, ceilZ (off + n - 1) cs - 1).

Definition status_result (stt : status) (ok : result) : result :=
  match stt with SOk => ok | SErr => RErr | SPanic => RPanic | SBadScript => RBadScript end.

(* ReadAt(p, off) with p = p0 *)
Definition read_at (c : cfg) (s : st) (off : Z) (p0 : bytes) (rs : list resp) : st * result * list req :=
  let n := zlen p0 in
  if (n =? 0) || (c_size c <? off) then (s, ROk [], [])
  else
    match walk_chunks (c_size c) (c_cs c) (all_region (c_cs c) off n) with
    | None => (s, RErr, [])
    | Some chunks =>
        match prepare (s_cache s) off p0 chunks with
        | None => (s, RPanic, [])
        | Some (p, ws) =>
            let '(s', p', _, stt, q) := fetch_range c s p ws rs in
            (s', status_result stt (ROk (firstn (Z.to_nat (adjust (c_size c) off n)) p')), q)
        end
    end.

(* ---- Cache / cacheAt ---- *)
Definition discard_writer (c : region) : writer := mkW c 0 0 0 0.   (* io.Discard *)

(* cacheAt, first half: walk the chunks of [off, off+sz) and keep an io.Discard writer for every chunk the
   cache does not hold at this moment; None = the walk error *)
Definition cache_lookup (c : cfg) (s : st) (off sz : Z) : option (list writer) :=
  match walk_chunks (c_size c) (c_cs c) (all_region (c_cs c) off sz) with
  | None => None
  | Some chunks =>
      Some (map discard_writer
              (filter (fun k => match cache_get (s_cache s) k with Some _ => false | None => true end) chunks))
  end.

(* the (offset, length) pieces of Cache(): one cacheAt when prefetchChunkSize <= chunkSize, else
   pieces of chunkSize * (prefetchChunkSize / chunkSize) bytes (each runs in its own goroutine) *)
Fixpoint pieces_loop (fuel : nat) (i endp fsz : Z) : list (Z * Z) :=
  match fuel with
  | O => []
  | S f => if i <? endp then (i, if endp <? i + fsz then endp - i else fsz) :: pieces_loop f (i + fsz) endp fsz
           else []
  end.
Definition cache_pieces (c : cfg) (off sz : Z) : list (Z * Z) :=
  if c_pcs c <=? c_cs c then [(off, sz)]
  else
    let fsz := c_cs c * Z.quot (c_pcs c) (c_cs c) in
    pieces_loop (Z.to_nat (sz / fsz + 1)) off (off + sz) fsz.

(* Cache() runs one cacheAt per piece; with more than one piece each runs in its own goroutine (errgroup, no
   cancellation: every piece runs to its end, the call reports an error if any piece failed).  A piece has two
   atomic sub-steps: (i, false) = its cache walk (cache_lookup), (i, true) = its fetchRange on the writers it
   collected then.  A schedule is any interleaving of the sub-steps; piece i consumes the script [nth i scripts]. *)
Definition sstep := (nat * bool)%type.

Fixpoint pend_get (pend : list (nat * list writer)) (i : nat) : option (list writer) :=
  match pend with
  | [] => None
  | (j, ws) :: t => if Nat.eqb j i then Some ws else pend_get t i
  end.

Fixpoint cache_sched (c : cfg) (s : st) (ps : list (Z * Z)) (pend : list (nat * list writer)) (sc : list sstep)
         (scripts : list (list resp)) (failed : bool) : st * status * list req :=
  match sc with
  | [] => (s, if failed then SErr else SOk, [])
  | (i, false) :: t =>
      match nth_error ps i with
      | None => (s, SBadScript, [])
      | Some (o, z) =>
          match cache_lookup c s o z with
          | None => cache_sched c s ps pend t scripts true
          | Some ws => cache_sched c s ps ((i, ws) :: pend) t scripts failed
          end
      end
  | (i, true) :: t =>
      match pend_get pend i with
      | None => cache_sched c s ps pend t scripts failed        (* that piece has already returned *)
      | Some ws =>
          let '(s', _, _, stt, q) := fetch_range c s [] ws (nth i scripts []) in
          match stt with
          | SOk => let '(s'', stt', q') := cache_sched c s' ps pend t scripts failed in (s'', stt', q ++ q')
          | SErr => let '(s'', stt', q') := cache_sched c s' ps pend t scripts true in (s'', stt', q ++ q')
          | _ => (s', stt, q)
          end
      end
  end.

(* ---- check() and Blob.Refresh ---- *)
Definition check_op (rs : list resp) : status * list req :=
  match rs with
  | RChkOK :: _ => (SOk, [QCheck])
  | R403 :: RRedirOK :: _ => (SOk, [QCheck; QRedir])
  | R403 :: RRedirFail :: _ => (SErr, [QCheck; QRedir])
  | R403 :: RFail :: _ => (SErr, [QCheck; QRedir])
  | RFail :: _ => (SErr, [QCheck])
  | R400 :: _ => (SErr, [QCheck])
  | _ => (SBadScript, [])
  end.

(* resolveFetcher: redirect, then getSize (HEAD, falling back to GET); the new fetcher starts in
   multi-range mode unless ForceSingleRangeMode *)
Definition refresh_op (c : cfg) (s : st) (rs : list resp) : st * status * list req :=
  let fresh := mkSt (s_cache s) (s_fetched s) (c_force c) (s_ever s) in
  if c_handler c then
    (* Handle(desc) again; when it fails the default (HTTP) resolution is tried, which has no registry here *)
    match rs with
    | RSize sz :: _ => if sz =? c_size c then (s, SOk, [QHandle]) else (s, SErr, [QHandle])
    | RFail :: _ => (s, SErr, [QHandle])
    | _ => (s, SBadScript, [])
    end
  else
  match rs with
  | RRedirOK :: RSize sz :: _ => if sz =? c_size c then (fresh, SOk, [QRedir; QHead]) else (s, SErr, [QRedir; QHead])
  | RRedirOK :: RFail :: RSize sz :: _ =>
      if sz =? c_size c then (fresh, SOk, [QRedir; QHead; QSizeGet]) else (s, SErr, [QRedir; QHead; QSizeGet])
  | RRedirOK :: RFail :: RFail :: _ => (s, SErr, [QRedir; QHead; QSizeGet])
  | RRedirFail :: _ => (s, SErr, [QRedir])
  | RFail :: _ => (s, SErr, [QRedir])
  | _ => (s, SBadScript, [])
  end.

(* ---- the sequential machine ---- *)
Inductive op :=
| ReadAt (off : Z) (p0 : bytes) (rs : list resp)
| CacheOp (off sz : Z) (sc : list sstep) (scripts : list (list resp))
| Evict (r : region)
| CheckOp (rs : list resp)
| RefreshOp (rs : list resp).

Definition evict (s : st) (r : region) : st := mkSt (cache_del (s_cache s) r) (s_fetched s) (s_single s) (s_ever s).

Definition step (c : cfg) (s : st) (o : op) : st * result * list req :=
  match o with
  | ReadAt off p0 rs => read_at c s off p0 rs
  | CacheOp off sz sc scripts =>
      let '(s', stt, q) := cache_sched c s (cache_pieces c off sz) [] sc scripts false in
      (s', status_result stt (ROk []), q)
  | Evict r => (evict s r, ROk [], [])
  | CheckOp rs => let '(stt, q) := check_op rs in (s, status_result stt (ROk []), q)
  | RefreshOp rs => let '(s', stt, q) := refresh_op c s rs in (s', status_result stt (ROk []), q)
  end.

Definition exec (c : cfg) (s : st) (os : list op) : st := fold_left (fun s o => fst (fst (step c s o))) os s.

(* observable output of one op: result, fetchedRegionSet, FetchedSize, single-range mode, requests sent *)
Definition out := (result * list region * Z * bool * list req)%type.

Definition step_out (c : cfg) (s : st) (o : op) : st * out :=
  let '(s', r, q) := step c s o in (s', (r, s_fetched s', total_size (s_fetched s'), s_single s', q)).

Fixpoint run (c : cfg) (s : st) (os : list op) : list out :=
  match os with
  | [] => []
  | o :: t => let '(s', x) := step_out c s o in x :: run c s' t
  end.

(* ---- one reader among concurrent readers / prefetchers (rely/guarantee form) ----
   Between any two atomic steps of this reader the environment may insert honest chunks into the cache,
   evict anything and add to fetchedRegionSet.  Hence every cache lookup of the reader is answered by an
   arbitrary (adversarial) lookup value, and in every round of fetchRange the single-flight group makes the
   reader either the leader (it runs fetchRegions itself, on its own writers) or a follower (it gets the
   leader's error; on success it copies every chunk from the cache, and on a miss retries fetchRange with
   the same writers).  The reader's own commits are collected in f_ever/f_cache of a private fstate:
   they are the "guarantee" side (shown honest in the proofs). *)
Inductive round :=
| Lead (single : bool) (rs : list resp)            (* this reader executes fetchRegions; mode as found *)
| FollowErr                                        (* shared result is the leader's error *)
| Follow (lk : region -> lookup).                 (* shared success: one cache lookup per missing chunk *)

(* copyFetchedChunks for every region of allData (the follower's fetched map is empty): io.CopyN from the
   cached chunk into the writer; a miss or a short entry makes handleSharedFetch fail -> retry *)
Fixpoint copy_fetched (p : bytes) (ws : list writer) (lk : region -> lookup) : option (bytes * list writer * bool) :=
  match ws with
  | [] => Some (p, [], true)
  | w :: t =>
      match lk (w_chunk w) with
      | None => Some (p, ws, false)
      | Some data =>
          let n := Z.to_nat (rsize (w_chunk w)) in
          match bw_write p w (firstn n data) with
          | None => None
          | Some (p', w') =>
              if zlen (firstn n data) <? rsize (w_chunk w) then Some (p', w' :: t, false)
              else match copy_fetched p' t lk with
                   | None => None
                   | Some (p'', t', ok) => Some (p'', w' :: t', ok)
                   end
          end
      end
  end.

Fixpoint conc_rounds (c : cfg) (f : fstate) (rounds : list round) : fstate * status :=
  match rounds with
  | [] => (f, SErr)                                 (* schedule cut: the call has not returned (reported as error) *)
  | Lead single rs :: _ =>
      let '(fr, _, _, _) := fetch_any c single (map w_chunk (f_ws f)) rs in
      match fr with
      | FParts parts ok => fetch_regions c (mkF (f_cache f) (f_fetched f) (f_ever f) (f_p f) (f_ws f) []) parts ok
      | _ => (f, SErr)
      end
  | FollowErr :: _ => (f, SErr)
  | Follow lk :: t =>
      match copy_fetched (f_p f) (f_ws f) lk with
      | None => (f, SPanic)
      | Some (p', ws', true) => (mkF (f_cache f) (f_fetched f) (f_ever f) p' ws' (f_seen f), SOk)
      | Some (p', ws', false) => conc_rounds c (mkF (f_cache f) (f_fetched f) (f_ever f) p' ws' (f_seen f)) t
      end
  end.

(* ReadAt of one reader under interference; returns its result and the chunks it committed itself *)
Definition read_conc (c : cfg) (off : Z) (p0 : bytes) (lk0 : region -> lookup) (rounds : list round)
  : result * cache :=
  let n := zlen p0 in
  if (n =? 0) || (c_size c <? off) then (ROk [], [])
  else
    match walk_chunks (c_size c) (c_cs c) (all_region (c_cs c) off n) with
    | None => (RErr, [])
    | Some chunks =>
        match prepare_conc off p0 chunks lk0 with
        | None => (RPanic, [])
        | Some (p, []) => (ROk (firstn (Z.to_nat (adjust (c_size c) off n)) p), [])
        | Some (p, ws) =>
            let '(f, stt) := conc_rounds c (mkF [] [] [] p ws []) rounds in
            (status_result stt (ROk (firstn (Z.to_nat (adjust (c_size c) off n)) (f_p f))), f_cache f)
        end
    end.

(* ---- specification vocabulary (used by the theorem statements) ---- *)
(* B is the blob held by the registry. *)
Definition cfg_ok (c : cfg) (B : bytes) : Prop := c_size c = zlen B /\ 0 < c_cs c.

(* the bytes of B at region r *)
Definition blob_at (B : bytes) (r : region) : bytes := slice B (rb r) (rsize r).

(* a body is honest for a region starting at b when it is a (possibly truncated, possibly longer than asked)
   run of the blob's bytes starting at b; b cannot be negative (Content-Range is parsed from digits) *)
Definition body_honest (B : bytes) (b : Z) (body : bytes) : Prop :=
  0 <= b /\ exists k, body = firstn k (skipn (Z.to_nat b) B).
Definition part_honest (B : bytes) (pt : region * bytes) : Prop := body_honest B (rb (fst pt)) (snd pt).
Definition resp_honest (B : bytes) (r : resp) : Prop :=
  match r with
  | R200 _ body => body_honest B 0 body
  | R206S reg body => body_honest B (rb reg) body
  | R206M parts _ => Forall (part_honest B) parts
  | RH b body => body_honest B b body
  | _ => True
  end.

(* every cache entry holds the blob's bytes of its region *)
Definition cache_honest (B : bytes) (ch : cache) : Prop :=
  forall r d, cache_get ch r = Some d -> d = blob_at B r.
Definition lookup_honest (B : bytes) (c : region) (lk : lookup) : Prop :=
  match lk with Some d => d = blob_at B c | None => True end.

(* replies carried by an op / a round *)
Definition op_resps (o : op) : list resp :=
  match o with
  | ReadAt _ _ rs => rs
  | CacheOp _ _ _ scripts => concat scripts
  | CheckOp rs | RefreshOp rs => rs
  | Evict _ => []
  end.
Definition op_ok (B : bytes) (o : op) : Prop :=
  Forall (resp_honest B) (op_resps o) /\ match o with ReadAt off _ _ => 0 <= off | _ => True end.
Definition lookups_honest (B : bytes) (lk : region -> lookup) : Prop := forall c, lookup_honest B c (lk c).
Definition round_honest (B : bytes) (r : round) : Prop :=
  match r with
  | Lead _ rs => Forall (resp_honest B) rs
  | FollowErr => True
  | Follow lk => lookups_honest B lk
  end.

(* what ReadAt(p, off) must return on success: bytes [off, min(off+n, size)) of the blob *)
Definition expected (B : bytes) (off n : Z) : bytes := slice B off (Z.min n (zlen B - off)).

(* the results of a history: one per op *)
Fixpoint results (c : cfg) (s : st) (os : list op) : list (op * result) :=
  match os with
  | [] => []
  | o :: t => let '(s', r, _) := step c s o in (o, r) :: results c s' t
  end.

(* ---- equality tests used by the correspondence check ---- *)
Fixpoint bytes_eqb (a b : bytes) : bool :=
  match a, b with
  | [], [] => true
  | x :: a', y :: b' => N.eqb x y && bytes_eqb a' b'
  | _, _ => false
  end.
Definition result_eqb (a b : result) : bool :=
  match a, b with
  | ROk x, ROk y => bytes_eqb x y
  | RErr, RErr => true
  | RPanic, RPanic => true
  | _, _ => false
  end.
Definition req_eqb (a b : req) : bool :=
  match a, b with
  | QData x, QData y => regions_eqb x y
  | QRedir, QRedir | QHead, QHead | QSizeGet, QSizeGet | QCheck, QCheck | QHandle, QHandle => true
  | QFetch x, QFetch y => region_eqb x y
  | _, _ => false
  end.
Fixpoint reqs_eqb (a b : list req) : bool :=
  match a, b with
  | [], [] => true
  | x :: a', y :: b' => req_eqb x y && reqs_eqb a' b'
  | _, _ => false
  end.
Definition out_eqb (a b : out) : bool :=
  let '(r1, f1, z1, m1, q1) := a in
  let '(r2, f2, z2, m2, q2) := b in
  result_eqb r1 r2 && regions_eqb f1 f2 && (z1 =? z2) && Bool.eqb m1 m2 && reqs_eqb q1 q2.
Fixpoint outs_eqb (a b : list out) : bool :=
  match a, b with
  | [], [] => true
  | x :: a', y :: b' => out_eqb x y && outs_eqb a' b'
  | _, _ => false
  end.

(* a case = configuration, op list (with the replies the server gave), outputs observed on the implementation *)
Definition case := (cfg * list op * list out)%type.
Definition case_ok (k : case) : bool :=
  let '(c, os, obs) := k in outs_eqb (run c (init c) os) obs.
Fixpoint mismatches_from (n : nat) (ks : list case) : list nat :=
  match ks with
  | [] => []
  | k :: t => if case_ok k then mismatches_from (S n) t else n :: mismatches_from (S n) t
  end.
Definition mismatches := mismatches_from 0.
