(* C03 — estargz.Build end to end: sortEntries (importTar: landmark dropping and last-duplicate-wins by
   cleaned name; prioritized ordering; landmark insertion) composed with the parallel writers of
   Model/EsgzWriter.v.  Executable definitions only; proofs are in Proofs/EsgzBuild.v.

   sortEntries is own-C14's model (Model/Sort.v, read-only here): a tar entry is (id, raw name, hardlink
   target); this file attaches to every id the attributes the writer needs (kind by typeflag, header.Size,
   length of its header block(s) in the output) and turns the sorted items into writer entries:
     - an entry whose cleaned name is stargz.index.json becomes KToc (sortEntries treats it like any file, its
       size counts for divideEntries, appendTar drops it);
     - the landmark item becomes the 1-byte regular file whose name is in needsOpenGzEntries. *)
From Coq Require Import List NArith ZArith Bool Arith String.
From SV Require Import Gen.Consts.
From SV Require Model.Sort.
From SV Require Export Model.EsgzWriter.
Import ListNotations.
Open Scope N_scope.

Module S := SV.Model.Sort.

Definition toc_key : S.path := S.clean (S.str_of_bytes toc_tar_name).

(* (kind by typeflag: KReg / KMeta / KBad, header.Size, header length in the output stream) *)
Definition attr := (ekind * N * N)%type.

Definition went (att : nat -> attr) (se : S.entry) : entry :=
  let '(k, sz, hl) := att (S.e_id se) in
  mkE (N.of_nat (S.e_id se)) 0 (if S.path_eqb (S.key se) toc_key then KToc else k) sz hl false
      (S.is_landmark (S.key se)).

(* the landmark sortEntries inserts: Size = len([]byte{landmarkContents}) = 1 *)
Definition wland (lmid lmh : N) : entry := mkE lmid 0 KReg 1 lmh true true.

Definition witem (att : nat -> attr) (lmid lmh : N) (it : S.item) : entry :=
  match it with
  | S.IEnt e => went att e
  | S.ILand _ => wland lmid lmh
  end.

(* Build(tar, WithPrioritizedFiles(prio), WithAllowPrioritizeNotFound?, WithParallelism(k), chunk, min-chunk) *)
Definition build_from_tar (i : io) (att : nat -> attr) (t : list S.entry) (prio : list string) (allow : bool)
           (lmid lmh : N) (k : N) (chunk minc : Z) (cs fs : list N) : res blob :=
  match S.sort_entries t prio allow with
  | S.SOk items _ => build_blob i (MBuild k) chunk minc 0 (map (witem att lmid lmh) items) cs fs
  | _ => Err
  end.

(* ---------- correspondence ---------- *)
Record bcase := mkBCase {
  bc_fmt : ffmt; bc_chunk : Z; bc_min : Z; bc_workers : N;
  bc_tar : list S.entry;            (* the input tar, ids = positions *)
  bc_attr : list attr;              (* attributes by id *)
  bc_prio : list string; bc_allow : bool;
  bc_lmh : N;                       (* header length of the landmark entry (oracle) *)
  bc_cs : list N; bc_fs : list N; bc_tocJ : N; bc_tocC : N;
  (* observed *)
  bc_ok : bool; bc_toc : list tocent; bc_footer : bytes; bc_bloblen : N; bc_unclen : N
}.

Definition bcase_ok (c : bcase) : bool :=
  let att := fun k => nth k (bc_attr c) (KBad, 0, 0) in
  match build_from_tar null_io att (bc_tar c) (bc_prio c) (bc_allow c) (N.of_nat (List.length (bc_tar c))) (bc_lmh c)
                       (bc_workers c) (bc_chunk c) (bc_min c) (bc_cs c) (bc_fs c) with
  | Ok b =>
      let '(ft, bl, ul) := finish (bc_fmt c) (b_total b) (b_unc b) (bc_tocJ c) (bc_tocC c) in
      bc_ok c && toc_eqb (b_toc b) (bc_toc c) && bytes_eqb ft (bc_footer c) && (bl =? bc_bloblen c) && (ul =? bc_unclen c)
      && match b_left b with ([], []) => true | _ => false end
  | Err => negb (bc_ok c)
  | NoOracle => false
  end.

(* one build with a compressor value *)
Inductive step :=
| CW (c : EsgzWriter.case)   (* Writer / lossless *)
| CB (c : bcase).            (* Build from the raw input tar *)

Definition step_ok (c : step) : bool :=
  match c with CW w => EsgzWriter.case_ok w | CB b => bcase_ok b end.

(* ---------- compressor VALUES reused for several builds ----------
   What a compressor value carries from one build to the next:
     gzip (estargz.GzipCompressor)          nothing (the level only)
     zstd:chunked (zstdchunked.Compressor)  nothing that reaches the output (an encoder pool, the Metadata map)
     external TOC (externaltoc.GzipCompressor)  gc.buf: the TOC registered by the LAST WriteTOCAndFooter, REPLACED
                                             by each new one; WriteTOCTo hands it out.
   A build that fails before Close / closeWithCombine never reaches WriteTOCAndFooter and leaves the value as it is. *)
Definition cstate := option (list tocent).

Definition step_fmt (c : step) : ffmt := match c with CW w => c_fmt w | CB b => bc_fmt b end.
Definition step_obs_ok (c : step) : bool := match c with CW w => c_ok w | CB b => bc_ok b end.
Definition step_obs_toc (c : step) : list tocent := match c with CW w => c_toc w | CB b => bc_toc b end.

(* the blob the model builds for this step *)
Definition step_blob (c : step) : res blob :=
  match c with
  | CW w => build_blob null_io (c_mode w) (c_chunk w) (c_min w) (c_tlen w) (c_entries w) (c_cs w) (c_fs w)
  | CB b => build_from_tar null_io (fun k => nth k (bc_attr b) (KBad, 0, 0)) (bc_tar b) (bc_prio b) (bc_allow b)
                           (N.of_nat (List.length (bc_tar b))) (bc_lmh b) (bc_workers b) (bc_chunk b) (bc_min b) (bc_cs b) (bc_fs b)
  end.

(* WriteTOCAndFooter of the step's format on the compressor value *)
Definition comp_after (st : cstate) (c : step) : cstate :=
  match step_fmt c with
  | FExt => match step_blob c with Ok b => Some (b_toc b) | _ => st end
  | _ => st
  end.

(* WriteTOCTo *)
Definition write_toc_to (st : cstate) : option (list tocent) := st.

(* a case = the builds made, one after the other, with ONE compressor value; for the external-TOC format the
   observed TOC of every step is the one fetched through WriteTOCTo right after that build *)
Definition case := list step.

Fixpoint seq_ok (st : cstate) (l : list step) : bool :=
  match l with
  | [] => true
  | c :: t =>
      let st' := comp_after st c in
      step_ok c
      && match step_fmt c, step_obs_ok c with
         | FExt, true => match write_toc_to st' with Some toc => toc_eqb toc (step_obs_toc c) | None => false end
         | _, _ => true
         end
      && seq_ok st' t
  end.

Definition case_ok (c : case) : bool := seq_ok None c.

Fixpoint mismatches_from (n : nat) (cs : list case) : list nat :=
  match cs with
  | [] => []
  | c :: t => if case_ok c then mismatches_from (S n) t else n :: mismatches_from (S n) t
  end.
Definition mismatches := mismatches_from 0.
