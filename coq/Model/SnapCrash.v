(* Crash and restart of the snapshotter (C09), on top of Model/Snap.v.

   Durable state = metadata.db as of the last committed bolt transaction (meta, seq) + the entries of
   snapshots/ (dirs). Volatile = backend mount table, open transaction. A crash image is a [st] whose
   volatile part is empty.

   [crash_points order s o] lists, in the order the Go code reaches them, the crash-point markers hit while
   operation [o] runs from state [s] (marker code, durable image at that instant). The markers are the
   verifCrashPoint("...") call lines of snapshot/snapshot.go:
      1 create.tempdir   2 create.meta   3 create.renamed   4 create.committed
      5 prepare.mounted  6 prepare.committed   7 commit.meta
      8 remove.meta      9 remove.committed   10 cleanup.iter
      11 cleanupdir.unmounted   12 cleanupdir.removed
   Directory cleanups iterate in readdir order, which the model does not know: [order] is the order (ids) in
   which the directories of this op's cleanup list are processed; any permutation of that list is allowed
   (theorems quantify over it), another list yields no crash point.

   [restart nr allow mbad img]: NewSnapshotter on the image: with NoRestore nothing; otherwise every snapshot
   carrying the remote label (Walk = name order) gets its directory recreated if missing and a backend
   Mount with its stored labels; [mbad] = ids whose Mount fails; a failure aborts construction unless
   allowInvalidMountsOnRestart. *)
From Coq Require Import List Arith Bool.
From SV Require Export Model.Snap.
Import ListNotations.

Definition image (s : st) (m : list (name * info)) (q : nat) (d : list dirent) : st :=
  mkSt (async s) m q d (tmpc s) [] false [].

Definition durable (s : st) : st := image s (meta s) (seq s) (dirs s).

(* cleanupSnapshotDirectory over [ds] (metadata fixed): markers 10? 11 12 per directory *)
Fixpoint cleanup_points (s : st) (m : list (name * info)) (q : nat) (iter : bool) (cur : list dirent) (ds : list dirent)
  : list (nat * st) :=
  match ds with
  | [] => []
  | d :: t =>
      (if iter then [(10, image s m q cur)] else []) ++
      (11, image s m q cur) :: (12, image s m q (rm_dirent cur d)) ::
      cleanup_points s m q iter (rm_dirent cur d) t
  end.

Definition ids_of_dirents (ds : list dirent) : list nat :=
  flat_map (fun d => match d with DId i => [i] | DTemp _ => [] end) ds.
Definition order_ok (order : list nat) (ds : list dirent) : bool :=
  natlist_eqb (sort_by (fun x => x) order) (sort_by (fun x => x) (ids_of_dirents ds))
  && Nat.eqb (length ds) (length order).

Definition create_points (s : st) (k : kind) (key : name) (parent : option name) (l : labels) : list (nat * st) :=
  if closed s then [] else
  let td := DTemp (tmpc s) in
  let sb := set_tmpc s (S (tmpc s)) in      (* the temp name is used up *)
  let I1 := image sb (meta s) (seq s) (td :: dirs s) in
  let I0 := image sb (meta s) (seq s) (rm_dirent (td :: dirs s) td) in
  match meta_create s k key parent with
  | inl _ => [(1, I1); (11, I1); (12, I0)]
  | inr sn =>
      let parent_ok := match sn_parents sn with [] => true | p :: _ => has_dir s (DId p) end in
      if negb parent_ok then [(1, I1); (2, I1); (11, I1); (12, I0)] else
      if has_dir s (DId (sn_id sn)) then
        [(1, I1); (2, I1); (11, I1); (12, I0); (11, I0);
         (12, image sb (meta s) (seq s) (rm_dirent (rm_dirent (td :: dirs s) td) (DId (sn_id sn))))]
      else
        let d3 := DId (sn_id sn) :: rm_dirent (td :: dirs s) td in
        [(1, I1); (2, I1); (3, image sb (meta s) (seq s) d3);
         (4, image sb ((key, mkI (sn_id sn) k parent l) :: meta s) (sn_id sn) d3)]
  end.

Definition crash_points (order : list nat) (s : st) (o : op) : list (nat * st) :=
  match o with
  | Prepare key parent l mok cbad =>
      create_points s KActive key parent (norm l) ++
      match create_snapshot s KActive key parent (norm l) with
      | (s1, inr sn) =>
          match l_target l with
          | Some t =>
              if mok then
                let s2 := fs_mount s1 (sn_id sn) l true in
                (5, durable s1) ::
                match commit_active s2 t key (set_remote (norm l)) true with
                | (s3, None) => [(7, durable s1); (6, durable s3)]
                | (_, Some EExists) => [(6, durable s1)]
                | _ => []
                end
              else []
          | None => []
          end
      | _ => []
      end
  | View key parent l _ => create_points s KView key parent (norm l)
  | Commit nm key l =>
      match commit_active s nm key (norm l) false with
      | (_, None) => [(7, durable s)]
      | _ => []
      end
  | Remove key _ =>
      match do_remove s key [] with
      | (_, ROk) =>
          (8, durable s) ::
          if async s then [] else
          let m' := del (meta s) key in
          let ds := cleanup_list (set_meta s m') false in
          if order_ok order ds then
            (9, image s m' (seq s) (dirs s)) :: cleanup_points s m' (seq s) false (dirs s) (map DId order)
          else []
      | _ => []
      end
  | Cleanup _ =>
      if closed s then [] else
      if order_ok order (cleanup_list s false)
      then cleanup_points s (meta s) (seq s) true (dirs s) (map DId order) else []
  | Close _ =>
      if closed s || Nat.eqb (seq s) 0 then [] else
      if order_ok order (cleanup_list s true)
      then cleanup_points s (meta s) (seq s) true (dirs s) (map DId order) else []
  | _ => []
  end.

(* the names an interrupted call is about (its key, its target / commit name) *)
Definition touches (o : op) (n : name) : Prop :=
  match o with
  | Prepare key _ l _ _ => n = key \/ l_target l = Some n
  | View key _ _ _ => n = key
  | Commit nm key _ => n = nm \/ n = key
  | Remove key _ => n = key
  | _ => False
  end.

(* ---------- restart ---------- *)
Definition restore_one (allow : bool) (mbad : list nat) (acc : st * bool) (p : name * info) : st * bool :=
  let '(s, ok) := acc in
  if negb ok then acc else
  let id := i_id (snd p) in
  let s1 := if has_dir s (DId id) then s else set_dirs s (DId id :: dirs s) in
  let mok := negb (mem id mbad) in
  let s2 := fs_mount s1 id (i_labels (snd p)) mok in
  if mok then (s2, true) else (s2, allow).

Definition remote_tasks (m : list (name * info)) : list (name * info) :=
  sort_by fst (filter (fun p => l_remote (i_labels (snd p))) m).

Definition restart (nr allow : bool) (mbad : list nat) (img : st) : st * bool :=
  let s0 := mkSt (async img) (meta img) (seq img) (dirs img) (tmpc img) [] false [] in
  if nr then (s0, true) else
  fold_left (restore_one allow mbad) (remote_tasks (meta img)) (s0, true).

(* ---------- correspondence case ---------- *)
(* (async, history, crashed op, cleanup order, index of the marker taken, noRestore, allow, mbad, post ops)
   observed: (number of markers hit by the op, code of the marker taken, restart ok,
              backend events of the restart, view after restart, outputs of the post ops) *)
Record ccase := mkCase {
  c_async : bool; c_pre : list op; c_op : op; c_order : list nat; c_k : nat;
  c_nr : bool; c_allow : bool; c_mbad : list nat; c_post : list op;
  o_total : nat; o_code : nat; o_ok : bool; o_events : list event; o_view : view; o_outs : list out
}.
Definition case := ccase.

Definition case_ok (c : case) : bool :=
  let s := exec (init (c_async c)) (c_pre c) in
  let pts := crash_points (c_order c) s (c_op c) in
  Nat.eqb (length pts) (o_total c) &&
  match nth_error pts (c_k c) with
  | None => false
  | Some (code, img) =>
      Nat.eqb code (o_code c) &&
      let '(s1, ok) := restart (c_nr c) (c_allow c) (c_mbad c) img in
      Bool.eqb ok (o_ok c) &&
      list_eqb event_eqb (sort_by event_key (obs_events (log s1))) (sort_by event_key (o_events c)) &&
      (if ok then view_eqb (view_of s1) (o_view c) && list_eqb out_eqb (snd (run s1 (c_post c))) (o_outs c)
       else true)
  end.
Fixpoint mismatches_from (n : nat) (cs : list case) : list nat :=
  match cs with
  | [] => []
  | c :: t => if case_ok c then mismatches_from (S n) t else n :: mismatches_from (S n) t
  end.
Definition mismatches := mismatches_from 0.
