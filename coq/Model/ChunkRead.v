(* Byte path of a lazily served regular file (C02; reused by C01/C15).
   Executable definitions only; proofs are in Proofs/ChunkRead.v.

   What is transcribed, and from where:
     - [emit_chunks]      estargz/estargz.go  Writer.appendTar, the "for written < totalSize" loop: the
                          (ChunkOffset, ChunkSize) fields of the "reg" entry and of the following "chunk" entries
                          exactly as they are put into the TOC (ChunkSize is left 0 on the last, short chunk);
     - [init_table]       estargz/estargz.go  Reader.initFields, first loop: the ChunkSize fix-ups and the
                          construction of r.chunks[name];
     - [search]           sort.Search (Go standard library), literally;
     - [chunk_for_offset] estargz/estargz.go  Reader.ChunkEntryForOffset (memory metadata store:
                          metadata/memory/reader.go file.ChunkEntryForOffset returns its ChunkOffset/ChunkSize);
     - [db_chunks], [chunk_for_offset_db]  cmd/containerd-stargz-grpc/db: initNodes chunk recording, readChunks
                          (sizes recomputed from offsets), file.ChunkEntryForOffset;
     - [read_loop]        fs/reader/reader.go  file.ReadAt (working tree: with the "chunk must contain the offset"
                          guard): per-chunk assembly of a read, with the cache, the underlying (decompressing)
                          reader and the interference of the rest of the system as parameters.

   Interface for other models: [chunk], [table], [key], [cache], [read_loop] (parameters: [lookup], [under], [env]),
   [slice].  Numbers that come from the TOC are [Z]; a Go slice expression is a partial operation ([RPanic]). *)
From Coq Require Import List ZArith Bool Arith.
Import ListNotations.
Open Scope Z_scope.

Definition bytes := list N.

Definition slice {A} (off len : Z) (l : list A) : list A :=
  firstn (Z.to_nat len) (skipn (Z.to_nat off) l).
Definition zlen {A} (l : list A) : Z := Z.of_nat (length l).

(* ---------- chunk tables ---------- *)
Record chunk := mkChunk { c_off : Z; c_size : Z }.
Definition chunk_eqb (a b : chunk) : bool := (c_off a =? c_off b) && (c_size a =? c_size b).

(* appendTar: entries emitted for a regular file of [total] > 0 bytes with chunk size [cs]:
   (ChunkOffset, ChunkSize-field).  The first one is the "reg" entry, the others are "chunk" entries.
   [fuel] bounds the number of iterations (each writes at least one byte when cs > 0). *)
Fixpoint emit_loop (fuel : nat) (written total cs : Z) : list (Z * Z) :=
  match fuel with
  | O => []
  | S f =>
      if written <? total then
        let remain := total - written in
        if remain <? cs then (written, 0) :: emit_loop f (written + remain) total cs
        else (written, cs) :: emit_loop f (written + cs) total cs
      else []
  end.

(* what the writer appends to toc.Entries for one regular file *)
Definition emit_chunks (total cs : Z) : list (Z * Z) :=
  if 0 <? total then emit_loop (Z.to_nat total) 0 total cs
  else [(0, 0)].       (* empty file: one "reg" entry, no chunk loop *)

(* r.chunks[name] and the (fixed-up) "reg" entry r.m[name] *)
Record table := mkTable { t_ent : chunk; t_chunks : list chunk }.

(* initFields on the entries of one file of size [n] (first = "reg", rest = "chunk") *)
Definition init_table (n : Z) (raw : list (Z * Z)) : table :=
  match raw with
  | [] => mkTable (mkChunk 0 0) []
  | (o, s) :: rest =>
      let fixc := fun '(co, csz) => mkChunk co (if csz =? 0 then n - co else csz) in
      let reg_in_chunks := if (0 <? s) && (s <? n) then [mkChunk o s] else [] in
      let s' := if (s =? 0) && negb (n =? 0) then n else s in
      mkTable (mkChunk o s') (reg_in_chunks ++ map fixc rest)
  end.

Definition mk_table (n cs : Z) : table := init_table n (emit_chunks n cs).

(* sort.Search: i, j := 0, n; for i < j { h := (i+j)>>1; if !f(h) { i = h+1 } else { j = h } }; return i *)
Fixpoint search_loop (fuel : nat) (i j : nat) (f : nat -> bool) : nat :=
  match fuel with
  | O => i
  | S fu =>
      if Nat.ltb i j then
        let h := Nat.div2 (i + j) in
        if negb (f h) then search_loop fu (S h) j f else search_loop fu i h f
      else i
  end.
Definition search (n : nat) (f : nat -> bool) : nat := search_loop n 0 n f.

(* the sort.Search part shared by both stores: the first entry that starts at or after the offset or contains it *)
Definition search_lookup (ents : list chunk) (offset : Z) : option chunk :=
  let i := search (length ents) (fun i =>
             let e := nth i ents (mkChunk 0 0) in
             (c_off e >=? offset) || ((offset >? c_off e) && (offset <? c_off e + c_size e))) in
  if Nat.eqb i (length ents) then None else Some (nth i ents (mkChunk 0 0)).

(* Reader.ChunkEntryForOffset of the memory store (the name lookup has already succeeded and gave a data entry) *)
Definition chunk_for_offset (t : table) (offset : Z) : option chunk :=
  let ents := t_chunks t in
  if Nat.ltb (length ents) 2 then
    if offset >=? c_size (t_ent t) then None else Some (t_ent t)
  else search_lookup ents offset.

(* ---------- the db (bbolt) metadata store: cmd/containerd-stargz-grpc/db ---------- *)
(* readChunks: the chunk sizes are recomputed from the offsets: size_i = offset_(i+1) - offset_i, the last one ends
   at the file size (the sort by chunkOffset is the identity on the writer's ascending entries and is not modelled) *)
Fixpoint resize (l : list chunk) (n : Z) : list chunk :=
  match l with
  | [] => []
  | c :: t => mkChunk (c_off c) ((match t with [] => n | c2 :: _ => c_off c2 end) - c_off c) :: resize t n
  end.

(* initNodes: ChunkSize fix-ups as in the memory store; a "reg" entry is recorded as a chunk iff Size > 0, a "chunk"
   entry iff its (fixed-up) ChunkSize > 0; then readChunks *)
Definition db_chunks (n : Z) (raw : list (Z * Z)) : list chunk :=
  match raw with
  | [] => []
  | (o, s) :: rest =>
      let s' := if (s =? 0) && negb (n =? 0) then n else s in
      let fixc := fun '(co, csz) => mkChunk co (if csz =? 0 then n - co else csz) in
      resize ((if 0 <? n then [mkChunk o s'] else []) ++ filter (fun c => 0 <? c_size c) (map fixc rest)) n
  end.

Definition mk_table_db (n cs : Z) : table := mkTable (mkChunk 0 0) (db_chunks n (emit_chunks n cs)).

(* db file.ChunkEntryForOffset: always the search, also for zero or one entry *)
Definition chunk_for_offset_db (t : table) (offset : Z) : option chunk := search_lookup (t_chunks t) offset.

(* ---------- the chunk cache (abstract: any finite or infinite map) ---------- *)
(* genID(id, chunkOffset, chunkSize) *)
Definition key := (nat * Z * Z)%type.
Definition key_eqb (a b : key) : bool :=
  let '(i, o, s) := a in let '(i', o', s') := b in Nat.eqb i i' && (o =? o') && (s =? s').
Definition cache := key -> option bytes.
Definition cempty : cache := fun _ => None.
Definition cadd (c : cache) (k : key) (v : bytes) : cache := fun k' => if key_eqb k k' then Some v else c k'.
Definition cdel (c : cache) (k : key) : cache := fun k' => if key_eqb k k' then None else c k'.

(* ---------- fs/reader file.ReadAt ---------- *)
Inductive ev :=
| EGet (k : key) (hit : bool)     (* gr.cache.Get(id) of the assembly loop, and whether the cached data was used *)
| EUnder (off size : Z).           (* sf.fr.ReadAt(ip, chunkOffset) with len(ip) = chunkSize, followed by verifyAndCache *)

Inductive rres :=
| ROk (data : bytes)       (* returns (len data, nil); p[:n] = data *)
| RErr                     (* returns an error *)
| RPanic                   (* slice bounds out of range *)
| RShortUnder              (* the underlying reader returned fewer bytes than the chunk size: outside the modelled behaviour *)
| ROutOfFuel.              (* the Go loop would not terminate *)

Definition positive (n : Z) : Z := if n <? 0 then 0 else n.

(* outcome of the cache probe of one iteration *)
Inductive hitres := HPanic | HHit (d : bytes) | HMiss.

Section ReadLoop.
  Variable id : nat.                                    (* sf.id *)
  Variable lookup : Z -> option chunk.                   (* sf.fr.ChunkEntryForOffset *)
  (* sf.fr.ReadAt(ip, chunkOffset), len(ip) = chunkSize: [None] = error; the cache argument/result accounts for
     the pre-reader of estargz fileReader.ReadAt, which may insert neighbouring chunks into the cache *)
  Variable under : cache -> chunk -> option (bytes * cache).
  (* interference: what the rest of the system (other readers, prefetch, background fetch, eviction) does to the
     cache at the two points of an iteration where this call is not inside a cache operation: before the probe
     ([true]) and between the read of the underlying file and the insertion ([false]); the first argument numbers
     the iterations. The identity when the call runs alone. *)
  Variable env : nat -> bool -> cache -> cache.

  (* one call of file.ReadAt(p, offset) with len(p) = cap(p) = plen; [nr] bytes already produced in [acc] *)
  Fixpoint read_loop (fuel : nat) (c : cache) (offset plen nr : Z) (acc : bytes) (tr : list ev)
    : rres * cache * list ev :=
    match fuel with
    | O => (ROutOfFuel, c, tr)
    | S fu =>
        let c := env fu true c in
        if nr <? plen then
          match lookup (offset + nr) with
          | None => (ROk acc, c, tr)
          | Some ch =>
              let co := c_off ch in
              let cs := c_size ch in
              let k : key := (id, co, cs) in
              let cur := offset + nr in
              (* "The chunk must contain the offset being read" (int64 wrap-around of co+cs is outside the model) *)
              if (co <? 0) || (co + cs <? co) || (cur <? co) || (cur >=? co + cs) then (RErr, c, tr) else
              let lower := cur - co in
              let upper := positive (co + cs - (offset + plen)) in
              let expected := cs - upper - lower in
              (* if r, err := sf.gr.cache.Get(id); err == nil { n, err := r.ReadAt(p[nr:nr+expectedSize], lowerDiscard) ... *)
              let h := match c k with
                       | Some v =>
                           if (expected <? 0) || (nr + expected >? plen) then HPanic
                           else let d := slice lower expected v in
                                if zlen d =? expected then HHit d else HMiss
                       | None => HMiss
                       end in
              match h with
              | HPanic => (RPanic, c, tr ++ [EGet k false])
              | HHit d => read_loop fu c offset plen (nr + expected) (acc ++ d) (tr ++ [EGet k true])
              | HMiss =>
                  let tr1 := tr ++ [EGet k false; EUnder co cs] in
                  if (lower =? 0) && (upper =? 0) then
                    (* ip := p[nr : nr+chunkSize] *)
                    if (cs <? 0) || (nr + cs >? plen) then (RPanic, c, tr ++ [EGet k false])
                    else match under c ch with
                         | None => (RErr, c, tr1)
                         | Some (d, c1) =>
                             if zlen d =? cs then read_loop fu (cadd (env fu false c1) k d) offset plen (nr + cs) (acc ++ d) tr1
                             else (RShortUnder, c1, tr1)
                         end
                  else
                    (* ip := b.Bytes()[:chunkSize] after b.Grow(chunkSize) *)
                    if cs <? 0 then (RPanic, c, tr ++ [EGet k false])
                    else match under c ch with
                         | None => (RErr, c, tr1)
                         | Some (d, c1) =>
                             if zlen d =? cs then
                               let c2 := cadd (env fu false c1) k d in
                               (* ip[lowerDiscard : chunkSize-upperDiscard] *)
                               if lower >? cs - upper then (RPanic, c2, tr1)
                               else
                                 let piece := slice lower (cs - upper - lower) d in
                                 let n := Z.min (plen - nr) (zlen piece) in      (* copy(p[nr:], piece) *)
                                 if n =? expected then read_loop fu c2 offset plen (nr + n) (acc ++ slice 0 n piece) tr1
                                 else (RErr, c2, tr1)
                             else (RShortUnder, c1, tr1)
                         end
              end
          end
        else (ROk acc, c, tr)
    end.

  Definition read_at (c : cache) (offset plen : Z) : rres * cache * list ev :=
    read_loop (S (Z.to_nat plen)) c offset plen 0 [] [].
End ReadLoop.

(* ---------- fs/reader file.GetPassthroughFd: the whole file merged into one cache entry ---------- *)
(* overwrite buf[pos : pos+len d] with d (the destination slice has already been bounds-checked) *)
Definition overlay (buf : bytes) (pos : Z) (d : bytes) : bytes :=
  firstn (Z.to_nat pos) buf ++ d ++ skipn (Z.to_nat pos + length d) buf.

(* prefetchEntireFile, the inner loop that selects the chunks of one batch: chunks ending at or before the batch
   are skipped, the first chunk starting at or after its end stops the loop; bufferPos accumulates the sizes *)
Fixpoint pick (chs : list chunk) (bs be pos : Z) : list (chunk * Z) :=
  match chs with
  | [] => []
  | ch :: t =>
      if c_off ch + c_size ch <=? bs then pick t bs be pos
      else if c_off ch >=? be then []
      else (ch, pos) :: pick t bs be (pos + c_size ch)
  end.

(* checkHoles on the read infos (offset, size) in ascending offset order (the sort.Slice is the identity on the
   ascending buffer positions the batch loop hands out and is not modelled) *)
Fixpoint holes_loop (infos : list (Z * Z)) (e : Z) : option Z :=
  match infos with
  | [] => Some e
  | (o, s) :: t => if o <? e then None else if o >? e then None else holes_loop t (o + s)
  end.
Definition check_holes (infos : list (Z * Z)) (total : Z) : bool :=
  match infos with
  | [] => true
  | (o, _) :: _ => match holes_loop infos o with Some e => e =? total | None => false end
  end.

Section Passthrough.
  Variable id : nat.
  Variable lookup : Z -> option chunk.
  Variable under : cache -> chunk -> option (bytes * cache).

  (* the first loop of GetPassthroughFd: the chunks, their total size, "hasLargeChunk"; None = "invalid chunk" error *)
  Fixpoint pt_enum (fuel : nat) (mbs offset total : Z) (large : bool) (acc : list chunk) : option (option (list chunk * Z * bool)) :=
    match fuel with
    | O => None                                   (* the Go loop would not terminate *)
    | S fu =>
        match lookup offset with
        | None => Some (Some (acc, total, large))
        | Some ch =>
            let co := c_off ch in let cs := c_size ch in
            if negb (co =? offset) || (cs <=? 0) || (co + cs <? co) then Some None
            else
              let l1 := large || (cs >? mbs) in
              let l2 := l1 || ((mbs >? 0) && negb (Z.quot co mbs =? Z.quot (co + cs - 1) mbs)) in
              pt_enum fu mbs (co + cs) (total + cs) l2 (acc ++ [ch])
        end
    end.

  (* one chunk into a destination of cs bytes: from the cache when it holds at least cs bytes, else from the
     underlying reader. Returns the bytes that land in the destination and the number the code takes as read *)
  Definition pt_chunk (c : cache) (ch : chunk) : option (bytes * cache) :=
    let cs := c_size ch in
    match c (id, c_off ch, cs) with
    | Some v => if zlen (slice 0 cs v) =? cs then Some (slice 0 cs v, c) else under c ch
    | None => under c ch
    end.

  (* prefetchEntireFileSequential *)
  Fixpoint pt_seq (fuel : nat) (c : cache) (offset : Z) (acc : bytes) : rres * cache :=
    match fuel with
    | O => (ROutOfFuel, c)
    | S fu =>
        match lookup offset with
        | None => (ROk acc, c)                     (* w.Commit() *)
        | Some ch =>
            if c_size ch <? 0 then (RPanic, c)     (* b.Bytes()[:chunkSize] *)
            else match pt_chunk c ch with
                 | None => (RErr, c)
                 | Some (d, c1) =>
                     if zlen d =? c_size ch then pt_seq fu c1 (c_off ch + c_size ch) (acc ++ d)
                     else (RShortUnder, c1)
                 end
        end
    end.

  (* processBatchChunks for all workers of one batch. The workers write disjoint regions of the buffer, so the order
     in which the chunks are handled does not matter; with workerCount <= 0 no worker is started at all *)
  Fixpoint pt_fill (picks : list (chunk * Z)) (c : cache) (buf : bytes) (infos : list (Z * Z))
    : rres * cache * bytes * list (Z * Z) :=
    match picks with
    | [] => (ROk [], c, buf, infos)
    | (ch, pos) :: t =>
        (* args.buffer[chunk.bufferPos : chunk.bufferPos+chunk.size] *)
        if (pos <? 0) || (c_size ch <? 0) || (pos + c_size ch >? zlen buf) then (RPanic, c, buf, infos)
        else match pt_chunk c ch with
             | None => (RErr, c, buf, infos)
             | Some (d, c1) => pt_fill t c1 (overlay buf pos d) (infos ++ [(pos, zlen d)])
             end
    end.

  (* prefetchEntireFile: the batches *)
  Fixpoint pt_batches (nb : nat) (b : Z) (chs : list chunk) (total mbs : Z) (workers : Z) (c : cache) (acc : bytes) : rres * cache :=
    match nb with
    | O => (ROk acc, c)                            (* w.Commit() *)
    | S nb' =>
        let bs := b * mbs in
        let be := Z.min ((b + 1) * mbs) total in
        let picks := pick chs bs be 0 in
        let size := be - bs in
        if size <? 0 then (RPanic, c)              (* make([]byte, batchSize) *)
        else
          let buf0 := repeat 0%N (Z.to_nat size) in
          let '(r, c1, buf, infos) := if workers <=? 0 then (ROk [], c, buf0, []) else pt_fill picks c buf0 [] in
          match r with
          | ROk _ => if check_holes infos size then pt_batches nb' (b + 1) chs total mbs workers c1 (acc ++ buf)
                     else (RErr, c1)
          | _ => (r, c1)
          end
    end.

  (* GetPassthroughFd: what the returned file holds *)
  Definition pt_fd (fuel : nat) (c : cache) (mbs workers : Z) : rres * cache :=
    match pt_enum fuel mbs 0 0 false [] with
    | None => (ROutOfFuel, c)
    | Some None => (RErr, c)
    | Some (Some (chs, total, large)) =>
        let k : key := (id, 0, total) in
        match c k with
        | Some v => (ROk v, c)                     (* already merged: the cached file is handed out *)
        | None =>
            let '(r, c1) :=
              if large || (workers <=? 0) || (mbs <=? 0) then pt_seq fuel c 0 []
              else pt_batches (Z.to_nat (Z.quot (total + mbs - 1) mbs)) 0 chs total mbs workers c [] in
            match r with
            | ROk d => (ROk d, cadd c1 k d)        (* committed, then handed out by the retried Get *)
            | _ => (r, c1)
            end
        end
    end.
End Passthrough.

(* ---------- a layer: files with their content, chunk table and gzip-member grouping ---------- *)
Record file := mkFile {
  f_db : bool;                     (* served by the db metadata store (else: the memory store) *)
  f_data : bytes;
  f_table : table;
  (* for each chunk (by ChunkOffset) the keys of the other data entries stored in the same compression member:
     estargz fileReader.ReadAt hands each of them to the pre-reader, which caches it if it is not cached yet *)
  f_mates : list (Z * list key)
}.
Definition layer := list file.

Definition file_at (L : layer) (i : nat) : file := nth i L (mkFile false [] (mkTable (mkChunk 0 0) []) []).
Definition lookup_of (f : file) : Z -> option chunk :=
  if f_db f then chunk_for_offset_db (f_table f) else chunk_for_offset (f_table f).

(* the bytes a cache entry must hold to be honest *)
Definition true_bytes (L : layer) (k : key) : bytes :=
  let '(i, o, s) := k in slice o s (f_data (file_at L i)).

Fixpoint mates_of (m : list (Z * list key)) (co : Z) : list key :=
  match m with
  | [] => []
  | (o, ks) :: t => if o =? co then ks else mates_of t co
  end.

Fixpoint add_honest (L : layer) (c : cache) (ks : list key) : cache :=
  match ks with
  | [] => c
  | k :: t => add_honest L (match c k with Some _ => c | None => cadd c k (true_bytes L k) end) t
  end.

(* the honest underlying reader: returns exactly the chunk's bytes of the file content (short at EOF),
   and pre-reads the chunks that share the compression member *)
Definition under_layer (L : layer) (i : nat) (c : cache) (ch : chunk) : option (bytes * cache) :=
  Some (slice (c_off ch) (c_size ch) (f_data (file_at L i)),
        add_honest L c (mates_of (f_mates (file_at L i)) (c_off ch))).

(* one read with arbitrary interference between its iterations *)
Definition read_file_env (L : layer) (i : nat) (env : nat -> bool -> cache -> cache) (c : cache) (off len : Z) : rres * cache * list ev :=
  read_at i (lookup_of (file_at L i)) (under_layer L i) env c off len.

(* one read running alone *)
Definition read_file (L : layer) (i : nat) (c : cache) (off len : Z) : rres * cache * list ev :=
  read_file_env L i (fun _ _ c => c) c off len.

Definition pt_file (L : layer) (i : nat) (c : cache) (mbs workers : Z) : rres * cache :=
  let f := file_at L i in
  pt_fd i (lookup_of f) (under_layer L i) (S (Z.to_nat (zlen (f_data f)))) c mbs workers.

(* every (id, chunk) key of the layer, as the prefetch walk (VerifiableReader.Cache: nr += chunkSize) enumerates them *)
Fixpoint walk_chunks (fuel : nat) (lookup : Z -> option chunk) (i : nat) (nr size : Z) : list key :=
  match fuel with
  | O => []
  | S fu =>
      if nr <? size then
        match lookup nr with
        | None => []
        | Some ch => (i, c_off ch, c_size ch) :: walk_chunks fu lookup i (nr + c_size ch) size
        end
      else []
  end.
Definition file_keys (L : layer) (i : nat) : list key :=
  let f := file_at L i in walk_chunks (S (Z.to_nat (zlen (f_data f)))) (lookup_of f) i 0 (zlen (f_data f)).
Definition layer_keys (L : layer) : list key := flat_map (file_keys L) (seq 0 (length L)).

(* ---------- histories ---------- *)
Inductive op :=
| Read (i : nat) (off len : Z)        (* OpenFile(id).ReadAt(p, off), len(p) = len *)
| ReadI (i : nat) (off len : Z) (env : nat -> bool -> cache -> cache)   (* the same, interleaved with interference *)
| Pt (i : nat) (mbs workers : Z)      (* OpenFile(id).GetPassthroughFd(mergeBufferSize, mergeWorkerCount): the merged file *)
| Prefetch                            (* VerifiableReader.Cache(): every chunk of every regular file is cached *)
| Evict (ks : list key)               (* these keys disappear from the cache *)
| Env (c : cache).                    (* any interference: the cache is replaced by an arbitrary (honest) one *)

Definition step (L : layer) (c : cache) (o : op) : cache * option (rres * list ev) :=
  match o with
  | Read i off len => let '(r, c', tr) := read_file L i c off len in (c', Some (r, tr))
  | ReadI i off len env => let '(r, c', tr) := read_file_env L i env c off len in (c', Some (r, tr))
  | Pt i mbs workers => let '(r, c') := pt_file L i c mbs workers in (c', Some (r, []))
  | Prefetch => (add_honest L c (layer_keys L), None)
  | Evict ks => (fold_left cdel ks c, None)
  | Env c' => (c', None)
  end.

Fixpoint run (L : layer) (c : cache) (os : list op) : cache * list (option (rres * list ev)) :=
  match os with
  | [] => (c, [])
  | o :: t => let '(c1, x) := step L c o in let '(c2, xs) := run L c1 t in (c2, x :: xs)
  end.

Definition exec (L : layer) (c : cache) (os : list op) : cache := fold_left (fun c o => fst (step L c o)) os c.

(* the honest cache holding exactly the given keys (used by the harness to replay observed cache contents) *)
Definition honest_on (L : layer) (ks : list key) : cache :=
  fun k => if existsb (key_eqb k) ks then Some (true_bytes L k) else None.

(* ---------- equality tests for the correspondence check ---------- *)
Fixpoint bytes_eqb (a b : bytes) : bool :=
  match a, b with
  | [], [] => true
  | x :: a', y :: b' => N.eqb x y && bytes_eqb a' b'
  | _, _ => false
  end.
Definition rres_eqb (a b : rres) : bool :=
  match a, b with
  | ROk x, ROk y => bytes_eqb x y
  | RErr, RErr | RPanic, RPanic | RShortUnder, RShortUnder | ROutOfFuel, ROutOfFuel => true
  | _, _ => false
  end.
Definition ev_eqb (a b : ev) : bool :=
  match a, b with
  | EGet k h, EGet k' h' => key_eqb k k' && Bool.eqb h h'
  | EUnder o s, EUnder o' s' => (o =? o') && (s =? s')
  | _, _ => false
  end.
Fixpoint list_eqb {A} (eqb : A -> A -> bool) (a b : list A) : bool :=
  match a, b with
  | [], [] => true
  | x :: a', y :: b' => eqb x y && list_eqb eqb a' b'
  | _, _ => false
  end.
Definition out_eqb (a b : option (rres * list ev)) : bool :=
  match a, b with
  | None, None => true
  | Some (r, t), Some (r', t') => rres_eqb r r' && list_eqb ev_eqb t t'
  | _, _ => false
  end.
