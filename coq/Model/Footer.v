(* C04 — footer parsers and estargz.Open's decompressor selection, as partial operations.
   Executable definitions only; proofs are in Proofs/Footer.v.

   Conventions (DESIGN §3): every Go slice / index expression over untrusted data is written with [sl] / [ix],
   whose [None] means "runtime panic"; a function returns an [outcome]: [Ok v] | [Err] (a Go error) | [Panic] |
   [OutOfFuel] (unbounded recursion / loop: Go's stack overflow or hang).

   The gzip *header* decoder (compress/gzip NewReader) is not modelled: its result on the footer bytes is the
   oracle argument [gz : gzres] (error, or the Extra field - ANY byte string), universally quantified in the theorems
   and supplied by the harness in the correspondence check.

   Models the code after fixes C04-fix-1,2,3 (length checks), C04-fix-8 (TOC range check in Open) and
   C04-fix-9 (nil TOC reader). *)
From Coq Require Import String Ascii List ZArith NArith Bool.
From SV Require Import Gen.Consts.
Import ListNotations.
Local Open Scope Z_scope.

Inductive outcome (A : Type) : Type := Ok (a : A) | Err | Panic | OutOfFuel.
Arguments Ok {A} a.
Arguments Err {A}.
Arguments Panic {A}.
Arguments OutOfFuel {A}.

Definition bytes := list N.
Definition zlen {A} (l : list A) : Z := Z.of_nat (length l).

(* compact printing of byte strings in the generated case files: lowercase hex, two digits per byte *)
Definition hexval (a : ascii) : N := let n := N_of_ascii a in if (n <? 58)%N then (n - 48)%N else (n - 87)%N.
Fixpoint hx (s : string) : bytes :=
  match s with
  | String a (String b t) => (16 * hexval a + hexval b)%N :: hx t
  | _ => []
  end.

(* Go: l[lo:hi] (bounded by len: the harness hands in slices with cap = len) *)
Definition sl {A} (l : list A) (lo hi : Z) : option (list A) :=
  if (0 <=? lo) && (lo <=? hi) && (hi <=? zlen l)
  then Some (firstn (Z.to_nat (hi - lo)) (skipn (Z.to_nat lo) l)) else None.
(* Go: l[i] *)
Definition ix {A} (l : list A) (i : Z) : option A :=
  if (0 <=? i) && (i <? zlen l) then nth_error l (Z.to_nat i) else None.

Fixpoint bytes_eqb (a b : bytes) : bool :=
  match a, b with
  | [], [] => true
  | x :: a', y :: b' => N.eqb x y && bytes_eqb a' b'
  | _, _ => false
  end.

(* little-endian unsigned *)
Fixpoint le_uint (b : bytes) : Z :=
  match b with
  | [] => 0
  | x :: t => Z.of_N x + 256 * le_uint t
  end.

Definition two63 : Z := 9223372036854775808.
Definition two64 : Z := 18446744073709551616.
(* Go: int64(x) for a uint64 x / wrap-around of int64 arithmetic *)
Definition wrap64 (x : Z) : Z := let m := x mod two64 in if m <? two63 then m else m - two64.

(* strconv.ParseInt(s, 16, 64): optional sign, at least one digit, digits 0-9a-zA-Z with value < 16, range check *)
Definition hex_digit (c : N) : option Z :=
  if (48 <=? c)%N && (c <=? 57)%N then Some (Z.of_N c - 48)
  else let l := N.lor c 32 in
       if (97 <=? l)%N && (l <=? 122)%N then
         let d := Z.of_N l - 97 + 10 in if d <? 16 then Some d else None
       else None.
Fixpoint hex_digits (acc : Z) (s : bytes) : option Z :=
  match s with
  | [] => Some acc
  | c :: t => match hex_digit c with Some d => hex_digits (acc * 16 + d) t | None => None end
  end.
Definition parse_int16 (s : bytes) : option Z :=
  match s with
  | [] => None
  | c :: t =>
      let neg := N.eqb c 45 in
      let body := if N.eqb c 45 || N.eqb c 43 then t else s in
      match body with
      | [] => None
      | _ => match hex_digits 0 body with
             | None => None
             | Some un => if neg then (if un <=? two63 then Some (- un) else None)
                          else (if un <? two63 then Some un else None)
             end
      end
  end.

Inductive gzres := GzErr | GzExtra (e : bytes).
Inductive dec := DGzip | DLegacy | DZstd | DExt.

Definition footer_size (d : dec) : Z :=
  match d with
  | DGzip => c04_footer_size | DLegacy => c04_legacy_footer_size
  | DZstd => c04_zstd_footer_size | DExt => c04_ext_footer_size
  end.

Definition s_STARGZ : bytes := [83; 84; 65; 82; 71; 90]%N.
Definition s_EXT : bytes := [83; 84; 65; 82; 71; 90; 69; 88; 84; 69; 82; 78; 65; 76; 84; 79; 67]%N.
Definition zstd_magic : bytes := [71; 110; 85; 108; 73; 110; 85; 120]%N. (* 0x47 0x6e 0x55 0x6c 0x49 0x6e 0x55 0x78 *)

Definition res3 := outcome (Z * Z * Z). (* blobPayloadSize, tocOffset, tocSize *)

(* option bind where None = panic *)
Definition pbind {A B} (o : option A) (f : A -> outcome B) : outcome B :=
  match o with Some a => f a | None => Panic end.

(* the tail shared by the two stargz gzip footers: magic + 16 hex digits *)
Definition offset_field (field : bytes) : res3 :=
  pbind (sl field 16 (zlen field)) (fun magic =>
  if negb (bytes_eqb magic s_STARGZ) then Err else
  pbind (sl field 0 16) (fun hex =>
  match parse_int16 hex with
  | None => Err
  | Some off => Ok (off, off, 0)
  end)).

(* estargz/gzip.go GzipDecompressor.ParseFooter *)
Definition parse_footer_gzip (p : bytes) (gz : gzres) : res3 :=
  if negb (zlen p =? c04_footer_size) then Err else
  match gz with
  | GzErr => Err
  | GzExtra extra =>
      if zlen extra <? 4 then Err else
      pbind (ix extra 0) (fun si1 => pbind (ix extra 1) (fun si2 =>
      pbind (sl extra 2 4) (fun sflen => pbind (sl extra 4 (zlen extra)) (fun subfield =>
      if negb (N.eqb si1 83 && N.eqb si2 71) then Err else
      if negb (le_uint sflen =? 22) then Err else
      if negb (zlen subfield =? 22) then Err else          (* C04-fix-1 *)
      offset_field subfield))))
  end.

(* estargz/gzip.go LegacyGzipDecompressor.ParseFooter *)
Definition parse_footer_legacy (p : bytes) (gz : gzres) : res3 :=
  if negb (zlen p =? c04_legacy_footer_size) then Err else
  match gz with
  | GzErr => Err
  | GzExtra extra =>
      if negb (zlen extra =? 22) then Err else offset_field extra
  end.

(* estargz/externaltoc GzipDecompressor.ParseFooter *)
Definition parse_footer_ext (p : bytes) (gz : gzres) : res3 :=
  if negb (zlen p =? c04_ext_footer_size) then Err else
  match gz with
  | GzErr => Err
  | GzExtra extra =>
      if zlen extra <? 4 then Err else                      (* C04-fix-3 *)
      pbind (ix extra 0) (fun si1 => pbind (ix extra 1) (fun si2 =>
      pbind (sl extra 2 4) (fun sflen => pbind (sl extra 4 (zlen extra)) (fun subfield =>
      if negb (N.eqb si1 83 && N.eqb si2 71) then Err else
      if negb (le_uint sflen =? 17) then Err else
      if negb (bytes_eqb subfield s_EXT) then Err else
      Ok (-1, -1, 0)))))
  end.

(* estargz/zstdchunked Decompressor.ParseFooter *)
Definition parse_footer_zstd (p : bytes) : res3 :=
  if zlen p <? c04_zstd_footer_size then Err else          (* C04-fix-2 *)
  pbind (sl p 0 8) (fun o8 => pbind (sl p 8 16) (fun l8 => pbind (sl p 32 40) (fun mg =>
  if negb (bytes_eqb zstd_magic mg) then Err else
  let offset := le_uint o8 in let clen := le_uint l8 in
  Ok (wrap64 (offset - 8), wrap64 offset, wrap64 clen)))).

Definition parse_footer (d : dec) (p : bytes) (gz : gzres) : res3 :=
  match d with
  | DGzip => parse_footer_gzip p gz
  | DLegacy => parse_footer_legacy p gz
  | DExt => parse_footer_ext p gz
  | DZstd => parse_footer_zstd p
  end.

(* ---- estargz.Open: footer fetch size, slicing of the fetched bytes, decompressor loop ---- *)

Definition positive (n : Z) : Z := if n <? 0 then 0 else n.

Fixpoint max_footer_size (size : Z) (ds : list dec) (res : Z) : Z :=
  match ds with
  | [] => res
  | d :: t => let s := footer_size d in max_footer_size size t (if (res <? s) && (s <=? size) then s else res)
  end.

(* [footer]: the fetched bytes (sr.ReadAt(footer, size - fetchSize)), [gzs d]: gzip-header oracle for the slice handed
   to d, [toc d]: does parseTOC succeed for d (TOC decoding is not modelled: gzip/zstd/tar/JSON decoders).
   The Ok value is the index of the decompressor that opened the blob. *)
Fixpoint open_loop (size : Z) (footer : bytes) (gzs : dec -> gzres) (toc : dec -> bool) (ds : list dec) (i : nat)
  : outcome nat :=
  match ds with
  | [] => Err                                   (* errors.Join(allErr...) *)
  | d :: t =>
      let fsize := footer_size d in
      let foff := positive (zlen footer - fsize) in
      pbind (sl footer 0 foff) (fun maybe_toc =>
      pbind (sl footer foff (zlen footer)) (fun p =>
      match parse_footer d p (gzs d) with
      | Panic => Panic
      | OutOfFuel => OutOfFuel
      | Err => open_loop size footer gzs toc t (S i)
      | Ok (_, toc_off, toc_size0) =>
          let toc_size := if (0 <=? toc_off) && (toc_size0 <=? 0) then size - toc_off - fsize else toc_size0 in
          (* C04-fix-8: the TOC range must lie in the blob *)
          if (0 <=? toc_off) && ((toc_size <? 0) || (size - toc_off <? toc_size)) then open_loop size footer gzs toc t (S i) else
          pbind (if (0 <=? toc_off) && (toc_size <? zlen maybe_toc) then sl maybe_toc 0 toc_size else Some maybe_toc)
          (fun _ =>
            (* parseTOC: toc_off < 0 -> d.ParseTOC(nil) (C04-fix-9: an error for the gzip decompressors, external
               fetch otherwise); else make([]byte, toc_size) with 0 <= toc_size <= size, ReadAt, ParseTOC *)
            if toc d then Ok i else open_loop size footer gzs toc t (S i))
      end))
  end.

Definition decompressors (ext : bool) : list dec := [DGzip; DLegacy] ++ (if ext then [DZstd; DExt] else []).

(* [tail51]: the last min(size, 51) bytes of the blob. The bytes of the fetched region before them only serve as TOC
   bytes (oracle), so the fetched region is rebuilt as zero padding ++ tail. *)
Definition open_select (size : Z) (ext : bool) (tocoff_opt : Z) (tail51 : bytes) (gzs : dec -> gzres) (toc : dec -> bool)
  : outcome nat :=
  let ds := decompressors ext in
  let fetch0 := max_footer_size size ds 0 in
  if (fetch0 <? tocoff_opt) && (size <? tocoff_opt) then Err else
  let fetch := if fetch0 <? tocoff_opt then size - tocoff_opt else fetch0 in
  (* make([]byte, fetchSize): 0 <= fetch here (fetch0 >= 0; size >= tocoff_opt in the other branch) *)
  if fetch <? 0 then Panic else
  (* sr.ReadAt(footer, size-fetch) fails with EOF when the region is not inside the blob or is empty at the end *)
  if (size <? fetch) || (fetch =? 0) then Err else
  let footer :=
    if fetch <=? zlen tail51 then skipn (Z.to_nat (zlen tail51 - fetch)) tail51
    else repeat 0%N (Z.to_nat (fetch - zlen tail51)) ++ tail51 in
  open_loop size footer gzs toc ds 0.
