(* Concurrent callers of the snapshotter (C08), on top of Model/Snap.v.

   Every API call is cut into the ATOMIC SEGMENTS the Go code really has:
     - a bolt write transaction (createSnapshot incl. its directory operations, commit, storage.Remove + the
       listing of removable directories, the listing transaction of Cleanup, Update) — bolt admits one writer
       at a time, so a write transaction is one indivisible step;
     - a bolt read transaction (GetInfo in prepareRemoteSnapshot, GetSnapshot in Mounts, the chain walk of
       checkAvailability, Stat);
     - each backend call (Mount, every single Check, every single Unmount) and each os.RemoveAll.
   Between two segments of one call any segments of other calls may run. A thread that is inside a call has a
   [frame] = what is left of its call (program counter + locals). A schedule is a list of [sop]:
   [Start t o] = thread t (idle) enters call o and runs its first segment; [Step t] = thread t runs its next
   segment. EVERY list of sops is a schedule: the single-writer rule is built into the segment granularity, and
   a [Start] of a busy thread or a [Step] of an idle one is a no-op. Close is taken only when no call is in
   flight (assumption: the snapshotter is closed at quiescence); it is one step.

   Backend, as in Model/Snap.v, with two refinements that only matter under concurrency: a Mount on a directory
   that no longer exists fails (FUSE cannot mount there), and the backend keeps ONE registration per mountpoint
   (fs.layer is a map: a second Mount of the same mountpoint replaces the first). *)
From Coq Require Import List Arith Bool.
From SV Require Export Model.Snap.
Import ListNotations.

Inductive frame :=
| FMountGet (key : name) (parent : option name) (l : labels) (mok : bool) (cbad : list nat) (sn : snap) (tg : name)
| FMount (key : name) (parent : option name) (l : labels) (mok : bool) (cbad : list nat) (sn : snap) (tg : name) (id : nat)
| FCommit (key : name) (l : labels) (tg : name) (id : nat)
| FChain (sn : snap) (ck : option name) (cbad : list nat)
| FChecks (sn : snap) (done todo : list nat) (ok : bool) (cbad : list nat) (mark : nat)
| FClean (ds : list dirent) (ubad : list nat) (r : res)
| FRm (d : dirent) (ds : list dirent) (ubad : list nat) (r : res).

Record cst := mkC {
  base   : st;                      (* shared state: metadata.db, snapshots/, backend, log *)
  frames : list (nat * frame);      (* threads inside a call *)
  rets   : list (nat * res)         (* results of finished calls, most recent first *)
}.

Definition cinit (a : bool) : cst := mkC (init a) [] [].

Fixpoint frame_of (fs : list (nat * frame)) (t : nat) : option frame :=
  match fs with
  | [] => None
  | (t', f) :: r => if Nat.eqb t' t then Some f else frame_of r t
  end.
Definition del_frame (fs : list (nat * frame)) (t : nat) : list (nat * frame) :=
  filter (fun p => negb (Nat.eqb (fst p) t)) fs.

Definition finish (cs : cst) (t : nat) (s : st) (r : res) : cst :=
  mkC s (del_frame (frames cs) t) ((t, r) :: rets cs).
Definition park (cs : cst) (t : nat) (s : st) (f : frame) : cst :=
  mkC s ((t, f) :: del_frame (frames cs) t) (rets cs).

(* RemoveAll(<d>) *)
Definition rm_dir (s : st) (d : dirent) : st := emit (set_dirs s (rm_dirent (dirs s) d)) (EvRmDir d).

(* createSnapshot up to the end of its write transaction; on failure the deferred directory cleanups are
   returned instead of performed (they run after the transaction, other calls may come in between) *)
Definition create_txn (s : st) (k : kind) (key : name) (parent : option name) (l : labels)
  : st * (err * list dirent + snap) :=
  if closed s then (s, inl (EOther, [])) else
  let td := DTemp (tmpc s) in
  let s1 := set_tmpc (set_dirs s (td :: dirs s)) (S (tmpc s)) in
  match meta_create s1 k key parent with
  | inl e => (s1, inl (e, [td]))
  | inr sn =>
      let parent_ok := match sn_parents sn with [] => true | p :: _ => has_dir s1 (DId p) end in
      if negb parent_ok then (s1, inl (EOther, [td])) else
      if has_dir s1 (DId (sn_id sn)) then (s1, inl (EOther, [td; DId (sn_id sn)])) else
      let s2 := set_dirs s1 (DId (sn_id sn) :: rm_dirent (dirs s1) td) in
      (set_seq (set_meta s2 ((key, mkI (sn_id sn) k parent l) :: meta s2)) (sn_id sn), inr sn)
  end.

Definition after_create (cs : cst) (t : nat) (s1 : st) (r : err * list dirent + snap)
           (key : name) (parent : option name) (l : labels) (mok : bool) (cbad : list nat) (target : option name) : cst :=
  match r with
  | inl (e, ds) => park cs t s1 (FClean ds [] (RErr e))
  | inr sn =>
      match target with
      | Some tg => park cs t s1 (FMountGet key parent l mok cbad sn tg)
      | None => park cs t s1 (FChain sn parent cbad)
      end
  end.

(* ids of the snapshots carrying the remote label on the chain from [k], nearest first (one read transaction) *)
Fixpoint chain_remote (fuel : nat) (m : list (name * info)) (k : name) : option (list nat) :=
  match fuel with
  | O => None
  | S f =>
      match lookup m k with
      | None => None
      | Some i =>
          let here := if l_remote (i_labels i) then [i_id i] else [] in
          match i_parent i with
          | None => Some here
          | Some p => match chain_remote f m p with Some r => Some (here ++ r) | None => None end
          end
      end
  end.

(* first segment of a call *)
Definition cstart (cs : cst) (t : nat) (o : op) : cst :=
  let s := base cs in
  match o with
  | Prepare key parent l mok cbad =>
      let '(s1, r) := create_txn s KActive key parent (norm l) in after_create cs t s1 r key parent l mok cbad (l_target l)
  | View key parent l cbad =>
      let '(s1, r) := create_txn s KView key parent (norm l) in after_create cs t s1 r key parent l true cbad None
  | Commit nm key l =>
      let '(s1, r) := commit_active s nm key (norm l) false in
      finish cs t s1 (match r with None => ROk | Some e => RErr e end)
  | Mounts key cbad =>
      if closed s then finish cs t s (RErr EOther) else
      match lookup (meta s) key with
      | None => finish cs t s (RErr ENotFound)
      | Some i =>
          if kind_eqb (i_kind i) KCommitted then finish cs t s (RErr EFailedPre) else
          match i_parent i with
          | None => park cs t s (FChain (mkSnap (i_id i) (i_kind i) []) (Some key) cbad)
          | Some p =>
              match parents (fuel_of s) (meta s) p with
              | POk lw => park cs t s (FChain (mkSnap (i_id i) (i_kind i) lw) (Some key) cbad)
              | PMissing => finish cs t s (RErr ENotFound)
              | PFuel => finish cs t s (RErr EOther)
              end
          end
      end
  | Remove key ubad =>
      if closed s then finish cs t s (RErr EOther) else
      match lookup (meta s) key with
      | None => finish cs t s (RErr ENotFound)
      | Some i =>
          if has_child (meta s) key then finish cs t s (RErr EFailedPre) else
          let perr := match i_parent i with
                      | None => false
                      | Some p => match lookup (meta s) p with None => true | Some _ => false end
                      end in
          if perr then finish cs t s (RErr ENotFound) else
          let s1 := emit (set_meta s (del (meta s) key)) (EvMetaRemove (i_id i)) in
          if async s then finish cs t s1 ROk
          else park cs t s1 (FClean (cleanup_list s1 false) ubad ROk)
      end
  | Cleanup ubad =>
      if closed s then finish cs t s (RErr EOther)
      else park cs t s (FClean (cleanup_list s false) ubad ROk)
  | Update nm l => let '(s1, r) := do_update s nm (norm l) in finish cs t s1 r
  | Stat nm => let '(s1, r) := do_stat s nm in finish cs t s1 r
  | Close ubad =>
      match frames cs with
      | [] => let '(s1, r) := do_close s ubad in finish cs t s1 r
      | _ => cs
      end
  end.

(* next segment of the call thread t is in *)
Definition cresume (cs : cst) (t : nat) (f : frame) : cst :=
  let s := base cs in
  match f with
  | FMountGet key parent l mok cbad sn tg =>
      (* prepareRemoteSnapshot: read transaction, storage.GetInfo(key) *)
      match lookup (meta s) key with
      | None => park cs t s (FChain sn parent cbad)
      | Some i => park cs t s (FMount key parent l mok cbad sn tg (i_id i))
      end
  | FMount key parent l mok cbad sn tg id =>
      (* fs.Mount(<id>/fs, labels) *)
      let ok := mok && has_dir s (DId id) in
      let s1 := fs_mount (set_mounts s (rm_mount (mounts s) id)) id l ok in
      if ok then park cs t s1 (FCommit key l tg id) else park cs t s1 (FChain sn parent cbad)
  | FCommit key l tg id =>
      (* commit(true, target, key, labels + remote): one write transaction *)
      let cid := match lookup (meta s) key with Some i => i_id i | None => id end in
      match commit_active s tg key (set_remote (norm l)) true with
      | (s3, None) => finish cs t (emit s3 (EvRemoteCommit cid)) RTargetExists
      | (s3, Some EExists) => finish cs t s3 RTargetExists
      | (s3, Some e) => finish cs t s3 (RErr e)
      end
  | FChain sn ck cbad =>
      (* mounts(): checkAvailability walks the chain in one read transaction *)
      match ck with
      | None => finish cs t s (RMounts (mount_shape sn))
      | Some k =>
          if closed s then finish cs t s (RErr EUnavail) else
          match chain_remote (fuel_of s) (meta s) k with
          | Some ids => park cs t s (FChecks sn [] ids true cbad (length (log s)))
          | None => finish cs t s (RErr EUnavail)
          end
      end
  | FChecks sn done todo ok cbad mark =>
      match todo with
      | [] => finish cs t s (if ok then RMounts (mount_shape sn) else RErr EUnavail)
      | id :: rest =>
          let '(s1, r) := fs_check s id (negb (mem id cbad)) in
          park cs t s1 (FChecks sn (done ++ [id]) rest (ok && r) cbad mark)
      end
  | FClean ds ubad r =>
      match ds with
      | [] => finish cs t s r
      | d :: rest =>
          let sc := match d with DId id => negb (mem id ubad) | DTemp _ => true end in
          park cs t (fs_unmount s d sc) (FRm d rest ubad r)
      end
  | FRm d rest ubad r => park cs t (rm_dir s d) (FClean rest ubad r)
  end.

Inductive sop := Start (t : nat) (o : op) | Step (t : nat).

Definition cstep (cs : cst) (x : sop) : cst :=
  match x with
  | Start t o => match frame_of (frames cs) t with Some _ => cs | None => cstart cs t o end
  | Step t => match frame_of (frames cs) t with Some f => cresume cs t f | None => cs end
  end.

Definition cexec (cs : cst) (sched : list sop) : cst := fold_left cstep sched cs.

(* events of one schedule step *)
Definition cstep_events (cs : cst) (x : sop) : list event :=
  skipn (length (log (base cs))) (log (base (cstep cs x))).

(* a dead id: handed out once, no longer (and never again) the id of a snapshot *)
Definition dead (s : st) (id : nat) : Prop := id <= seq s /\ ~ In id (ids_of (meta s)).

(* ---------- the sequential behaviour of the concurrent machine, tied to the implementation ---------- *)
(* one call run to completion by a single thread with nobody else around *)
Fixpoint drain (fuel : nat) (cs : cst) : cst :=
  match fuel with
  | O => cs
  | S f => match frame_of (frames cs) 0 with Some _ => drain f (cstep cs (Step 0)) | None => cs end
  end.
Definition seq_step (s : st) (o : op) : st * res :=
  let cs := drain (16 + 2 * length (dirs s) + 2 * seq s) (cstep (mkC s [] []) (Start 0 o)) in
  (base cs, match rets cs with (_, r) :: _ => r | [] => RErr EOther end).

Definition seq_step_out (s : st) (o : op) : st * out :=
  let '(s1, r) := seq_step s o in
  (s1, (r, sort_by event_key (obs_events (skipn (length (log s)) (log s1))), view_of s1)).
Fixpoint seq_run (s : st) (os : list op) : st * list out :=
  match os with
  | [] => (s, [])
  | o :: t => let '(s1, x) := seq_step_out s o in let '(s2, xs) := seq_run s1 t in (s2, x :: xs)
  end.

(* the same cases as Model/Snap.v (cmd/snap), evaluated on the concurrent machine run sequentially *)
Definition case := (bool * list op * list out)%type.
Definition case_ok (c : case) : bool :=
  let '(a, os, obs) := c in list_eqb out_eqb (snd (seq_run (init a) os)) obs.
Fixpoint mismatches_from (n : nat) (cs : list case) : list nat :=
  match cs with
  | [] => []
  | c :: t => if case_ok c then mismatches_from (S n) t else n :: mismatches_from (S n) t
  end.
Definition mismatches := mismatches_from 0.
