(* Model of the call structure around the prioritized-task counter (C13, premise "begin/end pairs"):
   a function body, abstracted to what matters for DoPrioritizedTask / DonePrioritizedTask, and Go's
   defer / return / panic semantics.  Executable definitions and the execution relation only; proofs are in
   Proofs/TaskPairs.v.

   [x] numbers the receiver expressions (textually different manager expressions get different numbers).
   Nested function literals are bodies of their own (each is one case); inside the enclosing body they are [SOther]. *)
From Coq Require Import List Arith ZArith Bool.
Import ListNotations.

Inductive stmt :=
| SDo (x : nat)                  (* X.DoPrioritizedTask() as an expression statement *)
| SDone (x : nat)                (* X.DonePrioritizedTask() called directly *)
| SDeferDone (x : nat)           (* defer X.DonePrioritizedTask() *)
| SOther                         (* anything else that mentions neither (it may panic, like every statement) *)
| SReturn
| SIf (a b : list stmt)          (* any two-way branching (if/else, switch and select arms are nested SIf) *)
| SLoop (b : list stmt).         (* body executed any number of times *)

(* counter per manager, and the pending deferred Done calls *)
Definition st := ((nat -> Z) * list nat)%type.
Definition bump (b : nat -> Z) (x : nat) (d : Z) : nat -> Z := fun y => if Nat.eqb y x then (b y + d)%Z else b y.
Definition do_ (x : nat) (s : st) : st := (bump (fst s) x 1, snd s).
Definition done_ (x : nat) (s : st) : st := (bump (fst s) x (-1), snd s).
Definition defer_ (x : nat) (s : st) : st := (fst s, x :: snd s).
Definition init : st := (fun _ => 0%Z, []).

(* value of the counter of manager x once the function has been left (deferred calls have run) *)
Definition final (s : st) (x : nat) : Z := (fst s x - Z.of_nat (count_occ Nat.eq_dec (snd s) x))%Z.

Inductive out := ONorm | ORet | OPanic.

(* where a panic can arise: in any statement (calls, conditions, return expressions, the Do/Done calls
   themselves before they take effect) except in a `defer X.DonePrioritizedTask()` statement, which only evaluates
   the receiver expression and queues the call *)
Definition can_panic (l : list stmt) : bool :=
  match l with SDeferDone _ :: _ => false | _ => true end.

(* all executions of a statement list (continuation style: a branch is executed followed by the rest, so that a
   return or panic inside it leaves the function) *)
Inductive exec : list stmt -> st -> out -> st -> Prop :=
| XNil s : exec [] s ONorm s
| XPanic l s : can_panic l = true -> exec l s OPanic s
| XDo x l s o s' : exec l (do_ x s) o s' -> exec (SDo x :: l) s o s'
| XDone x l s o s' : exec l (done_ x s) o s' -> exec (SDone x :: l) s o s'
| XDefer x l s o s' : exec l (defer_ x s) o s' -> exec (SDeferDone x :: l) s o s'
| XOther l s o s' : exec l s o s' -> exec (SOther :: l) s o s'
| XReturn l s : exec (SReturn :: l) s ORet s
| XIfL a b l s o s' : exec (a ++ l) s o s' -> exec (SIf a b :: l) s o s'
| XIfR a b l s o s' : exec (b ++ l) s o s' -> exec (SIf a b :: l) s o s'
| XLoop0 b l s o s' : exec l s o s' -> exec (SLoop b :: l) s o s'
| XLoopS b l s o s' : exec (b ++ SLoop b :: l) s o s' -> exec (SLoop b :: l) s o s'.

(* ---- the syntactic rule the code base follows ---- *)
Fixpoint clean1 (a : stmt) : bool :=
  match a with
  | SDo _ | SDone _ | SDeferDone _ => false
  | SOther | SReturn => true
  | SIf a b => forallb clean1 a && forallb clean1 b
  | SLoop b => forallb clean1 b
  end.
Definition clean (l : list stmt) : bool := forallb clean1 l.

(* Do immediately followed by the deferred Done of the same manager, nothing else about the counter anywhere *)
Fixpoint paired (l : list stmt) : bool :=
  match l with
  | [] => true
  | SDo x :: rest =>
      match rest with
      | SDeferDone y :: rest' => Nat.eqb x y && clean rest'
      | _ => false
      end
  | a :: rest => clean1 a && paired rest
  end.

(* ---- bounded enumeration of executions (for the correspondence check and as a search aid) ---- *)
(* all final states reachable with loops unrolled at most [fuel] times in total along a path *)
Fixpoint runs (fuel : nat) (l : list stmt) (s : st) : list st :=
  match fuel with
  | O => if can_panic l then [s] else []
  | S f =>
      (if can_panic l then [s] else []) ++   (* panic here *)
      match l with
      | [] => [s]
      | SDo x :: t => runs f t (do_ x s)
      | SDone x :: t => runs f t (done_ x s)
      | SDeferDone x :: t => runs f t (defer_ x s)
      | SOther :: t => runs f t s
      | SReturn :: _ => [s]
      | SIf a b :: t => runs f (a ++ t) s ++ runs f (b ++ t) s
      | SLoop b :: t => runs f t s ++ runs f (b ++ SLoop b :: t) s
      end
  end.

Definition leaks_upto (fuel nmgr : nat) (l : list stmt) : bool :=
  existsb (fun s => existsb (fun x => negb (Z.eqb (final s x) 0)) (seq 0 nmgr)) (runs fuel l init).

(* a case: number of managers, body, and what the harness found by its own (Go) path enumeration:
   [leak] = some execution leaves a counter different from 0; [rule] = the Go-side syntactic check *)
Definition case := (nat * list stmt * bool * bool)%type.
Definition case_ok (c : case) : bool :=
  let '(n, l, leak, rule) := c in
  Bool.eqb (paired l) rule && (if paired l then negb leak else true) && Bool.eqb (leaks_upto 14 n l) leak.
Fixpoint mismatches_from (n : nat) (cs : list case) : list nat :=
  match cs with
  | [] => []
  | c :: t => if case_ok c then mismatches_from (S n) t else n :: mismatches_from (S n) t
  end.
Definition mismatches := mismatches_from 0.
