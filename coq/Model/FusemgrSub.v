(* Sub-step model of fusemanager.Server: the RPCs decomposed at the points where the code really reads or
   writes shared state, interleaved as the locks permit, with manager crashes between any two sub-steps.
   Executable definitions only; proofs are in Proofs/FusemgrSub.v. The sequential model (Model/Fusemgr.v) is
   reused for the state ([base]), for Init / Close / Restart and for restoreFuseInfo.

   Locks, as the code takes them: Init and Close hold fm.lock exclusively for their whole body, so they are
   atomic here and can only happen when no request is in flight ([SBlocked] otherwise: the schedule in which
   they run later is another op list). Mount / Check / Unmount hold fm.lock shared for their whole body: any
   number of them may be in flight. [mplock] = true models patches/C17-fix-2.diff: Mount and Unmount
   additionally hold a per-mountpoint mutex, so a second Mount/Unmount of the same mountpoint cannot begin
   while one is in flight; [mplock] = false is the code as found.

   A request (thread) advances through:
     Mount    B: gate, fsMap.Load            (found -> PMRec; curFs nil -> error; else PMCall)
              PMCall: curFs.Mount            (failure -> done with error)
              PMMap : fsMap.Store
              PMRec : storeFuseInfo (one bolt transaction), done OK
     Unmount  B: gate, fsMap.Load            (not found -> mountinfo answer, done)
              PUCall: fs.Unmount             (failure -> done with error)
              PUMap : fsMap.Delete
              PURec : removeFuseInfo, done OK
     Check    B: gate, fsMap.Load; PCCall: fs.Check, done
   The gate (status) and root/config/curFs are only written under the exclusive lock, so reading them at [B]
   is the same as reading them at any later sub-step of the same request.
   [SRestart] may occur anywhere: every request in flight dies with the process. Init and Close write nothing
   durable before their last action (Init: nothing at all; Close: removing the file is its last action), so a
   crash inside them is [SRestart] before them. *)
From Coq Require Import List Arith Bool.
From SV Require Export Model.Fusemgr.
Import ListNotations.

Inductive pc :=
| PMCall (m l i : nat) | PMMap (m l i : nat) | PMRec (m l : nat)
| PUCall (m i : nat) | PUMap (m i : nat) | PURec (m : nat)
| PCCall (m l i : nat)
| PDone.

Record cst := mkC { base : st; thr : list pc; mplock : bool }.

Inductive sop :=
| BMount (m l : nat) | BCheck (m l : nat) | BUnmount (m : nat)
| Adv (t : nat) (ok : bool)          (* next sub-step of request t; ok = outcome of the filesystem call if it is one *)
| SInit (c : nat) (k : istage) (sc : list bool) | SClose | SRestart.

(* SNone: the request is (still) in flight; SFin r: it returned r; SBlocked: nothing happened *)
Inductive sres := SNone | SFin (r : res) | SBlocked.

Definition cinit (g lk : bool) (e : list nat) : cst := mkC (init g e) [] lk.

(* mountpoint whose per-mountpoint mutex the request holds *)
Definition pkey (p : pc) : option nat :=
  match p with
  | PMCall m _ _ | PMMap m _ _ | PMRec m _ | PUCall m _ | PUMap m _ | PURec m => Some m
  | PCCall _ _ _ | PDone => None
  end.
Definition inflight (p : pc) : bool := match p with PDone => false | _ => true end.
Definition holds (m : nat) (p : pc) : bool :=
  match pkey p with Some m' => Nat.eqb m' m | None => false end.
Definition busy (t : list pc) : bool := existsb inflight t.
Definition locked (t : list pc) (m : nat) : bool := existsb (holds m) t.

Definition set_fsmap (b : st) f := mkSt (guard b) (ext b) (stat b) (closed b) (cfg b) (cur b) f (store b) (insts b) (ierr b).
Definition set_store (b : st) x := mkSt (guard b) (ext b) (stat b) (closed b) (cfg b) (cur b) (fsmap b) x (insts b) (ierr b).
Definition set_insts (b : st) x := mkSt (guard b) (ext b) (stat b) (closed b) (cfg b) (cur b) (fsmap b) (store b) x (ierr b).

Definition sout := (sres * list call)%type.

Definition push (s : cst) (p : pc) : cst := mkC (base s) (thr s ++ [p]) (mplock s).
Definition setpc (s : cst) (b : st) (t : nat) (p : pc) : cst := mkC b (upd (thr s) t p) (mplock s).

Definition sstep (s : cst) (o : sop) : cst * sout :=
  let b := base s in
  match o with
  | BMount m l =>
      if mplock s && locked (thr s) m then (s, (SBlocked, []))
      else match stat b with
           | Ready =>
               match find (fsmap b) m with
               | Some _ => (push s (PMRec m l), (SNone, []))
               | None =>
                   match cur b with
                   | None => (push s PDone, (SFin (if guard b then RErr else RPanic), []))
                   | Some i => (push s (PMCall m l i), (SNone, []))
                   end
               end
           | _ => (push s PDone, (SFin RErr, []))
           end
  | BCheck m l =>
      match stat b with
      | Ready =>
          match find (fsmap b) m with
          | Some i => (push s (PCCall m l i), (SNone, []))
          | None => (push s PDone, (SFin RErr, []))
          end
      | _ => (push s PDone, (SFin RErr, []))
      end
  | BUnmount m =>
      if mplock s && locked (thr s) m then (s, (SBlocked, []))
      else match stat b with
           | Ready =>
               match find (fsmap b) m with
               | Some i => (push s (PUCall m i), (SNone, []))
               | None => (push s PDone, (SFin (if mem (ext b) m then RErr else ROk), []))
               end
           | _ => (push s PDone, (SFin RErr, []))
           end
  | Adv t ok =>
      match nth_error (thr s) t with
      | Some (PMCall m l i) =>
          if ok then (setpc s (set_insts b (inst_mount (insts b) i m l)) t (PMMap m l i), (SNone, [(i, KMount, m, l)]))
          else (setpc s b t PDone, (SFin RErr, [(i, KMount, m, l)]))
      | Some (PMMap m l i) => (setpc s (set_fsmap b (put (fsmap b) m i)) t (PMRec m l), (SNone, []))
      | Some (PMRec m l) =>
          match cfg b with
          | Some c => (setpc s (set_store b (store_put b m (l, c))) t PDone, (SFin ROk, []))
          | None => (setpc s b t PDone, (SFin RPanic, []))
          end
      | Some (PUCall m i) =>
          if ok then (setpc s (set_insts b (inst_unmount (insts b) i m)) t (PUMap m i), (SNone, [(i, KUnmount, m, 0)]))
          else (setpc s b t PDone, (SFin RErr, [(i, KUnmount, m, 0)]))
      | Some (PUMap m i) => (setpc s (set_fsmap b (del (fsmap b) m)) t (PURec m), (SNone, []))
      | Some (PURec m) => (setpc s (set_store b (store_del b m)) t PDone, (SFin ROk, []))
      | Some (PCCall m l i) => (setpc s b t PDone, (SFin (if ok then ROk else RErr), [(i, KCheck, m, l)]))
      | Some PDone | None => (s, (SBlocked, []))
      end
  | SInit c k sc =>
      if busy (thr s) then (s, (SBlocked, []))
      else let '(b', (r, cs)) := step b (Init c k sc) in (mkC b' (thr s) (mplock s), (SFin r, cs))
  | SClose =>
      if busy (thr s) then (s, (SBlocked, []))
      else let '(b', (r, cs)) := step b Close in (mkC b' (thr s) (mplock s), (SFin r, cs))
  | SRestart =>
      (mkC (fst (step b Restart)) (map (fun _ => PDone) (thr s)) (mplock s), (SFin ROk, []))
  end.

Definition sexec (s : cst) (os : list sop) : cst := fold_left (fun s o => fst (sstep s o)) os s.

Definition quiescent (s : cst) : Prop := busy (thr s) = false.

(* ---- observables ---- *)
Definition pcode (p : pc) : nat :=
  match p with
  | PDone => 0 | PMCall _ _ _ => 1 | PMMap _ _ _ => 2 | PMRec _ _ => 3
  | PUCall _ _ => 4 | PUMap _ _ => 5 | PURec _ => 6 | PCCall _ _ _ => 7
  end.
(* result code: 0 in flight, 1 OK, 2 error, 3 panic, 4 blocked *)
Definition rcode (r : sres) : nat :=
  match r with SNone => 0 | SFin ROk => 1 | SFin RErr => 2 | SFin RPanic => 3 | SBlocked => 4 end.
Definition sobs := (nat * list call * view * list nat)%type.

Fixpoint srun (s : cst) (os : list sop) : cst * list sobs :=
  match os with
  | [] => (s, [])
  | o :: t =>
      let '(s1, (r, cs)) := sstep s o in
      let '(s2, xs) := srun s1 t in (s2, (rcode r, cs, view_of (base s1), map pcode (thr s1)) :: xs)
  end.

Definition sobs_eqb (a b : sobs) : bool :=
  let '(r, cs, v, p) := a in let '(r', cs', v', p') := b in
  Nat.eqb r r' && list_eqb call_eqb cs cs' && view_eqb v v' && list_eqb Nat.eqb p p'.
Definition sob (r : nat) (cs : list call) (v : view) (p : list nat) : sobs := (r, cs, v, p).

(* a case = per-mountpoint mutex present?, externally mounted mountpoints, sub-step history, observations *)
Definition case := (bool * list nat * list sop * list sobs)%type.
Definition cas (lk : bool) (e : list nat) (os : list sop) (ob : list sobs) : case := (lk, e, os, ob).
Definition case_ok (c : case) : bool :=
  let '(lk, e, os, ob) := c in list_eqb sobs_eqb (snd (srun (cinit true lk e) os)) ob.
Fixpoint mismatches_from (n : nat) (cs : list case) : list nat :=
  match cs with
  | [] => []
  | c :: t => if case_ok c then mismatches_from (S n) t else n :: mismatches_from (S n) t
  end.
Definition mismatches := mismatches_from 0.
