(* Model of fs/layer/node.go (C07): what one node of a layer answers to the go-fuse node API
   (Readdir / Lookup / Getattr / Getxattr / Listxattr, hidden state directory), as a function of the
   metadata view of that node (its own entry and its children map, as metadata.Reader reports them).
   Executable definitions only; proofs are in Proofs/Node.v.

   The state of a node is what node.go and go-fuse keep per node:
     - [memo]  : node.ents/entsCached, the memoised listing (set by the first successful readdir, also by the
                 Lookup miss path, which calls n.readdir() for its side effect);
     - [regs]  : the go-fuse in-memory children of the node (Inode.children), i.e. the results of earlier
                 Lookups that the kernel has not forgotten; Lookup consults them first (n.GetChild(name)).
   Names are byte strings; the reserved names come from Gen/Consts.v (regenerated from the Go sources). *)
From Coq Require Import List ZArith Bool String Ascii.
From SV Require Import Gen.Consts.
Import ListNotations.
Local Open Scope Z_scope.

(* ---------- names ---------- *)
Definition str_of_bytes (l : list N) : string :=
  fold_right (fun b s => String (ascii_of_N b) s) EmptyString l.

Definition wh_prefix : string := Eval vm_compute in str_of_bytes c07_whiteout_prefix.
Definition opq_marker : string := Eval vm_compute in str_of_bytes c07_whiteout_opaque_dir.
Definition opaque_value : string := Eval vm_compute in str_of_bytes c07_opaque_xattr_value.
Definition state_dir_name : string := Eval vm_compute in str_of_bytes c07_state_dir_name.
Definition landmark_a : string := Eval vm_compute in str_of_bytes prefetch_landmark.
Definition landmark_b : string := Eval vm_compute in str_of_bytes no_prefetch_landmark.
Definition toc_name : string := Eval vm_compute in str_of_bytes toc_tar_name.

(* strings.HasPrefix(s, p) together with s[len(p):] *)
Fixpoint strip (p s : string) : option string :=
  match p with
  | EmptyString => Some s
  | String a p' =>
      match s with
      | String b s' => if Ascii.eqb a b then strip p' s' else None
      | EmptyString => None
      end
  end.

Definition wh_target (n : string) : option string := strip wh_prefix n.
Definition has_wh (n : string) : bool := match wh_target n with Some _ => true | None => false end.
Definition is_dot (n : string) : bool := (n =? ".")%string || (n =? "..")%string.
Definition is_landmark (n : string) : bool := (n =? landmark_a)%string || (n =? landmark_b)%string.

(* ---------- metadata view ---------- *)
(* metadata.Attr without the time stamp; Go ints as Z *)
Record attr := mkAttr {
  a_size : Z; a_mode : Z (* os.FileMode bits *); a_uid : Z; a_gid : Z;
  a_major : Z; a_minor : Z; a_nlink : Z; a_linklen : Z (* len(LinkName) *);
  a_xattrs : list (string * string) }.
Record ent := mkEnt { e_id : Z; e_attr : attr }.
Definition children := list (string * ent).

Definition find_child (ch : children) (n : string) : option ent :=
  match find (fun p => (fst p =? n)%string) ch with Some p => Some (snd p) | None => None end.

(* ---------- configuration ---------- *)
Inductive omode := OpqAll | OpqTrusted | OpqUser.
Definition opaque_xattrs (m : omode) : list string :=
  match m with
  | OpqAll => ["trusted.overlay.opaque"; "user.overlay.opaque"]%string
  | OpqTrusted => ["trusted.overlay.opaque"]%string
  | OpqUser => ["user.overlay.opaque"]%string
  end.
Record cfg := mkCfg { c_root : bool (* n.id == fs.rootID *); c_base : Z (* baseInode *); c_mode : omode }.

(* ---------- mode / attribute conversion ---------- *)
Definition S_IFBLK := 24576. Definition S_IFCHR := 8192. Definition S_IFDIR := 16384. Definition S_IFIFO := 4096.
Definition S_IFLNK := 40960. Definition S_IFSOCK := 49152. Definition S_IFREG := 32768.
Definition S_IFMT := 61440.
Definition M_DIR := 2^31. Definition M_SYMLINK := 2^27. Definition M_DEVICE := 2^26. Definition M_PIPE := 2^25.
Definition M_SOCKET := 2^24. Definition M_SETUID := 2^23. Definition M_SETGID := 2^22. Definition M_CHARDEV := 2^21.
Definition M_STICKY := 2^20. Definition M_IRREGULAR := 2^19.
Definition M_TYPE := Eval vm_compute in M_DIR + M_SYMLINK + M_PIPE + M_SOCKET + M_DEVICE + M_CHARDEV + M_IRREGULAR.

(* fileModeToSystemMode *)
Definition sysmode (m : Z) : Z :=
  let t := Z.land m M_TYPE in
  let ty :=
    if t =? M_DEVICE then S_IFBLK
    else if t =? M_DEVICE + M_CHARDEV then S_IFCHR
    else if t =? M_DIR then S_IFDIR
    else if t =? M_PIPE then S_IFIFO
    else if t =? M_SYMLINK then S_IFLNK
    else if t =? M_SOCKET then S_IFSOCK
    else S_IFREG in
  Z.lor (Z.lor (Z.lor (Z.lor (Z.land m 511) ty)
    (if Z.testbit m 23 then 2048 else 0)) (if Z.testbit m 22 then 1024 else 0)) (if Z.testbit m 20 then 512 else 0).

Definition u64 (x : Z) := x mod 2^64.
Definition u32 (x : Z) := x mod 2^32.

(* uint32(unix.Mkdev(uint32(major), uint32(minor))) *)
Definition mkdev (major minor : Z) : Z :=
  let ma := u32 major in let mi := u32 minor in
  u32 (Z.lor (Z.lor (Z.shiftl (Z.land ma 4095) 8) (Z.shiftl (Z.land ma 4294963200) 32))
             (Z.lor (Z.land mi 255) (Z.shiftl (Z.land mi 4294967040) 12))).

(* the fields of fuse.Attr that node.go fills (times excluded) *)
Record fattr := mkF { f_ino : Z; f_size : Z; f_blocks : Z; f_mode : Z; f_uid : Z; f_gid : Z; f_rdev : Z; f_nlink : Z }.

Definition blocks_of (size : Z) : Z := u64 (u64 (size + c07_block_size - 1) / c07_block_size * c07_physical_block_ratio).

(* entryToAttr *)
Definition entry_to_attr (ino : Z) (a : attr) : fattr :=
  let size := if Z.testbit (a_mode a) 27 then a_linklen a else u64 (a_size a) in
  let nl := u32 (a_nlink a) in
  mkF ino size (blocks_of size) (sysmode (a_mode a)) (u32 (a_uid a)) (u32 (a_gid a))
      (mkdev (a_major a) (a_minor a)) (if nl =? 0 then 1 else nl).

(* entryToWhAttr *)
Definition wh_attr (ino : Z) : fattr := mkF ino 0 0 S_IFCHR 0 0 0 1.

(* inodeOfID / inodeOfState / inodeOfStatFile *)
Definition max_id : Z := 2^32 - 1 - 3.
Definition ino_of (base id : Z) : option Z :=
  if id >? max_id then None else Some (Z.lor (Z.shiftl base 32) (3 + id)).
Definition ino_state (base : Z) : Z := Z.lor (Z.shiftl base 32) 1.
Definition ino_statfile (base : Z) : Z := Z.lor (Z.shiftl base 32) 2.
Definition state_dir_mode := S_IFDIR + 320.  (* dr-x------ *)
Definition stat_file_mode := S_IFREG + 256.  (* -r-------- *)
Definition state_attr (c : cfg) : fattr := mkF (ino_state (c_base c)) 0 0 state_dir_mode 0 0 0 1.

(* ---------- readdir ---------- *)
Definition dirent := (string * Z * Z)%type.   (* name, mode, ino *)
Definition d_name (d : dirent) : string := fst (fst d).
Definition d_mode (d : dirent) : Z := snd (fst d).
Definition d_ino (d : dirent) : Z := snd d.

(* what the ForeachChild callback of readdir does with one child name *)
Inductive cls := CSkip | CWh (target : string) | CNormal.
(* targets for which readdir refuses to synthesise a whiteout: Lookup could never resolve them as one *)
Definition unlistable_target (c : cfg) (t : string) : bool :=
  (t =? "")%string || is_dot t || has_wh t
  || (c_root c && (is_landmark t || (t =? state_dir_name)%string)).
Definition classify (c : cfg) (n : string) : cls :=
  if is_dot n then CSkip
  else if c_root c && is_landmark n then CSkip
  else match wh_target n with
       | Some t => if (n =? opq_marker)%string then CSkip
                   else if unlistable_target c t then CSkip
                   else CWh t
       | None => CNormal
       end.

Definition normals (c : cfg) (ch : children) : children :=
  filter (fun p => match classify c (fst p) with CNormal => true | _ => false end) ch.
Definition whiteouts (c : cfg) (ch : children) : children :=
  flat_map (fun p => match classify c (fst p) with CWh t => [(t, snd p)] | _ => [] end) ch.
Definition is_normal (c : cfg) (ch : children) (t : string) : bool :=
  existsb (fun p => (fst p =? t)%string) (normals c ch).
Definition shown_whiteouts (c : cfg) (ch : children) : children :=
  filter (fun p => negb (is_normal c ch (fst p))) (whiteouts c ch).

Fixpoint traverse {A B} (f : A -> option B) (l : list A) : option (list B) :=
  match l with
  | [] => Some []
  | x :: t => match f x, traverse f t with Some y, Some ys => Some (y :: ys) | _, _ => None end
  end.

Definition normal_dirent (c : cfg) (p : string * ent) : option dirent :=
  match ino_of (c_base c) (e_id (snd p)) with
  | Some i => Some (fst p, sysmode (a_mode (e_attr (snd p))), i)
  | None => None
  end.
Definition wh_dirent (c : cfg) (p : string * ent) : option dirent :=
  match ino_of (c_base c) (e_id (snd p)) with
  | Some i => Some (fst p, S_IFCHR, i)
  | None => None
  end.
Definition dot_dirents : list dirent := [("."%string, S_IFDIR, 0); (".."%string, S_IFDIR, 0)].

(* sort.Slice by name (insertion sort; the order among equal names is not specified by Go) *)
Fixpoint insert_ent (e : dirent) (l : list dirent) : list dirent :=
  match l with
  | [] => [e]
  | h :: t => if String.leb (d_name e) (d_name h) then e :: l else h :: insert_ent e t
  end.
Definition sort_ents (l : list dirent) : list dirent := fold_right insert_ent [] l.

(* the listing computed by an uncached readdir; None = EIO *)
Definition readdir_spec (c : cfg) (ch : children) : option (list dirent) :=
  match traverse (normal_dirent c) (normals c ch), traverse (wh_dirent c) (shown_whiteouts c ch) with
  | Some ns, Some ws => Some (sort_ents (ns ++ dot_dirents ++ ws))
  | _, _ => None
  end.

(* ---------- node state ---------- *)
Record reg := mkReg { r_name : string; r_wh : bool; r_ent : ent }.
Record nstate := mkSt { memo : option (list dirent); regs : list reg }.
Definition init : nstate := mkSt None [].

Definition readdir (c : cfg) (ch : children) (s : nstate) : nstate * option (list dirent) :=
  match memo s with
  | Some l => (s, Some l)
  | None =>
      match readdir_spec c ch with
      | Some l => (mkSt (Some l) (regs s), Some l)
      | None => (s, None)
      end
  end.

(* ---------- lookup ---------- *)
Inductive lres :=
| LEnoent | LEio
| LState (a : fattr)
| LNode (e : ent) (a : fattr)
| LWh (e : ent) (a : fattr).

Definition find_reg (s : nstate) (n : string) : option reg :=
  find (fun r => (r_name r =? n)%string) (regs s).

Definition memo_absent (s : nstate) (n : string) : bool :=
  match memo s with
  | Some l => negb (existsb (fun d => (d_name d =? n)%string) l)
  | None => false
  end.

(* attributes written to EntryOut for a whiteout that is still among the go-fuse children *)
Definition relookup_wh_attr (i : Z) (e : ent) : fattr := wh_attr i.

Definition lookup (c : cfg) (ch : children) (s : nstate) (n : string) : nstate * lres :=
  if c_root c && is_landmark n then (s, LEnoent)
  else if has_wh n then (s, LEnoent)
  else if c_root c && (n =? state_dir_name)%string then (s, LState (state_attr c))
  else match find_reg s n with
  | Some r =>
      (s, match ino_of (c_base c) (e_id (r_ent r)) with
          | None => LEio
          | Some i => if r_wh r then LWh (r_ent r) (relookup_wh_attr i (r_ent r))
                      else LNode (r_ent r) (entry_to_attr i (e_attr (r_ent r)))
          end)
  | None =>
      if memo_absent s n then (s, LEnoent)
      else match find_child ch n with
      | Some e =>
          (s, match ino_of (c_base c) (e_id e) with
              | None => LEio
              | Some i => LNode e (entry_to_attr i (e_attr e))
              end)
      | None =>
          match find_child ch (wh_prefix ++ n) with
          | Some e =>
              (s, match ino_of (c_base c) (e_id e) with
                  | None => LEio
                  | Some i => LWh e (wh_attr i)
                  end)
          | None => (fst (readdir c ch s), LEnoent)
          end
      end
  end.

(* the stateless answer: Lookup on a fresh node *)
Definition lookup_spec (c : cfg) (ch : children) (n : string) : lres := snd (lookup c ch init n).

(* rawBridge.Lookup adds the returned child to the parent's children (addNewChild) *)
Definition register (s : nstate) (n : string) (r : lres) : nstate :=
  let others := filter (fun x => negb (r_name x =? n)%string) (regs s) in
  match r with
  | LNode e _ => mkSt (memo s) (mkReg n false e :: others)
  | LWh e _ => mkSt (memo s) (mkReg n true e :: others)
  | _ => s
  end.
Definition forget (s : nstate) (n : string) : nstate :=
  mkSt (memo s) (filter (fun x => negb (r_name x =? n)%string) (regs s)).

(* Getattr of the node object a Lookup returned *)
Definition child_getattr (c : cfg) (r : lres) : option fattr :=
  match r with
  | LNode e _ => match ino_of (c_base c) (e_id e) with Some i => Some (entry_to_attr i (e_attr e)) | None => None end
  | LWh e _ => match ino_of (c_base c) (e_id e) with Some i => Some (wh_attr i) | None => None end
  | LState a => Some a
  | _ => None
  end.

(* ---------- xattrs ---------- *)
Definition is_opaque (ch : children) : bool :=
  match find_child ch opq_marker with Some _ => true | None => false end.

Definition slen (s : string) : Z := Z.of_nat (String.length s).
Definition ERANGE := 34. Definition ENODATA := 61. Definition ENOENT := 2. Definition EIO := 5.

Definition assoc (l : list (string * string)) (k : string) : option string :=
  match find (fun p => (fst p =? k)%string) l with Some p => Some (snd p) | None => None end.

(* the value Getxattr reports for [a] (before the destination-size test) *)
Definition xattr_value (c : cfg) (self : ent) (ch : children) (a : string) : option string :=
  if existsb (fun x => (x =? a)%string) (opaque_xattrs (c_mode c)) && is_opaque ch then Some opaque_value
  else assoc (a_xattrs (e_attr self)) a.

(* (n, errno, bytes copied) *)
Definition getxattr (c : cfg) (self : ent) (ch : children) (a : string) (dlen : Z) : Z * Z * string :=
  match xattr_value c self ch a with
  | Some v => if dlen <? slen v then (slen v, ERANGE, EmptyString) else (slen v, 0, v)
  | None => (0, ENODATA, EmptyString)
  end.

Definition xattr_names (c : cfg) (self : ent) (ch : children) : list string :=
  (if is_opaque ch then opaque_xattrs (c_mode c) else []) ++ map fst (a_xattrs (e_attr self)).

Definition listxattr (c : cfg) (self : ent) (ch : children) (dlen : Z) : Z * Z * list string :=
  let names := xattr_names c self ch in
  let total := fold_right (fun s acc => slen s + 1 + acc) 0 names in
  if dlen <? total then (total, ERANGE, []) else (total, 0, names).

(* ---------- operations on one node and their observable outputs ---------- *)
Inductive op :=
| OReaddir
| OLookup (n : string) (register_child : bool)
| OForget (n : string)
| OGetattr
| OGetxattr (a : string) (dlen : Z)
| OListxattr (dlen : Z)
| OState (digest : string) (size fetched : Z)    (* root only: walk the hidden state directory *)
| OReadlink                                     (* node.Readlink: length of the link name it returns *)
| OFGetattr                                     (* node.Open, then file.Getattr on the handle *)
(* the state file as an object with a life of its own (root only). The blob's FetchedSize and the errors reported so far are
   the environment: the harness changes them between calls ([OSetFetched], any op answering EIO reports an error) and passes
   their CURRENT values to the read; the file's contents are a function of the current values only, never of what an
   earlier Lookup / Getattr / Read saw *)
| OSetFetched (v : Z)
| OStatLookup (digest : string)
| OStatGetattr
| OStatRead (digest : string) (size fetched : Z) (has_error : bool)
| OOpenFail.                                    (* node.Open when the metadata store cannot open the entry: EIO (and a report) *)

(* outputs are flattened to (numbers, strings) so that one comparison function serves all ops *)
Definition obs := (list Z * list string)%type.

Definition enc_fattr (a : fattr) : list Z :=
  [f_ino a; f_size a; f_blocks a; f_mode a; f_uid a; f_gid a; f_rdev a; f_nlink a].

(* canonical order of a listing for comparison: by (name, mode, ino) *)
Definition dirent_leb (x y : dirent) : bool :=
  match String.compare (d_name x) (d_name y) with
  | Lt => true
  | Gt => false
  | Eq => if d_mode x <? d_mode y then true else if d_mode y <? d_mode x then false else d_ino x <=? d_ino y
  end.
Fixpoint insert_canon (e : dirent) (l : list dirent) : list dirent :=
  match l with
  | [] => [e]
  | h :: t => if dirent_leb e h then e :: l else h :: insert_canon e t
  end.
Definition canon (l : list dirent) : list dirent := fold_right insert_canon [] l.

Definition enc_listing (r : option (list dirent)) : obs :=
  match r with
  | None => ([EIO], [])
  | Some l => let l' := canon l in (0 :: flat_map (fun d => [d_mode d; d_ino d]) l', map d_name l')
  end.

Definition enc_opt_fattr (a : option fattr) : list Z :=
  match a with Some a => 0 :: enc_fattr a | None => [EIO] end.

(* kind tags: 1 = node, 2 = whiteout, 3 = state directory *)
Definition enc_lookup (c : cfg) (r : lres) : obs :=
  match r with
  | LEnoent => ([ENOENT], [])
  | LEio => ([EIO], [])
  | LState a => (0 :: 3 :: enc_fattr a ++ enc_opt_fattr (child_getattr c r), [])
  | LNode _ a => (0 :: 1 :: enc_fattr a ++ enc_opt_fattr (child_getattr c r), [])
  | LWh _ a => (0 :: 2 :: enc_fattr a ++ enc_opt_fattr (child_getattr c r), [])
  end.

Fixpoint insert_str (e : string) (l : list string) : list string :=
  match l with
  | [] => [e]
  | h :: t => if String.leb e h then e :: l else h :: insert_str e t
  end.
Definition sort_str (l : list string) : list string := fold_right insert_str [] l.

Definition stat_file_name (digest : string) : string := (digest ++ ".json")%string.

Definition step (c : cfg) (self : ent) (ch : children) (s : nstate) (o : op) : nstate * obs :=
  match o with
  | OReaddir => let '(s', r) := readdir c ch s in (s', enc_listing r)
  | OLookup n rg =>
      let '(s', r) := lookup c ch s n in
      ((if rg then register s' n r else s'), enc_lookup c r)
  | OForget n => (forget s n, ([], []))
  | OReadlink => (s, ([a_linklen (e_attr self)], []))
  | OSetFetched _ => (s, ([], []))
  | OStatLookup dg =>
      (s, if c_root c then ([0; stat_file_mode; ino_statfile (c_base c)], [stat_file_name dg]) else ([ENOENT], []))
  | OStatGetattr =>
      (s, if c_root c then ([0; stat_file_mode; ino_statfile (c_base c)], []) else ([ENOENT], []))
  | OStatRead dg size fetched he =>
      (s, if c_root c then ([size; fetched; (if he then 1 else 0)], [dg]) else ([ENOENT], []))
  | OOpenFail => (s, ([EIO], []))
  | OGetattr | OFGetattr =>
      (s, (enc_opt_fattr (match ino_of (c_base c) (e_id self) with
                          | Some i => Some (entry_to_attr i (e_attr self)) | None => None end), []))
  | OGetxattr a dlen => let '(n, e, v) := getxattr c self ch a dlen in (s, ([n; e], [v]))
  | OListxattr dlen => let '(n, e, l) := listxattr c self ch dlen in (s, ([n; e], sort_str l))
  | OState dg size fetched =>
      (* Lookup(stateDirName) on the root; state.Readdir; state.Lookup(stat file) ; state.Lookup(other) = ENOENT;
         statFile JSON fields *)
      (s, if c_root c
          then (enc_fattr (state_attr c) ++ [stat_file_mode; ino_statfile (c_base c); size; fetched], [stat_file_name dg; dg])
          else ([ENOENT], []))
  end.

Fixpoint run (c : cfg) (self : ent) (ch : children) (s : nstate) (os : list op) : nstate * list obs :=
  match os with
  | [] => (s, [])
  | o :: t => let '(s1, x) := step c self ch s o in let '(s2, xs) := run c self ch s1 t in (s2, x :: xs)
  end.

Definition exec (c : cfg) (self : ent) (ch : children) (os : list op) : nstate :=
  fold_left (fun s o => fst (step c self ch s o)) os init.

(* ---------- correspondence ---------- *)
Fixpoint zlist_eqb (a b : list Z) : bool :=
  match a, b with
  | [], [] => true
  | x :: a', y :: b' => (x =? y) && zlist_eqb a' b'
  | _, _ => false
  end.
Fixpoint slist_eqb (a b : list string) : bool :=
  match a, b with
  | [], [] => true
  | x :: a', y :: b' => (x =? y)%string && slist_eqb a' b'
  | _, _ => false
  end.
Definition obs_eqb (a b : obs) : bool := zlist_eqb (fst a) (fst b) && slist_eqb (snd a) (snd b).
Fixpoint obss_eqb (a b : list obs) : bool :=
  match a, b with
  | [], [] => true
  | x :: a', y :: b' => obs_eqb x y && obss_eqb a' b'
  | _, _ => false
  end.

(* a case = configuration, the node's own entry, its children as the metadata store reports them,
   the op history, and the outputs observed on the implementation *)
Definition case := (cfg * ent * children * list op * list obs)%type.
Definition case_ok (k : case) : bool :=
  let '(c, self, ch, os, observed) := k in obss_eqb (snd (run c self ch init os)) observed.
Fixpoint mismatches_from (n : nat) (cs : list case) : list nat :=
  match cs with
  | [] => []
  | k :: t => if case_ok k then mismatches_from (S n) t else n :: mismatches_from (S n) t
  end.
Definition mismatches := mismatches_from 0.
