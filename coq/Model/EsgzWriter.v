(* C03 — estargz.Writer.appendTar / Close, estargz.Build (divideEntries, parallel sub-blobs, closeWithCombine)
   as a member-list machine.  Executable definitions only; proofs are in Proofs/EsgzWriter.v.

   Abstraction (DESIGN §3): compression, tar and JSON are not modelled byte for byte.
     * The uncompressed stream is made of pieces whose BYTES come from the functions of an [io] record
       (header block(s) of an entry, its content, its zero padding, the raw trailer of a lossless input) and
       whose LENGTHS are the numeric fields of the entries.  The machine computes every counter from the
       numeric fields only, exactly like the Go code counts bytes; the theorems assume [wf_io]
       (declared length = real length).  The correspondence check instantiates the byte functions with []
       (only numbers are compared with the implementation).
     * A compressed blob is a list of members (csize, payload).  The compressed size of each member and, when
       MinChunkSize > 0, the flushed size of the open member observed at every chunk start (w.cw.n after
       flushGz) are ORACLE values supplied by the harness (read from the real writer); the theorems
       quantify over all oracle values.
   Go references: estargz/estargz.go appendTar, condOpenGz/closeGz/flushGz, Close;
                  estargz/build.go Build, divideEntries, closeWithCombine. *)
From Coq Require Import List NArith ZArith Bool Arith.
From SV Require Import Gen.Consts.
From SV Require Export Model.EsgzFooter.
Import ListNotations.
Open Scope N_scope.

(* ---------- inputs ---------- *)
Inductive ekind :=
| KReg     (* tar.TypeReg *)
| KMeta    (* dir, symlink, hardlink, char, block, fifo: one TOC entry, no payload *)
| KToc     (* cleanEntryName(h.Name) == TOCTarName: dropped (lossy) / refused (lossless) *)
| KBad.    (* any other typeflag: "unsupported input tar entry" *)

Record entry := mkE {
  e_id   : N;      (* identity of this tar entry (position in the input) *)
  e_name : N;      (* identity of its cleaned name (equal for duplicates) *)
  e_kind : ekind;
  e_size : N;      (* header.Size *)
  e_hlen : N;      (* number of bytes of its header block(s) in the output stream (oracle) *)
  e_open : bool;   (* h.Name is in Writer.needsOpenGzEntries (Build: the landmark it inserted) *)
  e_lm   : bool    (* cleaned name is a landmark name (dropped by importTar in Build) *)
}.

Record io := mkIO {
  hdr     : entry -> bytes;
  content : entry -> bytes;
  padb    : entry -> bytes;
  trail   : bytes
}.

Definition null_io : io := mkIO (fun _ => []) (fun _ => []) (fun _ => []) [].

Definition pad512 (n : N) : N := (512 - n mod 512) mod 512.
Definition data_size (e : entry) : N := match e_kind e with KReg => e_size e | _ => 0 end.
Definition sl (off len : N) (l : bytes) : bytes := firstn (N.to_nat len) (skipn (N.to_nat off) l).

(* declared lengths are the real lengths; padding is zeros *)
Definition wf_entry (i : io) (e : entry) : Prop :=
  N.of_nat (length (hdr i e)) = e_hlen e /\ 0 < e_hlen e
  /\ N.of_nat (length (content i e)) = data_size e
  /\ padb i e = repeat 0 (N.to_nat (pad512 (data_size e))).

(* ---------- TOC entries (the offset-carrying part) ---------- *)
Inductive ttype := TReg | TChunk | TOther.
Record tocent := mkT {
  t_id : N; t_type : ttype; t_size : N;
  t_off : N; t_inner : N; t_coff : N; t_csize : N
}.

(* ---------- options ---------- *)
Record wopts := mkO { o_chunk : Z; o_min : Z; o_lossless : bool }.

(* Writer.chunkSize() *)
Definition eff_chunk (o : wopts) : N := if (o_chunk o <=? 0)%Z then 4194304 else Z.to_N (o_chunk o).

(* ---------- writer state ---------- *)
Definition member := (N * bytes)%type.

Record wst := mkW {
  w_closed : list member;   (* closed members, in blob order *)
  w_cur    : option bytes;  (* payload of the open member (w.gz != nil) *)
  w_mstart : N;             (* compressed offset at which the open / next member starts *)
  w_cwn    : N;             (* w.cw.n as of the last flush / close *)
  w_unc    : N;             (* w.uncompressedCounter.n *)
  w_poff   : N;             (* prevOffset *)
  w_punc   : N;             (* prevOffsetUncompressed *)
  w_toc    : list tocent;
  w_diff   : bytes;         (* bytes fed to diffHash *)
  w_cs     : list N;        (* oracle: compressed sizes of the members not closed yet *)
  w_fs     : list N         (* oracle: flushed size of the open member at the coming chunk starts *)
}.

Definition init_w (cs fs : list N) : wst := mkW [] None 0 0 0 0 0 [] [] cs fs.

Inductive res (A : Type) : Type := Ok (a : A) | Err | NoOracle.
Arguments Ok {A} a.
Arguments Err {A}.
Arguments NoOracle {A}.

Definition bind {A B} (r : res A) (f : A -> res B) : res B :=
  match r with Ok a => f a | Err => Err | NoOracle => NoOracle end.

(* condOpenGz *)
Definition cond_open (s : wst) : wst :=
  match w_cur s with
  | Some _ => s
  | None => mkW (w_closed s) (Some []) (w_mstart s) (w_cwn s) (w_unc s) (w_poff s) (w_punc s) (w_toc s) (w_diff s) (w_cs s) (w_fs s)
  end.

(* currentCompressionWriter.Write(b), len(b) = n *)
Definition wr (s : wst) (b : bytes) (n : N) : wst :=
  let p := match w_cur s with Some p => p | None => [] end in
  mkW (w_closed s) (Some (p ++ b)) (w_mstart s) (w_cwn s) (w_unc s + n) (w_poff s) (w_punc s) (w_toc s)
      (w_diff s ++ b) (w_cs s) (w_fs s).

(* closeGz: the member gets its final compressed size *)
Definition close_member (s : wst) : res wst :=
  match w_cur s with
  | None => Ok s
  | Some p =>
      match w_cs s with
      | c :: cs' => Ok (mkW (w_closed s ++ [(c, p)]) None (w_mstart s + c) (w_mstart s + c) (w_unc s) (w_poff s) (w_punc s)
                            (w_toc s) (w_diff s) cs' (w_fs s))
      | [] => NoOracle
      end
  end.

(* flushGz followed by reading w.cw.n; only looked at when MinChunkSize > 0 *)
Definition observe_flush (s : wst) : res wst :=
  match w_fs s with
  | f :: fs' => Ok (mkW (w_closed s) (w_cur s) (w_mstart s) (w_mstart s + f) (w_unc s) (w_poff s) (w_punc s)
                        (w_toc s) (w_diff s) (w_cs s) fs')
  | [] => NoOracle
  end.

Definition set_prev (s : wst) (po pu : N) : wst :=
  mkW (w_closed s) (w_cur s) (w_mstart s) (w_cwn s) (w_unc s) po pu (w_toc s) (w_diff s) (w_cs s) (w_fs s).

Definition add_toc (s : wst) (t : tocent) : wst :=
  mkW (w_closed s) (w_cur s) (w_mstart s) (w_cwn s) (w_unc s) (w_poff s) (w_punc s) (w_toc s ++ [t]) (w_diff s) (w_cs s) (w_fs s).

(* the chunk ranges of a file: (chunkOffset, length, ChunkSize field) *)
Fixpoint chunk_list (fuel : nat) (cs off size : N) : list (N * N * N) :=
  match fuel with
  | O => []
  | S fuel' =>
      if off <? size then
        let remain := size - off in
        if remain <? cs then [(off, remain, 0)]
        else (off, cs, cs) :: chunk_list fuel' cs (off + cs) size
      else []
  end.
Definition chunks (cs size : N) : list (N * N * N) := chunk_list (S (N.to_nat (size / cs))) cs 0 size.

(* one iteration of "for written < totalSize" *)
Definition do_chunk (i : io) (o : wopts) (e : entry) (first : bool) (s : wst) (c : N * N * N) : res wst :=
  let '(coff, clen, csf) := c in
  bind (if (o_min o <=? 0)%Z then Ok (true, s)
        else bind (observe_flush s) (fun s1 =>
               Ok ((first && e_open e) || (o_min o <=? Z.of_N (w_cwn s1) - Z.of_N (w_poff s1))%Z, s1)))
       (fun ds =>
          let '(d, s1) := ds in
          bind (if (d : bool) then bind (close_member s1) (fun s2 => Ok (set_prev s2 (w_cwn s2) (w_unc s2), w_cwn s2, 0))
                else Ok (s1, w_poff s1, w_unc s1 - w_punc s1))
               (fun r =>
                  let '(s2, off, inner) := r in
                  let s3 := wr (cond_open s2) (sl coff clen (content i e)) clen in
                  Ok (add_toc s3 (mkT (e_id e) (if first then TReg else TChunk) (if first then e_size e else 0)
                                      off inner coff csf)))).

Fixpoint do_chunks (i : io) (o : wopts) (e : entry) (first : bool) (s : wst) (cl : list (N * N * N)) : res wst :=
  match cl with
  | [] => Ok s
  | c :: t => bind (do_chunk i o e first s c) (fun s' => do_chunks i o e false s' t)
  end.

(* one iteration of the entry loop of appendTar *)
Definition step_entry (i : io) (o : wopts) (s : wst) (e : entry) : res wst :=
  match e_kind e with
  | KToc => if o_lossless o then Err else Ok s
  | KBad => Err
  | k =>
      let s1 := wr (cond_open s) (hdr i e) (e_hlen e) in
      let sz := data_size e in
      if 0 <? sz then
        bind (do_chunks i o e true s1 (chunks (eff_chunk o) sz)) (fun s2 =>
          Ok (if 0 <? pad512 sz then wr s2 (padb i e) (pad512 sz) else s2))
      else Ok (add_toc s1 (mkT (e_id e) (match k with KReg => TReg | _ => TOther end) sz 0 0 0 0))
  end.

Fixpoint run_entries (i : io) (o : wopts) (s : wst) (es : list entry) : res wst :=
  match es with
  | [] => Ok s
  | e :: t => bind (step_entry i o s e) (fun s' => run_entries i o s' t)
  end.

(* Successive AppendTar calls on one Writer.  The model follows the code after C03-fix-1: prevOffset and
   prevOffsetUncompressed ([w_poff], [w_punc]) are fields of the Writer and survive from one call to the next
   (before the fix each call restarted them from the stale w.cw.n and from 0, so that with MinChunkSize > 0 a
   second call recorded offsets that are not member boundaries). *)
Fixpoint append_calls (i : io) (o : wopts) (s : wst) (calls : list (list entry)) : res wst :=
  match calls with
  | [] => Ok s
  | c :: t => bind (run_entries i o s c) (fun s' => append_calls i o s' t)
  end.

(* appendTar on a fresh Writer, then closeGz (Close / closeWithCombine) *)
Definition append_tar (i : io) (o : wopts) (tlen : N) (es : list entry) (s : wst) : res wst :=
  bind (run_entries i o s es) (fun s1 =>
    Ok (if o_lossless o && (0 <? tlen) then wr s1 (trail i) tlen else s1)).

Definition run_writer (i : io) (o : wopts) (tlen : N) (es : list entry) (cs fs : list N) : res wst :=
  bind (append_tar i o tlen es (init_w cs fs)) close_member.

(* ---------- Build: divideEntries, sub-blobs, closeWithCombine ---------- *)
Definition total_size (es : list entry) : N := fold_right (fun e a => e_size e + a) 0 es.

Fixpoint divide_go (es : list entry) (unit nextEnd offset : N) (cur : list entry) : list (list entry) :=
  match es with
  | [] => [cur]
  | e :: t =>
      let cur' := cur ++ [e] in
      let offset' := offset + e_size e in
      if nextEnd <? offset' then cur' :: divide_go t unit (nextEnd + unit) offset' []
      else divide_go t unit nextEnd offset' cur'
  end.

(* divideEntries(entries, minPartsNum), minPartsNum >= 1 *)
Definition divide (es : list entry) (k : N) : list (list entry) :=
  let unit := total_size es / k in divide_go es unit unit 0 [].

(* the sub-writers, one per part; the oracle streams are consumed part after part *)
Fixpoint run_parts (i : io) (o : wopts) (parts : list (list entry)) (cs fs : list N) : res (list wst) :=
  match parts with
  | [] => Ok []
  | p :: t =>
      bind (run_writer i o 0 p cs fs) (fun w =>
        bind (run_parts i o t (w_cs w) (w_fs w)) (fun ws => Ok (w :: ws)))
  end.

Definition is_data (t : tocent) : bool :=
  match t_type t with TReg => 0 <? t_size t | TChunk => true | TOther => false end.

Definition shift (d : N) (t : tocent) : tocent :=
  if is_data t then mkT (t_id t) (t_type t) (t_size t) (t_off t + d) (t_inner t) (t_coff t) (t_csize t) else t.

(* closeWithCombine: entries of each writer rebased by the compressed sizes of the preceding writers *)
Fixpoint combine_toc (ws : list wst) (d : N) : list tocent :=
  match ws with
  | [] => []
  | w :: t => map (shift d) (w_toc w) ++ combine_toc t (d + w_cwn w)
  end.

Definition combine_members (ws : list wst) : list member := concat (map w_closed ws).
Definition combine_total (ws : list wst) : N := fold_right (fun w a => w_cwn w + a) 0 ws.

(* ---------- a finished blob ---------- *)
Record blob := mkB {
  b_members : list member;    (* the payload part *)
  b_toc     : list tocent;
  b_total   : N;              (* compressed size of the payload part = offset handed to WriteTOCAndFooter *)
  b_unc     : N;              (* uncompressed bytes of the payload part *)
  b_left    : list N * list N (* unconsumed oracle values *)
}.

Definition blob_of_writer (w : wst) : blob := mkB (w_closed w) (w_toc w) (w_cwn w) (w_unc w) (w_cs w, w_fs w).

Fixpoint last_left (ws : list wst) (d : list N * list N) : list N * list N :=
  match ws with [] => d | w :: t => last_left t (w_cs w, w_fs w) end.

Definition blob_of_build (ws : list wst) (cs fs : list N) : blob :=
  mkB (combine_members ws) (combine_toc ws 0) (combine_total ws)
      (fold_right (fun w a => w_unc w + a) 0 ws) (last_left ws (cs, fs)).

Inductive mode := MWriter | MLossless | MBuild (workers : N).

Definition workers_parts (o : wopts) (es : list entry) (k : N) : list (list entry) :=
  if (0 <? o_min o)%Z then [es] else divide es k.

Definition build_blob (i : io) (m : mode) (chunk minc : Z) (tlen : N) (es : list entry) (cs fs : list N) : res blob :=
  match m with
  | MWriter => bind (run_writer i (mkO chunk minc false) tlen es cs fs) (fun w => Ok (blob_of_writer w))
  | MLossless => bind (run_writer i (mkO chunk minc true) tlen es cs fs) (fun w => Ok (blob_of_writer w))
  | MBuild k =>
      let o := mkO chunk minc false in
      bind (run_parts i o (workers_parts o es k) cs fs) (fun ws => Ok (blob_of_build ws cs fs))
  end.

(* ---------- TOC + footer (WriteTOCAndFooter), sizes of the TOC JSON / compressed TOC are oracle values ---------- *)
Definition tar_entry_len (j : N) : N := 512 + j + pad512 j + 1024.  (* header + data + padding + end-of-archive *)

(* (footer bytes, blob length, length of the full decompression) *)
Definition finish (f : ffmt) (total unc tocJ tocC : N) : bytes * N * N :=
  match f with
  | FGzip | FLegacy => (gzip_footer_bytes total, total + tocC + N.of_nat estargz_footer_size, unc + tar_entry_len tocJ)
  | FZstd => (zstd_footer_frame total tocJ tocC, total + (8 + tocC) + (8 + N.of_nat zstd_footer_size), unc)
  | FExt => (exttoc_footer_bytes, total + N.of_nat exttoc_footer_size, unc)
  end.

(* ---------- specification-side functions used by the theorems ---------- *)
Definition csum (ms : list member) : N := fold_right (fun m a => fst m + a) 0 ms.
Definition payloads (ms : list member) : bytes := concat (map snd ms).

(* serialisation of one entry as an eStargz-agnostic tar reader sees it *)
Definition ser_entry (i : io) (lossless : bool) (e : entry) : bytes :=
  match e_kind e with
  | KToc => []
  | _ => hdr i e ++ content i e ++ padb i e
  end.
Definition ser (i : io) (es : list entry) : bytes := flat_map (ser_entry i false) es.

(* length of the chunk a TOC entry describes, as a reader computes it: chunkSize, or the rest of the file *)
Definition chunk_len (e : entry) (t : tocent) : N := if t_csize t =? 0 then e_size e - t_coff t else t_csize t.

(* the documented reading rule: the member starting at compressed offset [t_off] exists and, decompressing
   from there, the bytes [t_inner, t_inner + len) are the bytes [t_coff, t_coff + len) of the file *)
Definition located (i : io) (ms : list member) (e : entry) (t : tocent) : Prop :=
  exists k, (k <= length ms)%nat /\ t_off t = csum (firstn k ms)
    /\ t_coff t + chunk_len e t <= e_size e /\ 0 < chunk_len e t
    /\ t_inner t + chunk_len e t <= N.of_nat (length (payloads (skipn k ms)))
    /\ sl (t_inner t) (chunk_len e t) (payloads (skipn k ms)) = sl (t_coff t) (chunk_len e t) (content i e).

(* ---------- correspondence ---------- *)
Definition ttype_eqb (a b : ttype) : bool :=
  match a, b with TReg, TReg | TChunk, TChunk | TOther, TOther => true | _, _ => false end.
Definition tocent_eqb (a b : tocent) : bool :=
  (t_id a =? t_id b) && ttype_eqb (t_type a) (t_type b) && (t_size a =? t_size b) && (t_off a =? t_off b)
  && (t_inner a =? t_inner b) && (t_coff a =? t_coff b) && (t_csize a =? t_csize b).
Fixpoint toc_eqb (a b : list tocent) : bool :=
  match a, b with
  | [], [] => true
  | x :: a', y :: b' => tocent_eqb x y && toc_eqb a' b'
  | _, _ => false
  end.

Record case := mkCase {
  c_mode : mode; c_fmt : ffmt; c_chunk : Z; c_min : Z;
  c_entries : list entry;      (* Writer: the input tar; Build: the entries in the order sortEntries emitted them *)
  c_tlen : N;                  (* lossless: raw bytes after the last entry's padding *)
  c_cs : list N; c_fs : list N; c_tocJ : N; c_tocC : N;   (* oracle values *)
  (* observed on the implementation *)
  c_ok : bool; c_toc : list tocent; c_footer : bytes; c_bloblen : N; c_unclen : N
}.

Definition case_ok (c : case) : bool :=
  match build_blob null_io (c_mode c) (c_chunk c) (c_min c) (c_tlen c) (c_entries c) (c_cs c) (c_fs c) with
  | Ok b =>
      let '(ft, bl, ul) := finish (c_fmt c) (b_total b) (b_unc b) (c_tocJ c) (c_tocC c) in
      c_ok c && toc_eqb (b_toc b) (c_toc c) && bytes_eqb ft (c_footer c) && (bl =? c_bloblen c) && (ul =? c_unclen c)
      && match b_left b with ([], []) => true | _ => false end
  | Err => negb (c_ok c)
  | NoOracle => false
  end.

Fixpoint mismatches_from (n : nat) (cs : list case) : list nat :=
  match cs with
  | [] => []
  | c :: t => if case_ok c then mismatches_from (S n) t else n :: mismatches_from (S n) t
  end.
Definition mismatches := mismatches_from 0.
