(* Proofs about Model/Prefetch.v (property C15). *)
From Coq Require Import List ZArith Bool Arith Lia.
From SV Require Import Model.Prefetch.
Import ListNotations.
Open Scope Z_scope.

(* ------------------------------------------------------------------------------------------ *)
(* keys, membership *)

Lemma key_eqb_eq : forall a b, key_eqb a b = true <-> a = b.
Proof.
  intros [[a1 a2] a3] [[b1 b2] b3]. unfold key_eqb. rewrite !andb_true_iff, !Z.eqb_eq.
  split; [intros [[H1 H2] H3]; subst; reflexivity|intros H; inversion H; auto].
Qed.

Lemma key_eqb_refl : forall a, key_eqb a a = true.
Proof. intro a. apply key_eqb_eq. reflexivity. Qed.

Lemma memK_In : forall k l, memK k l = true <-> In k l.
Proof.
  intros k l. unfold memK. rewrite existsb_exists. split.
  - intros [x [Hx He]]. apply key_eqb_eq in He. subst. exact Hx.
  - intro H. exists k. split; [exact H|apply key_eqb_refl].
Qed.

Lemma rmK_In : forall x k l, In x (rmK k l) <-> In x l /\ x <> k.
Proof.
  intros x k l. unfold rmK. rewrite filter_In. split; intros [H1 H2]; split; auto.
  - intro E. subst. rewrite key_eqb_refl in H2. discriminate.
  - destruct (key_eqb k x) eqn:E; [|reflexivity]. apply key_eqb_eq in E. subst. exfalso. apply H2. reflexivity.
Qed.

Lemma firstn_In : forall (A : Type) n (l : list A) x, In x (firstn n l) -> In x l.
Proof.
  intros A n. induction n as [|n IH]; intros l x H; [destruct H|].
  destruct l as [|a l]; [destruct H|]. destruct H as [H|H]; [left; exact H|right; apply IH; exact H].
Qed.

(* ------------------------------------------------------------------------------------------ *)
(* 1. range selection *)

Lemma range_no_prefetch : forall lm cfg size, prefetch_range true lm cfg size = None.
Proof. reflexivity. Qed.

Lemma range_landmark : forall off cfg size, prefetch_range false (Some off) cfg size = Some off.
Proof. reflexivity. Qed.

Lemma range_no_landmark : forall cfg size, prefetch_range false None cfg size = Some (Z.min cfg size).
Proof.
  intros cfg size. unfold prefetch_range. destruct (cfg >? size) eqn:E; f_equal; lia.
Qed.

(* ------------------------------------------------------------------------------------------ *)
(* 2. blob.Cache(0, n): coverage *)

Lemma memZ_In : forall x l, memZ x l = true <-> In x l.
Proof.
  intros x l. unfold memZ. rewrite existsb_exists. split.
  - intros [y [Hy He]]. apply Z.eqb_eq in He. subst. exact Hy.
  - intro H. exists x. split; [exact H|apply Z.eqb_refl].
Qed.

Lemma walk_chunks_in : forall fuel cs size i e k,
  0 < cs -> 0 <= k -> (Z.to_nat k < fuel)%nat -> i + k * cs <= e -> i + k * cs < size ->
  In (i + k * cs, Z.min (i + k * cs + cs - 1) (size - 1)) (walk_chunks fuel cs size i e).
Proof.
  induction fuel as [|f IH]; intros cs size i e k Hcs Hk Hf He Hs; [lia|].
  cbn [walk_chunks].
  assert (Hi : i <= e /\ i < size) by nia.
  replace ((i <=? e) && (i <? size)) with true
    by (symmetry; apply andb_true_iff; split; [apply Z.leb_le|apply Z.ltb_lt]; lia).
  destruct (Z.eq_dec k 0) as [E|E].
  - subst k. left. f_equal; lia.
  - right. replace (i + k * cs) with ((i + cs) + (k - 1) * cs) by lia.
    apply IH; try lia; nia.
Qed.

Lemma fold_min_le : forall (l : list (Z * Z)) a, fold_left (fun a x => Z.min a (fst x)) l a <= a
  /\ forall x, In x l -> fold_left (fun a x => Z.min a (fst x)) l a <= fst x.
Proof.
  induction l as [|y t IH]; intros a; cbn [fold_left]; [split; [lia|intros x []]|].
  destruct (IH (Z.min a (fst y))) as [A B]. split; [lia|].
  intros x [E|Hx]; [subst; lia|apply B; exact Hx].
Qed.

Lemma fold_max_ge : forall (l : list (Z * Z)) a, a <= fold_left (fun a x => Z.max a (snd x)) l a
  /\ forall x, In x l -> snd x <= fold_left (fun a x => Z.max a (snd x)) l a.
Proof.
  induction l as [|y t IH]; intros a; cbn [fold_left]; [split; [lia|intros x []]|].
  destruct (IH (Z.max a (snd y))) as [A B]. split; [lia|].
  intros x [E|Hx]; [subst; lia|apply B; exact Hx].
Qed.

(* cacheAt: a chunk of the walked region that is not cached lies inside the single request *)
Lemma cache_at_covers : forall cs size have off sz c,
  In c (walk_chunks (chunk_fuel cs (gfloor off cs) (gceil (off + sz - 1) cs - 1)) cs size (gfloor off cs) (gceil (off + sz - 1) cs - 1)) ->
  memZ (fst c) have = false ->
  exists r, In r (cache_at cs size have off sz) /\ fst r <= fst c /\ snd c <= fst r + snd r - 1.
Proof.
  intros cs size have off sz c Hc Hm. unfold cache_at.
  set (w := walk_chunks _ cs size _ _) in *.
  assert (Hin : In c (filter (fun c0 => negb (memZ (fst c0) have)) w)).
  { apply filter_In. split; [exact Hc|rewrite Hm; reflexivity]. }
  destruct (filter (fun c0 => negb (memZ (fst c0) have)) w) as [|c0 t] eqn:E; [destruct Hin|].
  eexists. split; [left; reflexivity|]. cbn [fst snd].
  destruct (fold_min_le t (fst c0)) as [A B]. destruct (fold_max_ge t (snd c0)) as [C D].
  destruct Hin as [E1|Hin]; [subst c0; lia|].
  specialize (B c Hin). specialize (D c Hin). lia.
Qed.

Lemma quot_nonneg : forall a b, 0 <= a -> 0 < b -> Z.quot a b = a / b.
Proof. intros. apply Z.quot_div_nonneg; lia. Qed.

(* blob.Cache(0, n), prefetch chunk size <= chunk size: every byte of [0, n) inside the blob is in a cached chunk or in the request *)
Lemma cache_small_covers : forall cs size have n x,
  0 < cs -> 0 <= x < n -> x < size ->
  memZ (x / cs * cs) have = true
  \/ exists r, In r (cache_at cs size have 0 n) /\ fst r <= x /\ x <= fst r + snd r - 1.
Proof.
  intros cs size have n x Hcs Hx Hs.
  destruct (memZ (x / cs * cs) have) eqn:Hm; [left; reflexivity|right].
  set (k := x / cs).
  assert (Hk : 0 <= k) by (apply Z.div_pos; lia).
  assert (Hkx : k * cs <= x < k * cs + cs).
  { pose proof (Z.div_mod x cs ltac:(lia)). pose proof (Z.mod_pos_bound x cs Hcs). unfold k. nia. }
  assert (Hb : gfloor 0 cs = 0) by (unfold gfloor; rewrite Z.quot_0_l; lia).
  assert (He : x <= gceil (0 + n - 1) cs - 1).
  { unfold gceil. rewrite quot_nonneg by lia.
    pose proof (Z.div_mod (0 + n - 1) cs ltac:(lia)). pose proof (Z.mod_pos_bound (0 + n - 1) cs Hcs). nia. }
  destruct (cache_at_covers cs size have 0 n (0 + k * cs, Z.min (0 + k * cs + cs - 1) (size - 1))) as [r [Hr [Hlo Hhi]]].
  - rewrite Hb. apply walk_chunks_in; try lia.
    unfold chunk_fuel.
    assert (k <= (gceil (0 + n - 1) cs - 1 - 0) / cs).
    { apply Z.div_le_lower_bound; lia. }
    lia.
  - cbn [fst]. replace (0 + k * cs) with (x / cs * cs) by (unfold k; lia). exact Hm.
  - exists r. split; [exact Hr|]. cbn [fst snd] in Hlo, Hhi. lia.
Qed.

Lemma pieces_in : forall fuel fetch i n j,
  0 < fetch -> 0 <= j -> (Z.to_nat j < fuel)%nat -> i + j * fetch < n ->
  In (i + j * fetch, if i + j * fetch + fetch >? n then n - (i + j * fetch) else fetch) (pieces fuel fetch i n).
Proof.
  induction fuel as [|f IH]; intros fetch i n j Hf Hj Hfu Hn; [lia|].
  cbn [pieces]. replace (i <? n) with true by (symmetry; apply Z.ltb_lt; nia).
  destruct (Z.eq_dec j 0) as [E|E].
  - subst j. left. replace (i + 0 * fetch) with i by lia. reflexivity.
  - right. replace (i + j * fetch) with ((i + fetch) + (j - 1) * fetch) by lia.
    apply IH; try lia; nia.
Qed.

(* blob.Cache(0, n) in both modes: every byte of [0, n) inside the blob is in a chunk that was cached before or
   inside one of the requests *)
Lemma cache_requests_cover : forall cs pcs size have n x,
  0 < cs -> 0 <= x < n -> x < size ->
  memZ (x / cs * cs) have = true
  \/ exists r, In r (cache_requests cs pcs size have n) /\ fst r <= x /\ x <= fst r + snd r - 1.
Proof.
  intros cs pcs size have n x Hcs Hx Hs. unfold cache_requests.
  destruct (pcs <=? cs) eqn:Ep; [apply cache_small_covers; assumption|].
  apply Z.leb_gt in Ep.
  destruct (memZ (x / cs * cs) have) eqn:Hm; [left; reflexivity|right].
  set (q := pcs / cs).
  assert (Hq : 1 <= q) by (apply Z.div_le_lower_bound; lia).
  set (fetch := cs * q).
  assert (Hfetch : 0 < fetch) by (unfold fetch; nia).
  set (j := x / fetch).
  assert (Hj : 0 <= j) by (apply Z.div_pos; lia).
  assert (Hjx : j * fetch <= x < j * fetch + fetch).
  { pose proof (Z.div_mod x fetch ltac:(lia)). pose proof (Z.mod_pos_bound x fetch Hfetch). unfold j. nia. }
  set (p := 0 + j * fetch).
  set (l := if p + fetch >? n then n - p else fetch).
  assert (Hl : x < p + l /\ 0 < l).
  { unfold l, p. destruct (0 + j * fetch + fetch >? n) eqn:E; [|lia]. lia. }
  assert (Hpiece : In (p, l) (pieces (Z.to_nat (n / fetch + 2)) fetch 0 n)).
  { unfold p, l. apply pieces_in; try lia.
    assert (j <= n / fetch) by (apply Z.div_le_lower_bound; lia). lia. }
  set (k := x / cs).
  assert (Hk : 0 <= k) by (apply Z.div_pos; lia).
  assert (Hkx : k * cs <= x < k * cs + cs).
  { pose proof (Z.div_mod x cs ltac:(lia)). pose proof (Z.mod_pos_bound x cs Hcs). unfold k. nia. }
  assert (Hpm : p = (j * q) * cs) by (unfold p, fetch; lia).
  assert (Hb : gfloor p cs = p).
  { unfold gfloor. rewrite quot_nonneg by nia. rewrite Hpm. rewrite Z.div_mul by lia. reflexivity. }
  assert (He : x <= gceil (p + l - 1) cs - 1).
  { unfold gceil. rewrite quot_nonneg by nia.
    pose proof (Z.div_mod (p + l - 1) cs ltac:(lia)). pose proof (Z.mod_pos_bound (p + l - 1) cs Hcs). nia. }
  (* x's chunk is chunk number k - j*q of the piece *)
  set (kk := k - j * q).
  assert (Hkk : 0 <= kk).
  { unfold kk. enough (j * q * cs < (k + 1) * cs) by nia. nia. }
  destruct (cache_at_covers cs size have p l (p + kk * cs, Z.min (p + kk * cs + cs - 1) (size - 1))) as [r [Hr [Hlo Hhi]]].
  - rewrite Hb. apply walk_chunks_in; try lia; try (unfold kk; nia).
    unfold chunk_fuel.
    assert (kk <= (gceil (p + l - 1) cs - 1 - p) / cs).
    { apply Z.div_le_lower_bound; [lia|]. unfold kk. nia. }
    lia.
  - cbn [fst]. replace (p + kk * cs) with (x / cs * cs) by (unfold kk, k; nia). exact Hm.
  - exists r. split.
    + apply in_flat_map. exists (p, l). split; [exact Hpiece|exact Hr].
    + cbn [fst snd] in Hlo, Hhi. unfold kk in *. split; [nia|].
      assert (x <= Z.min (p + (k - j * q) * cs + cs - 1) (size - 1)) by nia. lia.
Qed.

(* ------------------------------------------------------------------------------------------ *)
(* 3/4. chunk keys and reads *)

Lemma chunk_for_in : forall chunks o c, chunk_for chunks o = Some c -> In c chunks.
Proof.
  induction chunks as [|[co cz] t IH]; intros o c H; [discriminate|]. cbn [chunk_for] in H.
  destruct ((co <=? o) && (o <? co + cz)); [inversion H; left; reflexivity|right; exact (IH _ _ H)].
Qed.

(* a read whose chunks are all visible never leaves the chunk cache: whatever offset, length, fuel *)
Lemma read_local_hits : forall vis id chunks,
  (forall c, In c chunks -> vis (id, fst c, snd c) = true) ->
  forall fuel cur endo, read_local fuel vis id chunks cur endo = true.
Proof.
  intros vis id chunks H. induction fuel as [|k IH]; intros cur endo; [reflexivity|].
  cbn [read_local]. destruct (cur <? endo); [|reflexivity].
  destruct (chunk_for chunks cur) as [[co cz]|] eqn:E; [|reflexivity].
  pose proof (H _ (chunk_for_in _ _ _ E)) as Hv. cbn [fst snd] in Hv. rewrite Hv. apply IH.
Qed.

Lemma tiled_le : forall chunks from total, tiled chunks from total -> from <= total.
Proof.
  induction chunks as [|[co cz] t IH]; intros from total H; cbn [tiled] in H; [lia|].
  destruct H as [_ [Hz Ht]]. apply IH in Ht. lia.
Qed.

Lemma tiledb_tiled : forall chunks from total, tiledb chunks from total = true <-> tiled chunks from total.
Proof.
  induction chunks as [|[co cz] t IH]; intros from total; cbn [tiledb tiled].
  - apply Z.eqb_eq.
  - rewrite !andb_true_iff, Z.eqb_eq, Z.ltb_lt, IH. tauto.
Qed.

Lemma chunk_for_skip : forall pre rest o,
  (forall c, In c pre -> fst c + snd c <= o) -> chunk_for (pre ++ rest) o = chunk_for rest o.
Proof.
  induction pre as [|[co cz] t IH]; intros rest o H; [reflexivity|].
  cbn [app chunk_for]. pose proof (H (co, cz) (or_introl eq_refl)) as H0. cbn [fst snd] in H0.
  replace ((co <=? o) && (o <? co + cz)) with false by (symmetry; apply andb_false_iff; right; apply Z.ltb_ge; lia).
  apply IH. intros c Hc. apply H. right. exact Hc.
Qed.

(* the loop of cacheWithReader visits every chunk of a file whose chunks tile it *)
Lemma cache_walk_tiled : forall rest pre from total,
  (forall c, In c pre -> fst c + snd c <= from) -> tiled rest from total ->
  cache_walk (S (length rest)) (pre ++ rest) from total = rest.
Proof.
  induction rest as [|[co cz] t IH]; intros pre from total Hpre Ht.
  - cbn [tiled] in Ht. subst. cbn [cache_walk length]. rewrite Z.ltb_irrefl. reflexivity.
  - cbn [tiled] in Ht. destruct Ht as [Hco [Hz Ht]]. subst co.
    pose proof (tiled_le _ _ _ Ht) as Hle.
    cbn [cache_walk length]. replace (from <? total) with true by (symmetry; apply Z.ltb_lt; lia).
    rewrite (chunk_for_skip pre _ from Hpre). cbn [chunk_for].
    replace ((from <=? from) && (from <? from + cz)) with true
      by (symmetry; apply andb_true_iff; split; [apply Z.leb_le|apply Z.ltb_lt]; lia).
    f_equal.
    replace (pre ++ (from, cz) :: t) with ((pre ++ [(from, cz)]) ++ t) by (rewrite <- app_assoc; reflexivity).
    apply IH; [|exact Ht].
    intros c Hc. apply in_app_or in Hc. destruct Hc as [Hc|[Hc|[]]].
    + apply Hpre in Hc. lia.
    + subst c. cbn [fst snd]. lia.
Qed.

Lemma file_keys_tiled : forall f,
  tiled (f_chunks f) 0 (f_size f) -> file_keys f = map (fun c => (f_id f, fst c, snd c)) (f_chunks f).
Proof.
  intros f H. unfold file_keys. f_equal.
  exact (cache_walk_tiled (f_chunks f) [] 0 (f_size f) (fun c (Hc : In c []) => match Hc with end) H).
Qed.

Lemma prefetch_keys_cover : forall fs n f c,
  In f fs -> f_off f < n -> tiled (f_chunks f) 0 (f_size f) -> In c (f_chunks f) ->
  In (f_id f, fst c, snd c) (prefetch_keys fs n).
Proof.
  intros fs n f c Hf Ho Ht Hc. unfold prefetch_keys. apply in_flat_map. exists f. split.
  - apply filter_In. split; [exact Hf|apply Z.ltb_lt; exact Ho].
  - rewrite (file_keys_tiled f Ht). apply in_map_iff. exists c. split; [reflexivity|exact Hc].
Qed.

Lemma all_keys_cover : forall fs f c,
  In f fs -> tiled (f_chunks f) 0 (f_size f) -> In c (f_chunks f) -> In (f_id f, fst c, snd c) (all_keys fs).
Proof.
  intros fs f c Hf Ht Hc. unfold all_keys. apply in_flat_map. exists f. split; [exact Hf|].
  rewrite (file_keys_tiled f Ht). apply in_map_iff. exists c. split; [reflexivity|exact Hc].
Qed.

(* only files that start inside the range are touched *)
Lemma prefetch_keys_only : forall fs n k,
  In k (prefetch_keys fs n) -> exists f, In f fs /\ f_off f < n /\ In k (file_keys f).
Proof.
  intros fs n k H. unfold prefetch_keys in H. apply in_flat_map in H. destruct H as [f [Hf Hk]].
  apply filter_In in Hf. destruct Hf as [Hf Ho]. apply Z.ltb_lt in Ho. exists f. auto.
Qed.

(* the writer's chunking loop tiles the file *)
Lemma mk_chunks_tiled : forall fuel cs written total,
  0 < cs -> written <= total -> (Z.to_nat (total - written) <= fuel)%nat ->
  tiled (mk_chunks fuel cs written total) written total.
Proof.
  induction fuel as [|k IH]; intros cs written total Hcs Hle Hf.
  - cbn [mk_chunks tiled]. lia.
  - cbn [mk_chunks]. destruct (written <? total) eqn:E.
    + apply Z.ltb_lt in E. cbn [tiled]. split; [reflexivity|]. split; [lia|].
      apply IH; lia.
    + apply Z.ltb_ge in E. cbn [tiled]. lia.
Qed.

(* ------------------------------------------------------------------------------------------ *)
(* 5. chunk cache *)

Definition kept (s : cst) (k : key) : Prop := In k (pending s) \/ In k (disk s).
Definition cinv (s : cst) : Prop := forall k, In k (lru s) -> kept s k.

Lemma cinv_init : cinv cinit.
Proof. intros k H. destruct H. Qed.

Lemma commit_kept : forall kind s k, kept (commit kind s k) k.
Proof.
  intros kind s k. unfold commit, kept. destruct kind as [|cap sync]; cbn; [right; left; reflexivity|].
  destruct sync; cbn; [right|left]; left; reflexivity.
Qed.

Lemma commit_mono : forall kind s k x, kept s x -> kept (commit kind s k) x.
Proof.
  intros kind s k x [H|H]; unfold commit, kept; destruct kind as [|cap sync]; cbn; try (destruct sync; cbn); auto.
Qed.

Lemma commit_cinv : forall kind s k, cinv s -> cinv (commit kind s k).
Proof.
  intros kind s k Hi x Hx. destruct kind as [|cap sync].
  - apply commit_mono. apply Hi. exact Hx.
  - assert (Hin : In x (k :: rmK k (lru s))).
    { unfold commit in Hx. destruct sync; cbn [lru] in Hx; exact (firstn_In _ _ _ _ Hx). }
    destruct Hin as [E|Hin].
    + subst x. apply commit_kept.
    + apply rmK_In in Hin. apply commit_mono. apply Hi. exact (proj1 Hin).
Qed.

Lemma touch_cinv : forall s k, cinv s -> cinv (mkC (k :: rmK k (lru s)) (pending s) (disk s)) \/ True.
Proof. intros. right. exact I. Qed.

Lemma cstep_mono : forall kind s o x, kept s x -> kept (cstep kind s o) x.
Proof.
  intros kind s o x H. destruct o as [k|k|k|k|k|k]; cbn [cstep].
  - apply commit_mono. exact H.
  - destruct H as [H|H]; [left|right; right]; exact H.
  - destruct (memK k (pending s)) eqn:E; [|exact H]. unfold kept; cbn.
    destruct H as [H|H]; [|right; right; exact H].
    destruct (key_eqb k x) eqn:Ek.
    + apply key_eqb_eq in Ek. subst. right. left. reflexivity.
    + left. apply rmK_In. split; [exact H|]. intro E2. subst. rewrite key_eqb_refl in Ek. discriminate.
  - destruct (memK k (lru s)); exact H.
  - destruct (visible s k); [destruct (memK k (lru s)); exact H|apply commit_mono; exact H].
  - destruct (visible s k); [exact H|]. destruct H as [H|H]; [left|right; right]; exact H.
Qed.

Lemma cstep_cinv : forall kind s o, cinv s -> cinv (cstep kind s o).
Proof.
  intros kind s o Hi. destruct o as [k|k|k|k|k|k]; cbn [cstep].
  - apply commit_cinv. exact Hi.
  - intros x Hx. cbn [lru] in Hx. apply (cstep_mono kind s (CommitDirect k)). apply Hi. exact Hx.
  - destruct (memK k (pending s)) eqn:E; [|exact Hi].
    intros x Hx. cbn [lru] in Hx. pose proof (cstep_mono kind s (Persist k) x (Hi x Hx)) as H.
    cbn [cstep] in H. rewrite E in H. exact H.
  - destruct (memK k (lru s)) eqn:E; [|exact Hi].
    intros x Hx. cbn [lru] in Hx. unfold kept. cbn [pending disk].
    destruct Hx as [Hx|Hx]; [subst x; apply Hi; apply memK_In; exact E|].
    apply rmK_In in Hx. apply Hi. exact (proj1 Hx).
  - destruct (visible s k) eqn:V.
    + destruct (memK k (lru s)) eqn:E; [|exact Hi].
      intros x Hx. cbn [lru] in Hx. unfold kept. cbn [pending disk].
      destruct Hx as [Hx|Hx]; [subst x; apply Hi; apply memK_In; exact E|].
      apply rmK_In in Hx. apply Hi. exact (proj1 Hx).
    + apply commit_cinv. exact Hi.
  - destruct (visible s k) eqn:V; [exact Hi|].
    intros x Hx. cbn [lru] in Hx. destruct (Hi x Hx) as [H|H]; [left|right; right]; exact H.
Qed.

(* the op that stands for a successful readAndCache / cacheData of k leaves k pending or on disk *)
Definition caches (o : cop) (k : key) : Prop :=
  o = Commit k \/ o = CommitDirect k \/ o = RAC k \/ o = RACDirect k.

Lemma cstep_caches : forall kind s o k, cinv s -> caches o k -> kept (cstep kind s o) k.
Proof.
  intros kind s o k Hi [E|[E|[E|E]]]; subst o; cbn [cstep].
  - apply commit_kept.
  - right. left. reflexivity.
  - destruct (visible s k) eqn:V; [|apply commit_kept].
    assert (Hk : kept s k).
    { unfold visible in V. apply orb_true_iff in V. destruct V as [V|V]; apply memK_In in V; [apply Hi; exact V|right; exact V]. }
    destruct (memK k (lru s)); exact Hk.
  - destruct (visible s k) eqn:V; [|right; left; reflexivity].
    unfold visible in V. apply orb_true_iff in V. destruct V as [V|V]; apply memK_In in V; [apply Hi; exact V|right; exact V].
Qed.

Lemma cexec_inv : forall kind os s, cinv s -> cinv (cexec kind s os).
Proof.
  intros kind os. induction os as [|o t IH]; intros s H; [exact H|]. cbn [cexec fold_left]. apply IH. apply cstep_cinv. exact H.
Qed.

Lemma cexec_mono : forall kind os s x, kept s x -> kept (cexec kind s os) x.
Proof.
  intros kind os. induction os as [|o t IH]; intros s x H; [exact H|]. cbn [cexec fold_left]. apply IH. apply cstep_mono. exact H.
Qed.

(* any history, any interleaving: a key that went through a successful caching step is pending or on disk *)
Lemma cexec_caches : forall kind os s o k, cinv s -> In o os -> caches o k -> kept (cexec kind s os) k.
Proof.
  intros kind os. induction os as [|a t IH]; intros s o k Hi Hin Hc; [destruct Hin|].
  cbn [cexec fold_left]. destruct Hin as [E|Hin].
  - subst a. apply (cexec_mono kind t). apply cstep_caches; assumption.
  - apply (IH _ o k); [apply cstep_cinv; exact Hi|exact Hin|exact Hc].
Qed.

(* caches without asynchronous persistence never have anything pending *)
Lemma lossless_pending : forall kind os s, lossless kind = true -> pending s = [] -> pending (cexec kind s os) = [].
Proof.
  intros kind os. induction os as [|o t IH]; intros s Hl Hp; [exact Hp|]. cbn [cexec fold_left]. apply IH; [exact Hl|].
  destruct o as [k|k|k|k|k|k]; cbn [cstep].
  - unfold commit. destruct kind as [|cap sync]; [exact Hp|]. cbn in Hl. subst sync. exact Hp.
  - exact Hp.
  - rewrite Hp. cbn. exact Hp.
  - destruct (memK k (lru s)); exact Hp.
  - destruct (visible s k); [destruct (memK k (lru s)); exact Hp|].
    unfold commit. destruct kind as [|cap sync]; [exact Hp|]. cbn in Hl. subst sync. exact Hp.
  - destruct (visible s k); exact Hp.
Qed.

Lemma kept_visible : forall s k, pending s = [] -> kept s k -> visible s k = true.
Proof.
  intros s k Hp [H|H]; [rewrite Hp in H; destruct H|].
  unfold visible. apply orb_true_iff. right. apply memK_In. exact H.
Qed.

(* ------------------------------------------------------------------------------------------ *)
(* locality theorems *)

(* Prefetch returned nil = every readAndCache of the filtered walk returned nil (errgroup): each key of
   [prefetch_keys] went through RAC somewhere in the history [os] of the chunk cache, which may contain anything else
   (reads of other files, background fetch, persist closures, in any interleaving). *)
Lemma prefetch_local : forall kind fs n os f,
  In f fs -> f_off f < n -> tiled (f_chunks f) 0 (f_size f) ->
  (forall k, In k (prefetch_keys fs n) -> In (RAC k) os) ->
  let s := cexec kind cinit os in
  quiescent s \/ lossless kind = true ->
  forall fuel cur endo, read_local fuel (visible s) (f_id f) (f_chunks f) cur endo = true.
Proof.
  intros kind fs n os f Hf Ho Ht Hsucc s Hq fuel cur endo.
  apply read_local_hits. intros c Hc.
  assert (Hp : pending s = []).
  { destruct Hq as [Hq|Hq]; [exact Hq|]. apply lossless_pending; [exact Hq|reflexivity]. }
  apply kept_visible; [exact Hp|].
  apply (cexec_caches kind os cinit (RAC (f_id f, fst c, snd c))); [exact cinv_init| |right; right; left; reflexivity].
  apply Hsucc. apply prefetch_keys_cover; assumption.
Qed.

(* BackgroundFetch returned nil = every key of every regular file went through readAndCache with cache.Direct() *)
Lemma bgfetch_local : forall kind fs os f,
  In f fs -> tiled (f_chunks f) 0 (f_size f) ->
  (forall k, In k (all_keys fs) -> In (RACDirect k) os) ->
  let s := cexec kind cinit os in
  quiescent s \/ lossless kind = true ->
  forall fuel cur endo, read_local fuel (visible s) (f_id f) (f_chunks f) cur endo = true.
Proof.
  intros kind fs os f Hf Ht Hsucc s Hq fuel cur endo.
  apply read_local_hits. intros c Hc.
  assert (Hp : pending s = []).
  { destruct Hq as [Hq|Hq]; [exact Hq|]. apply lossless_pending; [exact Hq|reflexivity]. }
  apply kept_visible; [exact Hp|].
  apply (cexec_caches kind os cinit (RACDirect (f_id f, fst c, snd c))); [exact cinv_init| |right; right; right; reflexivity].
  apply Hsucc. apply all_keys_cover; assumption.
Qed.

(* a background fetch that started from an empty chunk cache and was not interleaved with non-direct commits leaves
   nothing pending: then no quiescence hypothesis is needed, whatever the cache kind *)
Definition direct_only (o : cop) : Prop :=
  match o with Commit _ | RAC _ => False | _ => True end.

Lemma direct_pending : forall kind os s, Forall direct_only os -> pending s = [] -> pending (cexec kind s os) = [].
Proof.
  intros kind os. induction os as [|o t IH]; intros s Hd Hp; [exact Hp|]. cbn [cexec fold_left].
  inversion Hd as [|? ? H1 H2]; subst. apply IH; [exact H2|].
  destruct o as [k|k|k|k|k|k]; cbn [cstep]; cbn in H1; try destruct H1.
  - exact Hp.
  - rewrite Hp. cbn. exact Hp.
  - destruct (memK k (lru s)); exact Hp.
  - destruct (visible s k); exact Hp.
Qed.

(* ------------------------------------------------------------------------------------------ *)
(* 6. waiter *)

Lemma memN_In : forall x l, memN x l = true <-> In x l.
Proof.
  intros x l. unfold memN. rewrite existsb_exists. split.
  - intros [y [Hy He]]. apply Nat.eqb_eq in He. subst. exact Hy.
  - intro H. exists x. split; [exact H|apply Nat.eqb_refl].
Qed.

Lemma rmN_In : forall y x l, In y (rmN x l) <-> In y l /\ y <> x.
Proof.
  intros y x l. unfold rmN. rewrite filter_In. split; intros [H1 H2]; split; auto.
  - intro E. subst. rewrite Nat.eqb_refl in H2. discriminate.
  - destruct (Nat.eqb x y) eqn:E; [|reflexivity]. apply Nat.eqb_eq in E. subst. exfalso. apply H2. reflexivity.
Qed.

Definition timed_out (s : wst) : Prop := exists id, In (id, true) (returned s).

Record winv (s : wst) : Prop := mkWinv {
  wi_closes : closes s = if closed s then 1%nat else 0%nat;
  wi_pf : pf_bodies s = match pf s with Idle => 0%nat | _ => 1%nat end;
  wi_bg : bg_bodies s = match bg s with Idle => 0%nat | _ => 1%nat end;
  wi_fin : pf s = Finished -> closed s = true;
  wi_early : pf_early s = true -> closed s = true;
  wi_why : closed s = true -> pf s = Finished \/ pf_early s = true \/ timed_out s;
  wi_nil : forall id, In (id, false) (returned s) -> closed s = true;
  wi_once : forall id, In id (waiting s) -> forall b, ~ In (id, b) (returned s)
}.

Lemma winv_init : winv winit.
Proof.
  constructor; cbn; try reflexivity; try discriminate; try tauto.
Qed.

Lemma wdone_closed : forall s, closed (wdone s) = true.
Proof. intro s. unfold wdone. destruct (closed s) eqn:E; [exact E|reflexivity]. Qed.

Lemma wdone_fields : forall s,
  pf (wdone s) = pf s /\ pf_bodies (wdone s) = pf_bodies s /\ pf_early (wdone s) = pf_early s /\ bg (wdone s) = bg s
  /\ bg_bodies (wdone s) = bg_bodies s /\ waiting (wdone s) = waiting s /\ returned (wdone s) = returned s.
Proof. intro s. unfold wdone. destruct (closed s); cbn; repeat split. Qed.

Lemma wdone_closes : forall s, closes s = (if closed s then 1%nat else 0%nat) -> closes (wdone s) = 1%nat.
Proof. intros s H. unfold wdone. destruct (closed s) eqn:E; cbn; [exact H|rewrite H; reflexivity]. Qed.

Ltac wfin := unfold timed_out in *; cbn in *; firstorder (try discriminate; try congruence; try lia).

Lemma wstep_inv : forall s o, winv s -> winv (wstep s o).
Proof.
  intros s o [H1 H2 H3 H4 H5 H6 H7 H8].
  destruct o as [| |ok| |ok|id|id|id]; cbn [wstep].
  - (* PfCall *) destruct s as [cl cs p pb pe b bb wt rt]; cbn in *. destruct p; constructor; wfin.
  - (* PfAsync *) destruct s as [cl cs p pb pe b bb wt rt]; cbn in *. unfold wdone; cbn.
    destruct p; [constructor; wfin|destruct cl; cbn; constructor; wfin|constructor; wfin].
  - (* PfReturn *) destruct s as [cl cs p pb pe b bb wt rt]; cbn in *. unfold wdone; cbn.
    destruct p; [constructor; wfin|destruct cl; cbn; constructor; wfin|constructor; wfin].
  - (* BgCall *) destruct s as [cl cs p pb pe b bb wt rt]; cbn in *. destruct b; constructor; wfin.
  - (* BgReturn *) destruct s as [cl cs p pb pe b bb wt rt]; cbn in *. destruct b; constructor; wfin.
  - (* WaitEnter *)
    destruct (memN id (waiting s) || existsb (fun r => Nat.eqb id (fst r)) (returned s)) eqn:E; [constructor; assumption|].
    apply orb_false_iff in E. destruct E as [E1 E2].
    assert (Hfresh : forall b, ~ In (id, b) (returned s)).
    { intros b Hb. assert (existsb (fun r => Nat.eqb id (fst r)) (returned s) = true) as X.
      { apply existsb_exists. exists (id, b). split; [exact Hb|apply Nat.eqb_refl]. }
      rewrite X in E2. discriminate. }
    assert (Hnw : ~ In id (waiting s)).
    { intro Hx. apply memN_In in Hx. rewrite Hx in E1. discriminate. }
    destruct s as [cl cs p pb pe b bb wt rt]; cbn in *. destruct cl; constructor; cbn; try assumption; try tauto.
    + intro Hc. destruct (H6 Hc) as [Hx|[Hx|[i Hi]]]; [left; exact Hx|right; left; exact Hx|right; right; exists i; right; exact Hi].
    + intros i Hi b0 [Hb|Hb]; [inversion Hb; subst; contradiction|exact (H8 i Hi b0 Hb)].
    + intros i [Hi|Hi] b0; [subst i; apply Hfresh|apply H8; exact Hi].
  - (* WaitDone *)
    destruct (memN id (waiting s) && closed s) eqn:E; [|constructor; assumption].
    apply andb_true_iff in E. destruct E as [E1 E2].
    destruct s as [cl cs p pb pe b bb wt rt]; cbn in *. subst cl. constructor; cbn; try assumption; try tauto.
    + intro Hc. destruct (H6 Hc) as [Hx|[Hx|[i Hi]]]; [left; exact Hx|right; left; exact Hx|right; right; exists i; right; exact Hi].
    + intros i Hi b0 [Hb|Hb].
      * inversion Hb; subst. apply rmN_In in Hi. destruct Hi as [_ Hi]. apply Hi. reflexivity.
      * apply rmN_In in Hi. exact (H8 i (proj1 Hi) b0 Hb).
  - (* WaitTimeout *)
    destruct (memN id (waiting s)) eqn:E; [|constructor; assumption].
    destruct s as [cl cs p pb pe b bb wt rt]; cbn in *. unfold wdone; cbn.
    assert (Hlast : forall i, In i (rmN id wt) -> forall b0, ~ In (i, b0) ((id, true) :: rt)).
    { intros i Hi b0 [Hb|Hb].
      - inversion Hb; subst. apply rmN_In in Hi. destruct Hi as [_ Hi]. apply Hi. reflexivity.
      - apply rmN_In in Hi. exact (H8 i (proj1 Hi) b0 Hb). }
    destruct cl; cbn; constructor; cbn; try assumption; try tauto; try reflexivity.
    + intros _. right. right. exists id. left. reflexivity.
    + rewrite H1. reflexivity.
    + intros _. right. right. exists id. left. reflexivity.
Qed.

Lemma wexec_inv : forall os s, winv s -> winv (wexec s os).
Proof.
  induction os as [|o t IH]; intros s H; [exact H|]. cbn [wexec fold_left]. apply IH. apply wstep_inv. exact H.
Qed.

Lemma reach_winv : forall os, winv (wexec winit os).
Proof. intro os. apply wexec_inv. exact winv_init. Qed.

(* once closed, closed for ever *)
Lemma wstep_closed_mono : forall s o, closed s = true -> closed (wstep s o) = true.
Proof.
  intros s o H. destruct o as [| |ok| |ok|id|id|id]; cbn [wstep].
  - destruct (pf s); exact H.
  - destruct (pf s); try exact H. cbn. apply wdone_closed.
  - destruct (pf s); try exact H. cbn. apply wdone_closed.
  - destruct (bg s); exact H.
  - destruct (bg s); exact H.
  - destruct (memN id (waiting s) || existsb (fun r => Nat.eqb id (fst r)) (returned s)); [exact H|]. rewrite H. reflexivity.
  - destruct (memN id (waiting s) && closed s); [cbn; exact H|exact H].
  - destruct (memN id (waiting s)); [|exact H]. cbn. apply wdone_closed.
Qed.

Lemma wexec_closed_mono : forall os s, closed s = true -> closed (wexec s os) = true.
Proof.
  induction os as [|o t IH]; intros s H; [exact H|]. cbn [wexec fold_left]. apply IH. apply wstep_closed_mono. exact H.
Qed.

(* the end of the prefetch body (success or failure) and the async branch close the waiter *)
Lemma pf_return_closes : forall s ok, pf s = Running -> closed (wstep s (PfReturn ok)) = true /\ pf (wstep s (PfReturn ok)) = Finished.
Proof. intros s ok H. cbn [wstep]. rewrite H. cbn. split; [apply wdone_closed|reflexivity]. Qed.

Lemma pf_async_closes : forall s, pf s = Running -> closed (wstep s PfAsync) = true.
Proof. intros s H. cbn [wstep]. rewrite H. cbn. apply wdone_closed. Qed.

(* a wait that starts on a closed waiter returns nil at once *)
Lemma wait_enter_closed : forall s id,
  closed s = true -> ~ In id (waiting s) -> (forall b, ~ In (id, b) (returned s)) ->
  In (id, false) (returned (wstep s (WaitEnter id))) /\ waiting (wstep s (WaitEnter id)) = waiting s.
Proof.
  intros s id Hc Hw Hr. cbn [wstep].
  assert (E1 : memN id (waiting s) = false).
  { destruct (memN id (waiting s)) eqn:E; [apply memN_In in E; contradiction|reflexivity]. }
  assert (E2 : existsb (fun r => Nat.eqb id (fst r)) (returned s) = false).
  { destruct (existsb (fun r => Nat.eqb id (fst r)) (returned s)) eqn:E; [|reflexivity].
    apply existsb_exists in E. destruct E as [[i b] [Hi He]]. cbn in He. apply Nat.eqb_eq in He. subst i. exfalso. exact (Hr b Hi). }
  rewrite E1, E2, Hc. cbn. split; [left; reflexivity|reflexivity].
Qed.

(* a parked wait is never stuck: its timeout transition is enabled in every state and makes it return ... *)
Lemma wait_timeout_returns : forall s id,
  In id (waiting s) ->
  let s' := wstep s (WaitTimeout id) in
  In (id, true) (returned s') /\ ~ In id (waiting s') /\ closed s' = true.
Proof.
  intros s id H s'. subst s'. cbn [wstep]. apply memN_In in H. rewrite H. cbn.
  destruct (wdone_fields s) as [F1 [F2 [F3 [F4 [F5 [F6 F7]]]]]].
  split; [left; reflexivity|]. split; [|apply wdone_closed].
  intro Hx. apply rmN_In in Hx. destruct Hx as [_ Hx]. apply Hx. reflexivity.
Qed.

(* ... and as soon as the waiter is closed its nil-return transition is enabled as well *)
Lemma wait_done_returns : forall s id,
  In id (waiting s) -> closed s = true ->
  let s' := wstep s (WaitDone id) in In (id, false) (returned s') /\ ~ In id (waiting s').
Proof.
  intros s id H Hc s'. subst s'. cbn [wstep]. apply memN_In in H. rewrite H, Hc. cbn.
  split; [left; reflexivity|]. intro Hx. apply rmN_In in Hx. destruct Hx as [_ Hx]. apply Hx. reflexivity.
Qed.

(* ------------------------------------------------------------------------------------------ *)
(* 7. writer offsets *)

Lemma wr_chunks_bound : forall minc open cs n prev os n' prev',
  prev <= n -> (forall c, In c cs -> 0 <= c) ->
  wr_chunks minc open n prev cs = (os, n', prev') ->
  n <= n' /\ prev' <= n' /\ (forall o, In o os -> o <= n') /\ (forall o, In o os -> prev <= o)
  /\ (open = true -> forall o, In o os -> n <= o) /\ prev <= prev'.
Proof.
  intros minc open cs. induction cs as [|c t IH]; intros n prev os n' prev' Hp Hc H.
  - cbn in H. inversion H; subst. repeat split; try lia; try (intros o []; fail); intros _ o [].
  - cbn [wr_chunks] in H. unfold wr_chunk in H.
    pose proof (Hc c (or_introl eq_refl)) as Hc0.
    destruct (open || (n - prev >=? minc)) eqn:E.
    + destruct (wr_chunks minc open (n + c) n t) as [[os1 n1] p1] eqn:E1.
      inversion H; subst. apply IH in E1; [|lia|intros x Hx; apply Hc; right; exact Hx].
      destruct E1 as [A [B [C [D [F G]]]]]. repeat split; try lia.
      * intros o [Ho|Ho]; [subst; lia|apply C; exact Ho].
      * intros o [Ho|Ho]; [subst; lia|apply D in Ho; lia].
      * intros Hopen o [Ho|Ho]; [subst; lia|apply (F Hopen) in Ho; lia].
    + destruct (wr_chunks minc open (n + c) prev t) as [[os1 n1] p1] eqn:E1.
      inversion H; subst. apply IH in E1; [|lia|intros x Hx; apply Hc; right; exact Hx].
      destruct E1 as [A [B [C [D [F G]]]]]. repeat split; try lia.
      * intros o [Ho|Ho]; [subst; lia|apply C; exact Ho].
      * intros o [Ho|Ho]; [subst; lia|apply D in Ho; lia].
      * intros Hopen. rewrite Hopen in E. discriminate.
Qed.

Definition wentry_ok (e : wentry) : Prop := 0 <= we_hdr e /\ forall c, In c (we_chunks e) -> 0 <= c.

(* the offsets of a landmark entry lie strictly behind the position at which the run started *)
Lemma wr_landmark_after : forall minc land rest es n prev,
  prev <= n -> Forall wentry_ok es ->
  we_open land = true -> 0 < we_hdr land -> (forall c, In c (we_chunks land) -> 0 <= c) ->
  forall los lo, nth_error (wr_run minc n prev (es ++ land :: rest)) (length es) = Some los -> In lo los -> n < lo.
Proof.
  intros minc land rest es. induction es as [|e g IH]; intros n prev Hp Hg Hopen Hh Hlc los lo Hl Hlo.
  - cbn [app wr_run length nth_error] in Hl.
    destruct (wr_chunks minc (we_open land) (n + we_hdr land) prev (we_chunks land)) as [[osl nl] pl] eqn:El.
    inversion Hl; subst los.
    assert (Hpn : prev <= n + we_hdr land) by lia.
    pose proof (wr_chunks_bound _ _ _ _ _ _ _ _ Hpn Hlc El) as [_ [_ [_ [_ [F _]]]]].
    specialize (F Hopen lo Hlo). lia.
  - inversion Hg as [|? ? [He1 He2] Hg']; subst.
    cbn [app wr_run length nth_error] in Hl.
    destruct (wr_chunks minc (we_open e) (n + we_hdr e) prev (we_chunks e)) as [[os1 n1] p1] eqn:E1.
    assert (Hpn : prev <= n + we_hdr e) by lia.
    pose proof (wr_chunks_bound _ _ _ _ _ _ _ _ Hpn He2 E1) as [A [B _]].
    cbn [nth_error] in Hl.
    pose proof (IH n1 p1 B Hg' Hopen Hh Hlc los lo Hl Hlo). lia.
Qed.

(* every chunk offset of the entries written before a landmark is smaller than each chunk offset of the landmark,
   for every min-chunk-size, whatever was written before (n, prev) and whatever follows *)
Lemma wr_before_landmark : forall minc land rest group n prev,
  prev <= n -> Forall wentry_ok group ->
  we_open land = true -> 0 < we_hdr land -> (forall c, In c (we_chunks land) -> 0 <= c) ->
  forall i os los, nth_error (wr_run minc n prev (group ++ land :: rest)) i = Some os -> (i < length group)%nat ->
    nth_error (wr_run minc n prev (group ++ land :: rest)) (length group) = Some los ->
    forall o lo, In o os -> In lo los -> o < lo.
Proof.
  intros minc land rest group. induction group as [|e g IH]; intros n prev Hp Hg Hopen Hh Hlc i os los Hi Hlt Hl o lo Ho Hlo.
  - cbn in Hlt. lia.
  - inversion Hg as [|? ? [He1 He2] Hg']; subst.
    cbn [app wr_run] in Hi, Hl.
    destruct (wr_chunks minc (we_open e) (n + we_hdr e) prev (we_chunks e)) as [[os1 n1] p1] eqn:E1.
    assert (Hpn : prev <= n + we_hdr e) by lia.
    pose proof (wr_chunks_bound _ _ _ _ _ _ _ _ Hpn He2 E1) as [A [B [C _]]].
    cbn [length nth_error] in Hl.
    destruct i as [|i].
    + cbn [nth_error] in Hi. inversion Hi; subst os1.
      pose proof (wr_landmark_after minc land rest g n1 p1 B Hg' Hopen Hh Hlc los lo Hl Hlo).
      specialize (C o Ho). lia.
    + cbn [nth_error] in Hi. cbn [length] in Hlt.
      exact (IH n1 p1 B Hg' Hopen Hh Hlc i os los Hi ltac:(lia) Hl o lo Ho Hlo).
Qed.

(* entries written after the landmark never get an offset below the landmark's *)
Lemma wr_run_from : forall minc es n prev,
  prev <= n -> Forall wentry_ok es ->
  forall i os o, nth_error (wr_run minc n prev es) i = Some os -> In o os -> prev <= o.
Proof.
  intros minc es. induction es as [|e g IH]; intros n prev Hp Hg i os o Hi Ho; [destruct i; discriminate|].
  inversion Hg as [|? ? [He1 He2] Hg']; subst. cbn [wr_run] in Hi.
  destruct (wr_chunks minc (we_open e) (n + we_hdr e) prev (we_chunks e)) as [[os1 n1] p1] eqn:E1.
  assert (Hpn : prev <= n + we_hdr e) by lia.
  pose proof (wr_chunks_bound _ _ _ _ _ _ _ _ Hpn He2 E1) as [A [B [C [D [_ G]]]]].
  destruct i as [|i]; cbn [nth_error] in Hi.
  - inversion Hi; subst. apply D. exact Ho.
  - pose proof (IH n1 p1 B Hg' i os o Hi Ho). lia.
Qed.

(* ------------------------------------------------------------------------------------------ *)
(* consequences stated in Properties/C15.v *)

Lemma reach_once : forall os, let s := wexec winit os in
  (closes s <= 1)%nat /\ (pf_bodies s <= 1)%nat /\ (bg_bodies s <= 1)%nat.
Proof.
  intros os s. destruct (reach_winv os) as [H1 H2 H3 _ _ _ _ _]. fold s in H1, H2, H3.
  rewrite H1, H2, H3. destruct (closed s), (pf s), (bg s); repeat split; lia.
Qed.

Lemma reach_wait_returns : forall os id, let s := wexec winit os in
  In id (waiting s) ->
  (let s' := wstep s (WaitTimeout id) in In (id, true) (returned s') /\ ~ In id (waiting s') /\ closed s' = true)
  /\ (closed s = true -> let s' := wstep s (WaitDone id) in In (id, false) (returned s') /\ ~ In id (waiting s')).
Proof.
  intros os id s H. split; [exact (wait_timeout_returns s id H)|intro Hc; exact (wait_done_returns s id H Hc)].
Qed.

Lemma reach_nil_released : forall os id, let s := wexec winit os in
  In (id, false) (returned s) -> closed s = true /\ (pf s = Finished \/ pf_early s = true \/ timed_out s).
Proof.
  intros os id s H. destruct (reach_winv os) as [_ _ _ _ _ H6 H7 _]. fold s in H6, H7.
  pose proof (H7 id H) as Hc. split; [exact Hc|exact (H6 Hc)].
Qed.

Lemma wexec_app : forall a b s, wexec s (a ++ b) = wexec (wexec s a) b.
Proof. intros a b s. unfold wexec. apply fold_left_app. Qed.

(* the body's return (success or failure) and the async branch release every present and future waiter *)
Lemma reach_release : forall os o os', let s := wexec winit os in
  pf s = Running -> (o = PfAsync \/ exists ok, o = PfReturn ok) ->
  let s2 := wexec winit (os ++ o :: os') in
  closed s2 = true
  /\ (forall id, ~ In id (waiting s2) -> (forall b, ~ In (id, b) (returned s2)) -> In (id, false) (returned (wstep s2 (WaitEnter id))))
  /\ (forall id, In id (waiting s2) -> In (id, false) (returned (wstep s2 (WaitDone id)))).
Proof.
  intros os o os' s Hr Ho s2.
  assert (Hc : closed s2 = true).
  { subst s2. rewrite wexec_app. cbn [wexec fold_left]. apply wexec_closed_mono. fold s.
    destruct Ho as [E|[ok E]]; subst o; [apply pf_async_closes; exact Hr|apply pf_return_closes; exact Hr]. }
  split; [exact Hc|]. split.
  - intros id Hw Hrt. exact (proj1 (wait_enter_closed s2 id Hc Hw Hrt)).
  - intros id Hw. exact (proj1 (wait_done_returns s2 id Hw Hc)).
Qed.

(* the once-guards: a second Prefetch / BackgroundFetch call never starts a body *)
Lemma reach_second_call : forall os, let s := wexec winit os in
  (pf s <> Idle -> wstep s PfCall = s) /\ (bg s <> Idle -> wstep s BgCall = s).
Proof.
  intros os s. split; intro H; cbn [wstep]; [destruct (pf s)|destruct (bg s)]; try reflexivity; exfalso; apply H; reflexivity.
Qed.

(* --- script machine: no-prefetch landmark --- *)
Lemma repeat_pfcall_idle : forall n w, pf w = Idle -> pf (repeat_op (S n) PfCall w) = Running
  /\ closed (repeat_op (S n) PfCall w) = closed w.
Proof.
  intros n w H. cbn [repeat_op]. cbn [wstep]. rewrite H.
  set (w1 := mkW (closed w) (closes w) Running (S (pf_bodies w)) (pf_early w) (bg w) (bg_bodies w) (waiting w) (returned w)).
  assert (Hw1 : pf w1 = Running /\ closed w1 = closed w) by (split; reflexivity). clearbody w1.
  revert w1 Hw1. induction n as [|k IH]; intros w1 [A B]; [split; assumption|].
  cbn [repeat_op]. apply IH. cbn [wstep]. rewrite A. split; assumption.
Qed.

Lemma np_no_traffic : forall c fs pre s n f,
  c_np c = true -> pf (s_w s) = Idle ->
  let r := sstep c fs pre s (SPf n f) in
  p_res (snd r) = Some ROk /\ p_reqs (snd r) = Some ([], true) /\ p_pfsize (snd r) = Some 0
  /\ s_fs (fst r) = s_fs s /\ closed (s_w (fst r)) = true /\ pf (s_w (fst r)) = Finished.
Proof.
  intros c fs pre s n f Hnp Hidle r. subst r. cbn [sstep]. rewrite Hidle.
  unfold prefetch_range. rewrite Hnp. cbn [fst snd p_res p_reqs p_pfsize s_fs s_w set_w].
  repeat split; try reflexivity.
  - destruct (Nat.max n 1) as [|k] eqn:E; [lia|].
    destruct (repeat_pfcall_idle k (s_w s) Hidle) as [A _]. exact (proj1 (pf_return_closes _ true A)).
  - destruct (Nat.max n 1) as [|k] eqn:E; [lia|].
    destruct (repeat_pfcall_idle k (s_w s) Hidle) as [A _]. exact (proj2 (pf_return_closes _ true A)).
Qed.

(* --- refutations (the asynchronous persistence window, F25) --- *)
Definition f25_file : file := mkFile 1 0 10 [(0, 10)] true false.
Definition f25_other : file := mkFile 2 5 10 [(0, 10)] true false.

Lemma prefetch_local_refuted :
  exists kind fs n os f,
    In f fs /\ f_prio f = true /\ f_off f < n /\ tiled (f_chunks f) 0 (f_size f) /\
    (forall k, In k (prefetch_keys fs n) -> In (RAC k) os) /\
    read_local 5 (visible (cexec kind cinit os)) (f_id f) (f_chunks f) 0 (f_size f) = false.
Proof.
  exists (CDir 1 false), [f25_file; f25_other], 20, [RAC (1, 0, 10); RAC (2, 0, 10)], f25_file.
  repeat split; try (vm_compute; reflexivity); try (cbn; lia); try (left; reflexivity).
  intros k H. vm_compute in H. destruct H as [H|[H|[]]]; subst k; [left|right; left]; reflexivity.
Qed.

Lemma bgfetch_local_refuted :
  exists kind fs os f,
    In f fs /\ tiled (f_chunks f) 0 (f_size f) /\
    (forall k, In k (all_keys fs) -> In (RACDirect k) os) /\
    read_local 5 (visible (cexec kind cinit os)) (f_id f) (f_chunks f) 0 (f_size f) = false.
Proof.
  (* k1 was committed by an earlier read and is only in the LRU (persist pending) when the background fetch looks
     it up (hit: nothing written); a later commit evicts it *)
  exists (CDir 1 false), [f25_file; f25_other], [Commit (1, 0, 10); RACDirect (1, 0, 10); RACDirect (2, 0, 10); Commit (3, 0, 1)], f25_file.
  repeat split; try (vm_compute; reflexivity); try (left; reflexivity).
  intros k H. vm_compute in H. destruct H as [H|[H|[]]]; subst k; [right; left|right; right; left]; reflexivity.
Qed.

(* a background fetch that is the only user of the chunk cache (direct writes only): no hypothesis needed *)
Lemma bgfetch_alone_local : forall kind fs os f,
  In f fs -> tiled (f_chunks f) 0 (f_size f) ->
  Forall direct_only os ->
  (forall k, In k (all_keys fs) -> In (RACDirect k) os) ->
  forall fuel cur endo, read_local fuel (visible (cexec kind cinit os)) (f_id f) (f_chunks f) cur endo = true.
Proof.
  intros kind fs os f Hf Ht Hd Hsucc fuel cur endo.
  apply (bgfetch_local kind fs os f Hf Ht Hsucc). left. unfold quiescent. apply direct_pending; [exact Hd|reflexivity].
Qed.

(* ------------------------------------------------------------------------------------------ *)
(* fs.Check on the waiter *)

Definition fresh (w : wst) (id : nat) : Prop := ~ In id (waiting w) /\ forall b, ~ In (id, b) (returned w).

Lemma wait_enter_fresh : forall w id, fresh w id ->
  wstep w (WaitEnter id) =
    if closed w
    then mkW (closed w) (closes w) (pf w) (pf_bodies w) (pf_early w) (bg w) (bg_bodies w) (waiting w) ((id, false) :: returned w)
    else mkW (closed w) (closes w) (pf w) (pf_bodies w) (pf_early w) (bg w) (bg_bodies w) (id :: waiting w) (returned w).
Proof.
  intros w id [Hw Hr]. cbn [wstep].
  assert (E1 : memN id (waiting w) = false).
  { destruct (memN id (waiting w)) eqn:E; [apply memN_In in E; contradiction|reflexivity]. }
  assert (E2 : existsb (fun r => Nat.eqb id (fst r)) (returned w) = false).
  { destruct (existsb (fun r => Nat.eqb id (fst r)) (returned w)) eqn:E; [|reflexivity].
    apply existsb_exists in E. destruct E as [[i b] [Hi He]]. cbn in He. apply Nat.eqb_eq in He. subst i. exfalso. exact (Hr b Hi). }
  rewrite E1, E2. reflexivity.
Qed.

(* Check answers nil exactly when the layer is registered and reachable: the outcome of the prefetch never matters *)
Lemma fs_check_result : forall registered conn_ok noprefetch w id,
  snd (fst (fs_check registered conn_ok noprefetch w id)) = ROk <-> (registered = true /\ conn_ok = true).
Proof.
  intros registered conn_ok noprefetch w id. unfold fs_check.
  destruct registered, conn_ok, noprefetch; cbn [negb fst snd];
    try destruct (memN id (waiting (wstep w (WaitEnter id)))); cbn [fst snd];
    split; try (intro; split; reflexivity); try reflexivity; try discriminate; try (intros [A B]; discriminate).
Qed.

(* a Check that is not registered / not reachable / with prefetch disabled never touches the waiter *)
Lemma fs_check_skips : forall registered conn_ok noprefetch w id,
  registered = false \/ conn_ok = false \/ noprefetch = true ->
  fst (fst (fs_check registered conn_ok noprefetch w id)) = w /\ snd (fs_check registered conn_ok noprefetch w id) = false.
Proof.
  intros registered conn_ok noprefetch w id H. unfold fs_check.
  destruct registered, conn_ok, noprefetch; cbn; try (split; reflexivity); destruct H as [H|[H|H]]; discriminate.
Qed.

(* a healthy Check with a fresh call id: it has returned (it is not parked), it waited exactly when the waiter was open,
   and afterwards the waiter is closed in either case *)
Lemma fs_check_healthy : forall w id, fresh w id ->
  let x := fs_check true true false w id in
  ~ In id (waiting (fst (fst x))) /\ closed (fst (fst x)) = true /\ snd x = negb (closed w)
  /\ (snd x = true -> In (id, true) (returned (fst (fst x)))).
Proof.
  intros w id Hf x. subst x. unfold fs_check. cbn [negb].
  rewrite (wait_enter_fresh w id Hf). destruct Hf as [Hw Hr]. destruct (closed w) eqn:Ec.
  - cbn [waiting].
    assert (E1 : memN id (waiting w) = false).
    { destruct (memN id (waiting w)) eqn:E; [apply memN_In in E; contradiction|reflexivity]. }
    rewrite E1. cbn. repeat split; try assumption; try reflexivity. discriminate.
  - cbn [waiting]. replace (memN id (id :: waiting w)) with true by (symmetry; apply memN_In; left; reflexivity).
    cbn [fst snd negb].
    set (w1 := mkW false (closes w) (pf w) (pf_bodies w) (pf_early w) (bg w) (bg_bodies w) (id :: waiting w) (returned w)).
    destruct (wait_timeout_returns w1 id (or_introl eq_refl)) as [A [B C]].
    repeat split; try assumption. intros _. exact A.
Qed.

(* "the FIRST availability check waits": once a healthy Check has returned, no Check ever waits again, whatever happens in between *)
Lemma only_first_check_waits : forall w id, fresh w id ->
  forall os' registered conn_ok noprefetch id',
    fresh (wexec (fst (fst (fs_check true true false w id))) os') id' ->
    snd (fs_check registered conn_ok noprefetch (wexec (fst (fst (fs_check true true false w id))) os') id') = false.
Proof.
  intros w id Hf os' registered conn_ok noprefetch id' Hf'.
  destruct (fs_check_healthy w id Hf) as [_ [Hc _]].
  set (w2 := wexec (fst (fst (fs_check true true false w id))) os') in *.
  assert (Hc2 : closed w2 = true) by (apply wexec_closed_mono; exact Hc).
  destruct registered; [|exact (proj2 (fs_check_skips false conn_ok noprefetch w2 id' (or_introl eq_refl)))].
  destruct conn_ok; [|exact (proj2 (fs_check_skips true false noprefetch w2 id' (or_intror (or_introl eq_refl))))].
  destruct noprefetch; [exact (proj2 (fs_check_skips true true true w2 id' (or_intror (or_intror eq_refl))))|].
  destruct (fs_check_healthy w2 id' Hf') as [_ [_ [H _]]]. rewrite H, Hc2. reflexivity.
Qed.

(* a wait that timed out has closed the waiter *)
Lemma wstep_returned_true : forall s o id,
  In (id, true) (returned (wstep s o)) -> In (id, true) (returned s) \/ closed (wstep s o) = true.
Proof.
  intros s o id H. destruct (wdone_fields s) as [F1 [F2 [F3 [F4 [F5 [F6 F7]]]]]].
  destruct o as [| |ok| |ok|i|i|i]; cbn [wstep] in *.
  - destruct (pf s); cbn in H; left; exact H.
  - destruct (pf s); cbn in H; try (left; exact H). rewrite F7 in H. left. exact H.
  - destruct (pf s); cbn in H; try (left; exact H). rewrite F7 in H. left. exact H.
  - destruct (bg s); cbn in H; left; exact H.
  - destruct (bg s); cbn in H; left; exact H.
  - destruct (memN i (waiting s) || existsb (fun r => Nat.eqb i (fst r)) (returned s)); [left; exact H|].
    destruct (closed s); cbn in H; [destruct H as [H|H]; [discriminate|left; exact H]|left; exact H].
  - destruct (memN i (waiting s) && closed s); [|left; exact H].
    cbn in H. destruct H as [H|H]; [discriminate|left; exact H].
  - destruct (memN i (waiting s)); [|left; exact H]. right. cbn. apply wdone_closed.
Qed.

Lemma reach_timed_out_closed : forall os, timed_out (wexec winit os) -> closed (wexec winit os) = true.
Proof.
  intro os. unfold wexec.
  assert (G : forall s, (timed_out s -> closed s = true) -> timed_out (fold_left wstep os s) -> closed (fold_left wstep os s) = true).
  { induction os as [|o t IH]; intros s Hs; [exact Hs|]. cbn [fold_left]. apply IH.
    intros [i Hi]. destruct (wstep_returned_true s o i Hi) as [Hold|Hc]; [|exact Hc].
    apply wstep_closed_mono. apply Hs. exists i. exact Hold. }
  apply G. intros [i Hi]. destruct Hi.
Qed.

(* while the prefetch spawned by Mount is pending (body not over, no async release, no earlier timeout) a healthy Check
   waits; it does not wait once the body has returned (ok or failed) or taken the async branch or after a timeout *)
Lemma check_waits_iff_prefetch_pending : forall os id, let w := wexec winit os in fresh w id ->
  (snd (fs_check true true false w id) = true <-> closed w = false)
  /\ (pf w = Finished \/ pf_early w = true \/ timed_out w -> snd (fs_check true true false w id) = false)
  /\ (pf w <> Finished -> pf_early w = false -> ~ timed_out w -> snd (fs_check true true false w id) = true).
Proof.
  intros os id w Hf. destruct (fs_check_healthy w id Hf) as [_ [_ [H _]]].
  destruct (reach_winv os) as [_ _ _ H4 H5 H6 _ _]. fold w in H4, H5, H6.
  split; [rewrite H; destruct (closed w); split; intro X; try reflexivity; try discriminate|].
  split.
  - pose proof (reach_timed_out_closed os) as H9. fold w in H9.
    intros [Hfin|[He|Ht]]; rewrite H; [rewrite (H4 Hfin)|rewrite (H5 He)|rewrite (H9 Ht)]; reflexivity.
  - intros A B C. rewrite H. destruct (closed w) eqn:Ec; [|reflexivity].
    destruct (H6 eq_refl) as [X|[X|X]]; [contradiction|rewrite X in B; discriminate|contradiction].
Qed.
