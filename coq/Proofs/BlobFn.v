(* parseRange never yields negative numbers: the Content-Range offsets handed to walkChunks are >= 0
   (this is the "0 <= b" part of [body_honest] in Model/BlobRead.v). *)
From Coq Require Import List ZArith NArith Bool Lia.
From SV Require Import Model.Region Model.BlobRead Model.BlobFn.
Import ListNotations.
Open Scope Z_scope.

Definition digits (d : list N) : Prop := Forall (fun c => is_digit c = true) d.

Lemma span_digits_digits l : digits (fst (span_digits l)).
Proof.
  induction l as [|a l IH]; simpl.
  - constructor.
  - destruct (is_digit a) eqn:E.
    + destruct (span_digits l) as [d r]. simpl in *. constructor; auto.
    + constructor.
Qed.

Lemma fold_digits_nonneg d : digits d -> forall a, 0 <= a ->
  0 <= fold_left (fun a c => a * 10 + (Z.of_N c - 48)) d a.
Proof.
  induction 1 as [|c d Hc Hd IH]; intros a Ha; simpl; auto.
  apply IH. unfold is_digit in Hc. apply andb_true_iff in Hc. destruct Hc as [H1 H2].
  apply N.leb_le in H1. clear - H1 Ha. lia.
Qed.

Lemma parse_int_nonneg d v : digits d -> parse_int d = Some v -> 0 <= v.
Proof.
  intros Hd. unfold parse_int. destruct d as [|c t]; [discriminate|].
  set (v0 := fold_left _ (c :: t) 0).
  destruct (v0 <=? max_int64); intros E; [|discriminate].
  injection E as <-. unfold v0. apply fold_digits_nonneg; [exact Hd|apply Z.le_refl].
Qed.

Lemma match_here_digits l d1 d2 d3 :
  match_here l = Some (d1, d2, d3) -> digits d1 /\ digits d2 /\ digits d3.
Proof.
  unfold match_here. destruct (strip_prefix bytes_lit l) as [l1|]; [|discriminate].
  pose proof (span_digits_digits l1) as H1. destruct (span_digits l1) as [e1 l2]. simpl in H1.
  destruct e1 as [|c1 e1]; [discriminate|]. destruct l2 as [|x l3]; [discriminate|].
  destruct (N.eq_dec x 45) as [->|Hx].
  2:{ destruct x as [|p]; try discriminate.
      repeat (destruct p as [p|p|]; try discriminate); try (exfalso; apply Hx; reflexivity). }
  pose proof (span_digits_digits l3) as H2. destruct (span_digits l3) as [e2 l4]. simpl in H2.
  destruct e2 as [|c2 e2]; [discriminate|]. destruct l4 as [|y l5]; [discriminate|].
  destruct (N.eq_dec y 47) as [->|Hy].
  2:{ destruct y as [|p]; try discriminate.
      repeat (destruct p as [p|p|]; try discriminate); try (exfalso; apply Hy; reflexivity). }
  pose proof (span_digits_digits l5) as H3. destruct (span_digits l5) as [e3 l6]. simpl in H3.
  intros E; inversion E; subst. auto.
Qed.

Lemma find_match_digits : forall l d1 d2 d3,
  find_match l = Some (d1, d2, d3) -> digits d1 /\ digits d2 /\ digits d3.
Proof.
  induction l as [|a l IH]; intros d1 d2 d3; simpl.
  - discriminate.
  - destruct (match_here (a :: l)) as [[[x y] z]|] eqn:E.
    + intros H; inversion H; subst. eapply match_here_digits; eauto.
    + apply IH.
Qed.

Lemma parse_range_nonneg h b e sz : parse_range h = Some (b, e, sz) -> 0 <= b /\ 0 <= e /\ 0 <= sz.
Proof.
  unfold parse_range. destruct (find_match h) as [[[d1 d2] d3]|] eqn:E; [|discriminate].
  apply find_match_digits in E. destruct E as (H1 & H2 & H3).
  destruct (parse_int d1) eqn:E1; [|discriminate].
  destruct (parse_int d2) eqn:E2; [|discriminate].
  destruct (parse_int d3) eqn:E3; [|discriminate].
  intros H; inversion H; subst.
  split; [exact (parse_int_nonneg d1 _ H1 E1)|].
  split; [exact (parse_int_nonneg d2 _ H2 E2)|exact (parse_int_nonneg d3 _ H3 E3)].
Qed.
