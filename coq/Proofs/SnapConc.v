(* Proofs about Model/SnapConc.v: the invariants of Model/Snap.v hold under EVERY schedule of concurrent callers. *)
From Coq Require Import List Arith Bool Lia.
From SV Require Import Model.Snap Model.SnapConc Proofs.SnapBase Proofs.SnapPrim Proofs.SnapInv Proofs.Snap.
Import ListNotations.

Arguments rm_dirent : simpl never.
Arguments rm_mount : simpl never.
Arguments cleanup_list : simpl never.

Ltac msplit := match goal with |- _ /\ _ => split; [|msplit] | _ => idtac end.

(* ---------- frames ---------- *)
Lemma frame_of_in fs t f : frame_of fs t = Some f -> In (t, f) fs.
Proof.
  induction fs as [|[t' g] fs IH]; simpl; [discriminate|].
  destruct (Nat.eqb_spec t' t); intros H.
  - inversion H; subst. auto.
  - auto.
Qed.

Lemma del_frame_in fs t x : In x (del_frame fs t) -> In x fs.
Proof. unfold del_frame. intros H. apply filter_In in H. tauto. Qed.

(* what a pending frame needs from the shared state *)
Definition fok (s : st) (f : frame) : Prop :=
  match f with
  | FClean ds _ _ => forall id, In (DId id) ds -> dead s id
  | FRm d ds _ _ => forall id, In (DId id) (d :: ds) -> dead s id
  | FMount _ _ _ _ _ _ _ id => id <= seq s
  | _ => True
  end.

Definition FI (cs : cst) : Prop := forall t f, In (t, f) (frames cs) -> fok (base cs) f.
Definition CInv (cs : cst) : Prop := Inv (base cs) /\ FI cs.

(* metadata only evolves: ids handed out so far never come back *)
Definition evolves (s s' : st) : Prop :=
  seq s <= seq s' /\ forall id, id <= seq s -> In id (ids_of (meta s')) -> In id (ids_of (meta s)).

Lemma evolves_same s s' : meta s' = meta s -> seq s' = seq s -> evolves s s'.
Proof. intros M Q. split; [lia|]. intros id _. rewrite M. auto. Qed.

Lemma dead_evolves s s' id : evolves s s' -> dead s id -> dead s' id.
Proof. intros [A B] [C D]. split; [lia|]. intros H. apply D. apply B; auto. Qed.

Lemma fok_evolves s s' f : evolves s s' -> fok s f -> fok s' f.
Proof.
  intros E. destruct f; simpl; auto.
  - destruct E. lia.
  - intros H id I0. eapply dead_evolves; eauto.
  - intros H id I0. eapply dead_evolves; eauto.
Qed.

Lemma park_inv cs t s' f :
  FI cs -> Inv s' -> evolves (base cs) s' -> fok s' f -> CInv (park cs t s' f).
Proof.
  intros F I E K. split; [exact I|]. intros t' f' [H|H]; simpl in *.
  - inversion H; subst. exact K.
  - apply del_frame_in in H. eapply fok_evolves; eauto.
Qed.

Lemma finish_inv cs t s' r : FI cs -> Inv s' -> evolves (base cs) s' -> CInv (finish cs t s' r).
Proof.
  intros F I E. split; [exact I|]. intros t' f' H; simpl in *.
  apply del_frame_in in H. eapply fok_evolves; eauto.
Qed.

(* ---------- primitives ---------- *)
Lemma temp_inv s n m : Inv s -> Inv (set_tmpc (set_dirs s (DTemp n :: dirs s)) m).
Proof.
  intros I. destruct I. constructor; simpl; auto.
  - intros id [H|H]; [discriminate|auto].
  - intros C n0 i H. right. eauto.
Qed.

Lemma create_txn_ok s k key parent l s1 sn :
  create_txn s k key parent l = (s1, inr sn) -> create_snapshot s k key parent l = (s1, inr sn).
Proof.
  unfold create_txn, create_snapshot. destruct (closed s); [discriminate|].
  destruct (meta_create _ k key parent) as [e|sn0]; [discriminate|].
  destruct (negb match sn_parents sn0 with [] => true | p :: _ => has_dir _ (DId p) end); [discriminate|].
  destruct (has_dir _ (DId (sn_id sn0))); [discriminate|]. intros H; inversion H; reflexivity.
Qed.

Lemma create_txn_err s k key parent l s1 e ds :
  Inv s -> create_txn s k key parent l = (s1, inl (e, ds)) ->
  Inv s1 /\ meta s1 = meta s /\ seq s1 = seq s /\ log s1 = log s /\ mounts s1 = mounts s /\ closed s1 = closed s /\
  (forall id, ~ In (DId id) ds).
Proof.
  intros I. unfold create_txn. destruct (closed s) eqn:C.
  { intros H; inversion H; subst. msplit; auto. }
  set (s0 := set_tmpc (set_dirs s (DTemp (tmpc s) :: dirs s)) (S (tmpc s))).
  assert (I0 : Inv s0) by (apply temp_inv; exact I).
  assert (T : forall id, ~ In (DId id) [DTemp (tmpc s)]) by (intros id [H|[]]; discriminate).
  destruct (meta_create s0 k key parent) as [e0|sn] eqn:MC.
  { intros H; inversion H; subst. msplit; auto. }
  destruct (negb match sn_parents sn with [] => true | p :: _ => has_dir s0 (DId p) end).
  { intros H; inversion H; subst. msplit; auto. }
  destruct (has_dir s0 (DId (sn_id sn))) eqn:HD; [|discriminate].
  exfalso. apply meta_create_ok in MC. destruct MC as [_ [ID _]]. simpl in ID.
  apply has_dir_in in HD. apply (inv_dirs _ I0) in HD. simpl in HD. lia.
Qed.

Lemma rm_mount_inv s id : Inv s -> Inv (set_mounts s (rm_mount (mounts s) id)).
Proof.
  intros I. destruct I. constructor; simpl; auto.
  - apply rm_mount_nodup. assumption.
  - intros x H. apply rm_mount_in in H. destruct H. auto.
Qed.

Lemma rm_mount_unmounted s id : mounted (set_mounts s (rm_mount (mounts s) id)) id = false.
Proof.
  destruct (mounted (set_mounts s (rm_mount (mounts s) id)) id) eqn:M; auto.
  apply mounted_in in M. destruct M as [lb M]. simpl in M. apply rm_mount_in in M. simpl in M. destruct M. congruence.
Qed.

Lemma rm_dir_inv s d : Inv s -> (forall id, d = DId id -> dead s id) -> Inv (rm_dir s d).
Proof.
  intros I D. destruct I. constructor; simpl; auto.
  - intros id H. apply rm_dirent_in in H. destruct H. auto.
  - intros C n i H. apply rm_dirent_in. split; [eauto|].
    intros Q. destruct (D _ (eq_sym Q)) as [_ X]. apply X. apply in_ids. eauto.
Qed.

Lemma commit_evolves s nm key l r s' x : commit_active s nm key l r = (s', x) -> evolves s s'.
Proof.
  intros H. destruct x as [e|].
  - apply commit_err in H. subst. apply evolves_same; auto.
  - apply commit_ok in H. destruct H as [_ [i [np [LK [_ [_ [_ [_ E]]]]]]]]. subst. split; [simpl; lia|].
    simpl. intros id _ [H|H].
    + apply in_ids. exists key, i. split; auto. apply lookup_in. exact LK.
    + eapply del_ids_sub; eauto.
Qed.

Lemma cleanup_list_dead s id : Inv s -> In (DId id) (cleanup_list s false) -> dead s id.
Proof.
  intros I H. apply cleanup_list_in in H. destruct H as [A B]. split; [eapply inv_dirs; eauto|exact B].
Qed.

(* ---------- every schedule step preserves the invariant ---------- *)
Lemma after_create_inv cs t s k key parent l lm mok cbad target :
  s = base cs -> CInv cs ->
  CInv (let '(s1, r) := create_txn s k key parent l in after_create cs t s1 r key parent lm mok cbad target).
Proof.
  intros -> [I F]. destruct (create_txn (base cs) k key parent l) as [s1 [[e ds]|sn]] eqn:CT.
  - destruct (create_txn_err _ _ _ _ _ _ _ _ I CT) as [I1 [M [Q [_ [_ [_ ND]]]]]].
    simpl. apply park_inv; auto.
    + apply evolves_same; auto.
    + simpl. intros id H. exfalso. eapply ND; eauto.
  - apply create_txn_ok in CT. pose proof (create_inv _ _ _ _ _ _ _ I CT) as I1.
    pose proof (create_ok _ _ _ _ _ _ _ CT) as [_ [_ [_ [_ [E1 _]]]]].
    assert (EV : evolves (base cs) s1).
    { subst s1. split; [simpl; lia|]. simpl. intros id Le [H|H]; [lia|exact H]. }
    simpl. destruct target; apply park_inv; simpl; auto.
Qed.

Lemma cstep_inv cs x : CInv cs -> CInv (cstep cs x).
Proof.
  intros CI. pose proof CI as [I F]. destruct x as [t o|t]; simpl.
  - destruct (frame_of (frames cs) t); [exact CI|]. unfold cstart. destruct o; nrm.
    + apply after_create_inv; auto.
    + apply after_create_inv; auto.
    + destruct (commit_active (base cs) nm key l false) as [s1 r] eqn:CA.
      apply finish_inv; auto; [eapply commit_inv; eauto|eapply commit_evolves; eauto].
    + destruct (closed (base cs)); [apply finish_inv; auto; apply evolves_same; auto|].
      destruct (lookup (meta (base cs)) key) as [i|]; [|apply finish_inv; auto; apply evolves_same; auto].
      destruct (kind_eqb (i_kind i) KCommitted); [apply finish_inv; auto; apply evolves_same; auto|].
      destruct (i_parent i) as [p|]; [|apply park_inv; simpl; auto; apply evolves_same; auto].
      destruct (parents (fuel_of (base cs)) (meta (base cs)) p);
        [apply park_inv; simpl; auto|apply finish_inv; auto|apply finish_inv; auto]; apply evolves_same; auto.
    + destruct (closed (base cs)); [apply finish_inv; auto; apply evolves_same; auto|].
      destruct (lookup (meta (base cs)) key) as [i|] eqn:LK; [|apply finish_inv; auto; apply evolves_same; auto].
      destruct (has_child (meta (base cs)) key) eqn:HC; [apply finish_inv; auto; apply evolves_same; auto|].
      destruct (match i_parent i with
                | Some p => match lookup (meta (base cs)) p with Some _ => false | None => true end
                | None => false
                end); [apply finish_inv; auto; apply evolves_same; auto|].
      pose proof (remove_meta_inv (base cs) key i (EvMetaRemove (i_id i)) I LK HC) as I1.
      assert (EV : evolves (base cs) (emit (set_meta (base cs) (del (meta (base cs)) key)) (EvMetaRemove (i_id i)))).
      { split; [simpl; lia|]. simpl. intros id _ H. eapply del_ids_sub; eauto. }
      destruct (async (base cs)); [apply finish_inv; auto|].
      apply park_inv; auto. simpl. intros id H. apply cleanup_list_dead; auto.
    + destruct (closed (base cs)); [apply finish_inv; auto; apply evolves_same; auto|].
      apply park_inv; auto; [apply evolves_same; auto|]. simpl. intros id H. apply cleanup_list_dead; auto.
    + unfold do_update. destruct (closed (base cs)); [apply finish_inv; auto; apply evolves_same; auto|].
      destruct (lookup (meta (base cs)) nm); [|apply finish_inv; auto; apply evolves_same; auto].
      apply finish_inv; auto; [apply update_inv; exact I|]. split; [simpl; lia|]. simpl. intros id _. rewrite upd_ids. auto.
    + destruct (do_stat (base cs) nm) as [s1 r] eqn:DS. unfold do_stat in DS.
      destruct (closed (base cs)); [inversion DS; subst; apply finish_inv; auto; apply evolves_same; auto|].
      destruct (lookup (meta (base cs)) nm); inversion DS; subst; apply finish_inv; auto; apply evolves_same; auto.
    + destruct (frames cs) as [|p fs] eqn:FR; [|exact CI].
      pose proof (step_inv (base cs) (Close ubad) I) as I1. simpl in I1.
      destruct (do_close (base cs) ubad) as [s1 r] eqn:DC. simpl in I1.
      split; [exact I1|]. intros t' f' H. simpl in H. rewrite FR in H. simpl in H. contradiction.
  - destruct (frame_of (frames cs) t) as [f|] eqn:FO; [|exact CI].
    pose proof (F _ _ (frame_of_in _ _ _ FO)) as K. unfold cresume. destruct f.
    + destruct (lookup (meta (base cs)) key) as [i|] eqn:LK; apply park_inv; simpl; auto; try (apply evolves_same; auto).
      eapply inv_le; eauto. apply lookup_in. exact LK.
    + simpl in K.
      assert (I1 : Inv (fs_mount (set_mounts (base cs) (rm_mount (mounts (base cs)) id)) id l (mok && has_dir (base cs) (DId id)))).
      { apply mount_inv; [apply rm_mount_inv; exact I|exact K|apply rm_mount_unmounted]. }
      assert (EV : evolves (base cs) (fs_mount (set_mounts (base cs) (rm_mount (mounts (base cs)) id)) id l (mok && has_dir (base cs) (DId id)))).
      { apply evolves_same; unfold fs_mount; destruct (mok && has_dir (base cs) (DId id)); reflexivity. }
      destruct (mok && has_dir (base cs) (DId id)); apply park_inv; simpl; auto.
    + nrm. destruct (commit_active (base cs) tg key (set_remote l) true) as [s3 x] eqn:CA.
      pose proof (commit_inv _ _ _ _ _ _ _ I CA) as I3. pose proof (commit_evolves _ _ _ _ _ _ _ CA) as EV.
      destruct x as [[]|]; apply finish_inv; auto; try (apply emit_inv; exact I3); destruct EV as [A B]; split; auto.
    + destruct ck as [k|]; [|apply finish_inv; auto; apply evolves_same; auto].
      destruct (closed (base cs)); [apply finish_inv; auto; apply evolves_same; auto|].
      destruct (chain_remote (fuel_of (base cs)) (meta (base cs)) k);
        [apply park_inv; simpl; auto|apply finish_inv; auto]; apply evolves_same; auto.
    + destruct todo as [|id rest]; [apply finish_inv; auto; apply evolves_same; auto|].
      destruct (fs_check_spec (base cs) id (negb (mem id cbad))) as [Sh [D [M _]]].
      destruct (fs_check (base cs) id (negb (mem id cbad))) as [s1 r]. simpl in *.
      apply park_inv; simpl; auto.
      * eapply inv_shrink; eauto. rewrite D. intros. eapply inv_has; eauto.
      * destruct Sh. apply evolves_same; auto.
    + destruct ds as [|d rest]; [apply finish_inv; auto; apply evolves_same; auto|].
      set (sc := match d with DId id => negb (mem id ubad) | DTemp _ => true end).
      destruct (fs_unmount_spec (base cs) d sc) as [lv [ok [Sh [D _]]]].
      apply park_inv; auto.
      * eapply inv_shrink; eauto. rewrite D. intros. eapply inv_has; eauto.
      * destruct Sh. apply evolves_same; auto.
      * simpl in *. intros id H. eapply dead_evolves; [|apply K; exact H]. destruct Sh. apply evolves_same; auto.
    + simpl in K. apply park_inv; auto.
      * apply rm_dir_inv; auto; intros id Q; apply K; left; auto.
      * apply evolves_same; reflexivity.
      * simpl. intros id H. destruct (K id (or_intror H)) as [A B]. split; simpl; auto.
Qed.

Lemma cinv_init a : CInv (cinit a).
Proof. split; [apply inv_init|]. intros t f []. Qed.

Lemma cexec_inv sched : forall cs, CInv cs -> CInv (cexec cs sched).
Proof. induction sched as [|x r IH]; intros cs C; simpl; auto. apply IH. apply cstep_inv. exact C. Qed.

Lemma creach_inv a sched : CInv (cexec (cinit a) sched).
Proof. apply cexec_inv. apply cinv_init. Qed.

(* CC1: metadata and directories in step under every schedule *)
Lemma conc_live_dirs a sched :
  let s := base (cexec (cinit a) sched) in
  (closed s = false -> forall n i, lookup (meta s) n = Some i -> In (DId (i_id i)) (dirs s)) /\
  (forall id, In (DId id) (dirs s) -> id <= seq s) /\
  (forall n i n' i', lookup (meta s) n = Some i -> lookup (meta s) n' = Some i' -> i_id i = i_id i' -> n = n').
Proof.
  intros s. destruct (creach_inv a sched) as [I _]. fold s in I. split; [|split].
  - intros C n i L. eapply inv_has; eauto. apply lookup_in. exact L.
  - apply inv_dirs. exact I.
  - intros n i n' i' L L' E.
    assert (X : (n, i) = (n', i')). { eapply ids_inj; eauto using lookup_in. apply inv_ids. exact I. }
    congruence.
Qed.

(* ---------- events of a schedule step ---------- *)
Definition step_shape (cs : cst) (x : sop) (E : list event) : Prop :=
  Forall quiet E
  \/ (exists t d ds ub r lv ok, x = Step t /\ frame_of (frames cs) t = Some (FClean (d :: ds) ub r) /\
        E = [EvUnmount d lv ok] /\ (lv = true -> exists id, d = DId id /\ mounted (base cs) id = true))
  \/ (exists t d ds ub r, x = Step t /\ frame_of (frames cs) t = Some (FRm d ds ub r) /\ E = [EvRmDir d])
  \/ (exists t ub, x = Start t (Close ub) /\ frames cs = [] /\ E = step_events (base cs) (Close ub)).

Lemma create_txn_log s k key parent l : log (fst (create_txn s k key parent l)) = log s.
Proof.
  unfold create_txn. destruct (closed s); [reflexivity|].
  destruct (meta_create _ k key parent) as [e|sn]; [reflexivity|].
  destruct (negb match sn_parents sn with [] => true | p :: _ => has_dir _ (DId p) end); [reflexivity|].
  destruct (has_dir _ (DId (sn_id sn))); reflexivity.
Qed.

Ltac same_log := exists []; split; [rewrite app_nil_r; reflexivity|left; constructor].
Ltac one_quiet e := exists [e]; split; [reflexivity|left; constructor; [exact I|constructor]].

Lemma cstep_log cs x : CInv cs ->
  exists E, log (base (cstep cs x)) = log (base cs) ++ E /\ step_shape cs x E.
Proof.
  intros [IV F]. destruct x as [t o|t]; simpl.
  - destruct (frame_of (frames cs) t); [same_log|]. unfold cstart. destruct o; nrm.
    + pose proof (create_txn_log (base cs) KActive key parent l) as L.
      destruct (create_txn (base cs) KActive key parent l) as [s1 [[e ds]|sn]]; simpl in *;
        [|destruct (l_target lm)]; simpl; exists []; (split; [rewrite app_nil_r; exact L|left; constructor]).
    + pose proof (create_txn_log (base cs) KView key parent l) as L.
      destruct (create_txn (base cs) KView key parent l) as [s1 [[e ds]|sn]]; simpl in *;
        exists []; (split; [rewrite app_nil_r; exact L|left; constructor]).
    + destruct (commit_active (base cs) nm key l false) as [s1 r] eqn:CA. apply commit_log in CA.
      simpl. exists []. split; [rewrite app_nil_r; tauto|left; constructor].
    + destruct (closed (base cs)); [same_log|]. destruct (lookup (meta (base cs)) key) as [i|]; [|same_log].
      destruct (kind_eqb (i_kind i) KCommitted); [same_log|]. destruct (i_parent i) as [p|]; [|same_log].
      destruct (parents (fuel_of (base cs)) (meta (base cs)) p); same_log.
    + destruct (closed (base cs)); [same_log|]. destruct (lookup (meta (base cs)) key) as [i|]; [|same_log].
      destruct (has_child (meta (base cs)) key); [same_log|].
      destruct (match i_parent i with
                | Some p => match lookup (meta (base cs)) p with Some _ => false | None => true end
                | None => false
                end); [same_log|].
      destruct (async (base cs)); simpl; one_quiet (EvMetaRemove (i_id i)).
    + destruct (closed (base cs)); same_log.
    + unfold do_update. destruct (closed (base cs)); [same_log|]. destruct (lookup (meta (base cs)) nm); same_log.
    + unfold do_stat. destruct (closed (base cs)); [same_log|]. destruct (lookup (meta (base cs)) nm); same_log.
    + destruct (frames cs) as [|p fs] eqn:FR; [|same_log].
      destruct (step_log (base cs) (Close ubad) IV) as [E [L _]]. simpl in L.
      destruct (do_close (base cs) ubad) as [s1 r] eqn:DC. simpl in *.
      exists E. split; [exact L|]. right. right. right. exists t, ubad. split; [reflexivity|]. split; [exact FR|].
      unfold step_events. simpl. rewrite DC. simpl. rewrite L, skipn_app_len. reflexivity.
  - destruct (frame_of (frames cs) t) as [f|] eqn:FO; [|same_log]. unfold cresume. destruct f.
    + destruct (lookup (meta (base cs)) key); same_log.
    + destruct (mok && has_dir (base cs) (DId id)); simpl.
      * one_quiet (EvMount id l true).
      * one_quiet (EvMount id l false).
    + nrm. destruct (commit_active (base cs) tg key (set_remote l) true) as [s3 x] eqn:CA. apply commit_log in CA.
      destruct CA as [L _]. destruct x as [[]|]; simpl; try (exists []; split; [rewrite app_nil_r; exact L|left; constructor]).
      eexists [_]. split; [rewrite L; reflexivity|left; constructor; [exact I|constructor]].
    + destruct ck as [k|]; [|same_log]. destruct (closed (base cs)); [same_log|].
      destruct (chain_remote (fuel_of (base cs)) (meta (base cs)) k); same_log.
    + destruct todo as [|id rest]; [same_log|]. unfold fs_check. simpl.
      one_quiet (EvCheck id (mounted (base cs) id && negb (mem id cbad))).
    + destruct ds as [|d rest]; [same_log|].
      set (sc := match d with DId id => negb (mem id ubad) | DTemp _ => true end).
      destruct (fs_unmount_spec (base cs) d sc) as [lv [ok [Sh [_ [L _]]]]]. simpl.
      exists [EvUnmount d lv ok]. split; [destruct Sh; auto|]. right. left.
      exists t, d, rest, ubad, r, lv, ok. auto.
    + simpl. exists [EvRmDir d]. split; [reflexivity|]. right. right. left. exists t, d, ds, ubad, r. auto.
Qed.

(* CC2: unmount discipline under every schedule *)
Lemma conc_unmount_discipline a sched x :
  let cs := cexec (cinit a) sched in
  (forall d ok, In (EvUnmount d true ok) (cstep_events cs x) ->
     (exists t ub, x = Start t (Close ub)) \/ exists id, d = DId id /\ dead (base cs) id) /\
  (forall d, In (EvRmDir d) (cstep_events cs x) ->
     (exists t ub, x = Start t (Close ub)) \/
     exists t ds ub r, x = Step t /\ frame_of (frames cs) t = Some (FRm d ds ub r)) /\
  (forall t d ds ub r, frame_of (frames cs) t = Some (FClean (d :: ds) ub r) ->
     exists lv ok, cstep_events cs (Step t) = [EvUnmount d lv ok] /\
                   frame_of (frames (cstep cs (Step t))) t = Some (FRm d ds ub r)).
Proof.
  intros cs. pose proof (creach_inv a sched) as CI. fold cs in CI.
  destruct (cstep_log cs x CI) as [E [L SH]].
  assert (EQ : cstep_events cs x = E). { unfold cstep_events. rewrite L, skipn_app_len. reflexivity. }
  rewrite EQ. split; [|split].
  - intros d ok H. destruct SH as [Q|[S2|[S3|S4]]].
    + exfalso. rewrite Forall_forall in Q. apply Q in H. exact H.
    + destruct S2 as [t [d' [ds [ub [r [lv [ok' [X [FO [EE LV]]]]]]]]]]. subst E. destruct H as [H|[]]. inversion H; subst.
      right. destruct (LV eq_refl) as [id [-> _]]. exists id. split; auto.
      destruct CI as [_ F]. apply (F _ _ (frame_of_in _ _ _ FO)). left. reflexivity.
    + destruct S3 as [t [d' [ds [ub [r [_ [_ EE]]]]]]]. subst E. destruct H as [H|[]]. discriminate.
    + destruct S4 as [t [ub [X _]]]. left. eauto.
  - intros d H. destruct SH as [Q|[S2|[S3|S4]]].
    + exfalso. rewrite Forall_forall in Q. apply Q in H. exact H.
    + destruct S2 as [t [d' [ds [ub [r [lv [ok' [_ [_ [EE _]]]]]]]]]]. subst E. destruct H as [H|[]]. discriminate.
    + destruct S3 as [t [d' [ds [ub [r [X [FO EE]]]]]]]. subst E. destruct H as [H|[]]. inversion H; subst.
      right. exists t, ds, ub, r. auto.
    + destruct S4 as [t [ub [X _]]]. left. eauto.
  - intros t d ds ub r FO. unfold cstep_events. simpl. rewrite FO. simpl.
    set (sc := match d with DId id => negb (mem id ub) | DTemp _ => true end).
    destruct (fs_unmount_spec (base cs) d sc) as [lv [ok [Sh _]]]. exists lv, ok. split.
    + destruct Sh. rewrite sh_log, skipn_app_len. reflexivity.
    + rewrite Nat.eqb_refl. reflexivity.
Qed.

(* ---------- availability under concurrency ---------- *)
Ltac dmatch H := repeat match type of H with context [match ?e with _ => _ end] => destruct e end.
Ltac oldframe H :=
  simpl in H;
  first [ left; exact H
        | left; eapply del_frame_in; exact H
        | destruct H as [H|H]; [discriminate|left; eapply del_frame_in; exact H] ].

Lemma new_checks cs x t sn done todo ok cbad mark :
  In (t, FChecks sn done todo ok cbad mark) (frames (cstep cs x)) ->
  In (t, FChecks sn done todo ok cbad mark) (frames cs) \/
  (x = Step t /\
   ((done = [] /\ ok = true /\ mark = length (log (base cs)) /\ log (base (cstep cs x)) = log (base cs)) \/
    (exists id done0 ok0, frame_of (frames cs) t = Some (FChecks sn done0 (id :: todo) ok0 cbad mark) /\
       done = done0 ++ [id] /\ ok = ok0 && (mounted (base cs) id && negb (mem id cbad)) /\
       log (base (cstep cs x)) = log (base cs) ++ [EvCheck id (mounted (base cs) id && negb (mem id cbad))]))).
Proof.
  intros H. destruct x as [t0 o|t0]; simpl in H.
  - destruct (frame_of (frames cs) t0); [left; exact H|]. unfold cstart, after_create in H.
    destruct o; try (dmatch H; oldframe H; fail).
    destruct (frames cs) as [|p fs] eqn:FR; [|left; rewrite <- FR; exact H].
    destruct (do_close (base cs) ubad) as [s1 r]. simpl in H. rewrite FR in H. simpl in H. contradiction.
  - simpl. destruct (frame_of (frames cs) t0) as [f|] eqn:FO; [|left; exact H]. unfold cresume in *.
    destruct f.
    + dmatch H; oldframe H.
    + dmatch H; oldframe H.
    + dmatch H; oldframe H.
    + destruct ck as [k|]; [|oldframe H]. destruct (closed (base cs)); [oldframe H|].
      destruct (chain_remote (fuel_of (base cs)) (meta (base cs)) k) as [ids|]; [|oldframe H].
      simpl in H. destruct H as [H|H]; [|left; eapply del_frame_in; exact H].
      inversion H; subst. right. split; [reflexivity|]. left. simpl. auto.
    + destruct todo0 as [|id rest]; [oldframe H|].
      unfold fs_check in *. simpl in *. destruct H as [H|H]; [|left; eapply del_frame_in; exact H].
      inversion H; subst. right. split; [reflexivity|]. right. exists id, done0, ok0. auto.
    + dmatch H; oldframe H.
    + oldframe H.
Qed.

Definition FA (cs : cst) : Prop := forall t sn done todo ok cbad mark,
  In (t, FChecks sn done todo ok cbad mark) (frames cs) ->
  mark <= length (log (base cs)) /\
  (ok = true -> forall id, In id done ->
     In (EvCheck id true) (skipn mark (log (base cs))) /\ ~ In id cbad).

Lemma skipn_more {A} (l E : list A) n x : n <= length l -> In x (skipn n l) -> In x (skipn n (l ++ E)).
Proof.
  intros Le H. rewrite skipn_app. apply in_or_app. left. exact H.
Qed.

Lemma fa_step cs x : CInv cs -> FA cs -> FA (cstep cs x).
Proof.
  intros CI FAo t sn done todo ok cbad mark H.
  destruct (cstep_log cs x CI) as [E [L _]]. apply new_checks in H.
  destruct H as [H|[X [[D [O [M L']]]|[id [done0 [ok0 [FO [D [O L']]]]]]]]].
  - destruct (FAo _ _ _ _ _ _ _ H) as [A B]. split; [rewrite L, app_length; lia|].
    intros T id I0. destruct (B T id I0) as [B1 B2]. split; auto. rewrite L. apply skipn_more; auto.
  - subst. split; [rewrite L'; lia|]. intros _ id [].
  - destruct (FAo _ _ _ _ _ _ _ (frame_of_in _ _ _ FO)) as [A B]. split; [rewrite L', app_length; lia|].
    intros T id' I0. subst done ok. apply andb_true_iff in T. destruct T as [T0 T1].
    apply in_app_or in I0. destruct I0 as [I0|[I0|[]]].
    + destruct (B T0 id' I0) as [B1 B2]. split; auto. rewrite L'. apply skipn_more; auto.
    + subst id'. split.
      * rewrite L', T1, skipn_app. apply in_or_app. right.
        replace (mark - length (log (base cs))) with 0 by lia. simpl. auto.
      * apply andb_true_iff in T1. destruct T1 as [_ T1]. apply negb_true_iff in T1. apply mem_false. exact T1.
Qed.

Lemma fa_reach a sched : FA (cexec (cinit a) sched).
Proof.
  assert (G : forall sc cs, CInv cs -> FA cs -> FA (cexec cs sc)).
  { induction sc as [|x r IH]; intros cs C A; simpl; auto. apply IH; [apply cstep_inv; exact C|apply fa_step; assumption]. }
  apply G; [apply cinv_init|]. intros t sn done todo ok cbad mark [].
Qed.

Lemma chain_remote_spec f : forall m k ids,
  chain_remote f m k = Some ids ->
  forall n i, on_chain m k n i -> l_remote (i_labels i) = true -> In (i_id i) ids.
Proof.
  induction f as [|f IH]; intros m k ids; simpl; [discriminate|].
  destruct (lookup m k) as [i0|] eqn:L; [|discriminate].
  destruct (i_parent i0) as [p|] eqn:P.
  - destruct (chain_remote f m p) as [r|] eqn:CR; [|discriminate]. intros H; inversion H; subst. clear H.
    intros n i OC R. inversion OC as [k0 i1 L0|k0 i1 p0 n0 j0 L0 P0 OC']; subst.
    + rewrite L in L0. inversion L0; subst. rewrite R. left. reflexivity.
    + rewrite L in L0. inversion L0; subst. rewrite P in P0. inversion P0; subst.
      apply in_or_app. right. eapply IH; eauto.
  - intros H; inversion H; subst. clear H. intros n i OC R.
    inversion OC as [k0 i1 L0|k0 i1 p0 n0 j0 L0 P0 OC']; subst.
    + rewrite L in L0. inversion L0; subst. rewrite R. left. reflexivity.
    + rewrite L in L0. inversion L0; subst. rewrite P in P0. discriminate.
Qed.

Arguments chain_remote : simpl never.
Arguments fuel_of : simpl never.

(* CC3: a call returns mounts only after every remote layer it found on the chain passed its Check *)
Lemma conc_available a sched t sn done ok cbad mark :
  let cs := cexec (cinit a) sched in
  frame_of (frames cs) t = Some (FChecks sn done [] ok cbad mark) ->
  rets (cstep cs (Step t)) = (t, if ok then RMounts (mount_shape sn) else RErr EUnavail) :: rets cs /\
  (ok = true -> forall id, In id done ->
     In (EvCheck id true) (skipn mark (log (base cs))) /\ ~ In id cbad).
Proof.
  intros cs FO. split.
  - simpl. rewrite FO. reflexivity.
  - apply (fa_reach a sched t sn done [] ok cbad mark). apply frame_of_in. exact FO.
Qed.

Lemma conc_chain_read cs t sn k cbad :
  frame_of (frames cs) t = Some (FChain sn (Some k) cbad) ->
  (exists ids, frame_of (frames (cstep cs (Step t))) t = Some (FChecks sn [] ids true cbad (length (log (base cs)))) /\
     forall n i, on_chain (meta (base cs)) k n i -> l_remote (i_labels i) = true -> In (i_id i) ids)
  \/ rets (cstep cs (Step t)) = (t, RErr EUnavail) :: rets cs.
Proof.
  intros FO. simpl. rewrite FO. simpl. destruct (closed (base cs)); [right; reflexivity|].
  destruct (chain_remote (fuel_of (base cs)) (meta (base cs)) k) as [ids|] eqn:CR; [|right; reflexivity].
  left. exists ids. split; [simpl; rewrite Nat.eqb_refl; reflexivity|]. eapply chain_remote_spec; eauto.
Qed.
