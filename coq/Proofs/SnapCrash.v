(* Proofs about Model/SnapCrash.v (C09): restart outcome and state for EVERY image (reachable or not),
   garbage reclamation by one Cleanup, survival of acknowledged snapshots across every crash point. *)
From Coq Require Import List Arith Bool Lia.
From SV Require Import Model.Snap Model.SnapCrash Proofs.SnapBase Proofs.SnapPrim Proofs.SnapInv Proofs.Snap.
Import ListNotations.

Arguments rm_dirent : simpl never.
Arguments rm_mount : simpl never.

(* ---------- sort_by keeps the elements ---------- *)
Lemma ins_by_in {A} (key : A -> nat) x y l : In y (ins_by key x l) <-> y = x \/ In y l.
Proof.
  induction l as [|z l IH]; simpl.
  - split; intros [H|H]; auto.
  - destruct (Nat.leb (key x) (key z)); simpl.
    + split; intros [H|H]; auto.
    + rewrite IH. split; intros H; tauto.
Qed.

Lemma sort_by_in {A} (key : A -> nat) y l : In y (sort_by key l) <-> In y l.
Proof.
  unfold sort_by. induction l as [|z l IH]; simpl; [tauto|].
  rewrite ins_by_in, IH. split; intros [H|H]; auto.
Qed.

Lemma tasks_in m p : In p (remote_tasks m) <-> In p m /\ l_remote (i_labels (snd p)) = true.
Proof. unfold remote_tasks. rewrite sort_by_in, filter_In. tauto. Qed.

(* ---------- restart: outcome ---------- *)
Definition task_ok (allow : bool) (mbad : list nat) (p : name * info) : bool :=
  negb (mem (i_id (snd p)) mbad) || allow.

Lemma restore_one_ok allow mbad s ok p :
  snd (restore_one allow mbad (s, ok) p) = ok && task_ok allow mbad p.
Proof.
  unfold restore_one, task_ok. destruct ok; simpl; [|reflexivity].
  destruct (mem (i_id (snd p)) mbad); simpl; reflexivity.
Qed.

Lemma restore_fold_ok allow mbad ts : forall acc,
  snd (fold_left (restore_one allow mbad) ts acc) = snd acc && forallb (task_ok allow mbad) ts.
Proof.
  induction ts as [|p ts IH]; intros acc; simpl.
  - rewrite andb_true_r. reflexivity.
  - rewrite IH. destruct acc as [s ok]. rewrite restore_one_ok. simpl. rewrite andb_assoc. reflexivity.
Qed.

Lemma restart_outcome nr allow mbad img :
  snd (restart nr allow mbad img) = false <->
  nr = false /\ allow = false /\
  exists n i, In (n, i) (meta img) /\ l_remote (i_labels i) = true /\ In (i_id i) mbad.
Proof.
  unfold restart. destruct nr; simpl.
  - split; [discriminate|]. intros [H _]. discriminate.
  - rewrite restore_fold_ok. simpl. split.
    + intros H. split; [reflexivity|].
      destruct allow.
      * exfalso. assert (X : forallb (task_ok true mbad) (remote_tasks (meta img)) = true).
        { apply forallb_forall. intros p _. unfold task_ok. apply orb_true_r. }
        congruence.
      * split; [reflexivity|].
        destruct (forallb (task_ok false mbad) (remote_tasks (meta img))) eqn:F; [discriminate|].
        assert (X : exists p, In p (remote_tasks (meta img)) /\ task_ok false mbad p = false).
        { clear H. induction (remote_tasks (meta img)) as [|p ts IH]; simpl in F; [discriminate|].
          destruct (task_ok false mbad p) eqn:T.
          - destruct (IH F) as [q [A B]]. exists q. split; [right|]; auto.
          - exists p. split; [left|]; auto. }
        destruct X as [[n i] [A B]]. apply tasks_in in A. destruct A as [A R].
        exists n, i. split; [exact A|]. split; [exact R|].
        unfold task_ok in B. simpl in B. rewrite orb_false_r in B. apply negb_false_iff in B.
        apply mem_in. exact B.
    + intros [_ [-> [n [i [A [R B]]]]]].
      destruct (forallb (task_ok false mbad) (remote_tasks (meta img))) eqn:F; [|reflexivity].
      rewrite forallb_forall in F. specialize (F (n, i)).
      assert (T : In (n, i) (remote_tasks (meta img))) by (apply tasks_in; auto).
      specialize (F T). unfold task_ok in F. simpl in F. rewrite orb_false_r in F.
      apply negb_true_iff in F. apply mem_false in F. contradiction.
Qed.

(* ---------- restart: state ---------- *)
Lemma restore_fold_state allow mbad ts : forall s s',
  fold_left (restore_one allow mbad) ts (s, true) = (s', true) ->
  meta s' = meta s /\ seq s' = seq s /\ closed s' = closed s /\ async s' = async s /\
  (forall x, In x (mounts s') <->
     In x (mounts s) \/ exists p, In p ts /\ x = (i_id (snd p), i_labels (snd p)) /\ ~ In (i_id (snd p)) mbad) /\
  (forall d, In d (dirs s') <-> In d (dirs s) \/ exists p, In p ts /\ d = DId (i_id (snd p))).
Proof.
  induction ts as [|p ts IH]; intros s s' H; simpl in H.
  - inversion H; subst. repeat split; auto; try (intros [A|[q [[] _]]]; exact A).
  - set (id := i_id (snd p)) in *.
    set (s1 := if has_dir s (DId id) then s else set_dirs s (DId id :: dirs s)) in *.
    set (mok := negb (mem id mbad)) in *.
    set (s2 := fs_mount s1 id (i_labels (snd p)) mok) in *.
    assert (D1 : forall d, In d (dirs s1) <-> In d (dirs s) \/ d = DId id).
    { intros d. unfold s1. destruct (has_dir s (DId id)) eqn:HD.
      - apply has_dir_in in HD. split; [auto|]. intros [A|A]; [auto|subst; auto].
      - simpl. split; intros [A|A]; auto. }
    assert (F1 : meta s2 = meta s /\ seq s2 = seq s /\ closed s2 = closed s /\ async s2 = async s /\ dirs s2 = dirs s1).
    { unfold s2, fs_mount, s1. destruct mok; destruct (has_dir s (DId id)); simpl; auto. }
    destruct F1 as [Fm [Fq [Fc [Fa Fd]]]].
    assert (M2 : forall x, In x (mounts s2) <-> In x (mounts s) \/ (x = (id, i_labels (snd p)) /\ mok = true)).
    { intros x. unfold s2, fs_mount, s1. destruct mok; destruct (has_dir s (DId id)); simpl;
        split; intros A; try tauto; try (destruct A as [A|A]; auto; destruct A; auto; discriminate). }
    assert (NEXT : exists okn, fold_left (restore_one allow mbad) ts (s2, okn) = (s', true) /\
                   (okn = true)).
    { destruct mok eqn:MK.
      - exists true. split; auto.
      - destruct allow eqn:AL.
        + exists true. split; auto.
        + exfalso. pose proof (restore_fold_ok false mbad ts (s2, false)) as X.
          rewrite H in X. simpl in X. discriminate. }
    destruct NEXT as [okn [HN ->]].
    destruct (IH _ _ HN) as [Im [Iq [Ic [Ia [IM ID]]]]].
    split; [congruence|]. split; [congruence|]. split; [congruence|]. split; [congruence|]. split.
    + intros x. rewrite IM, M2. split.
      * intros [[A|[A B]]|[q [A B]]]; auto.
        -- right. exists p. split; [left; reflexivity|]. split; [exact A|].
           unfold mok in B. apply negb_true_iff in B. apply mem_false. exact B.
        -- right. exists q. split; [right|]; auto.
      * intros [A|[q [[A|A] [B C]]]]; auto.
        -- subst q. left. right. split; [exact B|]. unfold mok. apply negb_true_iff. apply mem_false. exact C.
        -- right. exists q. auto.
    + intros d. rewrite ID, Fd, D1. split.
      * intros [[A|A]|[q [A B]]]; auto.
        -- right. exists p. split; [left; reflexivity|exact A].
        -- right. exists q. split; [right|]; auto.
      * intros [A|[q [[A|A] B]]]; auto.
        -- subst q. left. right. exact B.
        -- right. exists q. auto.
Qed.

Definition restored (nr : bool) (mbad : list nat) (img s' : st) : Prop :=
  meta s' = meta img /\ seq s' = seq img /\ closed s' = false /\
  (forall id lb, In (id, lb) (mounts s') <->
     nr = false /\ exists n i, In (n, i) (meta img) /\ l_remote (i_labels i) = true /\
                               id = i_id i /\ lb = i_labels i /\ ~ In id mbad) /\
  (forall d, In d (dirs s') <->
     In d (dirs img) \/ (nr = false /\ exists n i, In (n, i) (meta img) /\ l_remote (i_labels i) = true /\ d = DId (i_id i))).

Lemma restart_state nr allow mbad img s' :
  restart nr allow mbad img = (s', true) -> restored nr mbad img s'.
Proof.
  unfold restart, restored. destruct nr.
  - intros H; inversion H; subst; simpl. split; [reflexivity|]. split; [reflexivity|]. split; [reflexivity|]. split.
    + intros id lb. split; [intros []|intros [Q _]; discriminate].
    + intros d. split; [auto|intros [A|[Q _]]; [exact A|discriminate]].
  - intros H. apply restore_fold_state in H. simpl in H. destruct H as [Hm [Hq [Hc [_ [HM HD]]]]].
    split; [exact Hm|]. split; [exact Hq|]. split; [exact Hc|]. split.
    + intros id lb. rewrite HM. split.
      * intros [[]|[[n i] [A [B C]]]]. apply tasks_in in A. destruct A as [A R]. simpl in *.
        inversion B; subst. split; [reflexivity|]. exists n, i. repeat split; auto.
      * intros [_ [n [i [A [R [-> [-> C]]]]]]]. right. exists (n, i). split; [apply tasks_in; auto|]. simpl. auto.
    + intros d. rewrite HD. split.
      * intros [A|[[n i] [A B]]]; [auto|]. apply tasks_in in A. destruct A as [A R]. simpl in *.
        right. split; [reflexivity|]. exists n, i. auto.
      * intros [A|[_ [n [i [A [R B]]]]]]; [auto|]. right. exists (n, i). split; [apply tasks_in; auto|]. exact B.
Qed.

(* ---------- one Cleanup after restart leaves no garbage ---------- *)
Lemma cleanup_no_garbage ub s :
  snd (step s (Cleanup ub)) = ROk ->
  forall d, In d (dirs (fst (step s (Cleanup ub)))) -> exists n i, In (n, i) (meta (fst (step s (Cleanup ub)))) /\ d = DId (i_id i).
Proof.
  simpl. unfold do_cleanup. destruct (closed s); simpl; [discriminate|].
  intros _ d H.
  destruct (cleanup_dirs_spec ub (cleanup_list s false) s) as [E [Sh [D _]]].
  apply D in H. destruct H as [A B]. destruct Sh. rewrite sh_meta.
  destruct d as [id|n].
  - destruct (mem id (ids_of (meta s))) eqn:M.
    + apply mem_in in M. apply in_ids in M. destruct M as [n [i [F Q]]]. exists n, i. split; auto; congruence.
    + exfalso. apply B. apply cleanup_list_in. split; auto. apply mem_false. exact M.
  - exfalso. apply B. apply cleanup_list_in. split; auto.
Qed.

Lemma cleanup_ok ub s : closed s = false -> snd (step s (Cleanup ub)) = ROk.
Proof. intros C. simpl. unfold do_cleanup. rewrite C. reflexivity. Qed.

(* ---------- acknowledged snapshots survive every crash point ---------- *)
Lemma cleanup_points_meta s m q iter ds : forall cur c img,
  In (c, img) (cleanup_points s m q iter cur ds) -> meta img = m /\ seq img = q.
Proof.
  induction ds as [|d ds IH]; intros cur c img H; simpl in H; [contradiction|].
  apply in_app_or in H. destruct H as [H|H].
  - destruct iter; simpl in H; [|contradiction]. destruct H as [H|[]]. inversion H; subst. simpl. auto.
  - destruct H as [H|[H|H]]; try (inversion H; subst; simpl; auto; fail). eapply IH; eauto.
Qed.

Lemma create_points_meta s k key parent l c img :
  In (c, img) (create_points s k key parent l) ->
  meta img = meta s \/ meta img = (key, mkI (S (seq s)) k parent l) :: meta s.
Proof.
  unfold create_points. destruct (closed s); [intros []|].
  destruct (meta_create s k key parent) as [e|sn] eqn:MC.
  - simpl. intros [H|[H|[H|[]]]]; inversion H; subst; simpl; auto.
  - apply meta_create_ok in MC. destruct MC as [_ [ID _]].
    destruct (negb match sn_parents sn with [] => true | p :: _ => has_dir s (DId p) end).
    + simpl. intros [H|[H|[H|[H|[]]]]]; inversion H; subst; simpl; auto.
    + destruct (has_dir s (DId (sn_id sn))).
      * simpl. intros [H|[H|[H|[H|[H|[H|[]]]]]]]; inversion H; subst; simpl; auto.
      * simpl. intros [H|[H|[H|[H|[]]]]]; inversion H; subst; simpl; auto. rewrite ID. auto.
Qed.

Arguments fs_mount : simpl never.
Arguments commit_active : simpl never.
Arguments create_snapshot : simpl never.
Arguments do_remove : simpl never.
Arguments cleanup_list : simpl never.
Arguments create_points : simpl never.
Arguments cleanup_points : simpl never.
Arguments order_ok : simpl never.

Lemma survive order s o c img :
  In (c, img) (crash_points order s o) ->
  forall n i, lookup (meta s) n = Some i -> ~ touches o n -> lookup (meta img) n = Some i.
Proof.
  intros H n i L NT. destruct o; simpl in H, NT; try (simpl in H; contradiction); nrm.
  - (* Prepare *)
    apply in_app_or in H. destruct H as [H|H].
    + apply create_points_meta in H. destruct H as [H|H]; rewrite H; [exact L|].
      simpl. destruct (Nat.eqb_spec key n); [subst; tauto|exact L].
    + destruct (create_snapshot s KActive key parent l) as [s1 [e|sn]] eqn:CS; [simpl in H; contradiction|].
      pose proof (create_ok _ _ _ _ _ _ _ CS) as OK. destruct OK as [_ [_ [_ [_ [E1 _]]]]].
      assert (L1 : lookup (meta s1) n = Some i).
      { subst s1. simpl. destruct (Nat.eqb_spec key n); [subst; tauto|exact L]. }
      destruct (l_target lm) as [t|] eqn:LT; [|simpl in H; contradiction].
      destruct mok; [|simpl in H; contradiction].
      destruct H as [H|H]; [inversion H; subst img; exact L1|].
      destruct (commit_active (fs_mount s1 (sn_id sn) lm true) t key (set_remote l) true) as [s3 x] eqn:CA.
      destruct x as [e|].
      * destruct e; try (simpl in H; contradiction). destruct H as [H|[]]. inversion H; subst img. exact L1.
      * apply commit_ok in CA. destruct CA as [_ [j [np [_ [_ [_ [_ [_ E3]]]]]]]].
        destruct H as [H|[H|[]]]; inversion H; subst img; [exact L1|].
        subst s3. simpl. destruct (Nat.eqb_spec t n); [subst; tauto|].
        rewrite lookup_del_ne; [exact L1|]. intros Q. apply NT. left. exact Q.
  - (* View *)
    apply create_points_meta in H. destruct H as [H|H]; rewrite H; [exact L|].
    simpl. destruct (Nat.eqb_spec key n); [subst; tauto|exact L].
  - (* Commit *)
    destruct (commit_active s nm key l false) as [s1 [e|]]; [simpl in H; contradiction|].
    destruct H as [H|[]]. inversion H; subst img. exact L.
  - (* Remove *)
    destruct (do_remove s key []) as [s1 r]. destruct r; try (simpl in H; contradiction).
    destruct H as [H|H]; [inversion H; subst img; exact L|].
    destruct (async s); [simpl in H; contradiction|].
    destruct (order_ok order (cleanup_list (set_meta s (del (meta s) key)) false)); [|simpl in H; contradiction].
    assert (LD : lookup (del (meta s) key) n = Some i) by (rewrite lookup_del_ne; auto).
    destruct H as [H|H]; [inversion H; subst img; exact LD|].
    apply cleanup_points_meta in H. destruct H as [H _]. rewrite H. exact LD.
  - (* Cleanup *)
    destruct (closed s); [simpl in H; contradiction|].
    destruct (order_ok order (cleanup_list s false)); [|simpl in H; contradiction].
    apply cleanup_points_meta in H. destruct H as [H _]. rewrite H. exact L.
  - (* Close *)
    destruct (closed s || Nat.eqb (seq s) 0); [simpl in H; contradiction|].
    destruct (order_ok order (cleanup_list s true)); [|simpl in H; contradiction].
    apply cleanup_points_meta in H. destruct H as [H _]. rewrite H. exact L.
Qed.

Lemma survive_nth order s o k c img :
  nth_error (crash_points order s o) k = Some (c, img) ->
  forall n i, lookup (meta s) n = Some i -> ~ touches o n -> lookup (meta img) n = Some i.
Proof. intros H. apply nth_error_In in H. eapply survive; eauto. Qed.

(* ---------- directories of live snapshots survive every crash point ---------- *)
Lemma natlist_eqb_eq a : forall b, natlist_eqb a b = true -> a = b.
Proof.
  induction a as [|x a IH]; intros [|y b]; simpl; intros H; try discriminate; auto.
  apply andb_true_iff in H. destruct H as [A B]. apply Nat.eqb_eq in A. f_equal; auto.
Qed.

Lemma ids_of_dirents_in id ds : In id (ids_of_dirents ds) <-> In (DId id) ds.
Proof.
  unfold ids_of_dirents. rewrite in_flat_map. split.
  - intros [[j|j] [A B]]; simpl in B; [destruct B as [B|[]]; subst; exact A|contradiction].
  - intros H. exists (DId id). split; [exact H|left; reflexivity].
Qed.

Lemma order_ok_in order ds id : order_ok order ds = true -> In id order -> In (DId id) ds.
Proof.
  unfold order_ok. intros H I. apply andb_true_iff in H. destruct H as [H _]. apply natlist_eqb_eq in H.
  apply ids_of_dirents_in. apply (sort_by_in (fun x => x)). rewrite <- H. apply sort_by_in. exact I.
Qed.

Lemma cleanup_points_dirs s m q iter ds : forall cur c img,
  In (c, img) (cleanup_points s m q iter cur ds) ->
  forall d, In d cur -> ~ In d ds -> In d (dirs img).
Proof.
  unfold cleanup_points. induction ds as [|x ds IH]; intros cur c img H d A B; [contradiction|].
  fold cleanup_points in *.
  assert (K : In d (rm_dirent cur x)). { apply rm_dirent_in. split; auto. intros Q. apply B. left. auto. }
  apply in_app_or in H. destruct H as [H|H].
  - destruct iter; [|contradiction]. destruct H as [H|[]]. inversion H; subst. exact A.
  - destruct H as [H|[H|H]].
    + inversion H; subst. exact A.
    + inversion H; subst. exact K.
    + eapply IH; eauto. intros Q. apply B. right. exact Q.
Qed.

Lemma create_points_dirs s k key parent l c img :
  Inv s -> closed s = false -> In (c, img) (create_points s k key parent l) ->
  forall n i, lookup (meta img) n = Some i -> In (DId (i_id i)) (dirs img).
Proof.
  intros I C. unfold create_points. rewrite C.
  assert (KEEP : forall n i, lookup (meta s) n = Some i ->
            In (DId (i_id i)) (dirs s) /\ DId (i_id i) <> DTemp (tmpc s) /\ i_id i <> S (seq s)).
  { intros n i L. apply lookup_in in L. split; [eapply inv_has; eauto|]. split; [discriminate|].
    apply (inv_le _ I) in L. lia. }
  destruct (meta_create s k key parent) as [e|sn] eqn:MC.
  - intros [H|[H|[H|[]]]] n i L; inversion H; subst; simpl in *; destruct (KEEP n i L) as [A [B _]].
    + right. exact A. + right. exact A. + apply rm_dirent_in. split; [right; exact A|exact B].
  - apply meta_create_ok in MC. destruct MC as [LK [ID _]].
    assert (R1 : forall n i, lookup (meta s) n = Some i ->
               In (DId (i_id i)) (rm_dirent (DTemp (tmpc s) :: dirs s) (DTemp (tmpc s)))).
    { intros n i L. destruct (KEEP n i L) as [A [B _]]. apply rm_dirent_in. split; [right; exact A|exact B]. }
    destruct (negb match sn_parents sn with [] => true | p :: _ => has_dir s (DId p) end).
    + intros [H|[H|[H|[H|[]]]]] n i L; inversion H; subst; simpl in *;
        try (right; apply (KEEP n i L)); apply (R1 n i L).
    + destruct (has_dir s (DId (sn_id sn))).
      * intros [H|[H|[H|[H|[H|[H|[]]]]]]] n i L; inversion H; subst; simpl in *;
          try (right; apply (KEEP n i L)); try (apply (R1 n i L)).
        apply rm_dirent_in. split; [apply (R1 n i L)|]. rewrite ID. intros Q. inversion Q.
        destruct (KEEP n i L) as [_ [_ X]]. contradiction.
      * intros [H|[H|[H|[H|[]]]]] n i L; inversion H; subst; simpl in *;
          try (right; apply (KEEP n i L)); try (right; apply (R1 n i L)).
        destruct (Nat.eqb_spec key n).
        -- inversion L; subst. simpl. left. reflexivity.
        -- right. apply (R1 n i L).
Qed.

Lemma durable_dirs s n i : Inv s -> closed s = false -> lookup (meta (durable s)) n = Some i -> In (DId (i_id i)) (dirs (durable s)).
Proof. intros I C L. simpl in *. eapply inv_has; eauto. apply lookup_in. exact L. Qed.

Lemma live_dirs_survive order s o c img :
  Inv s -> closed s = false -> In (c, img) (crash_points order s o) ->
  forall n i, lookup (meta img) n = Some i -> (is_close o = true -> l_remote (i_labels i) = false) ->
  In (DId (i_id i)) (dirs img).
Proof.
  intros I C H n i L NR. destruct o; simpl in H; try contradiction; nrm.
  - (* Prepare *)
    apply in_app_or in H. destruct H as [H|H]; [eapply create_points_dirs; eauto|].
    destruct (create_snapshot s KActive key parent l) as [s1 [e|sn]] eqn:CS; [simpl in H; contradiction|].
    pose proof (create_inv _ _ _ _ _ _ _ I CS) as I1.
    pose proof (create_ok _ _ _ _ _ _ _ CS) as OK. destruct OK as [_ [_ [ID [_ [E1 _]]]]].
    assert (C1 : closed s1 = false) by (subst s1; reflexivity).
    destruct (l_target lm) as [t|]; [|simpl in H; contradiction].
    destruct mok; [|simpl in H; contradiction].
    destruct H as [H|H]; [inversion H; subst img; eapply durable_dirs; eauto|].
    destruct (commit_active (fs_mount s1 (sn_id sn) lm true) t key (set_remote l) true) as [s3 x] eqn:CA.
    assert (I2 : Inv (fs_mount s1 (sn_id sn) lm true)).
    { apply mount_inv; auto.
      - rewrite ID. subst s1. simpl. lia.
      - destruct (mounted s1 (sn_id sn)) eqn:M; auto. apply mounted_in in M. destruct M as [lb M].
        subst s1. simpl in M. apply (inv_mle _ I) in M. simpl in M. lia. }
    pose proof (commit_inv _ _ _ _ _ _ _ I2 CA) as I3.
    pose proof (commit_log _ _ _ _ _ _ _ CA) as [_ [_ [_ [C3 _]]]].
    destruct x as [e|].
    + destruct e; try (simpl in H; contradiction). destruct H as [H|[]]. inversion H; subst img. eapply durable_dirs; eauto.
    + destruct H as [H|[H|[]]]; inversion H; subst img; eapply durable_dirs; eauto; rewrite C3; reflexivity.
  - (* View *) eapply create_points_dirs; eauto.
  - (* Commit *)
    destruct (commit_active s nm key l false) as [s1 [e|]]; [simpl in H; contradiction|].
    destruct H as [H|[]]. inversion H; subst img. eapply durable_dirs; eauto.
  - (* Remove *)
    destruct (do_remove s key []) as [s1 r]. destruct r; try (simpl in H; contradiction).
    destruct H as [H|H]; [inversion H; subst img; eapply durable_dirs; eauto|].
    destruct (async s); [simpl in H; contradiction|].
    destruct (order_ok order (cleanup_list (set_meta s (del (meta s) key)) false)) eqn:OK; [|simpl in H; contradiction].
    assert (LD : forall n i, lookup (del (meta s) key) n = Some i -> In (DId (i_id i)) (dirs s)).
    { intros n0 i0 L0. apply lookup_in in L0. apply del_in in L0. destruct L0 as [L0 _]. eapply inv_has; eauto. }
    destruct H as [H|H]; [inversion H; subst img; simpl in *; eapply LD; eauto|].
    pose proof (cleanup_points_meta _ _ _ _ _ _ _ _ H) as [M _]. rewrite M in L.
    eapply cleanup_points_dirs; eauto. intros Q. apply in_map_iff in Q. destruct Q as [id [Q1 Q2]]. inversion Q1; subst id.
    pose proof (order_ok_in _ _ _ OK Q2) as Q3. apply cleanup_list_in in Q3. destruct Q3 as [_ Q3]. simpl in Q3.
    apply Q3. apply in_ids. exists n, i. split; auto. apply lookup_in. exact L.
  - (* Cleanup *)
    rewrite C in H.
    destruct (order_ok order (cleanup_list s false)) eqn:OK; [|simpl in H; contradiction].
    pose proof (cleanup_points_meta _ _ _ _ _ _ _ _ H) as [M _]. rewrite M in L.
    eapply cleanup_points_dirs; eauto.
    + eapply inv_has; eauto. apply lookup_in. exact L.
    + intros Q. apply in_map_iff in Q. destruct Q as [id [Q1 Q2]]. inversion Q1; subst id.
      pose proof (order_ok_in _ _ _ OK Q2) as Q3. apply cleanup_list_in in Q3. destruct Q3 as [_ Q3].
      apply Q3. apply in_ids. exists n, i. split; auto. apply lookup_in. exact L.
  - (* Close *)
    destruct (closed s || Nat.eqb (seq s) 0); [simpl in H; contradiction|].
    destruct (order_ok order (cleanup_list s true)) eqn:OK; [|simpl in H; contradiction].
    pose proof (cleanup_points_meta _ _ _ _ _ _ _ _ H) as [M _]. rewrite M in L.
    eapply cleanup_points_dirs; eauto.
    + eapply inv_has; eauto. apply lookup_in. exact L.
    + intros Q. apply in_map_iff in Q. destruct Q as [id [Q1 Q2]]. inversion Q1; subst id.
      pose proof (order_ok_in _ _ _ OK Q2) as Q3. apply cleanup_list_in in Q3. destruct Q3 as [_ Q3].
      unfold remote_ids in Q3. apply in_ids in Q3. destruct Q3 as [n' [i' [Q3 Q4]]].
      apply filter_In in Q3. destruct Q3 as [Q3 R]. simpl in R.
      assert (X : (n', i') = (n, i)).
      { eapply ids_inj; eauto using lookup_in. apply inv_ids; exact I. }
      inversion X; subst. rewrite (NR eq_refl) in R. discriminate.
Qed.

Lemma live_dirs_survive_nth a os o order k c img :
  let s := exec (init a) os in
  closed s = false -> nth_error (crash_points order s o) k = Some (c, img) ->
  forall n i, lookup (meta img) n = Some i -> (is_close o = true -> l_remote (i_labels i) = false) ->
  In (DId (i_id i)) (dirs img).
Proof. intros s C H. apply nth_error_In in H. eapply live_dirs_survive; eauto. apply reach_inv. Qed.

(* ---------- after the fix C09-fix-1: one Cleanup after restart always succeeds and is exact ---------- *)
Lemma one_cleanup_suffices nr allow mbad img s' ub :
  restart nr allow mbad img = (s', true) ->
  snd (step s' (Cleanup ub)) = ROk /\
  forall d, In d (dirs (fst (step s' (Cleanup ub)))) ->
    exists n i, In (n, i) (meta (fst (step s' (Cleanup ub)))) /\ d = DId (i_id i).
Proof.
  intros R. pose proof (restart_state _ _ _ _ _ R) as [_ [_ [C _]]].
  pose proof (cleanup_ok ub s' C) as OK. split; [exact OK|]. apply cleanup_no_garbage. exact OK.
Qed.

Lemma one_cleanup_exact a os o order k c img nr allow mbad s' ub :
  let s := exec (init a) os in
  closed s = false ->
  nth_error (crash_points order s o) k = Some (c, img) ->
  restart nr allow mbad img = (s', true) ->
  (nr = false \/ is_close o = false) ->
  let s2 := fst (step s' (Cleanup ub)) in
  meta s2 = meta img /\
  (forall d, In d (dirs s2) -> exists n i, In (n, i) (meta s2) /\ d = DId (i_id i)) /\
  (forall n i, lookup (meta s2) n = Some i -> In (DId (i_id i)) (dirs s2)).
Proof.
  intros s C H R NC s2.
  pose proof (restart_state _ _ _ _ _ R) as [M [_ [C' [_ D]]]].
  destruct (one_cleanup_suffices _ _ _ _ _ ub R) as [_ G].
  assert (E2 : s2 = cleanup_dirs ub s' (cleanup_list s' false)).
  { unfold s2. simpl. unfold do_cleanup. rewrite C'. reflexivity. }
  destruct (cleanup_dirs_spec ub (cleanup_list s' false) s') as [E [Sh [DD _]]].
  assert (M2 : meta s2 = meta s') by (rewrite E2; destruct Sh; auto).
  split; [congruence|]. split; [exact G|].
  intros n i L. rewrite M2, M in L. rewrite E2. apply DD. split.
  - apply D. destruct (is_close o) eqn:IC.
    + destruct (l_remote (i_labels i)) eqn:RM.
      * right. destruct NC as [NC|NC]; [|discriminate]. split; [exact NC|]. exists n, i.
        split; [apply lookup_in; exact L|]. split; [exact RM|reflexivity].
      * left. eapply live_dirs_survive_nth; eauto.
    + left. eapply live_dirs_survive_nth; eauto. intros Q; congruence.
  - intros Q. apply cleanup_list_in in Q. destruct Q as [_ Q]. apply Q. apply in_ids. exists n, i.
    split; [|reflexivity]. rewrite M. apply lookup_in. exact L.
Qed.
