(* C14 — composition of the sortEntries model (Model/Sort.v) with C03's writer / builder machine
   (Model/EsgzWriter.v): the layout G ++ [landmark] ++ R that sortEntries hands to the sub-blob writers makes the
   landmark's TOC offset separate the data of G from the data of R. *)
From Coq Require Import List NArith ZArith Bool Arith.
From SV Require Import Model.Sort Proofs.Sort.
From SV Require Model.EsgzWriter Proofs.EsgzWriter Proofs.LandmarkOffsets.
Import ListNotations.

Module W := SV.Model.EsgzWriter.
Module WP := SV.Proofs.EsgzWriter.
Module LO := SV.Proofs.LandmarkOffsets.

Lemma map_enc_layout : forall (enc : item -> W.entry) G p R,
  map enc (map IEnt G ++ [ILand p] ++ map IEnt R)
  = map enc (map IEnt G) ++ enc (ILand p) :: map enc (map IEnt R).
Proof. intros. rewrite map_app. reflexivity. Qed.

Lemma sort_build_offsets :
  forall t prio allow out missed (enc : item -> W.entry) i chunk minc k cs fs b,
    sort_entries t prio allow = SOk out missed ->
    (forall p, LO.landmark_entry (enc (ILand p))) ->
    LO.pos_all cs ->
    W.build_blob i (W.MBuild k) chunk minc 0%N (map enc out) cs fs = W.Ok b ->
    let o := W.mkO chunk minc false in
    exists tg lt tr,
      W.b_toc b = tg ++ lt :: tr
      /\ map WP.strip tg = flat_map (WP.toc_spec o) (map enc (map IEnt (group_of out)))
      /\ [WP.strip lt] = WP.toc_spec o (enc (ILand (negb (is_nil prio))))
      /\ map WP.strip tr = flat_map (WP.toc_spec o) (map enc (map IEnt (rest_of out)))
      /\ W.is_data lt = true /\ W.t_inner lt = 0%N
      /\ (forall x, In x tg -> W.is_data x = true -> (W.t_off x < W.t_off lt)%N)
      /\ (forall x, In x tr -> W.is_data x = true -> (W.t_off lt <= W.t_off x)%N).
Proof.
  intros t prio allow out missed enc i chunk minc k cs fs b H L P B o.
  destruct (sort_ok_group _ _ _ _ _ H) as [_ [Eo _]].
  rewrite Eo in B. rewrite map_enc_layout in B.
  cbn [W.build_blob] in B.
  destruct (W.run_parts i (W.mkO chunk minc false)
              (W.workers_parts (W.mkO chunk minc false)
                 (map enc (map IEnt (group_of out)) ++ enc (ILand (negb (is_nil prio))) :: map enc (map IEnt (rest_of out))) k) cs fs)
    as [ws| |] eqn:R; try discriminate.
  cbn [W.bind] in B. injection B as <-.
  destruct (LO.parts_landmark _ _ _ _ _ _ _ _ _ (WP.workers_parts_concat _ _ _) R P (L _))
    as [tp [lt [tq [T [S1 [S2 [S3 [D [I0 [B1 B2]]]]]]]]]].
  exists tp, lt, tq. cbn [W.b_toc W.blob_of_build]. repeat split; assumption.
Qed.

(* a concrete encoding for the non-vacuity example: 700-byte regular files, hardlinks as header-only entries *)
Definition ex_enc (it : item) : W.entry :=
  match it with
  | IEnt e => W.mkE (N.of_nat (e_id e)) (N.of_nat (e_id e))
                    (match e_link e with Some _ => W.KMeta | None => W.KReg end) 700 512 false false
  | ILand _ => W.mkE 0 0 W.KReg 1 512 true true
  end.
