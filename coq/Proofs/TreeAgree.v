(* Tree agreement of the two metadata-store models on "simple" TOCs: every entry has an explicit parent
   directory entry before it (or lives at the top level), names are distinct, files have one chunk, no hardlinks. *)
From Coq Require Import List ZArith Bool Lia Arith.
From SV Require Import Model.TreeStores Proofs.TreeStores.
Import ListNotations.
Open Scope Z_scope.

Definition okt (t : etype) : bool :=
  match t with TDir | TReg | TSymlink | TChar | TBlock | TFifo => true | _ => false end.

Record entry_ok (e : entry) : Prop := {
  eo_type : okt (e_type e) = true;
  eo_perm : 0 <= e_perm e < 16777216;
  eo_name : clean (e_name e) <> [];
  eo_reg : e_type e = TReg ->
           0 <= e_size e /\ e_choff e = 0 /\ (e_chsize e = 0 \/ e_chsize e = e_size e)
           /\ (e_size e = 0 -> e_off e = 0);
  eo_nonreg : e_type e <> TReg -> e_off e = 0
}.

Definition cname (e : entry) : list Z := clean (e_name e).

Definition simple_toc (toc : list entry) : Prop :=
  Forall entry_ok toc /\
  NoDup (map cname toc) /\
  (forall i e, nth_error toc i = Some e ->
     tl (cname e) = [] \/
     exists k d, (k < i)%nat /\ nth_error toc k = Some d /\ cname d = tl (cname e)).

(* ---------- generic list facts ---------- *)

Lemma path_eqb_eq : forall a b, path_eqb a b = true <-> a = b.
Proof.
  induction a as [|x a IH]; destruct b as [|y b]; simpl; split; intro H; try reflexivity; try discriminate.
  - apply andb_true_iff in H. destruct H as [H1 H2]. apply Z.eqb_eq in H1. apply IH in H2. subst. reflexivity.
  - inversion H; subst. rewrite Z.eqb_refl. simpl. apply IH. reflexivity.
Qed.

Lemma path_eqb_refl : forall a, path_eqb a a = true.
Proof. intro a. apply path_eqb_eq. reflexivity. Qed.

Lemma path_eqb_neq : forall a b, a <> b -> path_eqb a b = false.
Proof. intros a b H. destruct (path_eqb a b) eqn:E; [apply path_eqb_eq in E; contradiction|reflexivity]. Qed.

Lemma pfind_nodup : forall {B} (L : list (list Z * B)) p v, NoDup (map fst L) -> In (p, v) L -> pfind p L = Some v.
Proof.
  induction L as [|[q w] t IH]; intros p v Hn Hin; [destruct Hin|].
  simpl in *. inversion Hn as [|? ? Hq Ht]; subst. destruct Hin as [Heq|Hin].
  - inversion Heq; subst. rewrite path_eqb_refl. reflexivity.
  - destruct (path_eqb p q) eqn:E.
    + apply path_eqb_eq in E. subst. exfalso. apply Hq. apply (in_map fst) in Hin. exact Hin.
    + exact (IH p v Ht Hin).
Qed.

Lemma pfind_none : forall {B} (L : list (list Z * B)) p, ~ In p (map fst L) -> pfind p L = None.
Proof.
  induction L as [|[q w] t IH]; intros p H; [reflexivity|]. simpl in *.
  rewrite path_eqb_neq by (intro; subst; apply H; left; reflexivity).
  apply IH. intro Hin. apply H. right. exact Hin.
Qed.

Lemma nth_upd_same : forall {B} (l : list B) i x, (i < length l)%nat -> nth_error (upd l i x) i = Some x.
Proof. induction l as [|h t IH]; intros i x H; simpl in *; [lia|]. destruct i; simpl; [reflexivity|apply IH; lia]. Qed.

Lemma nth_upd_other : forall {B} (l : list B) i j x, i <> j -> nth_error (upd l i x) j = nth_error l j.
Proof.
  induction l as [|h t IH]; intros i j x H; simpl; [reflexivity|].
  destruct i; destruct j; simpl; try reflexivity; try congruence. apply IH. congruence.
Qed.

Lemma upd_length : forall {B} (l : list B) i x, length (upd l i x) = length l.
Proof. induction l as [|h t IH]; intros i x; simpl; [reflexivity|]. destruct i; simpl; [reflexivity|rewrite IH; reflexivity]. Qed.

Lemma find_ins_same : forall {B} k (v : B) l, find k (ins k v l) = Some v.
Proof.
  induction l as [|[k' v'] t IH]; simpl; [rewrite Z.eqb_refl; reflexivity|].
  destruct (k <? k') eqn:E1; simpl; [rewrite Z.eqb_refl; reflexivity|].
  destruct (k =? k') eqn:E2; simpl; [rewrite Z.eqb_refl; reflexivity|]. rewrite E2. exact IH.
Qed.

Lemma find_ins_other : forall {B} k k2 (v : B) l, k2 <> k -> find k2 (ins k v l) = find k2 l.
Proof.
  induction l as [|[k' v'] t IH]; intros Hne; simpl.
  - destruct (k2 =? k) eqn:E; [apply Z.eqb_eq in E; contradiction|reflexivity].
  - destruct (k <? k') eqn:E1; simpl.
    + destruct (k2 =? k) eqn:E; [apply Z.eqb_eq in E; contradiction|reflexivity].
    + destruct (k =? k') eqn:E2; simpl.
      * apply Z.eqb_eq in E2. subst k'. destruct (k2 =? k) eqn:E; [apply Z.eqb_eq in E; contradiction|reflexivity].
      * destruct (k2 =? k'); [reflexivity|]. apply IH. exact Hne.
Qed.

Definition shift (l : list (Z * nat)) : list (Z * nat) := map (fun kc => (fst kc, S (snd kc))) l.

Lemma shift_ins : forall k v l, shift (ins k v l) = ins k (S v) (shift l).
Proof.
  induction l as [|[k' v'] t IH]; simpl; [reflexivity|].
  destruct (k <? k'); simpl; [reflexivity|]. destruct (k =? k'); simpl; [reflexivity|]. rewrite IH. reflexivity.
Qed.

(* ---------- pass 1 of the memory store on simple TOCs ---------- *)

Definition init_node (e : entry) : mnode := MN e (if etype_eqb (e_type e) TDir then 1 else 0) [].
Definition names_from (k : nat) (toc : list entry) : list (list Z * nat) :=
  map (fun ie : nat * entry => (cname (snd ie), fst ie)) (number k toc).

Lemma okt_not_chunk : forall e, okt (e_type e) = true -> etype_eqb (e_type e) TChunk = false.
Proof. intros e H. destruct (e_type e); simpl in *; congruence. Qed.

Lemma okt_not_hardlink : forall e, okt (e_type e) = true -> etype_eqb (e_type e) THardlink = false.
Proof. intros e H. destruct (e_type e); simpl in *; congruence. Qed.

Lemma reg_no_split : forall e, entry_ok e ->
  (etype_eqb (e_type e) TReg && (e_chsize e >? 0) && (e_chsize e <? e_size e)) = false.
Proof.
  intros e H. destruct (etype_eqb (e_type e) TReg) eqn:E; [|reflexivity].
  assert (Hr : e_type e = TReg) by (destruct (e_type e); simpl in E; congruence).
  destruct (eo_reg e H Hr) as [_ [_ [[Hc|Hc] _]]]; simpl.
  - rewrite Hc. reflexivity.
  - rewrite Hc. rewrite Z.ltb_irrefl. apply andb_false_r.
Qed.

Lemma pass1_simple : forall toc s, Forall entry_ok toc -> p1_chunks s = [] ->
  let s' := fold_left pass1_step toc s in
  p1_nodes s' = p1_nodes s ++ map init_node toc
  /\ p1_m s' = rev (names_from (length (p1_nodes s)) toc) ++ p1_m s
  /\ p1_chunks s' = [].
Proof.
  induction toc as [|e t IH]; intros s Hok Hc; cbn [fold_left].
  - simpl. rewrite app_nil_r. auto.
  - inversion Hok as [|? ? He Ht]; subst.
    assert (Hstep : pass1_step s e =
       P1 (p1_nodes s ++ [init_node e]) ((cname e, length (p1_nodes s)) :: p1_m s) [] (cname e)
          (if etype_eqb (e_type e) TReg then Some (e_size e) else p1_lastreg s)).
    { unfold pass1_step. rewrite (okt_not_chunk e (eo_type e He)). rewrite (reg_no_split e He). rewrite Hc. reflexivity. }
    rewrite Hstep. match goal with |- context [fold_left pass1_step t ?s1] => specialize (IH s1 Ht eq_refl) end.
    cbn [p1_nodes p1_m p1_chunks] in IH.
    destruct IH as [I1 [I2 I3]]. repeat split.
    + rewrite I1. rewrite <- app_assoc. reflexivity.
    + rewrite I2. rewrite app_length. simpl length. replace (length (p1_nodes s) + 1)%nat with (S (length (p1_nodes s))) by lia.
      unfold names_from. cbn [number map rev]. rewrite <- app_assoc. reflexivity.
    + exact I3.
Qed.

Lemma number_nth : forall {B} (l : list B) k i x, nth_error l i = Some x -> In ((k + i)%nat, x) (number k l).
Proof.
  induction l as [|h t IH]; intros k i x H; destruct i; simpl in *; try discriminate.
  - inversion H; subst. left. f_equal. lia.
  - right. replace (k + S i)%nat with (S k + i)%nat by lia. apply IH. exact H.
Qed.

Lemma number_fst_map : forall {B} (f : B -> list Z) (l : list B) k,
  map fst (map (fun ie : nat * B => (f (snd ie), fst ie)) (number k l)) = map f l.
Proof. induction l as [|h t IH]; intros k; simpl; [reflexivity|]. rewrite IH. reflexivity. Qed.

(* what the name map of pass 1 answers on a simple TOC *)
Lemma m0_lookup : forall toc i e, NoDup (map cname toc) -> nth_error toc i = Some e ->
  pfind (cname e) (rev (names_from 0 toc)) = Some i.
Proof.
  intros toc i e Hn Hi. apply pfind_nodup.
  - rewrite map_rev. apply NoDup_rev. unfold names_from. rewrite number_fst_map. exact Hn.
  - apply in_rev. rewrite rev_involutive. unfold names_from.
    apply (in_map (fun ie : nat * entry => (cname (snd ie), fst ie)) _ (i, e)).
    exact (number_nth toc 0%nat i e Hi).
Qed.

Lemma m0_no_root : forall toc, Forall entry_ok toc -> pfind [] (rev (names_from 0 toc)) = None.
Proof.
  intros toc Hok. apply pfind_none. rewrite map_rev. intro Hin. apply in_rev in Hin.
  unfold names_from in Hin. rewrite number_fst_map in Hin. apply in_map_iff in Hin. destruct Hin as [e [He Hin]].
  rewrite Forall_forall in Hok. exact (eo_name e (Hok e Hin) He).
Qed.

(* ---------- lookups of the db store under the two updates of one step ---------- *)

Lemma m_goc_found : forall s d k, pfind d (ms_m s) = Some k -> m_goc s d = (s, k).
Proof. intros s d k H. destruct d; simpl; rewrite H; reflexivity. Qed.

Lemma d_goc_found : forall s d k, d_find s d = Some k -> d_goc s d = (s, k).
Proof.
  intros s d k H. destruct d as [|b q].
  - simpl in *. inversion H. reflexivity.
  - cbn [d_goc]. rewrite H. reflexivity.
Qed.

Lemma d_find_cons : forall s b q, d_find s (b :: q) = match d_find s q with Some pid => find b (d_children s pid) | None => None end.
Proof. reflexivity. Qed.

Lemma d_children_app : forall s x y, (y < length (ds_nodes s))%nat ->
  d_children (d_set_nodes s (ds_nodes s ++ [x])) y = d_children s y.
Proof. intros s x y H. unfold d_children, d_set_nodes. simpl. rewrite nth_error_app1 by exact H. reflexivity. Qed.

Lemma d_find_app : forall s x, (forall q y, d_find s q = Some y -> (y < length (ds_nodes s))%nat) ->
  forall p, d_find (d_set_nodes s (ds_nodes s ++ [x])) p = d_find s p.
Proof.
  intros s x Hr. induction p as [|b q IH]; [reflexivity|].
  rewrite !d_find_cons, IH. destruct (d_find s q) as [y|] eqn:E; [|reflexivity].
  rewrite d_children_app by exact (Hr q y E). reflexivity.
Qed.

Lemma d_children_set_child : forall s pid base id isdir y, (pid < length (ds_nodes s))%nat ->
  d_children (d_set_child s pid base id isdir) y =
  if Nat.eqb y pid then ins base id (d_children s pid) else d_children s y.
Proof.
  intros s pid base id isdir y Hp. unfold d_set_child.
  destruct (nth_error (ds_nodes s) pid) as [n|] eqn:En; [|apply nth_error_None in En; lia].
  set (s1 := d_set_nodes s (upd (ds_nodes s) pid (DN (dn_b n) (ins base id (dn_ch n)) (dn_chunks n)))).
  assert (H1 : forall z, d_children s1 z = if Nat.eqb z pid then ins base id (d_children s pid) else d_children s z).
  { intro z. unfold d_children, s1, d_set_nodes. simpl. destruct (Nat.eqb z pid) eqn:E.
    - apply Nat.eqb_eq in E. subst z. rewrite nth_upd_same by exact Hp. rewrite En. reflexivity.
    - apply Nat.eqb_neq in E. rewrite nth_upd_other by congruence. reflexivity. }
  destruct isdir; [|apply H1].
  unfold d_upd_bucket. destruct (nth_error (ds_nodes s1) pid) as [n1|] eqn:En1; [|apply H1].
  rewrite <- H1. unfold d_children at 1. unfold d_set_nodes. simpl.
  destruct (Nat.eq_dec y pid) as [->|Hne].
  - rewrite nth_upd_same; [|unfold s1, d_set_nodes; simpl; rewrite upd_length; exact Hp].
    unfold d_children. rewrite En1. reflexivity.
  - rewrite nth_upd_other by congruence. reflexivity.
Qed.

Lemma d_find_link : forall s s' pid base id par,
  (forall y, d_children s' y = if Nat.eqb y pid then ins base id (d_children s pid) else d_children s y) ->
  d_find s par = Some pid ->
  (forall q, d_find s q = Some pid -> q = par) ->
  find base (d_children s pid) = None ->
  d_children s id = [] ->
  (forall q, d_find s q <> Some id) ->
  forall p, d_find s' p = if path_eqb p (base :: par) then Some id else d_find s p.
Proof.
  intros s s' pid base id par Hch Hpar Hinj Hnone Hkids Hfresh.
  assert (Hne : id <> pid) by (intro; subst; exact (Hfresh par Hpar)).
  induction p as [|b q IH]; [reflexivity|].
  rewrite d_find_cons, IH. rewrite d_find_cons.
  destruct (path_eqb q (base :: par)) eqn:Eq.
  - apply path_eqb_eq in Eq. subst q.
    rewrite Hch.
    replace (Nat.eqb id pid) with false by (symmetry; apply Nat.eqb_neq; exact Hne).
    rewrite Hkids. simpl find.
    rewrite path_eqb_neq.
    + rewrite d_find_cons, Hpar, Hnone. reflexivity.
    + intro H. apply (f_equal (@length Z)) in H. simpl in H. lia.
  - destruct (d_find s q) as [y|] eqn:Ey.
    + rewrite Hch. destruct (Nat.eqb y pid) eqn:Ey2.
      * apply Nat.eqb_eq in Ey2. subst y. assert (q = par) by exact (Hinj q Ey). subst q.
        simpl path_eqb. destruct (b =? base) eqn:Eb.
        -- apply Z.eqb_eq in Eb. subst b. rewrite path_eqb_refl. simpl. apply find_ins_same.
        -- simpl. apply find_ins_other. apply Z.eqb_neq. exact Eb.
      * rewrite path_eqb_neq; [reflexivity|].
        intro H. inversion H; subst. rewrite Hpar in Ey. inversion Ey; subst. rewrite Nat.eqb_refl in Ey2. discriminate.
    + rewrite path_eqb_neq; [reflexivity|].
      intro H. inversion H; subst. rewrite Hpar in Ey. discriminate.
Qed.

(* ---------- the simulation relation ---------- *)

Definition node_rel (mn : mnode) (dn : dnode) : Prop :=
  dn_b dn = write_attr (attr_of (mn_e mn) (mn_nlink mn)) /\ 1 <= mn_nlink mn /\
  dn_ch dn = shift (mn_ch mn) /\
  dn_chunks dn = (if etype_eqb (e_type (mn_e mn)) TReg && (e_size (mn_e mn) >? 0)
                  then [db_chunk (mn_e mn) (e_size (mn_e mn))] else []).

Record R (toc : list entry) (i : nat) (ms : mst) (ds : dst) : Prop := {
  r_len_m : length (ms_nodes ms) = S (length toc);
  r_len_d : length (ds_nodes ds) = S i;
  r_m : ms_m ms = ([], length toc) :: rev (names_from 0 toc);
  r_ent : forall j mn, (j < length toc)%nat -> nth_error (ms_nodes ms) j = Some mn -> nth_error toc j = Some (mn_e mn);
  r_root : exists mn dn, nth_error (ms_nodes ms) (length toc) = Some mn /\ mn_e mn = implicit_dir [] /\
                         nth_error (ds_nodes ds) 0 = Some dn /\ node_rel mn dn;
  r_todo : forall j mn, (i <= j < length toc)%nat -> nth_error (ms_nodes ms) j = Some mn ->
             mn_nlink mn = (if etype_eqb (e_type (mn_e mn)) TDir then 1 else 0) /\ mn_ch mn = [];
  r_done : forall j mn, (j < i)%nat -> nth_error (ms_nodes ms) j = Some mn ->
             exists dn, nth_error (ds_nodes ds) (S j) = Some dn /\ node_rel mn dn;
  r_kids : forall k mn kc, nth_error (ms_nodes ms) k = Some mn -> In kc (mn_ch mn) -> (snd kc < i)%nat;
  r_find : forall j e, (j < i)%nat -> nth_error toc j = Some e -> d_find ds (cname e) = Some (S j);
  r_inj : forall p x, d_find ds p = Some x ->
            (x = O /\ p = []) \/ (exists j e, x = S j /\ (j < i)%nat /\ nth_error toc j = Some e /\ p = cname e)
}.

Lemma in_ins : forall {B} k (v : B) l kc, In kc (ins k v l) -> kc = (k, v) \/ In kc l.
Proof.
  induction l as [|[k' v'] t IH]; intros kc H; simpl in H.
  - destruct H as [H|[]]; left; congruence.
  - destruct (k <? k'); simpl in H.
    + destruct H as [H|H]; [left; congruence|right; exact H].
    + destruct (k =? k'); simpl in H.
      * destruct H as [H|H]; [left; congruence|right; right; exact H].
      * destruct H as [H|H]; [right; left; exact H|]. destruct (IH kc H) as [H'|H']; [left; exact H'|right; right; exact H'].
Qed.

Lemma bump_write : forall e nl, 1 <= nl -> bump_nlink (write_attr (attr_of e nl)) = write_attr (attr_of e (nl + 1)).
Proof.
  intros e nl H. unfold bump_nlink, write_attr. simpl. f_equal.
  rewrite put_nz_dflt. unfold put_nz. replace (nl + 1 - 1) with nl by lia.
  replace (nl - 1 + 1) with nl by lia.
  destruct (nl =? 0) eqn:E; [apply Z.eqb_eq in E; lia|reflexivity].
Qed.

Lemma db_chsize_reg : forall e a b, etype_eqb (e_type e) TChunk = false -> db_chsize e a = db_chsize e b.
Proof. intros e a b H. unfold db_chsize. rewrite H. reflexivity. Qed.

(* initial states *)
Definition ms_start (toc : list entry) : mst :=
  MS (map init_node toc ++ [MN (implicit_dir []) 2 []]) (([], length toc) :: rev (names_from 0 toc)).

Lemma R_start : forall toc, Forall entry_ok toc -> R toc 0 (ms_start toc) d_init.
Proof.
  intros toc Hok. constructor.
  - unfold ms_start. simpl. rewrite app_length, map_length. simpl. lia.
  - reflexivity.
  - reflexivity.
  - intros j mn Hj Hn. unfold ms_start in Hn. simpl in Hn. rewrite nth_error_app1 in Hn by (rewrite map_length; exact Hj).
    rewrite nth_error_map in Hn. destruct (nth_error toc j); simpl in Hn; inversion Hn; subst. reflexivity.
  - exists (MN (implicit_dir []) 2 []), (DN (write_attr root_attr) [] []). repeat split.
    + unfold ms_start. simpl. rewrite nth_error_app2 by (rewrite map_length; lia). rewrite map_length, Nat.sub_diag. reflexivity.
    + simpl. lia.
  - intros j mn Hj Hn. unfold ms_start in Hn. simpl in Hn. rewrite nth_error_app1 in Hn by (rewrite map_length; lia).
    rewrite nth_error_map in Hn. destruct (nth_error toc j); simpl in Hn; inversion Hn; subst. split; reflexivity.
  - intros j mn Hj. lia.
  - intros k mn kc Hn Hin. unfold ms_start in Hn. simpl in Hn.
    destruct (Nat.lt_ge_cases k (length toc)) as [Hk|Hk].
    + rewrite nth_error_app1 in Hn by (rewrite map_length; exact Hk).
      rewrite nth_error_map in Hn. destruct (nth_error toc k); simpl in Hn; inversion Hn; subst. destruct Hin.
    + rewrite nth_error_app2 in Hn by (rewrite map_length; exact Hk). rewrite map_length in Hn.
      destruct (k - length toc)%nat as [|m]; simpl in Hn; [inversion Hn; subst; destruct Hin|destruct m; discriminate].
  - intros j e Hj. lia.
  - intros p x H. left. destruct p as [|b q]; [simpl in H; inversion H; auto|].
    exfalso. rewrite d_find_cons in H. destruct (d_find d_init q) as [y|] eqn:E; [|discriminate].
    assert (Hy : d_children d_init y = []).
    { unfold d_children, d_init. simpl. destruct y as [|y]; [reflexivity|]. destruct y; reflexivity. }
    rewrite Hy in H. discriminate.
Qed.

(* ---------- one step of the memory store, explicitly ---------- *)

Lemma mem_step : forall ms i kp base mni mnp, kp <> i ->
  nth_error (ms_nodes ms) i = Some mni -> nth_error (ms_nodes ms) kp = Some mnp ->
  let ms' := m_add_child (m_nlink_inc ms i) kp base i in
  let isdir := etype_eqb (e_type (mn_e mni)) TDir in
  ms_m ms' = ms_m ms /\ length (ms_nodes ms') = length (ms_nodes ms) /\
  nth_error (ms_nodes ms') i = Some (MN (mn_e mni) (mn_nlink mni + 1) (mn_ch mni)) /\
  nth_error (ms_nodes ms') kp =
    Some (MN (mn_e mnp) (if isdir then mn_nlink mnp + 1 else mn_nlink mnp) (ins base i (mn_ch mnp))) /\
  (forall z, z <> i -> z <> kp -> nth_error (ms_nodes ms') z = nth_error (ms_nodes ms) z).
Proof.
  intros ms i kp base mni mnp Hne Hi Hp ms' isdir.
  assert (Li : (i < length (ms_nodes ms))%nat) by (apply nth_error_Some; congruence).
  assert (Lp : (kp < length (ms_nodes ms))%nat) by (apply nth_error_Some; congruence).
  set (s2 := m_nlink_inc ms i).
  assert (H2 : s2 = MS (upd (ms_nodes ms) i (MN (mn_e mni) (mn_nlink mni + 1) (mn_ch mni))) (ms_m ms))
    by (unfold s2, m_nlink_inc; rewrite Hi; reflexivity).
  assert (T2 : m_type s2 i = e_type (mn_e mni))
    by (unfold m_type; rewrite H2; simpl; rewrite nth_upd_same by exact Li; reflexivity).
  assert (P2 : nth_error (ms_nodes s2) kp = Some mnp)
    by (rewrite H2; simpl; rewrite nth_upd_other by congruence; exact Hp).
  unfold ms', m_add_child. fold s2. rewrite T2. fold isdir.
  set (s3 := if isdir then m_nlink_inc s2 kp else s2).
  assert (H3 : ms_m s3 = ms_m ms /\ length (ms_nodes s3) = length (ms_nodes ms) /\
               nth_error (ms_nodes s3) kp = Some (MN (mn_e mnp) (if isdir then mn_nlink mnp + 1 else mn_nlink mnp) (mn_ch mnp)) /\
               (forall z, z <> kp -> nth_error (ms_nodes s3) z = nth_error (ms_nodes s2) z)).
  { unfold s3. destruct isdir.
    - unfold m_nlink_inc. rewrite P2. simpl. rewrite H2. simpl. rewrite !upd_length. repeat split.
      + rewrite nth_upd_same by (rewrite upd_length; exact Lp). reflexivity.
      + intros z Hz. rewrite nth_upd_other by congruence. reflexivity.
    - rewrite H2. simpl. rewrite upd_length. repeat split.
      + rewrite nth_upd_other by congruence. rewrite Hp. destruct mnp; reflexivity.
  }
  destruct H3 as [M3 [L3 [P3 O3]]]. rewrite P3. simpl. rewrite upd_length. repeat split.
  - exact M3.
  - exact L3.
  - rewrite nth_upd_other by congruence. rewrite O3 by congruence. rewrite H2. simpl. apply nth_upd_same. exact Li.
  - rewrite nth_upd_same by (rewrite L3; exact Lp). reflexivity.
  - intros z Hz1 Hz2. rewrite nth_upd_other by congruence. rewrite O3 by congruence. rewrite H2. simpl.
    apply nth_upd_other. congruence.
Qed.

(* ---------- one step of the db store, explicitly ---------- *)

Lemma nth_set_nodes : forall s ns z, nth_error (ds_nodes (d_set_nodes s ns)) z = nth_error ns z.
Proof. reflexivity. Qed.

Lemma d_add_chunk_nodes : forall s e cs id n, ds_last s = Some id -> nth_error (ds_nodes s) id = Some n ->
  etype_eqb (e_type e) TChunk = false ->
  ds_nodes (d_add_chunk s e cs) =
    if etype_eqb (e_type e) TReg && (e_size e >? 0)
    then upd (ds_nodes s) id (DN (dn_b n) (dn_ch n) (dn_chunks n ++ [CH (e_choff e) cs (mem_dg e) (e_off e)]))
    else ds_nodes s.
Proof.
  intros s e cs id n Hl Hn Hc. unfold d_add_chunk. rewrite Hc, andb_false_l, orb_false_r.
  destruct (etype_eqb (e_type e) TReg && (e_size e >? 0)); [|reflexivity]. rewrite Hl, Hn. reflexivity.
Qed.

Lemma db_step_simple : forall ds e base par pid dnp,
  entry_ok e -> cname e = base :: par ->
  (etype_eqb (e_type e) TDir = true -> d_find ds (cname e) = None) ->
  d_find ds par = Some pid -> nth_error (ds_nodes ds) pid = Some dnp ->
  (forall q y, d_find ds q = Some y -> (y < length (ds_nodes ds))%nat) ->
  let id := length (ds_nodes ds) in
  let isdir := etype_eqb (e_type e) TDir in
  exists ds', db_step (Some ds) e = Some ds' /\
    length (ds_nodes ds') = S id /\
    nth_error (ds_nodes ds') id =
      Some (DN (write_attr (attr_of e (if isdir then 2 else 1))) []
               (if etype_eqb (e_type e) TReg && (e_size e >? 0) then [db_chunk e (e_size e)] else [])) /\
    nth_error (ds_nodes ds') pid =
      Some (DN (if isdir then bump_nlink (dn_b dnp) else dn_b dnp) (ins base id (dn_ch dnp)) (dn_chunks dnp)) /\
    (forall z, z <> id -> z <> pid -> nth_error (ds_nodes ds') z = nth_error (ds_nodes ds) z).
Proof.
  intros ds e base par pid dnp He Hname Hnodir Hpar Hdnp Hrange id isdir.
  assert (Lp : (pid < id)%nat) by (apply nth_error_Some; congruence).
  unfold db_step. unfold cname in Hname. rewrite Hname.
  rewrite (okt_not_chunk e (eo_type e He)). rewrite (okt_not_hardlink e (eo_type e He)).
  fold isdir.
  assert (Hr : (if isdir then d_find ds (base :: par) else None) = None).
  { destruct isdir eqn:E; [|reflexivity]. unfold cname in Hnodir. rewrite Hname in Hnodir. apply Hnodir. exact E. }
  rewrite Hr. unfold d_new. fold id.
  set (newn := DN (write_attr (attr_of e (if isdir then 2 else 1))) [] []).
  set (s1 := d_set_nodes ds (ds_nodes ds ++ [newn])).
  assert (Hf1 : d_find s1 par = Some pid) by (unfold s1; rewrite d_find_app by exact Hrange; exact Hpar).
  rewrite (d_goc_found s1 par pid Hf1).
  set (s2 := d_set_child s1 pid base id isdir).
  (* nodes of s2 *)
  assert (L1 : length (ds_nodes s1) = S id) by (unfold s1; simpl; rewrite app_length; simpl; lia).
  assert (N1p : nth_error (ds_nodes s1) pid = Some dnp)
    by (unfold s1; simpl; rewrite nth_error_app1 by exact Lp; exact Hdnp).
  assert (N1i : nth_error (ds_nodes s1) id = Some newn)
    by (unfold s1; simpl; rewrite nth_error_app2 by (unfold id; lia); unfold id; rewrite Nat.sub_diag; reflexivity).
  assert (H2 : length (ds_nodes s2) = S id /\
               nth_error (ds_nodes s2) id = Some newn /\
               nth_error (ds_nodes s2) pid = Some (DN (if isdir then bump_nlink (dn_b dnp) else dn_b dnp) (ins base id (dn_ch dnp)) (dn_chunks dnp)) /\
               (forall z, z <> pid -> nth_error (ds_nodes s2) z = nth_error (ds_nodes s1) z)).
  { unfold s2, d_set_child. rewrite N1p.
    set (sa := d_set_nodes s1 (upd (ds_nodes s1) pid (DN (dn_b dnp) (ins base id (dn_ch dnp)) (dn_chunks dnp)))).
    assert (La : length (ds_nodes sa) = S id) by (unfold sa; unfold d_set_nodes; cbn [ds_nodes]; rewrite upd_length; exact L1).
    assert (Nap : nth_error (ds_nodes sa) pid = Some (DN (dn_b dnp) (ins base id (dn_ch dnp)) (dn_chunks dnp)))
      by (unfold sa; rewrite nth_set_nodes; apply nth_upd_same; rewrite L1; lia).
    assert (Nao : forall z, z <> pid -> nth_error (ds_nodes sa) z = nth_error (ds_nodes s1) z)
      by (intros z Hz; unfold sa; rewrite nth_set_nodes; apply nth_upd_other; congruence).
    destruct isdir.
    - unfold d_upd_bucket. rewrite Nap. cbn [d_set_nodes ds_nodes dn_b dn_ch dn_chunks]. rewrite upd_length. repeat split.
      + exact La.
      + rewrite nth_upd_other by lia. rewrite Nao by lia. exact N1i.
      + apply nth_upd_same. rewrite La. lia.
      + intros z Hz. rewrite nth_upd_other by congruence. apply Nao. exact Hz.
    - repeat split; [exact La|rewrite Nao by lia; exact N1i|exact Nap|exact Nao]. }
  destruct H2 as [L2 [N2i [N2p N2o]]].
  set (s3 := DS (ds_nodes s2) (Some id) (e_size e)).
  exists (d_add_chunk s3 e (db_chsize e (ds_lastsize ds))). split; [reflexivity|].
  assert (Tail : forall z, z <> id -> nth_error (ds_nodes s1) z = nth_error (ds_nodes ds) z).
  { intros z Hz. unfold s1. rewrite nth_set_nodes. destruct (Nat.lt_ge_cases z id) as [Hlt|Hge].
    - rewrite nth_error_app1 by exact Hlt. reflexivity.
    - assert (Hn : nth_error (ds_nodes ds) z = None) by (apply nth_error_None; exact Hge).
      rewrite Hn. apply nth_error_None. rewrite app_length. simpl. unfold id in *. lia. }
  rewrite (d_add_chunk_nodes s3 e _ id newn eq_refl N2i (okt_not_chunk e (eo_type e He))).
  destruct (etype_eqb (e_type e) TReg && (e_size e >? 0)) eqn:Ereg.
  - rewrite upd_length. cbn [ds_nodes s3]. repeat split.
    + exact L2.
    + rewrite nth_upd_same by (rewrite L2; lia). unfold newn, db_chunk. cbn [dn_b dn_ch dn_chunks app].
      rewrite (db_chsize_reg e (ds_lastsize ds) (e_size e) (okt_not_chunk e (eo_type e He))). reflexivity.
    + rewrite nth_upd_other by lia. exact N2p.
    + intros z Hz1 Hz2. rewrite nth_upd_other by congruence. rewrite N2o by exact Hz2. apply Tail. exact Hz1.
  - cbn [ds_nodes s3]. repeat split.
    + exact L2.
    + exact N2i.
    + exact N2p.
    + intros z Hz1 Hz2. rewrite N2o by exact Hz2. apply Tail. exact Hz1.
Qed.

(* ---------- the step preserves the relation ---------- *)

Lemma names_inj : forall toc i j e e', NoDup (map cname toc) ->
  nth_error toc i = Some e -> nth_error toc j = Some e' -> cname e = cname e' -> i = j.
Proof.
  intros toc i j e e' Hn Hi Hj Heq.
  assert (Li : (i < length (map cname toc))%nat) by (rewrite map_length; apply nth_error_Some; congruence).
  apply (proj1 (NoDup_nth_error (map cname toc)) Hn i j Li).
  rewrite !nth_error_map, Hi, Hj. simpl. rewrite Heq. reflexivity.
Qed.

Lemma node_rel_child : forall mnp dnp base i (isdir : bool),
  node_rel mnp dnp ->
  node_rel (MN (mn_e mnp) (if isdir then mn_nlink mnp + 1 else mn_nlink mnp) (ins base i (mn_ch mnp)))
           (DN (if isdir then bump_nlink (dn_b dnp) else dn_b dnp) (ins base (S i) (dn_ch dnp)) (dn_chunks dnp)).
Proof.
  intros mnp dnp base i isdir [Hb [Hn [Hc Hk]]]. unfold node_rel. cbn [mn_e mn_nlink mn_ch dn_b dn_ch dn_chunks].
  repeat split.
  - destruct isdir; [rewrite Hb; apply bump_write; exact Hn|exact Hb].
  - destruct isdir; lia.
  - rewrite Hc. symmetry. apply shift_ins.
  - exact Hk.
Qed.

Lemma R_step : forall toc i ms ds e, simple_toc toc -> R toc i ms ds -> nth_error toc i = Some e ->
  exists ms' ds', pass2_step (Some ms) (i, e) = Some ms' /\ db_step (Some ds) e = Some ds' /\ R toc (S i) ms' ds'.
Proof.
  intros toc i ms ds e [Hok [Hnd Hpar]] HR Hi.
  assert (Li : (i < length toc)%nat) by (apply nth_error_Some; congruence).
  assert (He : entry_ok e) by (rewrite Forall_forall in Hok; apply Hok; eapply nth_error_In; eauto).
  destruct (cname e) as [|base par] eqn:Hname; [exfalso; exact (eo_name e He Hname)|].
  destruct (nth_error (ms_nodes ms) i) as [mni|] eqn:Hmni;
    [|apply nth_error_None in Hmni; rewrite (r_len_m _ _ _ _ HR) in Hmni; lia].
  pose proof (r_ent _ _ _ _ HR i mni Li Hmni) as Hei. rewrite Hi in Hei.
  assert (Hei' : mn_e mni = e) by (inversion Hei; reflexivity). clear Hei.
  destruct (r_todo _ _ _ _ HR i mni (conj (le_n i) Li) Hmni) as [Hnl Hch].
  rewrite Hei' in Hnl.
  assert (Hparent : exists kp pid mnp dnp, pfind par (ms_m ms) = Some kp /\ d_find ds par = Some pid /\
      nth_error (ms_nodes ms) kp = Some mnp /\ nth_error (ds_nodes ds) pid = Some dnp /\ node_rel mnp dnp /\
      ((kp = length toc /\ pid = O) \/ (kp < i /\ pid = S kp)%nat)).
  { destruct (Hpar i e Hi) as [Htl|[k [d [Hk [Hd Hdn]]]]].
    - rewrite Hname in Htl. simpl in Htl. subst par.
      destruct (r_root _ _ _ _ HR) as [mn [dn [H1 [H2 [H3 H4]]]]].
      exists (length toc), O, mn, dn. rewrite (r_m _ _ _ _ HR). simpl.
      split; [reflexivity|]. split; [reflexivity|]. split; [exact H1|]. split; [exact H3|]. split; [exact H4|]. left. split; reflexivity.
    - rewrite Hname in Hdn. simpl in Hdn.
      assert (Hd_ok : entry_ok d) by (rewrite Forall_forall in Hok; apply Hok; eapply nth_error_In; eauto).
      assert (Hpne : par <> []) by (rewrite <- Hdn; exact (eo_name d Hd_ok)).
      destruct (nth_error (ms_nodes ms) k) as [mnk|] eqn:Hmnk;
        [|apply nth_error_None in Hmnk; rewrite (r_len_m _ _ _ _ HR) in Hmnk; lia].
      destruct (r_done _ _ _ _ HR k mnk Hk Hmnk) as [dnk [Hdnk Hrelk]].
      exists k, (S k), mnk, dnk.
      split; [|split; [|split; [exact Hmnk|split; [exact Hdnk|split; [exact Hrelk|right; split; [exact Hk|reflexivity]]]]]].
      + rewrite (r_m _ _ _ _ HR). simpl. rewrite (path_eqb_neq par [] Hpne). rewrite <- Hdn.
        apply m0_lookup; assumption.
      + rewrite <- Hdn. apply (r_find _ _ _ _ HR); assumption. }
  destruct Hparent as [kp [pid [mnp [dnp [Hpf [Hdf [Hmnp [Hdnp [Hrel Hcase]]]]]]]]].
  assert (Hkpi : kp <> i) by (destruct Hcase as [[-> _]|[H _]]; lia).
  pose proof (mem_step ms i kp base mni mnp Hkpi Hmni Hmnp) as HM. cbv zeta in HM.
  set (ms' := m_add_child (m_nlink_inc ms i) kp base i) in *.
  destruct HM as [Mm [Ml [Mi [Mp Mo]]]]. rewrite Hei' in Mi, Mp.
  assert (Hrange : forall q y, d_find ds q = Some y -> (y < length (ds_nodes ds))%nat).
  { intros q y Hq. rewrite (r_len_d _ _ _ _ HR). destruct (r_inj _ _ _ _ HR q y Hq) as [[-> _]|[j [e' [-> [Hj _]]]]]; lia. }
  assert (Hfresh_name : d_find ds (base :: par) = None).
  { destruct (d_find ds (base :: par)) as [x|] eqn:Ex; [|reflexivity]. exfalso.
    destruct (r_inj _ _ _ _ HR _ x Ex) as [[_ Hp]|[j [e' [_ [Hj [Hje Hp]]]]]]; [discriminate|].
    rewrite <- Hname in Hp. assert (i = j) by exact (names_inj toc i j e e' Hnd Hi Hje Hp). lia. }
  assert (Hnodir : etype_eqb (e_type e) TDir = true -> d_find ds (cname e) = None) by (intros _; rewrite Hname; exact Hfresh_name).
  destruct (db_step_simple ds e base par pid dnp He Hname Hnodir Hdf Hdnp Hrange) as [ds' [Hstep [Ld [Nid [Npid Noth]]]]].
  rewrite (r_len_d _ _ _ _ HR) in Ld, Nid, Npid, Noth.
  assert (Lpid : (pid < S i)%nat) by (destruct Hcase as [[_ ->]|[H ->]]; lia).
  (* lookups of the new db state *)
  assert (Hch' : forall y, d_children ds' y = if Nat.eqb y pid then ins base (S i) (d_children ds pid) else d_children ds y).
  { intro y. unfold d_children. destruct (Nat.eqb y pid) eqn:Ey.
    - apply Nat.eqb_eq in Ey. subst y. rewrite Npid, Hdnp. reflexivity.
    - apply Nat.eqb_neq in Ey. destruct (Nat.eq_dec y (S i)) as [->|Hy].
      + rewrite Nid. assert (Hn : nth_error (ds_nodes ds) (S i) = None) by (apply nth_error_None; rewrite (r_len_d _ _ _ _ HR); lia).
        rewrite Hn. reflexivity.
      + rewrite Noth by assumption. reflexivity. }
  assert (Hfind' : forall p, d_find ds' p = if path_eqb p (base :: par) then Some (S i) else d_find ds p).
  { apply (d_find_link ds ds' pid base (S i) par Hch' Hdf).
    - intros q Hq. destruct (r_inj _ _ _ _ HR q pid Hq) as [[Hp0 ->]|[j [e' [Hpj [Hj [Hje ->]]]]]].
      + destruct (r_inj _ _ _ _ HR par pid Hdf) as [[_ ->]|[j [e' [Hpj _]]]]; [reflexivity|lia].
      + destruct (r_inj _ _ _ _ HR par pid Hdf) as [[Hp0 _]|[j2 [e2 [Hpj2 [Hj2 [Hje2 ->]]]]]]; [lia|].
        assert (j = j2) by lia. subst j2. rewrite Hje in Hje2. inversion Hje2. reflexivity.
    - pose proof Hfresh_name as Hx. rewrite d_find_cons, Hdf in Hx. exact Hx.
    - unfold d_children. assert (Hn : nth_error (ds_nodes ds) (S i) = None) by (apply nth_error_None; rewrite (r_len_d _ _ _ _ HR); lia).
      rewrite Hn. reflexivity.
    - intros q Hq. apply Hrange in Hq. rewrite (r_len_d _ _ _ _ HR) in Hq. lia. }
  exists ms', ds'. split; [|split; [exact Hstep|]].
  { unfold pass2_step. rewrite (okt_not_chunk e (eo_type e He)). unfold cname in Hname. rewrite Hname.
    rewrite (m_goc_found ms par kp Hpf). rewrite (okt_not_hardlink e (eo_type e He)). reflexivity. }
  set (isdir := etype_eqb (e_type e) TDir) in *.
  assert (Hrel' : node_rel (MN (mn_e mnp) (if isdir then mn_nlink mnp + 1 else mn_nlink mnp) (ins base i (mn_ch mnp)))
                           (DN (if isdir then bump_nlink (dn_b dnp) else dn_b dnp) (ins base (S i) (dn_ch dnp)) (dn_chunks dnp)))
    by (apply node_rel_child; exact Hrel).
  constructor.
  - rewrite Ml. exact (r_len_m _ _ _ _ HR).
  - exact Ld.
  - rewrite Mm. exact (r_m _ _ _ _ HR).
  - intros j mn Hj Hn. destruct (Nat.eq_dec j i) as [->|Hji].
    + rewrite Mi in Hn. inversion Hn; subst. simpl. exact Hi.
    + destruct (Nat.eq_dec j kp) as [->|Hjk].
      * rewrite Mp in Hn. inversion Hn; subst. simpl. exact (r_ent _ _ _ _ HR kp mnp Hj Hmnp).
      * rewrite Mo in Hn by assumption. exact (r_ent _ _ _ _ HR j mn Hj Hn).
  - destruct Hcase as [[Hk Hp]|[Hk Hp]].
    + subst kp pid. destruct (r_root _ _ _ _ HR) as [mn [dn [H1 [H2 [H3 H4]]]]].
      rewrite Hmnp in H1. inversion H1; subst mn.
      eexists. eexists. split; [exact Mp|]. split; [exact H2|]. split; [exact Npid|exact Hrel'].
    + destruct (r_root _ _ _ _ HR) as [mn [dn [H1 [H2 [H3 H4]]]]].
      exists mn, dn. split; [rewrite Mo by lia; exact H1|]. split; [exact H2|]. split; [rewrite Noth by lia; exact H3|exact H4].
  - intros j mn Hj Hn. rewrite Mo in Hn by (destruct Hcase as [[-> _]|[H _]]; lia).
    apply (r_todo _ _ _ _ HR j mn); [lia|exact Hn].
  - intros j mn Hj Hn. destruct (Nat.eq_dec j i) as [->|Hji].
    + rewrite Mi in Hn. inversion Hn; subst mn. eexists. split; [exact Nid|].
      unfold node_rel. cbn [mn_e mn_nlink mn_ch dn_b dn_ch dn_chunks]. rewrite Hnl, Hch. fold isdir.
      repeat split; destruct isdir; try reflexivity; lia.
    + destruct (Nat.eq_dec j kp) as [->|Hjk].
      * rewrite Mp in Hn. inversion Hn; subst mn.
        destruct Hcase as [[Hk _]|[_ Hp]]; [lia|]. subst pid. eexists. split; [exact Npid|exact Hrel'].
      * rewrite Mo in Hn by assumption. destruct (r_done _ _ _ _ HR j mn ltac:(lia) Hn) as [dn [Hdn Hr]].
        exists dn. split; [|exact Hr]. rewrite Noth; [exact Hdn|lia|].
        destruct Hcase as [[_ ->]|[_ ->]]; lia.
  - intros k mn kc Hn Hin. destruct (Nat.eq_dec k i) as [->|Hki].
    + rewrite Mi in Hn. inversion Hn; subst mn. simpl in Hin. rewrite Hch in Hin. destruct Hin.
    + destruct (Nat.eq_dec k kp) as [->|Hkk].
      * rewrite Mp in Hn. inversion Hn; subst mn. simpl in Hin. apply in_ins in Hin. destruct Hin as [->|Hin]; [simpl; lia|].
        pose proof (r_kids _ _ _ _ HR kp mnp kc Hmnp Hin). lia.
      * rewrite Mo in Hn by assumption. pose proof (r_kids _ _ _ _ HR k mn kc Hn Hin). lia.
  - intros j e' Hj Hje. rewrite Hfind'. destruct (Nat.eq_dec j i) as [->|Hji].
    + rewrite Hi in Hje. inversion Hje; subst e'. rewrite Hname, path_eqb_refl. reflexivity.
    + rewrite path_eqb_neq.
      * apply (r_find _ _ _ _ HR); [lia|exact Hje].
      * intro Heq. rewrite <- Hname in Heq. apply Hji. exact (names_inj toc j i e' e Hnd Hje Hi Heq).
  - intros p x Hp. rewrite Hfind' in Hp. destruct (path_eqb p (base :: par)) eqn:Ep.
    + apply path_eqb_eq in Ep. subst p. inversion Hp as [Hx]. right. exists i, e. repeat split; auto.
    + destruct (r_inj _ _ _ _ HR p x Hp) as [H0|[j [e' [Hx [Hj [Hje Hpe]]]]]]; [left; exact H0|].
      right. exists j, e'. repeat split; auto.
Qed.

(* ---------- running both interpreters over the whole TOC ---------- *)

Lemma R_run : forall toc, simple_toc toc -> forall suffix i ms ds, R toc i ms ds ->
  (forall k e, nth_error suffix k = Some e -> nth_error toc (i + k) = Some e) ->
  (length suffix + i = length toc)%nat ->
  exists ms' ds', fold_left pass2_step (number i suffix) (Some ms) = Some ms' /\
                  fold_left db_step suffix (Some ds) = Some ds' /\ R toc (length toc) ms' ds'.
Proof.
  intros toc Hs. induction suffix as [|e t IH]; intros i ms ds HR Hnth Hlen.
  - simpl in *. subst i. exists ms, ds. auto.
  - assert (Hi : nth_error toc i = Some e) by (rewrite <- (Nat.add_0_r i); apply Hnth; reflexivity).
    destruct (R_step toc i ms ds e Hs HR Hi) as [ms1 [ds1 [H1 [H2 HR1]]]].
    cbn [number fold_left]. rewrite H1, H2. apply (IH (S i) ms1 ds1 HR1).
    + intros k e' Hk. replace (S i + k)%nat with (i + S k)%nat by lia. apply Hnth. exact Hk.
    + simpl in Hlen. lia.
Qed.

Lemma builds_simple : forall toc, simple_toc toc ->
  exists ms ds, mem_build toc = Some (ms, []) /\ db_build toc = Some ds /\ R toc (length toc) ms ds.
Proof.
  intros toc Hs. pose proof Hs as [Hok [Hnd Hpar]].
  destruct (pass1_simple toc (P1 [] [] [] [] None) Hok eq_refl) as [P1n [P1m P1c]].
  cbn [p1_nodes p1_m app length] in P1n, P1m. rewrite app_nil_r in P1m.
  unfold mem_build. fold (pass1 toc) in P1n, P1m, P1c. rewrite P1n, P1m, P1c.
  destruct toc as [|e0 t].
  - exists (ms_start []), d_init. split; [reflexivity|]. split; [reflexivity|]. apply R_start. constructor.
  - set (toc := e0 :: t) in *.
    assert (He0 : entry_ok e0) by (inversion Hok; assumption).
    (* the first step creates the root: same result as starting with the root in place *)
    assert (Hfirst : pass2_step (Some (MS (map init_node toc) (rev (names_from 0 toc)))) (0%nat, e0)
                     = pass2_step (Some (ms_start toc)) (0%nat, e0)).
    { unfold pass2_step. rewrite (okt_not_chunk e0 (eo_type e0 He0)).
      destruct (clean (e_name e0)) as [|base par] eqn:Hn; [exfalso; exact (eo_name e0 He0 Hn)|].
      assert (par = []).
      { destruct (Hpar 0%nat e0 eq_refl) as [Htl|[k [d [Hk _]]]]; [|lia]. unfold cname in Htl. rewrite Hn in Htl. exact Htl. }
      subst par. cbn [m_goc ms_m]. rewrite (m0_no_root toc Hok).
      unfold ms_start at 1. cbn [m_goc ms_m pfind]. rewrite path_eqb_refl. cbn [ms_nodes]. rewrite map_length.
      reflexivity. }
    destruct (R_run toc Hs toc 0%nat (ms_start toc) d_init (R_start toc Hok)) as [ms [ds [Hm [Hd HR]]]];
      [intros k e Hk; exact Hk|lia|].
    exists ms, ds. split; [|split; [exact Hd|exact HR]].
    unfold toc at 1. cbn [number fold_left]. fold toc. rewrite Hfirst.
    unfold toc in Hm at 1. cbn [number fold_left] in Hm. fold toc in Hm. rewrite Hm.
    rewrite (r_m _ _ _ _ HR). reflexivity.
Qed.

(* ---------- the two walks show the same nodes ---------- *)

Definition phi (n k : nat) : nat := if Nat.eqb k n then O else S k.

Lemma phi_inj : forall n a b, phi n a = phi n b -> a = b.
Proof.
  intros n a b. unfold phi. destruct (Nat.eqb a n) eqn:Ea; destruct (Nat.eqb b n) eqn:Eb; intro H; try discriminate.
  - apply Nat.eqb_eq in Ea. apply Nat.eqb_eq in Eb. congruence.
  - congruence.
Qed.

Definition relabel (f : nat -> nat) (l : list rnode) : list rnode := map (fun r => (f (fst r), snd r)) l.

Lemma first_index_relabel : forall f, (forall a b, f a = f b -> a = b) ->
  forall l id n0, first_index (f id) (relabel f l) n0 = first_index id l n0.
Proof.
  intros f Hinj. induction l as [|[id' v] t IH]; intros id n0; simpl; [reflexivity|].
  destruct (Nat.eqb id id') eqn:E.
  - apply Nat.eqb_eq in E. subst. rewrite Nat.eqb_refl. reflexivity.
  - replace (Nat.eqb (f id) (f id')) with false.
    + apply IH.
    + symmetry. apply Nat.eqb_neq. intro H. apply Hinj in H. subst. rewrite Nat.eqb_refl in E. discriminate.
Qed.

Lemma assign_inos_relabel : forall f, (forall a b, f a = f b -> a = b) ->
  forall l, assign_inos (relabel f l) = assign_inos l.
Proof.
  intros f Hinj l. unfold assign_inos.
  assert (H : forall L0 l0,
    map (fun r : rnode => let '(id, v) := r in
           V (v_path v) (v_attr v) (v_off v) (first_index id (relabel f L0) 0) (v_reg v) (v_probes v)) (relabel f l0)
    = map (fun r : rnode => let '(id, v) := r in
           V (v_path v) (v_attr v) (v_off v) (first_index id L0 0) (v_reg v) (v_probes v)) l0).
  { intros L0. induction l0 as [|[id v] t IH]; [reflexivity|]. cbn [relabel map fst snd].
    rewrite (first_index_relabel f Hinj). f_equal. exact IH. }
  apply H.
Qed.

(* what both stores need of an entry to show the same node (true of every entry of a simple TOC and of the implicit root) *)
Record show_ok (e : entry) : Prop := {
  so_type : okt (e_type e) = true;
  so_perm : 0 <= e_perm e < 16777216;
  so_reg : e_type e = TReg ->
           0 <= e_size e /\ e_choff e = 0 /\ (e_chsize e = 0 \/ e_chsize e = e_size e)
           /\ (e_size e = 0 -> e_off e = 0);
  so_nonreg : e_type e <> TReg -> e_off e = 0
}.

Lemma show_ok_entry : forall e, entry_ok e -> show_ok e.
Proof. intros e [H1 H2 H3 H4 H5]. constructor; assumption. Qed.

Lemma show_ok_root : show_ok (implicit_dir []).
Proof. constructor; simpl; try reflexivity; try lia; intro H; try discriminate. Qed.

Lemma reg_is_regular : forall e, show_ok e -> is_regular (mode_of e) = etype_eqb (e_type e) TReg.
Proof.
  intros e H. pose proof (so_perm e H). pose proof (so_type e H) as Ht. unfold is_regular, mode_of.
  destruct (e_type e); simpl in *; try discriminate;
    match goal with |- (?a <? ?b) = true => apply Z.ltb_lt; lia | |- (?a <? ?b) = false => apply Z.ltb_ge; lia end.
Qed.

Lemma codec_norm : forall a, norm_attr (read_attr (write_attr a)) = norm_attr a.
Proof.
  intro a. rewrite codec_roundtrip. destruct a as [sz mt ln md u g dj dn xs nl]. unfold norm_attr, norm_nlink. simpl.
  f_equal. destruct (nl =? 1) eqn:E; [apply Z.eqb_eq in E; subst; reflexivity|reflexivity].
Qed.

Lemma single_conforming : forall e, show_ok e -> e_type e = TReg -> 0 < e_size e -> file_conforming e [].
Proof.
  intros e H Hr Hs. destruct (so_reg e H Hr) as [_ [H0 [Hc _]]].
  assert (Hsz : mem_chsize e None = e_size e).
  { unfold mem_chsize. rewrite Hr. destruct Hc as [Hc|Hc]; rewrite Hc.
    - simpl. destruct (e_size e =? 0) eqn:E; [apply Z.eqb_eq in E; lia|reflexivity].
    - destruct (e_size e =? 0) eqn:E; [apply Z.eqb_eq in E; lia|]. simpl. reflexivity. }
  constructor.
  - exact Hr.
  - constructor.
  - exact H0.
  - simpl. split; [intros x []|exact I].
  - simpl. split; [|exact I]. rewrite Hsz, H0. lia.
  - constructor; [|constructor]. simpl. rewrite Hsz. exact Hs.
Qed.

Section Walks.
  Variable toc : list entry.
  Variable M : mst.
  Variable D : dst.
  Variable probes : list Z.
  Hypothesis Hsimple : simple_toc toc.
  Hypothesis HR : R toc (length toc) M D.
  Hypothesis Hprobes : Forall (fun p => 0 <= p) probes.

  Let n := length toc.

  Lemma related_nodes : forall k mn, (k <= n)%nat -> nth_error (ms_nodes M) k = Some mn ->
    exists dn, nth_error (ds_nodes D) (phi n k) = Some dn /\ node_rel mn dn /\ show_ok (mn_e mn).
  Proof.
    intros k mn Hk Hn. unfold phi. destruct (Nat.eqb k n) eqn:E.
    - apply Nat.eqb_eq in E. subst k. destruct (r_root _ _ _ _ HR) as [mn' [dn [H1 [H2 [H3 H4]]]]].
      fold n in H1. rewrite Hn in H1. inversion H1; subst mn'. exists dn. split; [exact H3|]. split; [exact H4|].
      rewrite H2. exact show_ok_root.
    - apply Nat.eqb_neq in E. assert (Hlt : (k < n)%nat) by lia.
      destruct (r_done _ _ _ _ HR k mn Hlt Hn) as [dn [H1 H2]]. exists dn. split; [exact H1|]. split; [exact H2|].
      apply show_ok_entry. destruct Hsimple as [Hok _]. rewrite Forall_forall in Hok. apply Hok.
      eapply nth_error_In. exact (r_ent _ _ _ _ HR k mn Hlt Hn).
  Qed.

  Lemma vnode_same : forall k x mn dn path, nth_error (ms_nodes M) k = Some mn -> node_rel mn dn -> show_ok (mn_e mn) ->
    snd (mem_vnode M [] probes k mn path) = snd (db_vnode probes x dn path).
  Proof.
    intros k x mn dn path Hn [Hb [Hnl [Hc Hk]]] Hs. unfold mem_vnode, db_vnode. cbn [snd].
    set (e := mn_e mn) in *.
    assert (Hsize : dflt (b_size (dn_b dn)) = e_size e) by (rewrite Hb; simpl; apply put_nz_dflt).
    assert (Hmode : dflt (b_mode (dn_b dn)) = mode_of e) by (rewrite Hb; simpl; apply put_nz_dflt).
    rewrite Hsize, Hmode, (reg_is_regular e Hs), Hk.
    f_equal.
    - rewrite Hb. symmetry. apply codec_norm.
    - destruct (etype_eqb (e_type e) TReg) eqn:Er.
      + assert (Hr : e_type e = TReg) by (destruct (e_type e); simpl in Er; congruence).
        destruct (so_reg e Hs Hr) as [Hs0 [_ [_ Hoff]]].
        destruct (e_size e >? 0) eqn:Eg; simpl.
        * unfold read_chunks. simpl. reflexivity.
        * rewrite Z.gtb_ltb in Eg. apply Z.ltb_ge in Eg. apply Hoff. lia.
      + simpl. apply (so_nonreg e Hs). intro Hr. rewrite Hr in Er. discriminate.
    - destruct (etype_eqb (e_type e) TReg) eqn:Er; [|reflexivity].
      assert (Hr : e_type e = TReg) by (destruct (e_type e); simpl in Er; congruence).
      apply map_ext_in. intros off Hin. rewrite Forall_forall in Hprobes. pose proof (Hprobes off Hin) as Hoff.
      unfold mem_chunk_at. rewrite Hn. fold e. rewrite Er. simpl negb. cbv iota.
      unfold chunks_of. simpl pfind. simpl length. simpl Nat.ltb. cbv iota.
      destruct (so_reg e Hs Hr) as [Hs0 [H0 [Hcs _]]].
      destruct (e_size e >? 0) eqn:Eg; simpl andb; cbv iota.
      * rewrite Z.gtb_ltb in Eg. apply Z.ltb_lt in Eg.
        pose proof (chunk_lookup_agree e [] off (single_conforming e Hs Hr Eg) Hoff) as Hagree.
        unfold file_mem_lookup, file_db_lookup, file_mem_ents, file_db_stored in Hagree. simpl map in Hagree. simpl filter in Hagree.
        rewrite !app_nil_r in Hagree.
        replace (Nat.ltb (length (if (e_chsize e >? 0) && (e_chsize e <? e_size e) then [mem_chunk e None] else [])) 2) with true in Hagree
          by (destruct ((e_chsize e >? 0) && (e_chsize e <? e_size e)); reflexivity).
        replace (e_size e >? 0) with true in Hagree by (symmetry; rewrite Z.gtb_ltb; apply Z.ltb_lt; exact Eg).
        exact Hagree.
      * rewrite Z.gtb_ltb in Eg. apply Z.ltb_ge in Eg. assert (Hz : e_size e = 0) by lia.
        assert (Hc0 : e_chsize e = 0) by (destruct Hcs; lia).
        unfold mem_chunk, mem_chsize. simpl c_size. rewrite Hr, Hc0, Hz. simpl.
        replace (off >=? 0) with true by (symmetry; rewrite Z.geb_leb; apply Z.leb_le; exact Hoff).
        reflexivity.
  Qed.

  Lemma walk_same : forall fuel k path, (k <= n)%nat ->
    relabel (phi n) (mem_walk M [] probes fuel k path) = db_walk D probes fuel (phi n k) path.
  Proof.
    induction fuel as [|fuel IH]; intros k path Hk; [reflexivity|].
    cbn [mem_walk db_walk].
    destruct (nth_error (ms_nodes M) k) as [mn|] eqn:Hn;
      [|apply nth_error_None in Hn; rewrite (r_len_m _ _ _ _ HR) in Hn; fold n in Hn; lia].
    destruct (related_nodes k mn Hk Hn) as [dn [Hdn [Hrel Hs]]]. rewrite Hdn.
    unfold relabel. cbn [map]. f_equal.
    - rewrite (surjective_pairing (mem_vnode M [] probes k mn path)).
      rewrite (surjective_pairing (db_vnode probes (phi n k) dn path)).
      cbn [fst snd]. f_equal. apply vnode_same; assumption.
    - destruct Hrel as [_ [_ [Hc _]]]. rewrite Hc.
      assert (Hkids : forall kc, In kc (mn_ch mn) -> (snd kc < n)%nat) by (intros kc Hin; exact (r_kids _ _ _ _ HR k mn kc Hn Hin)).
      clear Hc Hn Hdn. induction (mn_ch mn) as [|[key c] rest IHl]; [reflexivity|].
      cbn [flat_map shift map fst snd]. rewrite map_app. f_equal.
      + assert (Hc : (c < n)%nat) by (apply (Hkids (key, c)); left; reflexivity).
        transitivity (db_walk D probes fuel (phi n c) (key :: path)); [apply (IH c (key :: path)); lia|].
        unfold phi. replace (Nat.eqb c n) with false by (symmetry; apply Nat.eqb_neq; lia). reflexivity.
      + apply IHl. intros kc Hin. apply Hkids. right. exact Hin.
  Qed.
End Walks.

(* ---------- agreement of the two stores on simple TOCs ---------- *)

Lemma stores_agree_simple : forall toc probes, simple_toc toc -> Forall (fun p => 0 <= p) probes ->
  view_mem toc probes = view_db toc probes /\ view_mem toc probes <> None.
Proof.
  intros toc probes Hs Hp. destruct (builds_simple toc Hs) as [M [D [Hm [Hd HR]]]].
  unfold view_mem, view_db. rewrite Hm, Hd. rewrite (r_m _ _ _ _ HR). simpl pfind.
  split; [|discriminate]. f_equal.
  rewrite <- (assign_inos_relabel (phi (length toc)) (phi_inj (length toc))).
  rewrite (walk_same toc M D probes Hs HR Hp) by lia.
  unfold phi. rewrite Nat.eqb_refl. reflexivity.
Qed.
