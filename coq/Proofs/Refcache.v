From SV Require Import Model.Refcache.
