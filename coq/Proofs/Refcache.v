(* Proofs about Model/Refcache.v: the invariant, its preservation by every op, and the
   lemmas the C10 property theorems are closed with. *)
From Coq Require Import List Arith ZArith Bool Lia.
From SV Require Import Model.Refcache.
Import ListNotations.

(* ---------- list helpers ---------- *)
Lemma upd_length {A} (l : list A) n x : length (upd l n x) = length l.
Proof. revert n; induction l as [|a l IH]; intros [|n]; simpl; auto. Qed.

Lemma nth_upd_eq {A} (l : list A) n x : n < length l -> nth_error (upd l n x) n = Some x.
Proof. revert n; induction l as [|a l IH]; intros [|n] H; simpl in *; try lia; auto. apply IH; lia. Qed.

Lemma nth_upd_ne {A} (l : list A) n m x : n <> m -> nth_error (upd l n x) m = nth_error l m.
Proof. revert n m; induction l as [|a l IH]; intros [|n] [|m] H; simpl; auto; try lia. Qed.

Lemma nth_app_new {A} (l : list A) x : nth_error (l ++ [x]) (length l) = Some x.
Proof. rewrite nth_error_app2 by lia. rewrite Nat.sub_diag. reflexivity. Qed.

Lemma nth_some_lt {A} (l : list A) n x : nth_error l n = Some x -> n < length l.
Proof. intros H. apply nth_error_Some. congruence. Qed.

Definition cnt {A} (p : A -> bool) (l : list A) := length (filter p l).

Lemma cnt_app {A} (p : A -> bool) l1 l2 : cnt p (l1 ++ l2) = cnt p l1 + cnt p l2.
Proof. unfold cnt. rewrite filter_app, app_length. reflexivity. Qed.

Lemma cnt_upd {A} (p : A -> bool) l n x y :
  nth_error l n = Some x ->
  cnt p (upd l n y) + (if p x then 1 else 0) = cnt p l + (if p y then 1 else 0).
Proof.
  unfold cnt. revert n; induction l as [|a l IH]; intros [|n] H; simpl in *; try discriminate.
  - inversion H; subst. destruct (p x), (p y); simpl; lia.
  - specialize (IH _ H). destruct (p a); simpl; lia.
Qed.

Lemma count_occ_snoc l (i j : nat) :
  count_occ Nat.eq_dec (l ++ [i]) j = count_occ Nat.eq_dec l j + (if Nat.eqb i j then 1 else 0).
Proof.
  rewrite count_occ_app. simpl. destruct (Nat.eq_dec i j) as [->|H].
  - rewrite Nat.eqb_refl. reflexivity.
  - apply Nat.eqb_neq in H. rewrite H. reflexivity.
Qed.

(* ---------- lru helpers ---------- *)
Lemma find_in l k i : lru_find l k = Some i -> In (k, i) l.
Proof.
  induction l as [|[k' j] l IH]; simpl; [discriminate|].
  destruct (Nat.eqb_spec k' k); intros H.
  - inversion H; subst. auto.
  - auto.
Qed.

Lemma find_none l k : lru_find l k = None -> forall i, ~ In (k, i) l.
Proof.
  induction l as [|[k' j] l IH]; simpl; intros H i; [tauto|].
  destruct (Nat.eqb_spec k' k); [discriminate|].
  intros [E|E]; [inversion E; congruence|]. eapply IH; eauto.
Qed.

Lemma in_find l k i : NoDup (map fst l) -> In (k, i) l -> lru_find l k = Some i.
Proof.
  induction l as [|[k' j] l IH]; simpl; intros ND H; [tauto|].
  inversion ND as [|? ? Hn ND']; subst.
  destruct H as [E|H].
  - inversion E; subst. rewrite Nat.eqb_refl. reflexivity.
  - destruct (Nat.eqb_spec k' k).
    + subst. exfalso. apply Hn. change k with (fst (k, i)). apply in_map. exact H.
    + auto.
Qed.

Lemma del_in l k k' i : In (k', i) (lru_del l k) <-> (In (k', i) l /\ k' <> k).
Proof.
  induction l as [|[k0 j] l IH]; simpl; [tauto|].
  destruct (Nat.eqb_spec k0 k).
  - subst. rewrite IH. split; [tauto|]. intros [[E|H] N]; [inversion E; congruence|tauto].
  - simpl. rewrite IH. split.
    + intros [E|[H N]]; [inversion E; subst; tauto|tauto].
    + intros [[E|H] N]; [left; exact E|tauto].
Qed.

Lemma del_keys_in l k x : In x (map fst (lru_del l k)) -> In x (map fst l) /\ x <> k.
Proof.
  intros H. apply in_map_iff in H. destruct H as [[k' i] [E H]]. simpl in E. subst x.
  apply del_in in H. destruct H as [H N]. split; [|exact N].
  change k' with (fst (k', i)). apply in_map. exact H.
Qed.

Lemma del_nodup l k : NoDup (map fst l) -> NoDup (map fst (lru_del l k)).
Proof.
  induction l as [|[k0 j] l IH]; simpl; intros ND; [constructor|].
  inversion ND as [|? ? Hn ND']; subst.
  destruct (Nat.eqb_spec k0 k); [auto|].
  simpl. constructor; [|auto].
  intros H. apply del_keys_in in H. tauto.
Qed.

Lemma del_notin l k : ~ In k (map fst (lru_del l k)).
Proof. intros H. apply del_keys_in in H. tauto. Qed.

(* ---------- invariant ---------- *)
Definition ent_ok (s : st) (i : nat) (e : ent) : Prop :=
  e_refs e = ((if e_fin e then 0 else 1) + Z.of_nat (live s i))%Z
  /\ callbacks s i = (if (e_refs e =? 0)%Z then 1 else 0)
  /\ (e_fin e = false <-> In (e_key e, i) (lru s)).

Record Inv (s : st) : Prop := mkInv {
  inv_ent : forall i e, nth_error (ents s) i = Some e -> ent_ok s i e;
  inv_nodup : NoDup (map fst (lru s));
  inv_lru : forall k i, In (k, i) (lru s) -> exists e, nth_error (ents s) i = Some e /\ e_key e = k;
  inv_hs : forall h i r, nth_error (hs s) h = Some (i, r) -> i < length (ents s);
  inv_log : forall i, In i (log s) -> i < length (ents s)
}.

Lemma Inv_initZ c : Inv (initZ c).
Proof.
  constructor; simpl.
  - intros [|i] e H; discriminate.
  - constructor.
  - tauto.
  - intros [|h] i r H; discriminate.
  - tauto.
Qed.

Definition hpred (i : nat) (h : nat * bool) : bool := Nat.eqb (fst h) i && negb (snd h).
Lemma live_cnt s i : live s i = cnt (hpred i) (hs s).
Proof. reflexivity. Qed.

Lemma live_beyond s i : Inv s -> length (ents s) <= i -> live s i = 0.
Proof.
  intros I Hi. rewrite live_cnt. unfold cnt.
  assert (Hf : forall l, (forall h, In h l -> fst h <> i) -> filter (hpred i) l = []).
  { induction l as [|a l IH]; simpl; intros Hl; [reflexivity|].
    unfold hpred at 1. destruct (Nat.eqb_spec (fst a) i) as [E|E].
    - exfalso. apply (Hl a); auto.
    - simpl. apply IH. intros h Hh. apply Hl. auto. }
  rewrite Hf; [reflexivity|].
  intros [j r] Hin. simpl. apply In_nth_error in Hin. destruct Hin as [n Hn].
  apply (inv_hs _ I) in Hn. lia.
Qed.

Lemma callbacks_beyond s i : Inv s -> length (ents s) <= i -> callbacks s i = 0.
Proof.
  intros I Hi. unfold callbacks. apply count_occ_not_In. intros H. apply (inv_log _ I) in H. lia.
Qed.

(* ---------- acquire (inc + new done closure) ---------- *)
Lemma acquire_inv s i : Inv s -> in_cache s i -> Inv (acquire s i).
Proof.
  intros I [k Hk].
  destruct (inv_lru _ I _ _ Hk) as (e & He & Hkey). subst k.
  pose proof (nth_some_lt _ _ _ He) as Hi.
  destruct (inv_ent _ I _ _ He) as (R & C & F).
  assert (Ef : e_fin e = false) by (apply F; exact Hk).
  unfold acquire, inc. rewrite He.
  constructor; simpl.
  - intros j e' Hj. unfold ent_ok, callbacks. rewrite live_cnt. simpl.
    rewrite cnt_app. unfold cnt at 2. simpl. unfold hpred at 2. simpl.
    destruct (Nat.eq_dec i j) as [<-|Hne].
    + rewrite nth_upd_eq in Hj by exact Hi. inversion Hj; subst; clear Hj. simpl.
      rewrite Nat.eqb_refl. simpl. rewrite live_cnt in R. rewrite Ef in *.
      split; [lia|]. split; [|exact F].
      unfold callbacks in C. rewrite C.
      destruct (Z.eqb_spec (e_refs e) 0); destruct (Z.eqb_spec (e_refs e + 1) 0); try lia.
    + rewrite nth_upd_ne in Hj by exact Hne.
      destruct (inv_ent _ I _ _ Hj) as (R' & C' & F').
      apply Nat.eqb_neq in Hne. rewrite Hne. simpl. rewrite live_cnt in R'.
      split; [lia|]. split; [exact C'|exact F'].
  - apply (inv_nodup _ I).
  - intros k j Hin. destruct (inv_lru _ I _ _ Hin) as (e' & He' & Hk').
    destruct (Nat.eq_dec i j) as [<-|Hne].
    + rewrite nth_upd_eq by exact Hi. rewrite He in He'. inversion He'; subst. eexists; split; reflexivity.
    + rewrite nth_upd_ne by exact Hne. eauto.
  - intros h j r Hh. rewrite upd_length.
    destruct (Nat.lt_ge_cases h (length (hs s))) as [Hlt|Hge].
    + rewrite nth_error_app1 in Hh by exact Hlt. eapply inv_hs; eauto.
    + rewrite nth_error_app2 in Hh by exact Hge.
      destruct (h - length (hs s)) as [|n]; simpl in Hh; [inversion Hh; subst; exact Hi|destruct n; discriminate].
  - intros j Hj. rewrite upd_length. apply (inv_log _ I). exact Hj.
Qed.

(* ---------- explicit forms of dec / finalize ---------- *)
Lemma upd_upd {A} (l : list A) n x y : upd (upd l n x) n y = upd l n y.
Proof. revert n; induction l as [|a l IH]; intros [|n]; simpl; auto. f_equal. apply IH. Qed.

Lemma dec_eq s i e : nth_error (ents s) i = Some e ->
  dec s i = mkSt (cap s) (lru s) (upd (ents s) i (mkEnt (e_key e) (e_refs e - 1) (e_fin e))) (hs s)
                 (if (e_refs e - 1 <=? 0)%Z then log s ++ [i] else log s).
Proof. intros H. unfold dec. rewrite H. destruct (e_refs e - 1 <=? 0)%Z; reflexivity. Qed.

Lemma finalize_live s i e : nth_error (ents s) i = Some e -> e_fin e = false ->
  finalize s i = mkSt (cap s) (lru s) (upd (ents s) i (mkEnt (e_key e) (e_refs e - 1) true)) (hs s)
                      (if (e_refs e - 1 <=? 0)%Z then log s ++ [i] else log s).
Proof.
  intros H Hf. unfold finalize. rewrite H, Hf.
  erewrite dec_eq; simpl.
  2:{ apply nth_upd_eq. eapply nth_some_lt; eauto. }
  simpl. rewrite upd_upd. reflexivity.
Qed.

Lemma finalize_done s i e : nth_error (ents s) i = Some e -> e_fin e = true -> finalize s i = s.
Proof. intros H Hf. unfold finalize. rewrite H, Hf. reflexivity. Qed.

(* ---------- reordering the recency list ---------- *)
Lemma Inv_lru_perm s l' :
  Inv s -> (forall k i, In (k, i) l' <-> In (k, i) (lru s)) -> NoDup (map fst l') -> Inv (set_lru s l').
Proof.
  intros I Hiff ND. constructor; simpl.
  - intros i e He. destruct (inv_ent _ I _ _ He) as (R & C & F).
    unfold ent_ok. split; [exact R|]. split; [exact C|]. simpl. rewrite Hiff. exact F.
  - exact ND.
  - intros k i Hin. apply Hiff in Hin. eapply inv_lru; eauto.
  - apply (inv_hs _ I).
  - apply (inv_log _ I).
Qed.

Lemma find_notin_keys l k : lru_find l k = None -> ~ In k (map fst l).
Proof.
  intros H Hin. apply in_map_iff in Hin. destruct Hin as [[k' i] [E Hin]]. simpl in E. subst k'.
  eapply find_none; eauto.
Qed.

Lemma touch_inv s k i : Inv s -> lru_find (lru s) k = Some i -> Inv (touch s k i).
Proof.
  intros I Hf. unfold touch. apply Inv_lru_perm; [exact I| |].
  - intros k' j. simpl. rewrite del_in. split.
    + intros [E|[H _]]; [inversion E; subst; apply find_in; exact Hf|exact H].
    + intros H. destruct (Nat.eq_dec k' k) as [->|N]; [|tauto].
      left. apply (in_find _ _ _ (inv_nodup _ I)) in H. congruence.
  - simpl. constructor; [apply del_notin|apply del_nodup; apply (inv_nodup _ I)].
Qed.

Lemma touch_in_cache s k i : lru_find (lru s) k = Some i -> in_cache (touch s k i) i.
Proof. intros _. exists k. simpl. auto. Qed.

(* ---------- eviction from the cache (Remove / Expire / capacity / evicting release) ---------- *)
Lemma evict_key_inv s k : Inv s -> Inv (evict_key s k).
Proof.
  intros I. unfold evict_key. destruct (lru_find (lru s) k) as [i|] eqn:Hf; [|exact I].
  pose proof (find_in _ _ _ Hf) as Hin.
  destruct (inv_lru _ I _ _ Hin) as (e & He & Hkey).
  destruct (inv_ent _ I _ _ He) as (R & C & F).
  assert (Ef : e_fin e = false) by (apply F; rewrite Hkey; exact Hin).
  pose proof (nth_some_lt _ _ _ He) as Hi.
  erewrite finalize_live; simpl; eauto.
  rewrite Ef in R.
  constructor; simpl.
  - intros j e' Hj. unfold ent_ok, callbacks. rewrite live_cnt. simpl.
    destruct (Nat.eq_dec i j) as [<-|Hne].
    + rewrite nth_upd_eq in Hj by exact Hi. inversion Hj; subst e'; clear Hj. simpl.
      rewrite live_cnt in R. split; [lia|]. split.
      * unfold callbacks in C.
        destruct (Z.leb_spec (e_refs e - 1) 0).
        -- rewrite count_occ_snoc, Nat.eqb_refl, C.
           destruct (Z.eqb_spec (e_refs e) 0); destruct (Z.eqb_spec (e_refs e - 1) 0); lia.
        -- rewrite C. destruct (Z.eqb_spec (e_refs e) 0); destruct (Z.eqb_spec (e_refs e - 1) 0); lia.
      * split; [discriminate|]. intros H. apply del_in in H. rewrite Hkey in H. tauto.
    + rewrite nth_upd_ne in Hj by exact Hne.
      destruct (inv_ent _ I _ _ Hj) as (R' & C' & F').
      split; [exact R'|]. split.
      * unfold callbacks in C'. destruct (e_refs e - 1 <=? 0)%Z; [|exact C'].
        rewrite count_occ_snoc. apply Nat.eqb_neq in Hne. rewrite Hne. lia.
      * rewrite F'. rewrite del_in. split; [|tauto].
        intros H. split; [exact H|]. intros Ek. rewrite Ek in H.
        apply (in_find _ _ _ (inv_nodup _ I)) in H. congruence.
  - apply del_nodup. apply (inv_nodup _ I).
  - intros k' j H. apply del_in in H. destruct H as [H _].
    destruct (inv_lru _ I _ _ H) as (e' & He' & Hk').
    destruct (Nat.eq_dec i j) as [<-|Hne].
    + rewrite nth_upd_eq by exact Hi. rewrite He in He'. inversion He'; subst. eexists; split; reflexivity.
    + rewrite nth_upd_ne by exact Hne. eauto.
  - intros h j r Hh. rewrite upd_length. eapply inv_hs; eauto.
  - intros j Hj. rewrite upd_length. destruct (e_refs e - 1 <=? 0)%Z.
    + apply in_app_or in Hj. destruct Hj as [Hj|[<-|[]]]; [apply (inv_log _ I); exact Hj|exact Hi].
    + apply (inv_log _ I); exact Hj.
Qed.

Lemma trim_inv s : Inv s -> Inv (trim s).
Proof.
  intros I. unfold trim.
  destruct (negb (cap s =? 0)%Z && (cap s <? Z.of_nat (length (lru s)))%Z); [|exact I].
  destruct (last (map Some (lru s)) None) as [[k i]|]; [apply evict_key_inv; exact I|exact I].
Qed.

(* ---------- release (done closure) ---------- *)
Lemma release_dec_inv s h i :
  Inv s -> nth_error (hs s) h = Some (i, false) -> Inv (dec (set_hs s (upd (hs s) h (i, true))) i).
Proof.
  intros I Hh.
  pose proof (inv_hs _ I _ _ _ Hh) as Hi.
  destruct (nth_error (ents s) i) as [e|] eqn:He; [|apply nth_error_None in He; lia].
  destruct (inv_ent _ I _ _ He) as (R & C & F).
  erewrite dec_eq; simpl; eauto.
  assert (Hcnt : forall j, cnt (hpred j) (upd (hs s) h (i, true)) + (if Nat.eqb i j then 1 else 0) = cnt (hpred j) (hs s)).
  { intros j. pose proof (cnt_upd (hpred j) _ _ _ (i, true) Hh) as Hc.
    replace (hpred j (i, false)) with (Nat.eqb i j) in Hc by (unfold hpred; simpl; rewrite andb_true_r; reflexivity).
    replace (hpred j (i, true)) with false in Hc by (unfold hpred; simpl; rewrite andb_false_r; reflexivity).
    lia. }
  constructor; simpl.
  - intros j e' Hj. unfold ent_ok, callbacks. rewrite live_cnt. simpl.
    specialize (Hcnt j).
    destruct (Nat.eq_dec i j) as [<-|Hne].
    + rewrite nth_upd_eq in Hj by exact Hi. inversion Hj; subst e'; clear Hj. simpl.
      rewrite Nat.eqb_refl in Hcnt. rewrite live_cnt in R.
      assert (Hr : (1 <= e_refs e)%Z) by (destruct (e_fin e); lia).
      split; [lia|]. split; [|exact F].
      unfold callbacks in C.
      destruct (Z.leb_spec (e_refs e - 1) 0).
      * rewrite count_occ_snoc, Nat.eqb_refl, C.
        destruct (Z.eqb_spec (e_refs e) 0); destruct (Z.eqb_spec (e_refs e - 1) 0); lia.
      * rewrite C. destruct (Z.eqb_spec (e_refs e) 0); destruct (Z.eqb_spec (e_refs e - 1) 0); lia.
    + rewrite nth_upd_ne in Hj by exact Hne.
      destruct (inv_ent _ I _ _ Hj) as (R' & C' & F').
      pose proof Hne as Hne'. apply Nat.eqb_neq in Hne'. rewrite Hne' in Hcnt. rewrite live_cnt in R'.
      split; [lia|]. split; [|exact F'].
      unfold callbacks in C'. destruct (e_refs e - 1 <=? 0)%Z; [|exact C'].
      rewrite count_occ_snoc, Hne'. lia.
  - apply (inv_nodup _ I).
  - intros k j H. destruct (inv_lru _ I _ _ H) as (e' & He' & Hk').
    destruct (Nat.eq_dec i j) as [<-|Hne].
    + rewrite nth_upd_eq by exact Hi. rewrite He in He'. inversion He'; subst. eexists; split; reflexivity.
    + rewrite nth_upd_ne by exact Hne. eauto.
  - intros h' j r Hh'. rewrite upd_length.
    destruct (Nat.eq_dec h h') as [<-|Hne].
    + rewrite nth_upd_eq in Hh' by (eapply nth_some_lt; eauto). inversion Hh'; subst. exact Hi.
    + rewrite nth_upd_ne in Hh' by exact Hne. eapply inv_hs; eauto.
  - intros j Hj. rewrite upd_length. destruct (e_refs e - 1 <=? 0)%Z.
    + apply in_app_or in Hj. destruct Hj as [Hj|[<-|[]]]; [apply (inv_log _ I); exact Hj|exact Hi].
    + apply (inv_log _ I); exact Hj.
Qed.

(* the "if evict" part of TTLCache's done closure *)
Definition rel_evict (s : st) (i : nat) : st :=
  let s' := finalize s i in
  match nth_error (ents s') i with
  | Some e =>
      match lru_find (lru s') (e_key e) with
      | Some j => if Nat.eqb j i then set_lru s' (lru_del (lru s') (e_key e)) else s'
      | None => s'
      end
  | None => s'
  end.

Lemma rel_evict_cases s i e :
  Inv s -> nth_error (ents s) i = Some e ->
  rel_evict s i = if e_fin e then s else evict_key s (e_key e).
Proof.
  intros I He. destruct (inv_ent _ I _ _ He) as (R & C & F).
  unfold rel_evict. destruct (e_fin e) eqn:Ef.
  - rewrite (finalize_done _ _ _ He Ef). rewrite He.
    destruct (lru_find (lru s) (e_key e)) as [j|] eqn:Hf; [|reflexivity].
    destruct (Nat.eqb_spec j i) as [->|]; [|reflexivity].
    apply find_in in Hf. apply F in Hf. congruence.
  - assert (Hin : In (e_key e, i) (lru s)) by (apply F; reflexivity).
    pose proof (in_find _ _ _ (inv_nodup _ I) Hin) as Hf.
    rewrite (finalize_live _ _ _ He Ef). simpl.
    rewrite nth_upd_eq by (eapply nth_some_lt; eauto). simpl.
    rewrite Hf, Nat.eqb_refl.
    unfold evict_key. rewrite Hf.
    erewrite finalize_live; simpl; eauto. reflexivity.
Qed.

Lemma rel_evict_inv s i : Inv s -> i < length (ents s) -> Inv (rel_evict s i).
Proof.
  intros I Hi. destruct (nth_error (ents s) i) as [e|] eqn:He; [|apply nth_error_None in He; lia].
  rewrite (rel_evict_cases _ _ _ I He). destruct (e_fin e); [exact I|apply evict_key_inv; exact I].
Qed.

(* ---------- Add of a fresh key ---------- *)
Definition add_new (s : st) (k : nat) : st :=
  let i := length (ents s) in
  let s1 := set_ents s (ents s ++ [mkEnt k 1 false]) in
  let s2 := acquire s1 i in
  set_lru s2 ((k, i) :: lru s2).

Lemma add_new_inv s k : Inv s -> lru_find (lru s) k = None -> Inv (add_new s k).
Proof.
  intros I Hf. unfold add_new, acquire, inc. simpl.
  rewrite nth_app_new. simpl.
  set (i := length (ents s)).
  assert (Hlen : length (upd (ents s ++ [mkEnt k 1 false]) i (mkEnt k 2 false)) = S i)
    by (rewrite upd_length, app_length; simpl; lia).
  assert (Hold : forall j, j <> i -> nth_error (upd (ents s ++ [mkEnt k 1 false]) i (mkEnt k 2 false)) j = nth_error (ents s) j).
  { intros j Hj. rewrite nth_upd_ne by auto.
    destruct (Nat.lt_ge_cases j i) as [Hlt|Hge].
    - apply nth_error_app1. exact Hlt.
    - assert (nth_error (ents s) j = None) as -> by (apply nth_error_None; fold i; lia).
      apply nth_error_None. rewrite app_length. simpl. fold i. lia. }
  constructor; simpl.
  - intros j e' Hj. unfold ent_ok, callbacks. rewrite live_cnt. simpl.
    rewrite cnt_app. unfold cnt at 2. simpl. unfold hpred at 2. simpl.
    destruct (Nat.eq_dec i j) as [<-|Hne].
    + rewrite nth_upd_eq in Hj by (rewrite app_length; simpl; fold i; lia).
      inversion Hj; subst e'; clear Hj. simpl. rewrite Nat.eqb_refl. simpl.
      pose proof (live_beyond s i I (Nat.le_refl _)) as L. rewrite live_cnt in L. rewrite L.
      split; [reflexivity|]. split; [|split; auto].
      apply (callbacks_beyond s i I). apply Nat.le_refl.
    + rewrite Hold in Hj by auto.
      destruct (inv_ent _ I _ _ Hj) as (R' & C' & F').
      pose proof Hne as Hne'. apply Nat.eqb_neq in Hne'. rewrite Hne'. simpl. rewrite live_cnt in R'.
      split; [lia|]. split; [exact C'|].
      rewrite F'. split; [auto|]. intros [E|H]; [inversion E; congruence|exact H].
  - constructor; [apply find_notin_keys; exact Hf|apply (inv_nodup _ I)].
  - intros k' j [E|H].
    + inversion E; subst k' j. rewrite nth_upd_eq by (rewrite app_length; simpl; fold i; lia).
      eexists; split; reflexivity.
    + destruct (inv_lru _ I _ _ H) as (e' & He' & Hk').
      rewrite Hold; [eauto|]. apply nth_some_lt in He'. fold i in He'. lia.
  - intros h j r Hh. rewrite Hlen.
    destruct (Nat.lt_ge_cases h (length (hs s))) as [Hlt|Hge].
    + rewrite nth_error_app1 in Hh by exact Hlt. apply (inv_hs _ I) in Hh. fold i in Hh. lia.
    + rewrite nth_error_app2 in Hh by exact Hge.
      destruct (h - length (hs s)) as [|n]; simpl in Hh; [inversion Hh; subst; lia|destruct n; discriminate].
  - intros j Hj. rewrite Hlen. apply (inv_log _ I) in Hj. fold i in Hj. lia.
Qed.

(* ---------- every op preserves the invariant ---------- *)
Theorem step_inv s o : Inv s -> Inv (fst (step s o)).
Proof.
  intros I. destruct o as [k|k|k|k|h ev]; simpl.
  - destruct (lru_find (lru s) k) as [i|] eqn:Hf; simpl.
    + apply acquire_inv; [apply touch_inv; assumption|apply touch_in_cache; assumption].
    + apply trim_inv. apply (add_new_inv s k I Hf).
  - destruct (lru_find (lru s) k) as [i|] eqn:Hf; simpl; [|exact I].
    apply acquire_inv; [apply touch_inv; assumption|apply touch_in_cache; assumption].
  - apply evict_key_inv; exact I.
  - apply evict_key_inv; exact I.
  - destruct (nth_error (hs s) h) as [[i fired]|] eqn:Hh; simpl; [|exact I].
    assert (I1 : Inv (if fired then s else dec (set_hs s (upd (hs s) h (i, true))) i)).
    { destruct fired; [exact I|apply release_dec_inv; assumption]. }
    destruct ev; [|exact I1].
    apply (rel_evict_inv _ i I1).
    pose proof (inv_hs _ I _ _ _ Hh) as Hi.
    destruct fired; [exact Hi|].
    unfold dec; simpl. destruct (nth_error (ents s) i); [|exact Hi].
    destruct (_ <=? 0)%Z; simpl; rewrite upd_length; exact Hi.
Qed.

Theorem exec_inv os : forall s, Inv s -> Inv (exec s os).
Proof.
  unfold exec. induction os as [|o os IH]; simpl; intros s I; [exact I|].
  apply IH. apply step_inv. exact I.
Qed.

Lemma Inv_init c : Inv (init c).
Proof. apply Inv_initZ. Qed.

Theorem reach_invZ c os : Inv (exec (initZ c) os).
Proof. apply exec_inv. apply Inv_initZ. Qed.

Theorem reach_inv c os : Inv (exec (init c) os).
Proof. apply reach_invZ. Qed.

(* ---------- consequences used by Properties/C10.v ---------- *)
Lemma in_cache_key s i e : Inv s -> nth_error (ents s) i = Some e -> (in_cache s i <-> In (e_key e, i) (lru s)).
Proof.
  intros I He. split; [|intros H; eexists; exact H].
  intros [k Hk]. destruct (inv_lru _ I _ _ Hk) as (e' & He' & Hkey). rewrite He in He'. inversion He'; subst. exact Hk.
Qed.

Lemma exactly_once_inv s i e :
  Inv s -> nth_error (ents s) i = Some e ->
  callbacks s i <= 1 /\ (callbacks s i = 1 <-> (~ in_cache s i /\ live s i = 0)).
Proof.
  intros I He. destruct (inv_ent _ I _ _ He) as (R & C & F).
  rewrite (in_cache_key _ _ _ I He). rewrite C.
  destruct (Z.eqb_spec (e_refs e) 0) as [Hz|Hz].
  - split; [lia|]. split; [intros _|reflexivity].
    destruct (e_fin e); [|lia]. split; [|lia]. intros H. apply F in H. discriminate.
  - split; [lia|]. split; [discriminate|]. intros [Hn Hl]. exfalso. apply Hz.
    destruct (e_fin e); [lia|]. exfalso. apply Hn. apply F. reflexivity.
Qed.

Lemma held_not_finalized s i : Inv s -> 0 < live s i -> callbacks s i = 0.
Proof.
  intros I Hl. destruct (nth_error (ents s) i) as [e|] eqn:He.
  - destruct (exactly_once_inv _ _ _ I He) as (Hle & Hiff).
    destruct (callbacks s i) as [|[|n]]; [reflexivity| |lia].
    destruct Hiff as [H _]. specialize (H eq_refl). lia.
  - apply callbacks_beyond; [exact I|]. apply nth_error_None. exact He.
Qed.

Lemma cached_not_finalized s i : Inv s -> in_cache s i -> callbacks s i = 0.
Proof.
  intros I Hc. destruct Hc as [k Hk]. destruct (inv_lru _ I _ _ Hk) as (e & He & _).
  destruct (exactly_once_inv _ _ _ I He) as (Hle & Hiff).
  destruct (callbacks s i) as [|[|n]]; [reflexivity| |lia].
  destruct Hiff as [H _]. specialize (H eq_refl). exfalso. apply (proj1 H). exists k. exact Hk.
Qed.

(* the callbacks never forget: the log only grows, and the per-op outputs are exactly its increments *)
Lemma dec_log s i : exists l, log (dec s i) = log s ++ l.
Proof.
  unfold dec. destruct (nth_error (ents s) i); [|exists []; rewrite app_nil_r; reflexivity].
  destruct (_ <=? 0)%Z; simpl; [eexists; reflexivity|exists []; rewrite app_nil_r; reflexivity].
Qed.

Lemma finalize_log s i : exists l, log (finalize s i) = log s ++ l.
Proof.
  unfold finalize. destruct (nth_error (ents s) i) as [e|]; [|exists []; rewrite app_nil_r; reflexivity].
  destruct (e_fin e); [exists []; rewrite app_nil_r; reflexivity|].
  match goal with |- context [dec ?s' i] => destruct (dec_log s' i) as [l Hl]; rewrite Hl end.
  simpl. eexists; reflexivity.
Qed.

Lemma evict_key_log s k : exists l, log (evict_key s k) = log s ++ l.
Proof.
  unfold evict_key. destruct (lru_find (lru s) k); [|exists []; rewrite app_nil_r; reflexivity].
  match goal with |- context [finalize ?s' ?i] => destruct (finalize_log s' i) as [l Hl]; rewrite Hl end.
  simpl. eexists; reflexivity.
Qed.

Lemma step_add_new s k : lru_find (lru s) k = None ->
  step s (Add k) = (trim (add_new s k), Some (length (ents s), true)).
Proof. intros H. simpl. rewrite H. reflexivity. Qed.

Lemma add_new_log s k : log (add_new s k) = log s.
Proof. unfold add_new, acquire, inc. simpl. destruct (nth_error _ _); reflexivity. Qed.

Lemma trim_log s : exists l, log (trim s) = log s ++ l.
Proof.
  assert (Hnil : exists l, log s = log s ++ l) by (exists []; rewrite app_nil_r; reflexivity).
  unfold trim. destruct (_ && _); [|exact Hnil].
  destruct (last _ _) as [[k' i']|]; [apply evict_key_log|exact Hnil].
Qed.

Lemma step_log s o : exists l, log (fst (step s o)) = log s ++ l.
Proof.
  assert (Hnil : exists l, log s = log s ++ l) by (exists []; rewrite app_nil_r; reflexivity).
  destruct o as [k|k|k|k|h ev].
  - destruct (lru_find (lru s) k) as [i|] eqn:Hf.
    + simpl. rewrite Hf. simpl. unfold acquire, inc, touch; simpl. destruct (nth_error (ents s) i); simpl; exact Hnil.
    + rewrite (step_add_new _ _ Hf). simpl.
      destruct (trim_log (add_new s k)) as [l Hl]. rewrite Hl, add_new_log. eexists; reflexivity.
  - simpl. destruct (lru_find (lru s) k) as [i|]; simpl; [|exact Hnil].
    unfold acquire, inc, touch; simpl. destruct (nth_error (ents s) i); simpl; exact Hnil.
  - apply evict_key_log.
  - apply evict_key_log.
  - simpl. destruct (nth_error (hs s) h) as [[i fired]|]; simpl; [|exact Hnil].
    assert (H1 : exists l, log (if fired then s else dec (set_hs s (upd (hs s) h (i, true))) i) = log s ++ l).
    { destruct fired; [exact Hnil|]. match goal with |- context [dec ?s' i] => destruct (dec_log s' i) as [l Hl]; rewrite Hl end.
      simpl. eexists; reflexivity. }
    destruct ev; [|exact H1].
    destruct H1 as [l1 H1].
    match goal with |- context [finalize ?s' i] => destruct (finalize_log s' i) as [l2 H2]; set (sf := finalize s' i) in * end.
    assert (Hsf : log sf = log s ++ (l1 ++ l2)) by (rewrite H2, H1, app_assoc; reflexivity).
    destruct (nth_error (ents sf) i) as [e|]; [|eexists; exact Hsf].
    destruct (lru_find (lru sf) (e_key e)) as [j|]; [|eexists; exact Hsf].
    destruct (j =? i); simpl; eexists; exact Hsf.
Qed.

Lemma run_exec os : forall s, fst (run s os) = exec s os.
Proof.
  unfold exec. induction os as [|o os IH]; simpl; intros s; [reflexivity|].
  unfold step_out. destruct (step s o) as [s' r] eqn:Hs. simpl.
  specialize (IH s'). destruct (run s' os) as [s2 xs]. simpl in *. exact IH.
Qed.

Lemma run_outputs os : forall s, log (exec s os) = log s ++ concat (map snd (snd (run s os))).
Proof.
  unfold exec. induction os as [|o os IH]; simpl; intros s; [rewrite app_nil_r; reflexivity|].
  unfold step_out. destruct (step s o) as [s' r] eqn:Hs. simpl.
  specialize (IH s'). destruct (run s' os) as [s2 xs] eqn:Hr. simpl in *.
  destruct (step_log s o) as [l Hl]. rewrite Hs in Hl. simpl in Hl.
  rewrite IH, Hl. rewrite skipn_app, skipn_all, Nat.sub_diag. simpl. rewrite app_assoc. reflexivity.
Qed.

(* double release *)
Lemma release_fired_noevict s h i : nth_error (hs s) h = Some (i, true) -> step s (Release h false) = (s, None).
Proof. intros H. simpl. rewrite H. reflexivity. Qed.

Lemma dec_hs s i : hs (dec s i) = hs s.
Proof. unfold dec. destruct (nth_error (ents s) i); [|reflexivity]. destruct (_ <=? 0)%Z; reflexivity. Qed.
Lemma finalize_hs s i : hs (finalize s i) = hs s.
Proof.
  unfold finalize. destruct (nth_error (ents s) i) as [e|]; [|reflexivity]. destruct (e_fin e); [reflexivity|].
  rewrite dec_hs. reflexivity.
Qed.
Lemma rel_evict_hs s i : hs (rel_evict s i) = hs s.
Proof.
  unfold rel_evict. destruct (nth_error _ i) as [e|]; [|apply finalize_hs].
  destruct (lru_find _ _) as [j|]; [|apply finalize_hs]. destruct (j =? i); simpl; apply finalize_hs.
Qed.

Lemma release_marks_fired s h i r ev :
  nth_error (hs s) h = Some (i, r) -> nth_error (hs (fst (step s (Release h ev)))) h = Some (i, true).
Proof.
  intros H. simpl. rewrite H. simpl.
  assert (H1 : nth_error (hs (if r then s else dec (set_hs s (upd (hs s) h (i, true))) i)) h = Some (i, true)).
  { destruct r; [exact H|]. rewrite dec_hs. simpl. apply nth_upd_eq. eapply nth_some_lt; eauto. }
  destruct ev; [|exact H1].
  match goal with |- nth_error (hs ?x) h = _ => change x with (rel_evict (if r then s else dec (set_hs s (upd (hs s) h (i, true))) i) i) end.
  rewrite rel_evict_hs. exact H1.
Qed.

Lemma double_release s h ev : fst (step (fst (step s (Release h ev))) (Release h false)) = fst (step s (Release h ev)).
Proof.
  destruct (nth_error (hs s) h) as [[i r]|] eqn:Hh.
  - pose proof (release_marks_fired s h i r ev Hh) as Hm.
    rewrite (release_fired_noevict _ _ _ Hm). reflexivity.
  - simpl. rewrite Hh. simpl. rewrite Hh. reflexivity.
Qed.

(* releasing (even with evict) a value that already left the cache does not touch the cache *)
Lemma release_old_keeps_cache s h i r e :
  Inv s -> nth_error (hs s) h = Some (i, r) -> nth_error (ents s) i = Some e -> e_fin e = true ->
  lru (fst (step s (Release h true))) = lru s.
Proof.
  intros I Hh He Ef. simpl. rewrite Hh. simpl.
  set (s1 := if r then s else dec (set_hs s (upd (hs s) h (i, true))) i).
  assert (I1 : Inv s1) by (unfold s1; destruct r; [exact I|apply release_dec_inv; assumption]).
  assert (L1 : lru s1 = lru s).
  { unfold s1. destruct r; [reflexivity|]. unfold dec; simpl. rewrite He. destruct (_ <=? 0)%Z; reflexivity. }
  assert (He1 : exists e1, nth_error (ents s1) i = Some e1 /\ e_fin e1 = true).
  { unfold s1. destruct r; [eauto|]. unfold dec; simpl. rewrite He.
    destruct (_ <=? 0)%Z; simpl; rewrite nth_upd_eq by (eapply nth_some_lt; eauto); eexists; split; eauto. }
  destruct He1 as (e1 & He1 & Ef1).
  change (lru (rel_evict s1 i) = lru s).
  rewrite (rel_evict_cases _ _ _ I1 He1), Ef1. exact L1.
Qed.

(* adding an existing key returns the cached value and changes neither membership nor callbacks *)
Lemma add_existing s k i :
  Inv s -> lru_find (lru s) k = Some i ->
  snd (step s (Add k)) = Some (i, false)
  /\ log (fst (step s (Add k))) = log s
  /\ length (ents (fst (step s (Add k)))) = length (ents s)
  /\ lru_find (lru (fst (step s (Add k)))) k = Some i
  /\ (forall k' j, In (k', j) (lru (fst (step s (Add k)))) <-> In (k', j) (lru s)).
Proof.
  intros I Hf. simpl. rewrite Hf. simpl. unfold acquire, inc, touch. simpl.
  destruct (nth_error (ents s) i) as [e|] eqn:He; simpl.
  - rewrite upd_length, Nat.eqb_refl. repeat split; try reflexivity.
    + intros [E|H]; [inversion E; subst; apply find_in; exact Hf|apply del_in in H; tauto].
    + intros H. destruct (Nat.eq_dec k' k) as [->|N]; [|right; apply del_in; tauto].
      left. apply (in_find _ _ _ (inv_nodup _ I)) in H. congruence.
  - exfalso. apply find_in in Hf. destruct (inv_lru _ I _ _ Hf) as (e & He' & _). congruence.
Qed.

(* ---------- capacity bound (LRUCache never holds more than MaxEntries values) ---------- *)
Definition capinv (s : st) : Prop :=
  ((0 < cap s)%Z -> (Z.of_nat (length (lru s)) <= cap s)%Z) /\ ((cap s < 0)%Z -> lru s = []).

Lemma del_length_le l k : length (lru_del l k) <= length l.
Proof. induction l as [|[k' i] l IH]; simpl; [lia|]. destruct (k' =? k); simpl; lia. Qed.

Lemma del_notin_id l k : ~ In k (map fst l) -> lru_del l k = l.
Proof.
  induction l as [|[k' j] l IH]; simpl; intros Hn; [reflexivity|].
  destruct (Nat.eqb_spec k' k) as [->|Hne]; [exfalso; apply Hn; auto|].
  f_equal. apply IH. intros H. apply Hn. auto.
Qed.

Lemma del_length_found l k i : NoDup (map fst l) -> lru_find l k = Some i -> S (length (lru_del l k)) = length l.
Proof.
  induction l as [|[k' j] l IH]; simpl; intros ND H; [discriminate|].
  inversion ND as [|? ? Hn ND']; subst.
  destruct (Nat.eqb_spec k' k) as [->|Hne].
  - rewrite (del_notin_id _ _ Hn). reflexivity.
  - simpl. f_equal. apply IH; assumption.
Qed.

Lemma dec_shape s i : cap (dec s i) = cap s /\ lru (dec s i) = lru s.
Proof. unfold dec. destruct (nth_error (ents s) i); [|auto]. destruct (_ <=? 0)%Z; auto. Qed.
Lemma finalize_shape s i : cap (finalize s i) = cap s /\ lru (finalize s i) = lru s.
Proof.
  unfold finalize. destruct (nth_error (ents s) i) as [e|]; [|auto]. destruct (e_fin e); [auto|].
  match goal with |- context [dec ?s' i] => destruct (dec_shape s' i) as [-> ->] end. auto.
Qed.
Lemma acquire_shape s i : cap (acquire s i) = cap s /\ lru (acquire s i) = lru s.
Proof. unfold acquire, inc. destruct (nth_error (ents s) i); auto. Qed.

Lemma evict_key_shape s k : cap (evict_key s k) = cap s /\ length (lru (evict_key s k)) <= length (lru s).
Proof.
  unfold evict_key. destruct (lru_find (lru s) k); [|auto].
  match goal with |- context [finalize ?s' ?i] => destruct (finalize_shape s' i) as [-> ->] end.
  simpl. split; [reflexivity|apply del_length_le].
Qed.

Lemma last_some_in {A} (l : list A) x : last (map Some l) None = Some x -> In x l.
Proof.
  induction l as [|a l IH]; simpl; [discriminate|].
  destruct l as [|b l']; simpl in *; [intros H; inversion H; auto|intros H; right; apply IH; exact H].
Qed.

Lemma last_some_none {A} (l : list A) : last (map Some l) (@None A) = None -> l = [].
Proof.
  induction l as [|a l IH]; simpl; [reflexivity|].
  destruct l as [|b l']; simpl in *; [discriminate|]. intros H. specialize (IH H). discriminate.
Qed.

Lemma trim_cap s : Inv s -> (Z.of_nat (length (lru s)) <= Z.succ (Z.max (cap s) 0))%Z ->
  cap (trim s) = cap s /\ capinv (trim s).
Proof.
  intros I Hlen. unfold trim, capinv.
  destruct (Z.eqb_spec (cap s) 0) as [Hz|Hz]; simpl; [split; [reflexivity|split; intros; lia]|].
  destruct (Z.ltb_spec (cap s) (Z.of_nat (length (lru s)))) as [Hlt|Hge].
  2:{ split; [reflexivity|]. split; [intros _; lia|]. intros Hneg. destruct (lru s); [reflexivity|simpl in Hge; lia]. }
  destruct (last (map Some (lru s)) None) as [[k i]|] eqn:Hl.
  2:{ apply last_some_none in Hl. split; [reflexivity|]. rewrite Hl. simpl. split; [intros; lia|reflexivity]. }
  apply last_some_in in Hl.
  pose proof (in_find _ _ _ (inv_nodup _ I) Hl) as Hf.
  unfold evict_key. rewrite Hf.
  match goal with |- context [finalize ?s' ?j] => destruct (finalize_shape s' j) as [-> ->] end. simpl.
  pose proof (del_length_found _ _ _ (inv_nodup _ I) Hf) as Hd.
  split; [reflexivity|]. split.
  - intros Hpos. lia.
  - intros Hneg. destruct (lru_del (lru s) k) eqn:E; [reflexivity|]. simpl in Hd. rewrite Z.max_r in Hlen by lia. lia.
Qed.

Lemma touch_length s k i : Inv s -> lru_find (lru s) k = Some i -> length (lru (touch s k i)) = length (lru s).
Proof. intros I Hf. simpl. apply (del_length_found _ _ _ (inv_nodup _ I) Hf). Qed.

Lemma rel_evict_shape s i : cap (rel_evict s i) = cap s /\ length (lru (rel_evict s i)) <= length (lru s).
Proof.
  unfold rel_evict. destruct (finalize_shape s i) as [Hc Hl].
  destruct (nth_error (ents (finalize s i)) i) as [e|]; [|rewrite Hc, Hl; auto].
  destruct (lru_find (lru (finalize s i)) (e_key e)) as [j|]; [|rewrite Hc, Hl; auto].
  destruct (j =? i); simpl; rewrite ?Hc, ?Hl; split; auto. apply del_length_le.
Qed.

Lemma trim_cap0 s : cap s = 0%Z -> trim s = s.
Proof. intros H. unfold trim. rewrite H. reflexivity. Qed.

Lemma capinv_shrink s s' : cap s' = cap s -> length (lru s') <= length (lru s) -> capinv s -> capinv s'.
Proof.
  intros Hc Hl [C1 C2]. unfold capinv. rewrite Hc. split.
  - intros Hp. specialize (C1 Hp). lia.
  - intros Hn. specialize (C2 Hn). rewrite C2 in Hl. simpl in Hl. destruct (lru s'); [reflexivity|simpl in Hl; lia].
Qed.

Lemma step_add_hit s k i : lru_find (lru s) k = Some i -> step s (Add k) = (acquire (touch s k i) i, Some (i, false)).
Proof. intros H. simpl. rewrite H. reflexivity. Qed.
Lemma step_get_hit s k i : lru_find (lru s) k = Some i -> step s (Get k) = (acquire (touch s k i) i, Some (i, true)).
Proof. intros H. simpl. rewrite H. reflexivity. Qed.
Lemma step_get_miss s k : lru_find (lru s) k = None -> step s (Get k) = (s, None).
Proof. intros H. simpl. rewrite H. reflexivity. Qed.

Theorem step_capinv s o : Inv s -> capinv s -> cap (fst (step s o)) = cap s /\ capinv (fst (step s o)).
Proof.
  intros I C.
  destruct o as [k|k|k|k|h ev].
  - destruct (lru_find (lru s) k) as [i|] eqn:Hf.
    + rewrite (step_add_hit _ _ _ Hf). cbn [fst]. destruct (acquire_shape (touch s k i) i) as [Hc Hl].
      split; [rewrite Hc; reflexivity|]. apply (capinv_shrink s); [rewrite Hc; reflexivity| |exact C].
      rewrite Hl. rewrite (touch_length _ _ _ I Hf). lia.
    + rewrite (step_add_new _ _ Hf). cbn [fst].
      assert (Hcap : cap (add_new s k) = cap s) by (unfold add_new, acquire, inc; simpl; destruct (nth_error _ _); reflexivity).
      assert (Hlru : lru (add_new s k) = (k, length (ents s)) :: lru s) by (unfold add_new, acquire, inc; simpl; destruct (nth_error _ _); reflexivity).
      destruct (Z.eq_dec (cap s) 0) as [Hz|Hz].
      * rewrite trim_cap0 by (rewrite Hcap; exact Hz). split; [exact Hcap|]. unfold capinv. rewrite Hcap, Hz. split; intros; lia.
      * destruct (trim_cap (add_new s k) (add_new_inv s k I Hf)) as [Hc' Hi'].
        { rewrite Hlru, Hcap. destruct C as [C1 C2]. cbn [length]. rewrite Nat2Z.inj_succ.
          destruct (Z.lt_trichotomy (cap s) 0) as [Hn|[Hn|Hp]]; [|contradiction|].
          - rewrite (C2 Hn). simpl. lia.
          - specialize (C1 Hp). lia. }
        rewrite Hc', Hcap. split; [reflexivity|exact Hi'].
  - destruct (lru_find (lru s) k) as [i|] eqn:Hf; [rewrite (step_get_hit _ _ _ Hf)|rewrite (step_get_miss _ _ Hf); auto].
    cbn [fst]. destruct (acquire_shape (touch s k i) i) as [Hc Hl].
    split; [rewrite Hc; reflexivity|]. apply (capinv_shrink s); [rewrite Hc; reflexivity| |exact C].
    rewrite Hl. rewrite (touch_length _ _ _ I Hf). lia.
  - simpl. destruct (evict_key_shape s k) as [Hc Hl]. split; [exact Hc|apply (capinv_shrink s); assumption].
  - simpl. destruct (evict_key_shape s k) as [Hc Hl]. split; [exact Hc|apply (capinv_shrink s); assumption].
  - simpl. destruct (nth_error (hs s) h) as [[i fired]|]; simpl; [|auto].
    set (s1 := if fired then s else dec (set_hs s (upd (hs s) h (i, true))) i).
    assert (H1 : cap s1 = cap s /\ lru s1 = lru s).
    { unfold s1. destruct fired; [auto|]. match goal with |- context [dec ?s' i] => destruct (dec_shape s' i) as [-> ->] end. auto. }
    destruct H1 as [Hc1 Hl1].
    destruct ev.
    + change (cap (rel_evict s1 i) = cap s /\ capinv (rel_evict s1 i)).
      destruct (rel_evict_shape s1 i) as [Hc Hl]. split; [rewrite Hc; exact Hc1|].
      apply (capinv_shrink s); [rewrite Hc; exact Hc1|rewrite <- Hl1; exact Hl|exact C].
    + split; [exact Hc1|]. apply (capinv_shrink s); [exact Hc1|rewrite Hl1; lia|exact C].
Qed.

Theorem reach_capinv c os : cap (exec (initZ c) os) = c /\ capinv (exec (initZ c) os).
Proof.
  assert (G : forall os s, Inv s -> capinv s -> cap (exec s os) = cap s /\ capinv (exec s os)).
  { unfold exec. induction os0 as [|o os0 IH]; simpl; intros s I C; [auto|].
    destruct (step_capinv s o I C) as [Hc Hi]. destruct (IH _ (step_inv s o I) Hi) as [Hc' Hi']. rewrite Hc', Hc. auto. }
  apply G; [apply Inv_initZ|]. unfold capinv. simpl. split; [intros Hp; lia|intros _; reflexivity].
Qed.
