(* Proofs about Model/StoreRef.v: the LayerManager never gives back a handle it keeps, so every layer it holds is open. *)
From Coq Require Import List Arith ZArith Bool Lia.
From SV Require Import Model.Store Proofs.Store Model.StoreRef.
Import ListNotations.

(* ---------- object table ---------- *)
Lemma nth_upd_same : forall os i f o, nth_error os i = Some o -> nth_error (upd_obj os i f) i = Some (f o).
Proof.
  induction os as [|a os IH]; intros [|i] f o H; simpl in *; try discriminate.
  - inversion H; subst. reflexivity.
  - apply IH. exact H.
Qed.

Lemma nth_upd_other : forall os i j f, i <> j -> nth_error (upd_obj os i f) j = nth_error os j.
Proof.
  induction os as [|a os IH]; intros [|i] [|j] f N; simpl; auto; try congruence.
Qed.

Lemma nth_upd_none : forall os i f, nth_error os i = None -> upd_obj os i f = os.
Proof.
  induction os as [|a os IH]; intros [|i] f H; simpl in *; auto; try discriminate. rewrite IH; auto.
Qed.

Lemma find_in_spec : forall os r l k i, find_in os r l k = Some i ->
  k <= i /\ exists o, nth_error os (i - k) = Some o /\ ob_in o = true /\ ob_r o = r /\ ob_l o = l.
Proof.
  induction os as [|a os IH]; intros r l k i H; simpl in H; [discriminate|].
  destruct (ob_in a && key2 r l (ob_r a) (ob_l a)) eqn:E.
  - inversion H; subst. split; [lia|]. rewrite Nat.sub_diag. exists a. simpl.
    apply andb_true_iff in E. destruct E as [E1 E2]. apply key2_true in E2. tauto.
  - apply IH in H. destruct H as [Hk [o Ho]]. split; [lia|].
    replace (i - k) with (S (i - S k)) by lia. simpl. exists o. exact Ho.
Qed.

(* the per-object facts: an object in the cache is open; handle counts are never negative *)
Definition okobj (o : obj) : Prop := (ob_in o = true -> ob_closed o = false) /\ (0 <= ob_refs o)%Z.

Lemma Forall_upd : forall (P : obj -> Prop) os i f,
  Forall P os -> (forall o, nth_error os i = Some o -> P o -> P (f o)) -> Forall P (upd_obj os i f).
Proof.
  intros P. induction os as [|a os IH]; intros i f F H; [destruct i; simpl; constructor|].
  inversion F; subst. destruct i as [|i]; simpl; constructor; auto.
Qed.

Lemma Forall_nth : forall (P : obj -> Prop) os i o, Forall P os -> nth_error os i = Some o -> P o.
Proof. intros P os i o F H. rewrite Forall_forall in F. apply F. eapply nth_error_In; eauto. Qed.

(* [ext os os']: os' has every object of os at the same index, with the same identity and state and at least as many handles *)
Definition ext (os os' : list obj) : Prop :=
  forall j o, nth_error os j = Some o ->
    exists o', nth_error os' j = Some o' /\ ob_r o' = ob_r o /\ ob_l o' = ob_l o /\ ob_closed o' = ob_closed o
               /\ (ob_refs o <= ob_refs o')%Z.

Lemma ext_refl : forall os, ext os os.
Proof. intros os j o H. exists o. repeat split; auto. lia. Qed.

(* acquire *)
Lemma acquire_spec : forall os r l os1 i, Forall okobj os -> acquire os r l = (os1, i) ->
  ext os os1 /\ Forall okobj os1
  /\ (exists o, nth_error os1 i = Some o /\ ob_r o = r /\ ob_l o = l /\ ob_in o = true /\ ob_closed o = false /\ (1 <= ob_refs o)%Z)
  /\ (forall o, nth_error os i = Some o -> ob_r o = r /\ ob_l o = l)
  /\ (forall j, j <> i -> nth_error os1 j = nth_error os j)
  /\ (forall o o1, nth_error os i = Some o -> nth_error os1 i = Some o1 -> ob_refs o1 = (ob_refs o + 1)%Z /\ ob_in o = true).
Proof.
  intros os r l os1 i F A. unfold acquire in A.
  destruct (find_in os r l 0) as [k|] eqn:E.
  - inversion A; subst; clear A. apply find_in_spec in E. destruct E as [_ [o [Ho [Hin [Hr Hl]]]]].
    rewrite Nat.sub_0_r in Ho. pose proof (Forall_nth _ _ _ _ F Ho) as [OK1 OK2].
    split; [|split; [|split; [|split; [|split]]]].
    + intros j o0 Hj. destruct (Nat.eq_dec i j) as [->|N].
      * rewrite Ho in Hj. inversion Hj; subst. eexists. split; [apply nth_upd_same; eauto|]. simpl. repeat split; auto. lia.
      * exists o0. rewrite nth_upd_other by auto. repeat split; auto. lia.
    + apply Forall_upd; auto. intros o0 H0 [P1 P2]. split; simpl; auto. lia.
    + eexists. split; [apply nth_upd_same; eauto|]. simpl. repeat split; auto. lia.
    + intros o0 H0. rewrite Ho in H0. inversion H0; subst. auto.
    + intros j N. apply nth_upd_other. auto.
    + intros o0 o1 H0 H1. rewrite Ho in H0. inversion H0; subst.
      rewrite (nth_upd_same _ _ _ _ Ho) in H1. inversion H1; subst. simpl. auto.
  - inversion A; subst; clear A.
    split; [|split; [|split; [|split; [|split]]]].
    + intros j o Hj. exists o. rewrite nth_error_app1 by (apply nth_error_Some; congruence). repeat split; auto. lia.
    + apply Forall_app. split; auto. constructor; auto. split; simpl; auto. lia.
    + eexists. split; [rewrite nth_error_app2 by lia; rewrite Nat.sub_diag; reflexivity|]. simpl. repeat split; auto. lia.
    + intros o H0. assert (nth_error os (length os) = None) by (apply nth_error_None; lia). congruence.
    + intros j N. destruct (Nat.lt_ge_cases j (length os)).
      * apply nth_error_app1. auto.
      * rewrite (proj2 (nth_error_None os j)) by lia. apply nth_error_None. rewrite app_length. simpl. lia.
    + intros o o1 H0. assert (nth_error os (length os) = None) by (apply nth_error_None; lia). congruence.
Qed.

(* done1 on an object with an outstanding handle *)
Lemma done1_ok : forall os i o, Forall okobj os -> nth_error os i = Some o -> (1 <= ob_refs o)%Z -> Forall okobj (done1 os i).
Proof.
  intros os i o F H R. unfold done1. apply Forall_upd; auto.
  intros o0 H0 [P1 P2]. rewrite H in H0. inversion H0; subst. split; simpl.
  - intros Hin. rewrite Hin. simpl. rewrite andb_false_r, orb_false_r. auto.
  - lia.
Qed.

Lemma fold_done_other : forall js os i, ~ In i js -> nth_error (fold_left done1 js os) i = nth_error os i.
Proof.
  induction js as [|j js IH]; intros os i N; simpl; auto.
  rewrite IH by (intros H; apply N; right; auto).
  unfold done1. apply nth_upd_other. intros ->. apply N. left. auto.
Qed.

Lemma fold_done_ok : forall js os, NoDup js ->
  (forall j, In j js -> exists o, nth_error os j = Some o /\ (1 <= ob_refs o)%Z) ->
  Forall okobj os -> Forall okobj (fold_left done1 js os).
Proof.
  induction js as [|j js IH]; intros os ND H F; simpl; auto.
  inversion ND; subst. destruct (H j (or_introl eq_refl)) as [o [Ho Hr]].
  apply IH; auto.
  - intros k Hk. destruct (H k (or_intror Hk)) as [ok [Hok Hrk]]. exists ok. split; auto.
    unfold done1. rewrite nth_upd_other; auto. intros ->. contradiction.
  - eapply done1_ok; eauto.
Qed.

(* ---------- the invariant ---------- *)
Definition rinv (w : world) (s : rst) : Prop :=
  (forall r t i, In (r, t, i) (held s) ->
     exists o, nth_error (objs s) i = Some o /\ ob_r o = r /\ toc_of w (ob_l o) = Some t
               /\ ob_closed o = false /\ (1 <= ob_refs o)%Z)
  /\ NoDup (map snd (held s))
  /\ (forall r t i, In (r, t, i) (held s) -> cached (base s) r t = true)
  /\ (forall r t, cached (base s) r t = true -> exists i, In (r, t, i) (held s))
  /\ Forall okobj (objs s).

Lemma rinv_init : forall w, rinv w rinit.
Proof.
  intros w. unfold rinv, rinit; cbn [held objs base].
  split; [intros r t i []|]. split; [constructor|]. split; [intros r t i []|].
  split; [|constructor]. intros r t H. unfold cached in H. simpl in H. discriminate.
Qed.

(* held handles survive an extension of the object table *)
Lemma held_ext : forall w hs os os',
  (forall r t i, In (r, t, i) hs -> exists o, nth_error os i = Some o /\ ob_r o = r /\ toc_of w (ob_l o) = Some t
                                              /\ ob_closed o = false /\ (1 <= ob_refs o)%Z) ->
  ext os os' ->
  (forall r t i, In (r, t, i) hs -> exists o, nth_error os' i = Some o /\ ob_r o = r /\ toc_of w (ob_l o) = Some t
                                               /\ ob_closed o = false /\ (1 <= ob_refs o)%Z).
Proof.
  intros w hs os os' H E r t i Hin. destruct (H r t i Hin) as [o [Ho [Hr [Ht [Hc Hf]]]]].
  destruct (E i o Ho) as [o' [Ho' [E1 [E2 [E3 E4]]]]]. exists o'. rewrite E1, E2, E3. repeat split; auto. lia.
Qed.

Lemma resolve1_memo_hit : forall w b r l f x, memo_find (memo b) r l = Some x -> resolve1 w b r l f = b.
Proof. intros. unfold resolve1. rewrite H. reflexivity. Qed.

Lemma rresolve1_base : forall w s r l f, base (rresolve1 DupFresh w s r l f) = resolve1 w (base s) r l f.
Proof.
  intros w s r l f. unfold rresolve1.
  destruct (memo_find (memo (base s)) r l) eqn:M; [symmetry; eapply resolve1_memo_hit; eauto|].
  destruct (toc_of w l) as [t|]; [|reflexivity].
  destruct (in_rcache (base s) r l || negb f); [|reflexivity].
  destruct (acquire (objs s) r l) as [os1 i]. destruct (cached (base s) r t); reflexivity.
Qed.

(* what resolve1 does to cached-ness *)
Lemma resolve1_cached_cases : forall w b r l f r' t',
  cached (resolve1 w b r l f) r' t' = true ->
  cached b r' t' = true \/ (r' = r /\ toc_of w l = Some t').
Proof.
  intros w b r l f r' t' C. pose proof (resolve1_spec w b r l f) as SP. cbv zeta in SP.
  destruct (memo_find (memo b) r l); [rewrite SP in C; auto|].
  destruct (toc_of w l) as [t|] eqn:T.
  - destruct (in_rcache b r l || negb f).
    + destruct SP as (_ & _ & HL). apply cached_iff in C. destruct C as [l0 Hl0]. apply HL in Hl0.
      destruct Hl0 as [H|H]; [left; apply cached_iff; eauto|]. inversion H; subst. right. auto.
    + destruct SP as (_ & HL). left. unfold cached in *. rewrite HL in C. auto.
  - destruct SP as (_ & HL). left. unfold cached in *. rewrite HL in C. auto.
Qed.

Lemma rresolve1_inv : forall w s r l f, rinv w s -> rinv w (rresolve1 DupFresh w s r l f).
Proof.
  intros w s r l f (H1 & H2 & H3 & H4 & H5).
  pose proof (rresolve1_base w s r l f) as RB.
  assert (MONO : forall r' t', cached (base s) r' t' = true -> cached (resolve1 w (base s) r l f) r' t' = true)
    by (intros; apply resolve1_cached_mono; auto).
  unfold rresolve1 in *.
  destruct (memo_find (memo (base s)) r l) eqn:M; [exact (conj H1 (conj H2 (conj H3 (conj H4 H5))))|].
  pose proof (resolve1_spec w (base s) r l f) as SP. cbv zeta in SP. rewrite M in SP.
  destruct (toc_of w l) as [t|] eqn:T.
  2:{ (* not an eStargz layer: nothing cached *)
      destruct SP as (_ & HL). split; [exact H1|]. split; [exact H2|]. cbn [base held objs].
      split; [intros; apply MONO; eauto|]. split; [|exact H5].
      intros r' t' C. apply H4. unfold cached in *. rewrite HL in C. exact C. }
  destruct (in_rcache (base s) r l || negb f) eqn:G.
  2:{ destruct SP as (_ & HL). split; [exact H1|]. split; [exact H2|]. cbn [base held objs].
      split; [intros; apply MONO; eauto|]. split; [|exact H5].
      intros r' t' C. apply H4. unfold cached in *. rewrite HL in C. exact C. }
  destruct SP as (_ & CT & HL).
  destruct (acquire (objs s) r l) as [os1 i] eqn:A.
  destruct (acquire_spec _ _ _ _ _ H5 A) as (EXT & OK1 & (oi & Hoi & Hr & Hl & Hin & Hcl & Hrf) & OLD & OTHER & HIT).
  assert (CASES : forall r' t', cached (resolve1 w (base s) r l f) r' t' = true ->
                                cached (base s) r' t' = true \/ (r' = r /\ t' = t)).
  { intros r' t' C. apply resolve1_cached_cases in C. destruct C as [C|[-> C]]; auto. right. split; auto. congruence. }
  destruct (cached (base s) r t) eqn:CB; cbn [base held objs].
  - (* duplicate path: the fresh handle is given back *)
    assert (EXT2 : ext (objs s) (done1 os1 i)).
    { intros j o Hj. destruct (Nat.eq_dec i j) as [<-|N].
      - destruct (HIT o oi Hj Hoi) as [Hrefs Hino].
        exists (mkObj (ob_r oi) (ob_l oi) (ob_refs oi - 1) (ob_in oi)
                      (ob_closed oi || ((ob_refs oi - 1 <=? 0)%Z && negb (ob_in oi)))).
        split; [unfold done1; rewrite (nth_upd_same _ _ _ _ Hoi); reflexivity|]. simpl.
        destruct (OLD o Hj) as [Or Ol]. rewrite Hin. simpl. rewrite andb_false_r, orb_false_r.
        pose proof (Forall_nth _ _ _ _ H5 Hj) as [OKo _].
        repeat split; try congruence.
        + rewrite Hcl. symmetry. apply OKo. exact Hino.
        + lia.
      - destruct (EXT j o Hj) as [o' [Ho' R]]. exists o'. split; auto.
        unfold done1. rewrite nth_upd_other; auto. }
    split; [eapply held_ext; eauto|]. split; [exact H2|].
    split; [intros; apply MONO; eauto|].
    split; [|eapply done1_ok; eauto].
    intros r' t' C. destruct (CASES r' t' C) as [C'|[-> ->]]; auto.
  - (* the handle is kept *)
    split; [|split; [|split; [|split]]].
    + intros r' t' i' [E|Hin']. 
      * injection E as <- <- <-. exists oi. rewrite Hl. repeat split; auto.
      * eapply held_ext; eauto.
    + cbn [map snd]. constructor; auto. intros Hmem. apply in_map_iff in Hmem.
      destruct Hmem as [[[r' t'] i'] [E Hin']]. cbn [snd] in E. subst i'.
      destruct (H1 r' t' i Hin') as [o [Ho [Hor [Hot _]]]].
      destruct (OLD o Ho) as [Or Ol]. subst r'. rewrite Ol, T in Hot. inversion Hot; subst t'.
      pose proof (H3 _ _ _ Hin'). congruence.
    + intros r' t' i' [E|Hin']; [injection E as <- <- <-; exact CT|apply MONO; eauto].
    + intros r' t' C. destruct (CASES r' t' C) as [C'|[-> ->]].
      * destruct (H4 _ _ C') as [i' Hi']. exists i'. right. auto.
      * exists i. left. auto.
    + exact OK1.
Qed.

Lemma rfold_inv : forall w r fl ls s, rinv w s -> rinv w (rfold DupFresh w r fl ls s).
Proof.
  intros w r fl. induction ls as [|a ls IH]; intros s I; simpl; auto. apply IH. apply rresolve1_inv. auto.
Qed.

Lemma rfold_base : forall w r fl ls s, base (rfold DupFresh w r fl ls s) = fold_resolve w r fl ls (base s).
Proof.
  intros w r fl. induction ls as [|a ls IH]; intros s; simpl; auto. rewrite IH, rresolve1_base. reflexivity.
Qed.

Lemma rinv_same_layers : forall w s b', layers b' = layers (base s) -> rinv w s -> rinv w (mkR b' (objs s) (held s)).
Proof.
  intros w s b' L (H1 & H2 & H3 & H4 & H5).
  assert (C : forall r t, cached b' r t = cached (base s) r t) by (intros; unfold cached; rewrite L; auto).
  split; [exact H1|]. split; [exact H2|]. cbn [base held objs].
  split; [intros; rewrite C; eauto|]. split; [intros r t Hc; rewrite C in Hc; eauto|exact H5].
Qed.

Lemma NoDup_map_filter : forall {A B} (f : A -> B) (p : A -> bool) (l : list A),
  NoDup (map f l) -> NoDup (map f (filter p l)).
Proof.
  intros A B f p. induction l as [|a l IH]; intros ND; simpl; auto.
  inversion ND; subst. destruct (p a); simpl; auto. constructor; auto.
  intros H. apply H1. apply in_map_iff in H. destruct H as [x [E Hx]]. apply filter_In in Hx.
  apply in_map_iff. exists x. tauto.
Qed.

Lemma rrelease_inv : forall w s r t, rinv w s -> rinv w (rrelease s r t).
Proof.
  intros w s r t (H1 & H2 & H3 & H4 & H5). unfold rrelease.
  set (b' := fst (release_fixed (base s) r t)).
  destruct (release_fixed_shape (base s) r t) as (SUB & _). fold b' in SUB.
  set (gone := filter (fun e => negb (still b' e)) (held s)).
  assert (DISJ : forall e, In e (filter (still b') (held s)) -> ~ In (snd e) (map snd gone)).
  { intros e He Hg. apply filter_In in He. destruct He as [He Hs].
    apply in_map_iff in Hg. destruct Hg as [e' [E He']]. apply filter_In in He'. destruct He' as [He' Hs'].
    assert (e = e').
    { clear - H2 He He' E. induction (held s) as [|a l IH]; [contradiction|].
      simpl in H2. inversion H2; subst. destruct He as [->|He]; destruct He' as [->|He']; auto.
      - exfalso. apply H1. rewrite <- E. apply in_map. auto.
      - exfalso. apply H1. rewrite E. apply in_map. auto. }
    subst e'. rewrite Hs in Hs'. discriminate. }
  split; [|split; [|split; [|split]]]; cbn [base held objs].
  - intros r0 t0 i Hin. rewrite fold_done_other by (apply (DISJ (r0, t0, i)); exact Hin).
    apply filter_In in Hin. destruct Hin as [Hin _]. eauto.
  - apply NoDup_map_filter. exact H2.
  - intros r0 t0 i Hin. apply filter_In in Hin. destruct Hin as [_ Hs]. exact Hs.
  - intros r0 t0 C. assert (C0 : cached (base s) r0 t0 = true).
    { apply cached_iff in C. destruct C as [l Hl]. apply cached_iff. exists l. apply SUB. exact Hl. }
    destruct (H4 _ _ C0) as [i Hi]. exists i. apply filter_In. split; auto.
  - apply fold_done_ok; auto.
    + apply NoDup_map_filter. exact H2.
    + intros j Hj. apply in_map_iff in Hj. destruct Hj as [[[r0 t0] i] [E Hin]]. cbn [snd] in E. subst i.
      apply filter_In in Hin. destruct Hin as [Hin _]. destruct (H1 _ _ _ Hin) as [o [Ho [_ [_ [_ Hr]]]]]. eauto.
Qed.

Lemma expire_nth : forall os r l i, nth_error (expire_objs os r l) i =
  match nth_error os i with
  | Some o => Some (if ob_in o && key2 r l (ob_r o) (ob_l o)
                    then mkObj (ob_r o) (ob_l o) (ob_refs o) false (ob_closed o || (ob_refs o <=? 0)%Z) else o)
  | None => None
  end.
Proof. intros. unfold expire_objs. rewrite nth_error_map. destruct (nth_error os i); reflexivity. Qed.

Lemma step_layers_same : forall w b o,
  match o with Info _ _ _ | Use _ _ | LoadRef _ _ | Probe _ _ | Expire _ _ => True | _ => False end ->
  layers (fst (step Fixed w b o)) = layers b.
Proof.
  intros w b o H. destruct o; try contradiction; simpl.
  - unfold get_info. destruct (loadref w b r mf) as [b1|] eqn:L; simpl; auto.
    destruct (loadref_same _ _ _ _ _ L) as (L1 & _).
    destruct (layer_find (layers b1) r t); simpl; auto. destruct (last_index_from (image w r) n 0 None); simpl; auto.
  - unfold use. assert (L : layers (pool_use b r) = layers b) by (unfold pool_use; destruct (pool_find (pool b) r); auto).
    destruct (count_find (counts (pool_use b r)) r t); simpl; auto.
  - destruct (loadref w b r mf) as [b1|] eqn:L; simpl; auto. destruct (loadref_same _ _ _ _ _ L) as (L1 & _). auto.
  - reflexivity.
  - reflexivity.
Qed.

Lemma rstep_inv : forall w s o, rinv w s -> rinv w (rstep DupFresh w s o).
Proof.
  intros w s o I. destruct o; cbn [rstep].
  - unfold rget_layer. destruct (cached (base s) r t); auto.
    destruct (loadref w (base s) r mf) as [b1|] eqn:L; auto.
    apply rfold_inv. apply rinv_same_layers; auto. destruct (loadref_same _ _ _ _ _ L) as (L1 & _). auto.
  - apply rinv_same_layers; [apply step_layers_same; exact Logic.I|exact I].
  - apply rinv_same_layers; [apply step_layers_same; exact Logic.I|exact I].
  - apply rrelease_inv. auto.
  - apply rinv_same_layers; [apply step_layers_same; exact Logic.I|exact I].
  - destruct (mem l (image w r)); auto. apply rresolve1_inv. auto.
  - apply rinv_same_layers; [apply step_layers_same; exact Logic.I|exact I].
  - (* Expire *)
    destruct I as (H1 & H2 & H3 & H4 & H5).
    assert (L : layers (fst (step Fixed w (base s) (Expire r l))) = layers (base s)) by reflexivity.
    assert (C : forall r0 t0, cached (fst (step Fixed w (base s) (Expire r l))) r0 t0 = cached (base s) r0 t0)
      by (intros; unfold cached; rewrite L; auto).
    split; [|split; [|split; [|split]]]; cbn [base held objs].
    + intros r0 t0 i Hin. destruct (H1 _ _ _ Hin) as [o [Ho [Hr [Ht [Hc Hf]]]]].
      rewrite expire_nth, Ho. eexists. split; [reflexivity|].
      destruct (ob_in o && key2 r l (ob_r o) (ob_l o)); simpl; repeat split; auto.
      rewrite Hc. simpl. apply Z.leb_gt. lia.
    + exact H2.
    + intros. rewrite C. eauto.
    + intros r0 t0 Hc. rewrite C in Hc. eauto.
    + unfold expire_objs. rewrite Forall_forall in *. intros o Ho. apply in_map_iff in Ho. destruct Ho as [o0 [E Ho0]].
      destruct (H5 _ Ho0) as [P1 P2]. destruct (ob_in o0 && key2 r l (ob_r o0) (ob_l o0)); subst o; split; simpl; auto.
      discriminate.
Qed.

Lemma rexec_inv : forall w os s, rinv w s -> rinv w (rexec DupFresh w s os).
Proof.
  intros w. induction os as [|o os IH]; intros s I; simpl; auto. apply IH. apply rstep_inv. auto.
Qed.

Lemma rreach_inv : forall w os, rinv w (rexec DupFresh w rinit os).
Proof. intros. apply rexec_inv. apply rinv_init. Qed.

(* ---------- the handle model is the manager model ---------- *)
Lemma rstep_base : forall w s o, base (rstep DupFresh w s o) = fst (step Fixed w (base s) o).
Proof.
  intros w s o. destruct o; cbn [rstep base]; try reflexivity.
  - unfold rget_layer, step, get_layer. destruct (cached (base s) r t); [reflexivity|].
    destruct (loadref w (base s) r mf) as [b1|]; [|reflexivity].
    cbn [fst]. rewrite rfold_base. reflexivity.
  - cbn [step]. destruct (mem l (image w r)); [apply rresolve1_base|reflexivity].
Qed.

Lemma rexec_base : forall w os s, base (rexec DupFresh w s os) = exec Fixed w (base s) os.
Proof.
  intros w. induction os as [|o os IH]; intros s; simpl; auto. rewrite IH, rstep_base. reflexivity.
Qed.

(* ---------- the clause ---------- *)
Lemma held_layers_open : forall w os r t,
  let s := rexec DupFresh w rinit os in
  cached (base s) r t = true ->
  exists i o, In (r, t, i) (held s) /\ nth_error (objs s) i = Some o /\ ob_closed o = false /\ (1 <= ob_refs o)%Z.
Proof.
  intros w os r t s C. destruct (rreach_inv w os) as (H1 & _ & _ & H4 & _). fold s in H1, H4.
  destruct (H4 _ _ C) as [i Hi]. destruct (H1 _ _ _ Hi) as [o [Ho [_ [_ [Hc Hr]]]]]. exists i, o. auto.
Qed.

Lemma closed_held_nil : forall w os, closed_held (rexec DupFresh w rinit os) = [].
Proof.
  intros w os. destruct (rreach_inv w os) as (H1 & _). unfold closed_held.
  set (s := rexec DupFresh w rinit os) in *.
  assert (E : filter (fun e => match nth_error (objs s) (snd e) with Some o => ob_closed o | None => true end) (held s) = []).
  { induction (held s) as [|[[r t] i] hs IH]; auto. simpl.
    destruct (H1 r t i (or_introl eq_refl)) as [o [Ho [_ [_ [Hc _]]]]]. rewrite Ho, Hc.
    apply IH. intros. apply H1. right. auto. }
  rewrite E. reflexivity.
Qed.
