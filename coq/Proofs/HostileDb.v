(* C04 — the db metadata store model (Model/HostileDb.v): initNodes terminates without panic on every TOC; the walk over
   the child graph it leaves terminates. *)
From Coq Require Import List Arith Bool Lia.
From SV Require Import Model.Footer Model.HostileTree Model.HostileDb Proofs.Footer Proofs.HostileTree.
Import ListNotations.

Lemma db_get_id_ok : forall fuel s nm, length nm <= fuel -> exists r, db_get_id fuel s nm = Ok r.
Proof.
  induction fuel as [|f IH]; intros s nm H.
  - destruct nm; [simpl; eauto|simpl in H; lia].
  - destruct nm as [|x nm']; [simpl; eauto|].
    assert (Hl : length (removelast (x :: nm')) <= f).
    { rewrite (removelast_length _ 0) by discriminate. simpl in *. lia. }
    destruct (IH s (removelast (x :: nm')) Hl) as [r E].
    change (db_get_id (S f) s (x :: nm')) with
      (match db_get_id f s (removelast (x :: nm')) with
       | Ok (Some pid) => Ok (child_lookup (ch s) pid (last (x :: nm') 0))
       | r => r
       end).
    rewrite E. destruct r as [pid|]; eauto.
Qed.

Lemma db_goc_ok : forall fuel d s, length d < fuel -> exists s' id, db_goc fuel d s = Ok (s', id).
Proof.
  induction fuel as [|f IH]; intros d s H; [lia|].
  destruct (db_get_id_ok (S (length d)) s d) as [r E]; [lia|].
  change (db_goc (S f) d s) with
    (match db_get_id (S (length d)) s d with
     | Ok (Some id) => Ok (s, id)
     | Ok None =>
         let '(s1, id) := new_node s TDir in
         match d with
         | [] => Ok (s1, id)
         | _ => match db_goc f (removelast d) s1 with
                | Ok (s2, pid) => Ok (add_child s2 pid (last d 0) id, id)
                | Err => Err | Panic => Panic | OutOfFuel => OutOfFuel
                end
         end
     | Err => Err | Panic => Panic | OutOfFuel => OutOfFuel
     end).
  rewrite E. destruct r as [id|]; [eauto|].
  unfold new_node.
  destruct d as [|x d']; [eauto|].
  set (s1 := mkSt _ _ _).
  destruct (IH (removelast (x :: d')) s1) as [s2 [pid E2]].
  { rewrite (removelast_length _ 0) by discriminate. simpl in *. lia. }
  rewrite E2. eauto.
Qed.

Lemma db_link_ok fuel s nm id : length nm <= fuel -> exists s', db_link fuel s nm id = Ok s'.
Proof.
  intros H. unfold db_link. destruct nm as [|x nm']; [eauto|].
  destruct (db_goc_ok fuel (removelast (x :: nm')) s) as [s1 [pid E]].
  { rewrite (removelast_length _ 0) by discriminate. simpl in *. lia. }
  rewrite E. eauto.
Qed.

Lemma db_pass_total : forall fuel es seen s,
  Forall (fun e => length (e_name e) <= fuel /\ length (e_link e) <= fuel) es ->
  total (db_pass fuel es seen s).
Proof.
  intros fuel es. induction es as [|e t IH]; intros seen s HF; [simpl; auto with c04|].
  inversion HF as [|? ? [Hn Hl] Ht]; subst.
  simpl. destruct (e_ty e) eqn:Ety.
  - (* dir *)
    destruct (db_get_id_ok fuel s (e_name e) Hn) as [found E]. rewrite E.
    destruct found as [id|].
    + destruct (db_link_ok fuel (make_dir s id) (e_name e) id Hn) as [s1 E1]. rewrite E1. apply IH; assumption.
    + unfold new_node.
      destruct (db_link_ok fuel (mkSt (objs s ++ [mkEntry [length (objs s)] TDir []]) (([length (objs s)], length (objs s)) :: m s) (ch s))
                  (e_name e) (length (objs s)) Hn) as [s1 E1].
      rewrite E1. apply IH; assumption.
  - unfold new_node. destruct (db_link_ok fuel (mkSt (objs s ++ [mkEntry [length (objs s)] TReg []]) (([length (objs s)], length (objs s)) :: m s) (ch s))
                  (e_name e) (length (objs s)) Hn) as [s1 E1].
    rewrite E1. apply IH; assumption.
  - unfold new_node. destruct (db_link_ok fuel (mkSt (objs s ++ [mkEntry [length (objs s)] TSymlink []]) (([length (objs s)], length (objs s)) :: m s) (ch s))
                  (e_name e) (length (objs s)) Hn) as [s1 E1].
    rewrite E1. apply IH; assumption.
  - (* hardlink *)
    destruct (db_get_id_ok fuel s (e_link e) Hl) as [found E]. rewrite E.
    destruct found as [id|]; [|auto with c04].
    destruct (db_link_ok fuel s (e_name e) id Hn) as [s1 E1]. rewrite E1. apply IH; assumption.
  - (* chunk *)
    destruct seen; [apply IH; assumption|auto with c04].
  - unfold new_node. destruct (db_link_ok fuel (mkSt (objs s ++ [mkEntry [length (objs s)] TOther []]) (([length (objs s)], length (objs s)) :: m s) (ch s))
                  (e_name e) (length (objs s)) Hn) as [s1 E1].
    rewrite E1. apply IH; assumption.
Qed.

Lemma max_len_bound es : Forall (fun e => length (e_name e) <= max_len es /\ length (e_link e) <= max_len es) es.
Proof.
  induction es as [|e t IH]; constructor.
  - simpl. lia.
  - simpl. eapply Forall_impl; [|exact IH]. simpl. intros a [H1 H2]. lia.
Qed.

Lemma db_init_total es : total (db_init es).
Proof.
  unfold db_init. apply db_pass_total.
  eapply Forall_impl; [|apply max_len_bound]. simpl. intros a [H1 H2]. lia.
Qed.

Lemma db_run_total es : total (db_run es).
Proof.
  unfold db_run. pose proof (db_init_total es) as [H1 H2].
  destruct (db_init es) as [s| | |]; try congruence; auto with c04.
  pose proof (walk_dirs_total s 0) as [W1 W2].
  destruct (walk_dirs s 0); try congruence; auto with c04.
Qed.

(* memory store: estargz.Open's initFields, root lookup, assignIDs and the walk, end to end *)
Lemma tree_run_total es : total (tree_run es).
Proof.
  unfold tree_run. pose proof (init_fields_total es) as [H1 H2].
  destruct (init_fields es) as [s| | |]; try congruence; auto with c04.
  destruct (m_find (m s) []) as [r0|]; auto with c04.
  destruct (get_source_of s r0) as [root| | |]; auto with c04.
  pose proof (assign_ids_total s root) as [A1 A2].
  destruct (assign_ids s root); try congruence; auto with c04.
  pose proof (walk_dirs_total s root) as [W1 W2].
  destruct (walk_dirs s root); try congruence; auto with c04.
Qed.

(* the TOC as the JSON decoder delivers it (nil TOC, nil entries) *)
Lemma json_run_total d : total (json_run d).
Proof.
  destruct d as [| |es]; simpl; auto with c04.
  destruct (strip_entries es); auto with c04. apply tree_run_total.
Qed.
